#!/bin/bash
# Re-runs every kept seeded change against the check recorded as catching it; each must exit 1.
cd /verif
ok=0; bad=0
for d in seeded/*/; do
  id=$(basename "$d")
  prop=$(python3 -c "import json;print(json.load(open('$d/meta.json'))['caught_by'].split()[0])")
  out=$(tools/seedrun.sh "$prop" "$d/patch.diff" quick ${VERIF_SEED:-1} 2>&1 | tail -1)
  case "$out" in
    exit=1*) ok=$((ok+1)); echo "caught  $id by $prop ($out)";;
    *) bad=$((bad+1)); echo "MISSED  $id by $prop ($out)";;
  esac
done
echo "caught=$ok missed=$bad"
