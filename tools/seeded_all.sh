#!/bin/bash
# Re-runs every kept seeded change against the check recorded as catching it (scratch worktree of
# /repo HEAD + patch; /repo is never touched); each must exit 1. usage: tools/seeded_all.sh [parallelism]
cd /verif
P=${1:-3}
job() {
  d=$1; id=$(basename "$d")
  prop=$(python3 -c "import json;print(json.load(open('$d/meta.json'))['caught_by'].split()[0])")
  out=$(tools/seedrun.sh "$prop" "$d/patch.diff" quick ${VERIF_SEED:-1} 2>&1 | tail -1)
  case "$out" in
    exit=1*) echo "caught  $id by $prop ($out)";;
    *) echo "MISSED  $id by $prop ($out)";;
  esac
}
export -f job
ls -d seeded/*/ | xargs -P "$P" -I{} bash -c 'job {}' | tee .work/seeded_all.log
echo "caught=$(grep -c '^caught' .work/seeded_all.log) missed=$(grep -c '^MISSED' .work/seeded_all.log)"
