#!/usr/bin/env python3
"""keep_round.py <round> <missed-keys...>: stores the confirmed seeded changes of a round from /tmp/seed<r>-CNN/out<r>/K
(+ run logs /tmp/run<r>/CNN-K.log, cross-property logs /tmp/run<r>/CNN-K.by-CMM.log) under /verif/seeded/CNN-r<r>sK.
Keys listed in SKIP (env, space separated) are not stored."""
import os, re, subprocess, sys, glob
ROOT = os.path.dirname(os.path.dirname(os.path.abspath(__file__)))
R = sys.argv[1]
MISSED = set(sys.argv[2:])
SKIP = set(os.environ.get("SKIP", "").split())
def needs_of(readme):
    txt = open(readme).read()
    m = re.search(r"(?im)^(#+\s*|\*\*)?(what it needs[^\n]*|needs to manifest[^\n]*|what is needed[^\n]*)\n(.*?)(\n#+ |\n\*\*[A-Z]|\Z)", txt, re.S)
    body = m.group(3) if m else ""
    if not body.strip():
        m = re.search(r"(?i)what it needs[^:\n]*:\s*(.*?)(\n\n|\Z)", txt, re.S)
        body = m.group(1) if m else ""
    body = re.sub(r"\s+", " ", body).strip()
    return body[:600]
def sig_of(log):
    if not os.path.exists(log):
        return None
    sigs = []
    for line in open(log):
        m = re.match(r"\s+(C\d\d/[^:]+):", line)
        if m and m.group(1) not in sigs:
            sigs.append(m.group(1))
    viol = any(l.startswith("VIOLATION") for l in open(log))
    return sigs if viol else None
for n in range(1, 21):
    for k in (1, 2, 3):
        p = "C%02d" % n
        key = "%s-%d" % (p, k)
        src = "/tmp/seed%s-%s/out%s/%d" % (R, p, R, k)
        if key in SKIP:
            continue
        own = sig_of("/tmp/run%s/%s.log" % (R, key))
        caught = []
        if own:
            caught.append("%s (%s)" % (p, ", ".join(own[:2])))
        for other in sorted(glob.glob("/tmp/run%s/%s.by-*.log" % (R, key))):
            q = re.search(r"by-(C\d\d)", other).group(1)
            s = sig_of(other)
            if s:
                caught.append("%s (%s)" % (q, ", ".join(s[:2])))
        if not caught:
            print("NOT CAUGHT", key); continue
        needs = needs_of(os.path.join(src, "README.md")) or "see README.md"
        first = "missed" if key in MISSED else "caught"
        subprocess.check_call([sys.executable, os.path.join(ROOT, "tools/keep_seed.py"), "%s-r%ss%d" % (p, R, k), p, src, "; ".join(caught), first, needs])
