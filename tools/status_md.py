#!/usr/bin/env python3
"""Prints a markdown table of what each check explored in its latest run (from evidence/*.json)."""
import json, os, glob
ROOT = os.path.dirname(os.path.dirname(os.path.abspath(__file__)))
print("| Prop | tier | sub-checks (cases) | distinct non-trivial | exhaustive sub-spaces | native fuzz | wall s |\n|---|---|---|---|---|---|---|")
for f in sorted(glob.glob(os.path.join(ROOT, "evidence", "C*.json"))):
    e = json.load(open(f)); c = e["coverage"]
    subs = ", ".join("%s (%d)" % (p["check"], p["evaluations"]) for p in c.get("per_check", []))
    fz = ", ".join("%s %s: %d execs" % (x["target"], x["fuzztime"], x["execs"]) for x in c.get("native_fuzz") or []) or "-"
    print("| %s | %s | %s | %d | %s | %s | %.0f |" % (e["property_id"], e["tier"], subs, c["distinct_nontrivial"], ", ".join(c.get("exhaustive_subspaces") or []) or "-", fz, e["wall_s"]))
