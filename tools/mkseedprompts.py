#!/usr/bin/env python3
"""mkseedprompts.py <round> : writes /tmp/seed<round>-prompt-CNN.txt for every property (the text a fresh
seeding sub-agent receives: the property, its own scratch worktree path, and the trigger conditions of the
changes already stored, so that a new round finds different mechanisms). Nothing from /verif's checks is included."""
import json, os, sys, glob, re
ROOT = os.path.dirname(os.path.dirname(os.path.abspath(__file__)))
rnd = sys.argv[1]
base = open("/tmp/seed3-prompt-C01.txt").read() if os.path.exists("/tmp/seed3-prompt-C01.txt") else None
props = [json.loads(l) for l in open(os.path.join(ROOT, "properties.jsonl")) if l.strip()]
EMPH4 = """For this round favour, in this order: (a) ERROR, CLEANUP AND END-OF-SESSION PATHS that run only after something else went wrong or finished (the second failure, a retry, a half-finished exchange followed by a normal one, teardown while something is buffered); (b) effects that ACCUMULATE OVER A LONG HISTORY (a counter, cache, pool, reused buffer or table: the 20th or 300th operation, wrap-around, growth past a default capacity, an entry that expires or is evicted); (c) SHARED STATE between two connections, streams or goroutines where the scope of a lock, the moment of a copy or the order of two updates changed; (d) the EXPORTED API used directly by an embedding program in a way the bundled proxy binary never does (constructors and Set* methods called in another order or after traffic started, zero values, options combined, a modifier/handler/processor reused for several proxies or connections); (e) BOUNDARIES of sizes and counts the code treats specially (exactly a buffer size, one past it, zero, the maximum a field can hold). The change must still be a clear violation of the property as stated - not a matter of interpretation."""
EMPH5 = """For this round favour, in this order: (a) DATA-DEPENDENT behaviour: the change misbehaves only for particular CONTENT - byte values that also mean something to a parser on the path (CR, LF, NUL, 0x16, '%', a line that looks like a chunk size, a header block or a frame header inside a body), values at the edge of a numeric field (lengths, ports, window sizes, status codes, priorities, indices near 2^31 / 2^32 / 2^53 / 2^63, negative or zero), names that differ only in case, whitespace, a trailing dot or Unicode normalisation, empty values and repeated fields; (b) TIME: deadlines, idle timeouts, expiry, validity windows, retries, 'now' read twice, ordering of two timestamps, durations that are zero, negative or very large (use small configured durations so that a demonstration runs in seconds); (c) INTERPLAY with a neighbouring feature that is normally tested separately (logging + shaping + MITM + h2 + filters + downstream proxy + API endpoints together: the change is in the seam between two of them); (d) RESOURCE BOOKKEEPING that only shows after many operations or at teardown (goroutines, file descriptors, connections, map entries, buffers, timers that are never stopped or are stopped twice); (e) an 'obviously safe' CLEAN-UP: removing a seemingly redundant copy, lock, nil check, flush, Close, bounds check or default case. The change must still be a clear violation of the property as stated - not a matter of interpretation, and its trigger must be something a legitimate caller or peer may do (no reconfiguration of a proxy while it serves traffic, no concurrent use of types the unchanged tree does not synchronise).

Also: while reading the code, note anything in the UNCHANGED tree that looks to you like an existing violation of this property (a hang, a leak, a crash, a wrong result for some legal input). List such observations at the end of your final message under 'Observations about the unchanged tree' - unverified is fine, one or two sentences each with the code site; do not spend more than a few minutes on them."""
EMPH6 = """This round has TWO parts.

PART 1 (about a third of your effort): TWO seeded changes (not three) as described below. Favour mechanisms that none of the earlier rounds used: look at the list above and go where it has not been - another file, another feature, another kind of trigger. Legitimate triggers only (no reconfiguration of a proxy while it serves traffic, no concurrent use of types the unchanged tree does not synchronise).

PART 2 (about two thirds of your effort): hunt for EXISTING violations of this property in the UNCHANGED tree. Earlier rounds' side remarks led to two dozen confirmed defects (examples of what was real: a hang when a peer goes away in a particular state; bytes lost or added at a boundary; a legal input answered with an error; a resource never released; state left behind by the previous exchange on the same connection; an option combination nobody tested). Read the code the anchors point to and its callers and helpers with that eye, think about unusual but LEGAL inputs, sequences, timings and option combinations, and TRY your suspicions: for each one write a small Go test (exported API or package-internal, no changes to library code) that FAILS on the unchanged tree because the property is violated, and PASSES if the library behaved as the property says. Deliver each confirmed one as {out}/obs/<n>/ with the *_test.go, the package directory to copy it to, the command, the observed output, and three lines on why it violates the property as stated and what a minimal repair would be (do not implement repairs). Up to five; quality over quantity; a suspicion you could not confirm goes into your final message in two sentences, not into obs/. Behaviour that is merely unspecified, a matter of taste, or net/http's own doing does not count."""
EMPH7 = """For this round (time-boxed: aim to finish within about 50 minutes, TWO changes) imitate the commits that really slip through review: (a) a REFACTORING that is almost behaviour-preserving (a helper extracted and one call site passes the wrong one of two similar values; a loop rewritten with a different termination or index; an early return added before a clean-up; a struct copied where a pointer was shared or the reverse; an error now wrapped, swallowed or returned on a path where it was not); (b) a PERFORMANCE change (a buffer, pool or cached value reused across calls or connections; a lock narrowed; a copy avoided; lazy initialisation; batching of writes or flushes); (c) a FEATURE or DEFAULT change that is right for the case its author had in mind and wrong for a neighbouring one (a new option whose zero value changes existing behaviour; a stricter or laxer validation; a different default size, timeout or limit); (d) a MIGRATION to another standard-library call with subtly different semantics (io.ReadAll vs ReadFull, strings.Cut vs SplitN, net.SplitHostPort vs manual parsing, http.Header.Get vs Values, time.After vs Timer, context cancellation order). Choose code sites and triggers that the list above does not contain; read more of the package than the anchors. Legitimate triggers only (no reconfiguration of a proxy while it serves traffic, no concurrent use of types the unchanged tree does not synchronise). The change must be a clear violation of the property as stated."""
EMPH9 = """For this round (time-boxed: aim to finish within about 50 minutes, TWO changes) go OUTSIDE the anchored functions: break the property through something the anchored code DEPENDS ON or that runs around it - a shared helper package (proxyutil, messageview, parse, filter, verify, martianurl matchers, h2 queued frames / hpack handling, trafficshape buckets and handler, mitm cache and certificate template, log/err helpers, context and session bookkeeping), a constructor or option default, an init-time registration, the order of modifiers in a stack or group that ships with the library (httpspec, cmd/proxy wiring, mobile), a type's zero value or copy semantics, an interface a wrapper forgets to forward (io.ReaderFrom, http.Flusher, CloseWrite, SetDeadline, Unwrap). The edit itself should look unrelated to the property (a tidy-up, a lint fix, a Go-version modernisation such as errors.Is / any / slices / strings.Cut / for-range-int, a dependency-free rewrite of a helper). Choose triggers the list above does not contain. Legitimate triggers only (no reconfiguration of a proxy while it serves traffic, no concurrent use of types the unchanged tree does not synchronise). The change must be a clear violation of the property as stated."""
EMPH = {"4": EMPH4, "5": EMPH5, "6": EMPH6, "7": EMPH7, "8": EMPH7, "9": EMPH9}.get(rnd, EMPH5)
for p in props:
    pid = p["id"]
    prev = []
    for m in sorted(glob.glob(os.path.join(ROOT, "seeded", pid + "-*", "meta.json"))):
        d = json.load(open(m))
        n = re.sub(r"\s+", " ", d.get("needs_to_manifest", "")).strip()
        n = re.sub(r"[;,]?\s*\(?(caught|missed|now caught|found) (after|by|only)[^)]*\)?", "", n).strip()
        if n:
            prev.append("  - " + n[:260])
    if rnd == "8":
        for rd in sorted(glob.glob("/tmp/seed7-%s/out7/[12]/README.md" % pid)):
            t = open(rd).read()
            m = re.search(r"(?is)what it needs to manifest[^\n]*\n(.*?)(\n#+ |\Z)", t)
            if m:
                prev.append("  - " + re.sub(r"\s+", " ", m.group(1)).strip()[:260])
    wt = "/tmp/seed%s-%s" % (rnd, pid)
    out = "out%s" % rnd
    txt = f"""You are helping to evaluate a verification effort by writing realistic *breaking changes* (seeded defects) for an open-source Go library. You have your own scratch git worktree of google/martian (Go module github.com/google/martian/v3, an HTTP/S MITM proxy library) at {wt}. Work ONLY inside that directory: do not read or write anything under /verif or /repo, and do not look for existing verification harnesses - your changes must be independent of any.

Environment: no network. In every shell call first run: export GOFLAGS=-mod=mod GOPROXY=off GOSUMDB=off GOTOOLCHAIN=local . Always pass -timeout (e.g. -timeout 120s) to go test. If `go` rewrites go.sum in the worktree, restore it with git checkout before producing diffs. Do NOT use `git stash` (shared between worktrees); use `git diff > file`, `git checkout -- .`, `git apply file` instead. The trafficshape package and the root package contain wall-clock tolerance tests that can fail when the machine is heavily loaded: if one of them fails with your change applied, re-run that package alone (twice) before concluding that your change broke it.

The property under attack (it currently HOLDS on this tree):

Property {pid}: {p.get('title','')}

Statement: {p.get('statement','')}

Quantified over: {(p.get('quantifier') or {}).get('text','')}

Anchors (where the mechanism lives): {json.dumps(p.get('anchors', p.get('anchor','')))}


This is round {rnd}. Earlier rounds already produced changes that manifest under the following conditions for this property - do NOT repeat these mechanisms or near-variants; find different code sites and different triggering conditions:
""" + "\n".join(prev) + f"""

{EMPH}

Your task{{PART}}: produce {{NCH}} different changes to the library's non-test source files, each of which breaks this property, such that with the change applied
  (1) `go build ./...` still succeeds,
  (2) the existing test-suite still passes unedited: run `go test -vet=off -count=1 -timeout 300s ./...` (about 40 s) - every package must be ok,
  (3) a demonstration you write (a Go test file, or a small program) FAILS with the change and PASSES on the unchanged tree.
The changes must have different root causes (different code sites or mechanisms), not variations of one edit.

What makes a good change: it looks like a plausible slip a maintainer could make (a refactoring, an 'optimisation', a reordered statement, a wrong boundary, a dropped flush/lock/close, a condition that is right for the common case) - not sabotage with magic constants or special-cased inputs. Prefer changes that need something SPECIFIC to manifest: a particular interleaving or timing, a fault at a particular point, a multi-step sequence of operations, an unusual but legal input (a size just past a buffer, a second request on a connection, a repeated header, a rarely used option), or two cooperating sites that each look fine alone. Avoid changes that ordinary single-request use would expose at once. At least one of them should be subtle in this sense.

Put a stub go.mod into {wt}/{out}/ so that ./... does not descend into it. Deliverables, for i = {{IDX}}, in {wt}/{out}/<i>/ :
  - patch.diff  : `git diff` of the library change only (no test files, no go.sum), applicable with `git apply` on the unchanged tree;
  - the demonstration file(s), named *_test.go, plus in README.md the exact place to copy it to (package directory) and the exact command to run it (say so if it needs -race);
  - README.md  : which clause of the property the change breaks, why the existing tests do not notice, a section headed '## What it needs to manifest' (input shape / sequence / timing), and the observed output of the demonstration with and without the change.
Before finishing, for each change start from a clean tree (`git checkout -- . && git clean -fd -e {out}`), apply patch.diff, run build + full test-suite + the demonstration (must fail), then revert and run the demonstration again (must pass). Leave the worktree clean except for {out}/. Your final message: a short table of the changes (one line each: file, what breaks, what it needs to manifest){{FINAL}}.
"""
    if rnd in ("7", "8", "9"):
        txt = txt.replace("{PART}", "").replace("{NCH}", "TWO").replace("{IDX}", "1, 2").replace("{FINAL}", "").replace("{out}", out)
    elif rnd == "6":
        txt = txt.replace("{PART}", " for PART 1").replace("{NCH}", "TWO").replace("{IDX}", "1, 2").replace("{FINAL}", ", then the list of confirmed observations of PART 2 (one line each with the obs/<n> directory) and the unconfirmed suspicions").replace("{out}", out)
    else:
        txt = txt.replace("{PART}", "").replace("{NCH}", "THREE").replace("{IDX}", "1, 2, 3").replace("{FINAL}", "")
    open("/tmp/seed%s-prompt-%s.txt" % (rnd, pid), "w").write(txt)
print("wrote", len(props), "prompts")
