#!/bin/bash
# Runs a check against a scratch worktree of /repo with a (seeded) patch applied.
# usage: tools/seedrun.sh <PROP> <patch.diff> [quick|thorough] [seed]
prop=$1; patch=$(readlink -f "$2"); tier=${3:-quick}; seed=${4:-1}
wt=/tmp/sr-$prop-$$
git -C /repo worktree add -q "$wt" HEAD || exit 2
trap 'git -C /repo worktree remove --force "$wt" >/dev/null 2>&1' EXIT
( cd "$wt" && git apply "$patch" ) || { echo "patch does not apply"; exit 2; }
( cd "$wt" && GOFLAGS=-mod=mod GOPROXY=off GOSUMDB=off GOTOOLCHAIN=local go build ./... ) || { echo "does not build"; exit 2; }
cd /verif
start=$(date +%s)
VERIF_REPO_OVERRIDE="$wt" VERIF_SEED=$seed ./check "$prop" --tier "$tier" > "/tmp/sr-$prop-$$.log" 2>&1
rc=$?
end=$(date +%s)
grep -E "^(VIOLATION|KNOWN-FINDING|INCONCLUSIVE|C[0-9]+ )" "/tmp/sr-$prop-$$.log" | cut -c1-220 | head -8
grep -E "^  C[0-9]+/" "/tmp/sr-$prop-$$.log" | cut -c1-300 | head -3
echo "exit=$rc wall=$((end-start))s"
rm -f "/tmp/sr-$prop-$$.log"
exit $rc
