#!/bin/bash
# usage: tools/applyfix.sh <diff> "<commit message>" <pkg>...
set -e -o pipefail
diff=$1; msg=$2; shift 2
cd /repo
git apply --check "$diff"
git apply "$diff"
gofmt -l $(git diff --name-only) || true
go build ./...
for p in "$@"; do go test -vet=off -count=1 -timeout 300s "$p" 2>&1 | tail -1; done
git add -A
git commit -q -m "$msg"
git log --oneline | head -1
