#!/bin/bash
# Confirms a seeded change: demo passes on the unchanged tree; with the patch the tree builds, the
# existing suite passes, and the demo fails. usage: confirm_seed.sh <seed-dir> [pkg-dir-for-the-demo, default .]
d=$(readlink -f "$1"); dest=${2:-.}; pat="Seed|Demo|TestC[0-9][0-9]|Forged|NoName|FallbackHost"; [ "$dest" != "." ] && pat="."; [ -n "$3" ] && pat="$3"
RACEFLAG="${CONFIRM_RACE:+-race} ${CONFIRM_TAGS:+-tags $CONFIRM_TAGS}"
wt=/tmp/cs-$$-$RANDOM
export GOFLAGS=-mod=mod GOPROXY=off GOSUMDB=off GOTOOLCHAIN=local
git -C /repo worktree add -q "$wt" HEAD || exit 2
trap 'git -C /repo worktree remove --force "$wt" >/dev/null 2>&1' EXIT
cd "$wt"
mkdir -p "$dest"
for f in "$d"/*_test.go "$d"/*_test.go.txt; do [ -f "$f" ] && cp "$f" "$dest/zz_seed_$(basename "${f%.txt}")"; done
go test $RACEFLAG -vet=off -count=1 -timeout 200s -run "$pat" "./$dest/" > /tmp/cs-out-$$ 2>&1; base=$?
git apply "$d/patch.diff" || { echo "$d: PATCH DOES NOT APPLY"; exit 1; }
go build ./... || { echo "$d: DOES NOT BUILD"; exit 1; }
go test $RACEFLAG -vet=off -count=1 -timeout 200s -run "$pat" "./$dest/" > /tmp/cs-out2-$$ 2>&1; withp=$?
rm -f "$dest"/zz_seed_*; rmdir "$dest" 2>/dev/null
go test -vet=off -count=1 -timeout 600s ./... > /tmp/cs-suite-$$ 2>&1; suite=$?
if [ $suite -ne 0 ]; then failed=$(grep -E "^(FAIL|---)" /tmp/cs-suite-$$ | head -5 | tr '\n' ' '); fi
echo "$d: demo-unchanged=$base demo-with-patch=$withp suite-with-patch=$suite $failed"
rm -f /tmp/cs-out-$$ /tmp/cs-out2-$$ /tmp/cs-suite-$$
