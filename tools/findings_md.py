#!/usr/bin/env python3
"""Prints known_findings.json as markdown tables for DESIGN.md section 10."""
import json, os
ROOT = os.path.dirname(os.path.dirname(os.path.abspath(__file__)))
d = json.load(open(os.path.join(ROOT, "known_findings.json")))
fx = [f for f in d["findings"] if f["status"] == "fixed"]
op = [f for f in d["findings"] if f["status"] == "open"]
print("| Prop | fix commit | what failed | signature (first matching) |\n|---|---|---|---|")
for f in sorted(fx, key=lambda f: f["property"]):
    print("| %s | `%s` | %s | `%s` |" % (f["property"], f["commit"], f["line"].split(" ", 3)[3], f["signature"]))
print()
print("| Prop | signature | what fails |\n|---|---|---|")
for f in sorted(op, key=lambda f: f["property"]):
    print("| %s | `%s` | %s |" % (f["property"], f["signature"], f["what_fails"][:400].replace("|", "/")))
