#!/usr/bin/env python3
"""keep_seed.py <id> <property> <srcdir> <caught_by> <initially: caught|missed> <needs...>
Copies a confirmed seeded change into /verif/seeded/<id>/ and writes meta.json."""
import json, os, shutil, sys, glob
ROOT = os.path.dirname(os.path.dirname(os.path.abspath(__file__)))
sid, prop, src, caught_by, initially = sys.argv[1:6]
needs = " ".join(sys.argv[6:])
dst = os.path.join(ROOT, "seeded", sid)
os.makedirs(dst, exist_ok=True)
for f in ["patch.diff", "README.md"] + [os.path.basename(x) for x in glob.glob(os.path.join(src, "*_test.go")) + glob.glob(os.path.join(src, "*_test.go.txt"))]:
    if os.path.exists(os.path.join(src, f)):
        name = f if not f.endswith("_test.go") else f[:-3] + ".txt"
        name = name.replace("_test.go.txt", "_test.txt")  # keep demos out of any go build
        shutil.copy(os.path.join(src, f), os.path.join(dst, name))
meta = {
    "id": sid, "breaks_property": prop, "needs_to_manifest": needs,
    "source": "written by a fresh sub-agent that was given only the property text and a scratch worktree of /repo",
    "confirmed": "tools/confirm_seed.sh: demonstration passes on the unchanged tree; with patch.diff applied `go build ./...` succeeds, `go test -vet=off ./...` passes unedited, and the demonstration fails",
    "demonstration": "the *_test.txt file(s): copy to the module root of a tree with the patch as *_test.go (package martian / martian_test as declared) and run `go test -vet=off -run 'Seed|Demo' .`",
    "ran": "tools/seedrun.sh %s seeded/%s/patch.diff (scratch worktree of /repo HEAD + patch, quick tier, VERIF_SEED=1)" % (caught_by.split()[0], sid),
    "caught_by": caught_by, "first_run": initially,
}
json.dump(meta, open(os.path.join(dst, "meta.json"), "w"), indent=1)
print("kept", sid)
