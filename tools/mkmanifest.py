#!/usr/bin/env python3
"""Regenerates /verif/MANIFEST.json from checks.json (single source of truth)."""
import json, os, subprocess
ROOT = os.path.dirname(os.path.dirname(os.path.abspath(__file__)))
import glob
conf = {os.path.basename(f)[:-5]: json.load(open(f)) for f in sorted(glob.glob(os.path.join(ROOT, "checks.d", "C*.json")))}
props = [json.loads(l) for l in open(os.path.join(ROOT, "properties.jsonl"))]
hooks_commits = []
try:
    out = subprocess.run(["git", "-C", "/repo", "log", "--format=%H %s"], stdout=subprocess.PIPE, text=True).stdout
    hooks_commits = [l.split()[0] for l in out.splitlines() if " verif hook" in l or l.split(" ", 1)[1].startswith("verif:")]
except Exception:
    pass
m = {
    "version": 1,
    "setup_cmd": "./check --setup",
    "hooks": {
        "guard": "verif",
        "enable": "go test -tags verif (the harness module /verif/harness replaces github.com/google/martian/v3 with /repo)",
        "baseline_off_cmd": "cd /repo && go test -mod=mod -vet=off -count=1 -timeout 25m ./...",
        "source_commits": hooks_commits,
        "add_only": True,
    },
    "engines": [{"name": "rapid-harness", "path": "/verif/harness", "serves_properties": sorted(conf.keys()),
                 "kind_free_text": "Go test packages: pgregory.net/rapid generators + bounded enumerations + native go fuzzing, driven by /verif/check"}],
    "checks": [],
    "not_applicable": [],
    "notes": "All checks go through ./check, which rebuilds the harness test binary against /repo's working tree (build tag verif) on every invocation. Exit 2 = inconclusive/infrastructure, never a violation. Known findings: /verif/known_findings.json.",
}
for p in props:
    pid = p["id"]
    c = conf.get(pid)
    if not c or c.get("disabled") or not c.get("ready"):
        m["not_applicable"].append({"property_id": pid, "reason": (c or {}).get("disabled") or "check under construction in this session; not yet claimed"})
        continue
    m["checks"].append({
        "property_id": pid,
        "quick_cmd": "./check %s --tier quick" % pid,
        "thorough_cmd": "./check %s --tier thorough" % pid,
        "evidence_file": "/verif/evidence/%s.json" % pid,
        "replay_cmd_template": "./check %s --replay {path}" % pid,
        "engine": "rapid-harness",
        "level_claimed": {"category": c.get("level", "exploration"), "text": c["level_text"], "design_ref": "DESIGN.md section 4, " + pid},
        "level_note": c["level_note"],
        "technique": c["technique"],
    })
json.dump(m, open(os.path.join(ROOT, "MANIFEST.json"), "w"), indent=1)
print("claimed:", [c["property_id"] for c in m["checks"]], "not claimed:", len(m["not_applicable"]))
