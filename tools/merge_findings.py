#!/usr/bin/env python3
"""Merge /verif/notes/findings/CNN.json into known_findings.json.
usage: merge_findings.py CNN [--fixed '<regex>' '<commit-subject-substring>' '<what failed (short)>']...
Entries whose signature matches a --fixed regex become status=fixed (one documented entry per regex);
the rest stay open. The fragment is removed afterwards."""
import json, os, re, subprocess, sys
ROOT = os.path.dirname(os.path.dirname(os.path.abspath(__file__)))
pid = sys.argv[1]
args = sys.argv[2:]
fixed = []
while args:
    assert args[0] == "--fixed"
    fixed.append((re.compile(args[1]), args[2], args[3]))
    args = args[4:]
log = subprocess.run(['git', '-C', '/repo', 'log', '--format=%h %s'], stdout=subprocess.PIPE, text=True).stdout.splitlines()
def commit(sub):
    m = [l.split()[0] for l in log if sub in l]
    assert m, "no commit matching %r" % sub
    return m[0]
frag = os.path.join(ROOT, "notes", "findings", pid + ".json")
doc = json.load(open(os.path.join(ROOT, "known_findings.json")))
new = json.load(open(frag))["findings"] if os.path.exists(frag) else []
have = {(f["signature"], f["status"]) for f in doc["findings"]}
done = set()
for f in new:
    hit = None
    for i, (rx, sub, short) in enumerate(fixed):
        if rx.search(f["signature"]):
            hit = i
            break
    if hit is None:
        f["status"] = "open"
        if (f["signature"], "open") not in have:
            doc["findings"].append(f)
        continue
    if hit in done:
        continue
    done.add(hit)
    rx, sub, short = fixed[hit]
    c = commit(sub)
    doc["findings"].append({"property": pid, "signature": f["signature"], "status": "fixed", "commit": c,
                            "what_fails": f.get("what_fails", short),
                            "also_matches": rx.pattern,
                            "line": "fixed: property=%s %s %s" % (pid, c, short)})
for i, (rx, sub, short) in enumerate(fixed):
    if i not in done:
        c = commit(sub)
        doc["findings"].append({"property": pid, "signature": rx.pattern, "status": "fixed", "commit": c, "what_fails": short,
                                "line": "fixed: property=%s %s %s" % (pid, c, short)})
json.dump(doc, open(os.path.join(ROOT, "known_findings.json"), "w"), indent=1)
if os.path.exists(frag):
    os.remove(frag)
print(pid, "open:", sum(1 for f in doc["findings"] if f["property"] == pid and f["status"] == "open"),
      "fixed:", sum(1 for f in doc["findings"] if f["property"] == pid and f["status"] == "fixed"))
