#!/bin/bash
# Makes sure every kept seeded patch applies to /repo HEAD; refreshes (3-way) those that no longer do.
cd /verif
wt=/tmp/rs-$$
git -C /repo worktree add -q "$wt" HEAD || exit 2
trap 'git -C /repo worktree remove --force "$wt" >/dev/null 2>&1' EXIT
for d in seeded/*/; do
  p="$PWD/$d/patch.diff"
  if git -C "$wt" apply --check "$p" 2>/dev/null; then continue; fi
  if git -C "$wt" apply --3way "$p" >/dev/null 2>&1 && [ -z "$(git -C "$wt" diff --name-only --diff-filter=U)" ]; then
    git -C "$wt" diff HEAD > "$p.new"
    if (cd "$wt" && GOFLAGS=-mod=mod GOPROXY=off GOSUMDB=off GOTOOLCHAIN=local go build ./... ) ; then mv "$p.new" "$p"; echo "refreshed $d"; else rm -f "$p.new"; echo "REFRESH BUILD FAILS $d"; fi
  else
    echo "CANNOT REFRESH $d"
  fi
  git -C "$wt" reset -q --hard HEAD; git -C "$wt" clean -qfd
done
echo done
