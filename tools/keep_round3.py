#!/usr/bin/env python3
"""keep_round3.py: stores the confirmed round-3 seeded changes from /tmp/seed3-CNN/out3/K (+ run logs in
/tmp/run3/CNN-K.log, cross-property logs /tmp/run3/CNN-K.by-CMM.log) under /verif/seeded/CNN-r3sK."""
import os, re, subprocess, sys, glob
ROOT = os.path.dirname(os.path.dirname(os.path.abspath(__file__)))
MISSED = set("C01-1 C01-3 C02-1 C02-2 C03-1 C03-2 C03-3 C04-1 C04-3 C05-1 C06-2 C07-1 C07-2 C07-3 C08-2 C09-1 C10-1 C10-2 C11-1 C11-3 C12-1 C13-1 C14-2 C14-3 C15-1 C15-3 C16-1 C16-2 C18-1 C18-3 C19-2 C20-3".split())
def needs_of(readme):
    txt = open(readme).read()
    m = re.search(r"(?im)^(#+\s*|\*\*)?(what it needs[^\n]*|needs to manifest[^\n]*|what is needed[^\n]*)\n(.*?)(\n#+ |\n\*\*[A-Z]|\Z)", txt, re.S)
    body = m.group(3) if m else ""
    if not body.strip():
        m = re.search(r"(?i)what it needs[^:\n]*:\s*(.*?)(\n\n|\Z)", txt, re.S)
        body = m.group(1) if m else ""
    body = re.sub(r"\s+", " ", body).strip()
    return body[:600]
def sig_of(log):
    if not os.path.exists(log):
        return None
    sigs = []
    for line in open(log):
        m = re.match(r"\s+(C\d\d/[^:]+):", line)
        if m and m.group(1) not in sigs:
            sigs.append(m.group(1))
    viol = any(l.startswith("VIOLATION") for l in open(log))
    return sigs if viol else None
for n in range(1, 21):
    for k in (1, 2, 3):
        p = "C%02d" % n
        key = "%s-%d" % (p, k)
        src = "/tmp/seed3-%s/out3/%d" % (p, k)
        if key == "C03-3":
            src = "/tmp/seed3-C03/out3/3b"
        own = sig_of("/tmp/run3/%s.log" % key)
        caught = []
        if own:
            caught.append("%s (%s)" % (p, ", ".join(own[:2])))
        for other in sorted(glob.glob("/tmp/run3/%s.by-*.log" % key)):
            q = re.search(r"by-(C\d\d)", other).group(1)
            s = sig_of(other)
            if s:
                caught.append("%s (%s)" % (q, ", ".join(s[:2])))
        if not caught:
            print("NOT CAUGHT", key); continue
        needs = needs_of(os.path.join(src, "README.md")) or "see README.md"
        first = "missed" if key in MISSED else "caught"
        subprocess.check_call([sys.executable, os.path.join(ROOT, "tools/keep_seed.py"), "%s-r3s%d" % (p, k), p, src, "; ".join(caught), first, needs])
