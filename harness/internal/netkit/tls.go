package netkit

import (
	"crypto/ecdsa"
	"crypto/elliptic"
	"crypto/rand"
	"crypto/tls"
	"crypto/x509"
	"crypto/x509/pkix"
	"math/big"
	"net"
	"net/http"
	"sync"
	"time"

	"github.com/google/martian/v3"
	"github.com/google/martian/v3/h2"
	"github.com/google/martian/v3/mitm"
)

// ---- harness CA for upstream TLS origins (ECDSA P-256: cheap)

var (
	caOnce sync.Once
	caCert *x509.Certificate
	caKey  *ecdsa.PrivateKey
	caPool *x509.CertPool
)

func ca() {
	caOnce.Do(func() {
		key, err := ecdsa.GenerateKey(elliptic.P256(), rand.Reader)
		if err != nil {
			panic(err)
		}
		tmpl := &x509.Certificate{
			SerialNumber: big.NewInt(1), Subject: pkix.Name{CommonName: "verif harness CA"},
			NotBefore: time.Now().Add(-time.Hour), NotAfter: time.Now().Add(48 * time.Hour),
			IsCA: true, BasicConstraintsValid: true, KeyUsage: x509.KeyUsageCertSign | x509.KeyUsageDigitalSignature,
		}
		der, err := x509.CreateCertificate(rand.Reader, tmpl, tmpl, &key.PublicKey, key)
		if err != nil {
			panic(err)
		}
		caCert, _ = x509.ParseCertificate(der)
		caKey = key
		caPool = x509.NewCertPool()
		caPool.AddCert(caCert)
	})
}

// OriginPool is the root pool that verifies certificates from ServerTLS.
func OriginPool() *x509.CertPool { ca(); return caPool }

// ServerTLS returns a server config with a leaf valid for the given names
// (DNS names or IP literals), signed by the harness CA.
func ServerTLS(names ...string) *tls.Config {
	ca()
	key, err := ecdsa.GenerateKey(elliptic.P256(), rand.Reader)
	if err != nil {
		panic(err)
	}
	serial, _ := rand.Int(rand.Reader, big.NewInt(1<<62))
	tmpl := &x509.Certificate{
		SerialNumber: serial, Subject: pkix.Name{CommonName: "verif origin"},
		NotBefore: time.Now().Add(-time.Hour), NotAfter: time.Now().Add(24 * time.Hour),
		KeyUsage: x509.KeyUsageDigitalSignature, ExtKeyUsage: []x509.ExtKeyUsage{x509.ExtKeyUsageServerAuth},
	}
	for _, n := range names {
		if ip := net.ParseIP(n); ip != nil {
			tmpl.IPAddresses = append(tmpl.IPAddresses, ip)
		} else {
			tmpl.DNSNames = append(tmpl.DNSNames, n)
		}
	}
	der, err := x509.CreateCertificate(rand.Reader, tmpl, caCert, &key.PublicKey, caKey)
	if err != nil {
		panic(err)
	}
	return &tls.Config{Certificates: []tls.Certificate{{Certificate: [][]byte{der}, PrivateKey: key}}}
}

// ---- MITM authority (RSA keygen once per process)

var (
	mitmOnce sync.Once
	mitmCA   *x509.Certificate
	mitmKey  interface{}
	mitmPool *x509.CertPool
	mitmErr  error
)

// MITM returns the process-wide mitm.Config under the process-wide MITM authority and
// the pool with which a harness client verifies forged certificates.
func MITM() (*mitm.Config, *x509.CertPool, error) {
	mitmOnce.Do(func() {
		c, k, err := mitm.NewAuthority("verif mitm", "Verif Org", 24*time.Hour)
		if err != nil {
			mitmErr = err
			return
		}
		mitmCA, mitmKey = c, k
		mitmPool = x509.NewCertPool()
		mitmPool.AddCert(c)
	})
	if mitmErr != nil {
		return nil, nil, mitmErr
	}
	// NewConfig generates an RSA key for the leaves: one Config per process
	// (its certificate cache is not what the callers of this helper test).
	mitmConfOnce.Do(func() { mitmConf, mitmErr = mitm.NewConfig(mitmCA, mitmKey) })
	return mitmConf, mitmPool, mitmErr
}

var (
	mitmConfOnce sync.Once
	mitmConf     *mitm.Config
)

// UpstreamTLS makes the proxy trust the harness origin CA for its upstream
// connections (the default transport would use the system roots).
func UpstreamTLS(p *martian.Proxy) {
	p.SetRoundTripper(&http.Transport{
		TLSClientConfig:       &tls.Config{RootCAs: OriginPool()},
		TLSHandshakeTimeout:   10 * time.Second,
		ExpectContinueTimeout: time.Second,
		DisableCompression:    true,
	})
}

var (
	mitmH2Once sync.Once
	mitmH2Conf *mitm.Config
	mitmH2Err  error
)

// MITMH2 is like MITM, but the returned (second process-wide) config has an
// h2.Config set whose host filter admits no host: HTTP/2 support is configured,
// every session is nevertheless to be served as HTTP/1.1.
func MITMH2() (*mitm.Config, *x509.CertPool, error) {
	if _, _, err := MITM(); err != nil {
		return nil, nil, err
	}
	mitmH2Once.Do(func() {
		mitmH2Conf, mitmH2Err = mitm.NewConfig(mitmCA, mitmKey)
		if mitmH2Err == nil {
			mitmH2Conf.SetH2Config(&h2.Config{AllowedHostsFilter: func(string) bool { return false }, RootCAs: OriginPool()})
		}
	})
	return mitmH2Conf, mitmPool, mitmH2Err
}
