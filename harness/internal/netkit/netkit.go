// Package netkit holds the socket-level parts shared by the proxy properties:
// a scripted raw origin, a raw client, dial mapping and proxy start/stop.
package netkit

import (
	"bufio"
	"bytes"
	"crypto/sha256"
	"crypto/tls"
	"encoding/hex"
	"errors"
	"fmt"
	"io"
	"net"
	"net/http"
	"os"
	"strings"
	"sync"
	"time"

	"github.com/google/martian/v3"
	mlog "github.com/google/martian/v3/log"
)

func init() {
	// martian.NewProxy installs http.ProxyFromEnvironment on its transport.
	for _, k := range []string{"HTTP_PROXY", "HTTPS_PROXY", "NO_PROXY", "http_proxy", "https_proxy", "no_proxy"} {
		os.Unsetenv(k)
	}
	mlog.SetLevel(mlog.Silent)
}

// ---------------------------------------------------------------- listeners

// LoopAddr is a loopback address private to this process. Harness listeners
// bind to it instead of 127.0.0.1: client sockets get their ephemeral ports on
// 127.0.0.1, and every such port (also in TIME_WAIT) would otherwise be
// unavailable to bind(port 0), which long campaigns run into.
func LoopAddr() string {
	pid := os.Getpid()
	return fmt.Sprintf("127.%d.%d.%d", 1+(pid>>14)%250, 1+(pid>>7)%128, 1+pid%127)
}

// Listen opens a TCP listener on a free port of LoopAddr.
func Listen() (net.Listener, error) {
	var err error
	for i := 0; i < 20; i++ {
		var l net.Listener
		if l, err = net.Listen("tcp", LoopAddr()+":0"); err == nil {
			return l, nil
		}
		time.Sleep(50 * time.Millisecond)
	}
	return nil, err
}

// ---------------------------------------------------------------- origin

// ReqLog is what the origin saw for one request.
type ReqLog struct {
	Seq        int         `json:"seq"`
	Conn       int         `json:"conn"`
	TLS        bool        `json:"tls"`
	Method     string      `json:"method"`
	RequestURI string      `json:"request_uri"`
	Proto      string      `json:"proto"`
	Path       string      `json:"path"`
	RawQuery   string      `json:"raw_query"`
	Host       string      `json:"host"`
	Header     http.Header `json:"header"`
	TE         []string    `json:"te,omitempty"`
	CL         int64       `json:"cl"`
	Close      bool        `json:"close"`
	BodyLen    int         `json:"body_len"`
	BodySHA    string      `json:"body_sha"`
	BodyErr    string      `json:"body_err,omitempty"`
	Body       []byte      `json:"-"` // kept only when Origin.KeepBodies
}

// Script is what the origin does in answer to one request.
type Script struct {
	Raw   []byte // bytes to write (a whole response, several, or garbage)
	CutAt int    // when >= 0 only Raw[:CutAt] is written and the connection ends
	After string // "", "keep": serve on; "close": FIN; "rst": reset; "hang": keep open, stop serving
	Delay time.Duration
}

// Origin is a scripted raw TCP (or TLS) server.
type Origin struct {
	Addr       string
	KeepBodies bool
	// AcceptHook, if set, may take over a fresh connection (return true).
	AcceptHook func(idx int, c net.Conn) bool
	// Early, if set, is asked after the request head was read and before the
	// body is; a non-nil script is written at once (an early reply), then the
	// body is drained.
	Early func(r *ReqLog) *Script

	l       net.Listener
	handler func(r *ReqLog) Script
	isTLS   bool

	mu    sync.Mutex
	log   []ReqLog
	conns []net.Conn
	wg    sync.WaitGroup
	done  chan struct{}
}

// NewOrigin starts an origin on a loopback port.
func NewOrigin(handler func(r *ReqLog) Script) *Origin {
	l, err := Listen()
	if err != nil {
		panic(err)
	}
	return startOrigin(l, false, handler)
}

// NewTLSOrigin starts a TLS origin with the given server config.
func NewTLSOrigin(conf *tls.Config, handler func(r *ReqLog) Script) *Origin {
	l, err := Listen()
	if err != nil {
		panic(err)
	}
	return startOrigin(tls.NewListener(l, conf), true, handler)
}

func startOrigin(l net.Listener, isTLS bool, handler func(r *ReqLog) Script) *Origin {
	o := &Origin{Addr: l.Addr().String(), l: l, handler: handler, isTLS: isTLS, done: make(chan struct{})}
	o.wg.Add(1)
	go o.acceptLoop()
	return o
}

func (o *Origin) acceptLoop() {
	defer o.wg.Done()
	for {
		c, err := o.l.Accept()
		if err != nil {
			return
		}
		o.mu.Lock()
		idx := len(o.conns)
		o.conns = append(o.conns, c)
		o.mu.Unlock()
		o.wg.Add(1)
		go func() {
			defer o.wg.Done()
			o.serve(idx, c)
		}()
	}
}

// Reset closes a connection with RST (or plain close when it is not TCP).
func Reset(c net.Conn) {
	type under interface{ NetConn() net.Conn }
	raw := c
	if u, ok := c.(under); ok {
		raw = u.NetConn()
	}
	if t, ok := raw.(*net.TCPConn); ok {
		t.SetLinger(0)
	}
	c.Close()
}

func (o *Origin) serve(idx int, c net.Conn) {
	defer c.Close()
	if o.AcceptHook != nil && o.AcceptHook(idx, c) {
		return
	}
	br := bufio.NewReaderSize(c, 64<<10)
	for {
		c.SetReadDeadline(time.Now().Add(90 * time.Second))
		req, err := http.ReadRequest(br)
		if err != nil {
			return
		}
		if o.Early != nil {
			head := ReqLog{Conn: idx, TLS: o.isTLS, Method: req.Method, RequestURI: req.RequestURI, Proto: req.Proto,
				Path: req.URL.Path, RawQuery: req.URL.RawQuery, Host: req.Host, Header: req.Header,
				TE: req.TransferEncoding, CL: req.ContentLength, Close: req.Close, BodyLen: -1}
			if sc := o.Early(&head); sc != nil {
				o.mu.Lock()
				head.Seq = len(o.log)
				o.log = append(o.log, head)
				o.mu.Unlock()
				c.SetWriteDeadline(time.Now().Add(60 * time.Second))
				if _, err := c.Write(sc.Raw); err != nil {
					return
				}
				if _, err := io.Copy(io.Discard, req.Body); err != nil || sc.After == "close" {
					return
				}
				continue
			}
		}
		h := sha256.New()
		var keep bytes.Buffer
		var w io.Writer = h
		if o.KeepBodies {
			w = io.MultiWriter(h, &keep)
		}
		n, berr := io.Copy(w, req.Body)
		rl := ReqLog{
			Conn: idx, TLS: o.isTLS, Method: req.Method, RequestURI: req.RequestURI, Proto: req.Proto,
			Path: req.URL.Path, RawQuery: req.URL.RawQuery, Host: req.Host, Header: req.Header,
			TE: req.TransferEncoding, CL: req.ContentLength, Close: req.Close,
			BodyLen: int(n), BodySHA: hex.EncodeToString(h.Sum(nil)[:8]), Body: keep.Bytes(),
		}
		if berr != nil {
			rl.BodyErr = berr.Error()
		}
		o.mu.Lock()
		rl.Seq = len(o.log)
		o.log = append(o.log, rl)
		o.mu.Unlock()
		if berr != nil {
			return
		}
		sc := o.handler(&rl)
		if sc.Delay > 0 {
			select {
			case <-time.After(sc.Delay):
			case <-o.done:
				return
			}
		}
		out := sc.Raw
		cut := false
		if sc.CutAt >= 0 && sc.CutAt <= len(out) && (sc.After == "close" || sc.After == "rst") {
			out = out[:sc.CutAt]
			cut = true
		}
		c.SetWriteDeadline(time.Now().Add(60 * time.Second))
		if _, err := c.Write(out); err != nil {
			return
		}
		switch sc.After {
		case "rst":
			Reset(c)
			return
		case "close":
			return
		case "hang":
			<-o.done
			return
		}
		_ = cut
	}
}

// Log returns a copy of the request log in arrival order.
func (o *Origin) Log() []ReqLog {
	o.mu.Lock()
	defer o.mu.Unlock()
	return append([]ReqLog(nil), o.log...)
}

// Accepted is the number of connections accepted so far.
func (o *Origin) Accepted() int {
	o.mu.Lock()
	defer o.mu.Unlock()
	return len(o.conns)
}

// Close stops the origin and closes all its connections.
func (o *Origin) Close() {
	select {
	case <-o.done:
		return
	default:
	}
	close(o.done)
	o.l.Close()
	o.mu.Lock()
	for _, c := range o.conns {
		c.Close()
	}
	o.mu.Unlock()
	o.wg.Wait()
}

// ---------------------------------------------------------------- dial mapping

// Dialer maps whatever address the proxy wants to reach to harness listeners
// and records every dial ("upstream contact").
type Dialer struct {
	mu    sync.Mutex
	Dials []string
	// Route returns the real address for a requested one; "" refuses.
	Route func(addr string) string
}

// Dial implements the function handed to Proxy.SetDial.
func (d *Dialer) Dial(network, addr string) (net.Conn, error) {
	d.mu.Lock()
	d.Dials = append(d.Dials, addr)
	d.mu.Unlock()
	to := d.Route(addr)
	if to == "" {
		return nil, &net.OpError{Op: "dial", Net: network, Err: errors.New("connection refused (harness)")}
	}
	return (&net.Dialer{Timeout: 5 * time.Second}).Dial("tcp", to)
}

// Count is the number of dials so far.
func (d *Dialer) Count() int {
	d.mu.Lock()
	defer d.mu.Unlock()
	return len(d.Dials)
}

// ---------------------------------------------------------------- proxy

// Proxy is a running martian proxy on a loopback listener.
type Proxy struct {
	P    *martian.Proxy
	Addr string
	L    net.Listener
	done chan struct{}

	stopOnce sync.Once
	closed   chan struct{}
}

// Start serves p on a fresh loopback listener (optionally wrapped).
func Start(p *martian.Proxy, wrap func(net.Listener) net.Listener) *Proxy {
	l, err := Listen()
	if err != nil {
		panic(err)
	}
	addr := l.Addr().String()
	if wrap != nil {
		l = wrap(l)
	}
	pr := &Proxy{P: p, Addr: addr, L: l, done: make(chan struct{})}
	go func() {
		defer close(pr.done)
		p.Serve(l)
	}()
	return pr
}

// Stop closes the proxy (once); reports whether Close returned within the bound.
func (pr *Proxy) Stop(bound time.Duration) bool {
	pr.stopOnce.Do(func() {
		pr.closed = make(chan struct{})
		go func() {
			pr.P.Close()
			close(pr.closed)
		}()
		pr.L.Close()
	})
	select {
	case <-pr.closed:
		return true
	case <-time.After(bound):
		return false
	}
}

// ---------------------------------------------------------------- client

// Resp is a response as parsed by the raw client.
type Resp struct {
	Status  int
	Proto   string
	Header  http.Header
	Trailer http.Header
	Body    []byte
	BodyErr error // non-nil when the body ended before its framing said so
	Close   bool
	CL      int64
	TE      []string
}

// Client is a raw TCP (or TLS) client with bounded reads.
type Client struct {
	Conn net.Conn
	BR   *bufio.Reader
}

// Dial connects to addr.
func Dial(addr string) (*Client, error) {
	c, err := net.DialTimeout("tcp", addr, 5*time.Second)
	if err != nil {
		return nil, err
	}
	return &Client{Conn: c, BR: bufio.NewReaderSize(c, 64<<10)}, nil
}

// Wrap builds a client over an existing connection (e.g. after a TLS upgrade).
func Wrap(c net.Conn) *Client { return &Client{Conn: c, BR: bufio.NewReaderSize(c, 64<<10)} }

// Write sends raw bytes with a write bound.
func (c *Client) Write(b []byte) error {
	c.Conn.SetWriteDeadline(time.Now().Add(60 * time.Second))
	_, err := c.Conn.Write(b)
	return err
}

// ReadResponse parses one final response (1xx are skipped and counted).
func (c *Client) ReadResponse(method string, bound time.Duration) (*Resp, int, error) {
	interim := 0
	for {
		c.Conn.SetReadDeadline(time.Now().Add(bound))
		res, err := http.ReadResponse(c.BR, &http.Request{Method: method})
		if err != nil {
			return nil, interim, err
		}
		if res.StatusCode >= 100 && res.StatusCode < 200 && res.StatusCode != 101 {
			interim++
			continue
		}
		out := &Resp{Status: res.StatusCode, Proto: res.Proto, Header: res.Header, Close: res.Close, CL: res.ContentLength, TE: res.TransferEncoding}
		var buf bytes.Buffer
		// each read is bounded; large bodies get a fresh bound per chunk
		tmp := make([]byte, 256<<10)
		for {
			c.Conn.SetReadDeadline(time.Now().Add(bound))
			n, rerr := res.Body.Read(tmp)
			buf.Write(tmp[:n])
			if rerr == io.EOF {
				break
			}
			if rerr != nil {
				out.BodyErr = rerr
				break
			}
		}
		out.Body = buf.Bytes()
		out.Trailer = res.Trailer
		return out, interim, nil
	}
}

// ExpectEOF waits for the peer to close; returns the stray bytes seen before.
func (c *Client) ExpectEOF(bound time.Duration) (stray []byte, eof bool, err error) {
	deadline := time.Now().Add(bound)
	tmp := make([]byte, 4096)
	for {
		c.Conn.SetReadDeadline(deadline)
		n, rerr := c.BR.Read(tmp)
		stray = append(stray, tmp[:n]...)
		if rerr == io.EOF {
			return stray, true, nil
		}
		if rerr != nil {
			if IsReset(rerr) {
				return stray, true, rerr // closed, though not gracefully
			}
			return stray, false, rerr
		}
		if len(stray) > 1<<20 {
			return stray, false, fmt.Errorf("more than 1 MiB of unexpected bytes")
		}
	}
}

// Close closes the client connection.
func (c *Client) Close() { c.Conn.Close() }

// IsReset reports a connection reset.
func IsReset(err error) bool {
	return err != nil && (strings.Contains(err.Error(), "connection reset") || strings.Contains(err.Error(), "broken pipe"))
}

// IsTimeout reports a deadline expiry.
func IsTimeout(err error) bool {
	var ne net.Error
	return errors.As(err, &ne) && ne.Timeout()
}
