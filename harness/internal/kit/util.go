package kit

import (
	"bytes"
	"crypto/sha256"
	"encoding/hex"
	"fmt"
	"regexp"
	"runtime"
	"strings"
	"time"

	"pgregory.net/rapid"
)

// Bytes returns n deterministic pseudo-random bytes for a seed (xorshift64*).
// Payloads are a pure function of (seed, n) so cases stay small and shrinking
// moves lengths, not content.
func Bytes(seed uint64, n int) []byte {
	if n <= 0 {
		return []byte{}
	}
	x := seed*0x9E3779B97F4A7C15 + 0xD1B54A32D192ED03
	if x == 0 {
		x = 1
	}
	out := make([]byte, n)
	for i := 0; i < n; i += 8 {
		x ^= x >> 12
		x ^= x << 25
		x ^= x >> 27
		v := x * 0x2545F4914F6CDD1D
		for j := 0; j < 8 && i+j < n; j++ {
			out[i+j] = byte(v >> (8 * uint(j)))
		}
	}
	return out
}

// Text returns n deterministic printable ASCII bytes.
func Text(seed uint64, n int) []byte {
	b := Bytes(seed, n)
	const alpha = "abcdefghijklmnopqrstuvwxyzABCDEFGHIJKLMNOPQRSTUVWXYZ0123456789 .,;-_"
	for i := range b {
		b[i] = alpha[int(b[i])%len(alpha)]
	}
	return b
}

// Hash is a short content hash for reports.
func Hash(b []byte) string {
	h := sha256.Sum256(b)
	return hex.EncodeToString(h[:6])
}

// Diff describes the first difference between two byte strings.
func Diff(want, got []byte) string {
	if bytes.Equal(want, got) {
		return "equal"
	}
	n := len(want)
	if len(got) < n {
		n = len(got)
	}
	i := 0
	for i < n && want[i] == got[i] {
		i++
	}
	return fmt.Sprintf("len want=%d got=%d, first difference at offset %d (want %s, got %s)", len(want), len(got), i, around(want, i), around(got, i))
}

func around(b []byte, i int) string {
	lo, hi := i-8, i+8
	if lo < 0 {
		lo = 0
	}
	if hi > len(b) {
		hi = len(b)
	}
	return fmt.Sprintf("%q", b[lo:hi])
}

// Eventually polls cond until it holds or the bound expires.
func Eventually(bound time.Duration, cond func() bool) bool {
	deadline := time.Now().Add(bound)
	pause := 200 * time.Microsecond
	for {
		if cond() {
			return true
		}
		if time.Now().After(deadline) {
			return false
		}
		time.Sleep(pause)
		if pause < 20*time.Millisecond {
			pause *= 2
		}
	}
}

// T is the bound for "promptly" observations: orders of magnitude above
// loopback latency, well below the proxy idle timeouts used by the harness.
func T() time.Duration {
	if Thorough() {
		return 5 * time.Second
	}
	return 3 * time.Second
}

// GoroutinesMatching counts goroutines whose stack mentions re.
func GoroutinesMatching(re *regexp.Regexp) int {
	buf := make([]byte, 1<<20)
	for {
		n := runtime.Stack(buf, true)
		if n < len(buf) {
			buf = buf[:n]
			break
		}
		buf = make([]byte, 2*len(buf))
	}
	count := 0
	for _, g := range strings.Split(string(buf), "\n\n") {
		if re.MatchString(g) {
			count++
		}
	}
	return count
}

// GoroutineDump returns the stacks of goroutines matching re (for reports).
func GoroutineDump(re *regexp.Regexp) string {
	buf := make([]byte, 1<<22)
	buf = buf[:runtime.Stack(buf, true)]
	var out []string
	for _, g := range strings.Split(string(buf), "\n\n") {
		if re.MatchString(g) {
			out = append(out, g)
		}
	}
	return strings.Join(out, "\n\n")
}

// Size draws a body size biased to buffer edges.
func Size(t *rapid.T, label string, max int) int {
	edges := []int{0, 1, 2, 100, 4095, 4096, 4097, 32767, 32768, 32769, 65535, 65536, 65537, 1 << 20, 4 << 20}
	var ok []int
	for _, e := range edges {
		if e <= max {
			ok = append(ok, e)
		}
	}
	if rapid.Bool().Draw(t, label+"_edge") {
		return rapid.SampledFrom(ok).Draw(t, label)
	}
	return rapid.IntRange(0, max).Draw(t, label)
}
