// Package kit is the shared plumbing of the verification harness: case
// accounting, known-finding matching, replay files and evidence statistics.
//
// Every property package defines plain-data Case types, generators that draw
// only through rapid, and run functions that return the list of oracle
// failures for one Case. kit drives them, counts what was explored and turns
// failures into replay files.
package kit

import (
	"crypto/sha256"
	"encoding/hex"
	"encoding/json"
	"flag"
	"fmt"
	"hash/fnv"
	"math"
	"os"
	"path/filepath"
	"runtime"
	"runtime/debug"
	"sort"
	"strconv"
	"strings"
	"sync"
	"sync/atomic"
	"testing"
	"time"

	"pgregory.net/rapid"
)

// Failure is one oracle failure. Sig is the signature used to match known
// findings: property / clause / triggering shape / failure class.
type Failure struct {
	Sig string `json:"sig"`
	Msg string `json:"msg"`
}

// Verdict is the list of oracle failures of one case; empty means the
// property held on the case.
type Verdict []Failure

// Failf builds a one-failure verdict.
func Failf(sig, format string, args ...interface{}) Verdict {
	return Verdict{{Sig: sig, Msg: fmt.Sprintf(format, args...)}}
}

// Addf appends a failure.
func (v *Verdict) Addf(sig, format string, args ...interface{}) {
	*v = append(*v, Failure{Sig: sig, Msg: fmt.Sprintf(format, args...)})
}

// ---------------------------------------------------------------- environment

func envInt(name string, def int64) int64 {
	if s := os.Getenv(name); s != "" {
		if n, err := strconv.ParseInt(s, 10, 64); err == nil {
			return n
		}
	}
	return def
}

// Tier is "quick" or "thorough".
func Tier() string {
	if os.Getenv("VERIF_TIER") == "thorough" {
		return "thorough"
	}
	return "quick"
}

// Thorough reports whether the thorough tier is running.
func Thorough() bool { return Tier() == "thorough" }

// Seed is VERIF_SEED (default 1).
func Seed() int64 { return envInt("VERIF_SEED", 1) }

// Shard is the index of this process among Shards().
func Shard() int { return int(envInt("VERIF_SHARD", 0)) }

// Shards is the number of parallel processes of this run.
func Shards() int { return int(envInt("VERIF_SHARDS", 1)) }

// Race reports whether this process is the race-detector shard.
func Race() bool { return os.Getenv("VERIF_RACE") == "1" }

// Root is the /verif directory.
func Root() string {
	if r := os.Getenv("VERIF_ROOT"); r != "" {
		return r
	}
	_, file, _, _ := runtime.Caller(0)
	// .../harness/internal/kit/kit.go
	return filepath.Clean(filepath.Join(filepath.Dir(file), "..", "..", ".."))
}

// OutDir is where this process writes its statistics.
func OutDir() string {
	if d := os.Getenv("VERIF_OUT"); d != "" {
		return d
	}
	d := filepath.Join(Root(), ".work", "adhoc")
	os.MkdirAll(d, 0o755)
	return d
}

// N picks a per-tier count.
func N(quick, thorough int) int {
	if Thorough() {
		return thorough
	}
	return quick
}

// ---------------------------------------------------------------- known findings

type finding struct {
	Property  string `json:"property"`
	Signature string `json:"signature"`
	Status    string `json:"status"` // open | fixed
	WhatFails string `json:"what_fails"`
	Commit    string `json:"commit,omitempty"`
}

var (
	findingsOnce sync.Once
	openFindings map[string]finding
)

func loadFindings() {
	openFindings = map[string]finding{}
	files := []string{filepath.Join(Root(), "known_findings.json")}
	// per-property fragments used while a check is being built; merged into
	// known_findings.json before a property is claimed
	frag, _ := filepath.Glob(filepath.Join(Root(), "notes", "findings", "*.json"))
	files = append(files, frag...)
	for _, file := range files {
		b, err := os.ReadFile(file)
		if err != nil {
			continue
		}
		var doc struct {
			Findings []finding `json:"findings"`
		}
		if err := json.Unmarshal(b, &doc); err != nil {
			fmt.Fprintf(os.Stderr, "kit: %s unreadable: %v\n", file, err)
			continue
		}
		for _, f := range doc.Findings {
			if f.Status == "open" {
				openFindings[f.Signature] = f
			}
		}
	}
}

// Known reports whether sig is an open known finding.
func Known(sig string) bool {
	findingsOnce.Do(loadFindings)
	_, ok := openFindings[sig]
	return ok
}

// ---------------------------------------------------------------- statistics

// CheckStats is what one named check of a property explored in this process.
type CheckStats struct {
	Name          string            `json:"name"`
	Rule          string            `json:"rule"`
	Requested     int               `json:"requested"`
	Evaluations   int               `json:"evaluations"`
	NonTrivial    []string          `json:"nontrivial_fingerprints"`
	Classes       map[string]int    `json:"classes"`
	Samples       []json.RawMessage `json:"samples"`
	ExcludedKnown map[string]int    `json:"excluded_known"`
	Exhaustive    bool              `json:"exhaustive"`
	Inconclusive  int               `json:"inconclusive_retries"`
	GateFailures  []string          `json:"gate_failures,omitempty"`
	Notes         []string          `json:"notes,omitempty"`

	nt      map[string]struct{}
	seen    int
	sampled int
}

// Violation is an unknown failure with its replay file.
type Violation struct {
	Check  string `json:"check"`
	Sig    string `json:"sig"`
	Msg    string `json:"msg"`
	Replay string `json:"replay"`
}

type processStats struct {
	Property    string        `json:"property"`
	Tier        string        `json:"tier"`
	Seed        int64         `json:"seed"`
	Shard       int           `json:"shard"`
	Race        bool          `json:"race"`
	Checks      []*CheckStats `json:"checks"`
	Violations  []Violation   `json:"violations"`
	Assumptions []string      `json:"assumptions"`
	WallS       float64       `json:"wall_s"`
}

var (
	mu       sync.Mutex
	proc     = &processStats{}
	started  = time.Now()
	checkIdx = map[string]*CheckStats{}
	printed  = map[string]bool{}
	replayFn = map[string]func(t *testing.T, raw json.RawMessage){}
)

// Assume records an assumption for the evidence file.
func Assume(s string) {
	mu.Lock()
	defer mu.Unlock()
	for _, a := range proc.Assumptions {
		if a == s {
			return
		}
	}
	proc.Assumptions = append(proc.Assumptions, s)
}

func statsFor(name, rule string) *CheckStats {
	mu.Lock()
	defer mu.Unlock()
	cs := checkIdx[name]
	if cs == nil {
		cs = &CheckStats{Name: name, Rule: rule, Classes: map[string]int{}, ExcludedKnown: map[string]int{}, nt: map[string]struct{}{}}
		checkIdx[name] = cs
		proc.Checks = append(proc.Checks, cs)
	}
	return cs
}

func fingerprint(b []byte) string {
	h := sha256.Sum256(b)
	return hex.EncodeToString(h[:8])
}

const maxSampleBytes = 1500

func (cs *CheckStats) account(raw []byte, nontrivial bool, classes []string) {
	mu.Lock()
	defer mu.Unlock()
	cs.Evaluations++
	for _, c := range classes {
		cs.Classes[c]++
	}
	if nontrivial {
		cs.Classes["nontrivial"]++
		cs.nt[fingerprint(raw)] = struct{}{}
	}
	// first 3, then a deterministic reservoir of 3 more (keyed by fingerprint, not an RNG)
	cs.seen++
	if len(raw) > maxSampleBytes {
		return
	}
	if len(cs.Samples) < 3 {
		cs.Samples = append(cs.Samples, append(json.RawMessage(nil), raw...))
		return
	}
	if !nontrivial {
		return
	}
	cs.sampled++
	if len(cs.Samples) < 6 {
		cs.Samples = append(cs.Samples, append(json.RawMessage(nil), raw...))
		return
	}
	h := fnv.New32a()
	h.Write(raw)
	if int(h.Sum32()%uint32(cs.sampled)) < 3 {
		cs.Samples[3+int(h.Sum32()>>8)%3] = append(json.RawMessage(nil), raw...)
	}
}

func knownHit(cs *CheckStats, property string, f Failure) {
	mu.Lock()
	defer mu.Unlock()
	cs.ExcludedKnown[f.Sig]++
	if !printed[f.Sig] {
		printed[f.Sig] = true
		what := openFindings[f.Sig].WhatFails
		fmt.Printf("KNOWN-FINDING: property=%s %s :: %s\n", property, f.Sig, what)
	}
}

// Inconclusive counts a bounded wait that expired once and did not reproduce.
func Inconclusive(check string) {
	cs := statsFor(check, "")
	mu.Lock()
	cs.Inconclusive++
	mu.Unlock()
}

// Note attaches a free-text note to a check's statistics.
func Note(check, note string) {
	cs := statsFor(check, "")
	mu.Lock()
	defer mu.Unlock()
	for _, n := range cs.Notes {
		if n == note {
			return
		}
	}
	cs.Notes = append(cs.Notes, note)
}

// ---------------------------------------------------------------- property runner

// Prop is one generated check of a property.
type Prop[C any] struct {
	ID   string // property id, e.g. "C17"
	Name string // check name, unique within the property
	Rule string // how cases are generated and what counts as non-trivial

	Gen        func(t *rapid.T) C
	Run        func(c C) Verdict
	NonTrivial func(c C) bool
	Classes    func(c C) []string

	// Gates: class name -> minimal fraction of evaluations; checked when
	// at least 50 cases ran.
	Gates map[string]float64

	// Journal: write the case to disk before running it, so that a crash of
	// the whole process still leaves a replay file.
	Journal bool
}

func (p *Prop[C]) exec(c C) (v Verdict) {
	v = p.exec1(c)
	if Shrinking() {
		return v
	}
	for _, f := range v {
		if !strings.Contains(f.Sig, "/harness/") && !strings.Contains(f.Sig, "/harness-") {
			continue
		}
		// A step of the harness itself failed (a dial, a listener, a warm-up
		// exchange, a write of its own): on a slow or loaded machine that can be
		// an accident of the moment. The case is run once more; what fails twice
		// is reported, what does not is counted as inconclusive.
		time.Sleep(300 * time.Millisecond)
		v2 := p.exec1(c)
		if len(v2) == 0 {
			Inconclusive(p.Name)
		}
		return v2
	}
	return v
}

func (p *Prop[C]) exec1(c C) (v Verdict) {
	defer func() {
		if r := recover(); r != nil {
			v = append(v, Failure{Sig: p.ID + "/panic/" + p.Name, Msg: fmt.Sprintf("panic: %v\n%s", r, debug.Stack())})
		}
	}()
	return p.Run(c)
}

type replayDoc struct {
	Property string          `json:"property"`
	Check    string          `json:"check"`
	Sig      string          `json:"sig"`
	Msg      string          `json:"msg"`
	Case     json.RawMessage `json:"case"`
}

func journalPath() string {
	if Race() { // (the race shards run next to the plain ones with the same shard numbers)
		return filepath.Join(OutDir(), fmt.Sprintf("current-race-%d.json", Shard()))
	}
	return filepath.Join(OutDir(), fmt.Sprintf("current-%d.json", Shard()))
}

func writeReplay(property, check string, f Failure, raw []byte) string {
	dir := filepath.Join(Root(), "replays")
	os.MkdirAll(dir, 0o755)
	doc := replayDoc{Property: property, Check: check, Sig: f.Sig, Msg: f.Msg, Case: raw}
	b, _ := json.MarshalIndent(doc, "", " ")
	path := filepath.Join(dir, fmt.Sprintf("%s-%s-%s.json", property, check, fingerprint(raw)))
	if err := os.WriteFile(path, b, 0o644); err != nil {
		fmt.Fprintf(os.Stderr, "kit: cannot write replay: %v\n", err)
	}
	return path
}

// unknown returns the first failure that is not an open known finding and
// accounts the known ones.
func (p *Prop[C]) triage(cs *CheckStats, v Verdict, count bool) *Failure {
	var first *Failure
	for i := range v {
		if Known(v[i].Sig) {
			if count {
				knownHit(cs, p.ID, v[i])
			}
			continue
		}
		if first == nil {
			first = &v[i]
		}
	}
	return first
}

func seedFor(name string) uint64 {
	h := fnv.New64a()
	h.Write([]byte(name))
	s := uint64(Seed())*1000003 + uint64(Shard())*7919 + h.Sum64()%100000
	if Race() {
		s += 500009 // the race shard explores other cases than shard 0
	}
	s = s%((1<<31)-1) + 1
	return s
}

var shrinking int32

// Shrinking reports whether the running Check has already found an unknown
// failure and is now minimising it. Properties with liveness-bounded waits
// skip their (slow) re-validation run while shrinking: the failure has been
// confirmed once, and the replay of the final case re-validates again.
func Shrinking() bool { return atomic.LoadInt32(&shrinking) == 1 }

// Check runs n generated cases (per process).
func (p *Prop[C]) Check(t *testing.T, n int) {
	t.Helper()
	p.register()
	cs := statsFor(p.Name, p.Rule)
	cs.Requested += n
	os.RemoveAll(filepath.Join("testdata", "rapid"))
	flag.Set("rapid.checks", strconv.Itoa(n))
	flag.Set("rapid.seed", strconv.FormatUint(seedFor(p.ID+"/"+p.Name), 10))
	flag.Set("rapid.nofailfile", "true")
	flag.Set("rapid.shrinktime", "40s")

	var (
		failed   bool
		lastRaw  []byte
		lastFail Failure
	)
	atomic.StoreInt32(&shrinking, 0)
	t.Cleanup(func() {
		atomic.StoreInt32(&shrinking, 0)
		if !failed {
			return
		}
		path := writeReplay(p.ID, p.Name, lastFail, lastRaw)
		mu.Lock()
		proc.Violations = append(proc.Violations, Violation{Check: p.Name, Sig: lastFail.Sig, Msg: lastFail.Msg, Replay: path})
		mu.Unlock()
		fmt.Printf("VIOLATION property=%s replay=%s\n", p.ID, path)
	})
	rapid.Check(t, func(rt *rapid.T) {
		c := p.Gen(rt)
		raw, err := json.Marshal(c)
		if err != nil {
			panic(fmt.Sprintf("kit: case not serialisable: %v", err))
		}
		if p.Journal || Race() {
			os.WriteFile(journalPath(), mustJSON(replayDoc{Property: p.ID, Check: p.Name, Sig: p.ID + "/crash/" + p.Name, Msg: "process died while running this case", Case: raw}), 0o644)
		}
		v := p.exec(c)
		if p.Journal || Race() {
			os.Remove(journalPath())
		}
		if !failed {
			var classes []string
			if p.Classes != nil {
				classes = p.Classes(c)
			}
			cs.account(raw, p.NonTrivial == nil || p.NonTrivial(c), classes)
		}
		if f := p.triage(cs, v, !failed); f != nil {
			failed = true
			atomic.StoreInt32(&shrinking, 1)
			lastRaw, lastFail = raw, *f
			rt.Fatalf("%s: %s", f.Sig, f.Msg)
		}
	})
	p.gate(cs)
}

func (p *Prop[C]) gate(cs *CheckStats) {
	mu.Lock()
	defer mu.Unlock()
	if cs.Evaluations < 50 {
		return
	}
	for class, min := range p.Gates {
		got := float64(cs.Classes[class]) / float64(cs.Evaluations)
		// A gate guards against a vacuous generator, not against sampling noise or
		// against a generator whose mix drifted a little when a dimension was added
		// (the declared figure is what the author observed, evaluated per process:
		// sixteen thorough shards times a dozen gates at "observed rate = declared
		// rate" is a coin that lands on inconclusive every few runs). The class
		// must reach 60% of the declared share, less four standard deviations.
		floor := 0.6 * min
		slack := 4 * math.Sqrt(floor*(1-floor)/float64(cs.Evaluations))
		if got < floor-slack {
			cs.GateFailures = append(cs.GateFailures, fmt.Sprintf("class %q is %.1f%% of cases, below the %.0f%% the generator must reach", class, got*100, min*100))
		}
	}
}

// Enumerate runs every case produced by iter (a bounded exhaustive
// enumeration, not a random draw). Shards split the space by index.
func (p *Prop[C]) Enumerate(t *testing.T, iter func(yield func(C) bool)) {
	t.Helper()
	p.register()
	cs := statsFor(p.Name, p.Rule)
	cs.Exhaustive = true
	idx := -1
	var viol *Violation
	iter(func(c C) bool {
		idx++
		if Shards() > 1 && idx%Shards() != Shard() {
			return true
		}
		cs.Requested++
		raw := mustJSON(c)
		if p.Journal || Race() {
			os.WriteFile(journalPath(), mustJSON(replayDoc{Property: p.ID, Check: p.Name, Sig: p.ID + "/crash/" + p.Name, Msg: "process died while running this case", Case: raw}), 0o644)
		}
		v := p.exec(c)
		if p.Journal || Race() {
			os.Remove(journalPath())
		}
		var classes []string
		if p.Classes != nil {
			classes = p.Classes(c)
		}
		cs.account(raw, p.NonTrivial == nil || p.NonTrivial(c), classes)
		if f := p.triage(cs, v, true); f != nil {
			path := writeReplay(p.ID, p.Name, *f, raw)
			viol = &Violation{Check: p.Name, Sig: f.Sig, Msg: f.Msg, Replay: path}
			return false
		}
		return true
	})
	if viol != nil {
		mu.Lock()
		proc.Violations = append(proc.Violations, *viol)
		mu.Unlock()
		fmt.Printf("VIOLATION property=%s replay=%s\n", p.ID, viol.Replay)
		t.Fatalf("%s: %s", viol.Sig, viol.Msg)
	}
}

// One runs a single explicit case (regressions, fixed matrices).
func (p *Prop[C]) One(t *testing.T, c C) {
	p.Enumerate(t, func(yield func(C) bool) { yield(c) })
}

func (p *Prop[C]) register() {
	mu.Lock()
	defer mu.Unlock()
	if proc.Property == "" {
		proc.Property = p.ID
	}
	replayFn[p.Name] = func(t *testing.T, raw json.RawMessage) {
		var c C
		if err := json.Unmarshal(raw, &c); err != nil {
			t.Fatalf("replay: cannot decode case: %v", err)
		}
		cs := statsFor(p.Name, p.Rule)
		var v Verdict
		for i := int64(0); i < envInt("VERIF_REPLAY_REPEAT", 1) && len(v) == 0; i++ {
			v = p.exec(c)
			cs.account(raw, true, nil)
		}
		if f := p.triage(cs, v, true); f != nil {
			fmt.Printf("VIOLATION property=%s replay=%s\n", p.ID, os.Getenv("VERIF_REPLAY"))
			mu.Lock()
			proc.Violations = append(proc.Violations, Violation{Check: p.Name, Sig: f.Sig, Msg: f.Msg, Replay: os.Getenv("VERIF_REPLAY")})
			mu.Unlock()
			t.Fatalf("%s: %s", f.Sig, f.Msg)
		}
	}
}

// Registrar is implemented by every Prop; packages list their props so that
// TestReplay can find them without running them.
type Registrar interface{ register() }

// Replay executes the case stored in $VERIF_REPLAY, bypassing rapid.
func Replay(t *testing.T, props ...Registrar) {
	path := os.Getenv("VERIF_REPLAY")
	if path == "" {
		t.Skip("no VERIF_REPLAY")
	}
	for _, p := range props {
		p.register()
	}
	b, err := os.ReadFile(path)
	if err != nil {
		t.Fatalf("replay: %v", err)
	}
	var doc replayDoc
	if err := json.Unmarshal(b, &doc); err != nil {
		t.Fatalf("replay: %v", err)
	}
	fn := replayFn[doc.Check]
	if fn == nil {
		var names []string
		for n := range replayFn {
			names = append(names, n)
		}
		sort.Strings(names)
		t.Fatalf("replay: unknown check %q (have %s)", doc.Check, strings.Join(names, ","))
	}
	fn(t, doc.Case)
}

func mustJSON(v interface{}) []byte {
	b, err := json.Marshal(v)
	if err != nil {
		panic(err)
	}
	return b
}

// Main wraps testing.M: runs the tests and dumps this process's statistics.
func Main(m *testing.M, property string) {
	proc.Property = property
	code := m.Run()
	dump()
	os.Exit(code)
}

func dump() {
	mu.Lock()
	defer mu.Unlock()
	proc.Tier, proc.Seed, proc.Shard, proc.Race = Tier(), Seed(), Shard(), Race()
	proc.WallS = time.Since(started).Seconds()
	for _, cs := range proc.Checks {
		cs.NonTrivial = cs.NonTrivial[:0]
		for fp := range cs.nt {
			cs.NonTrivial = append(cs.NonTrivial, fp)
		}
		sort.Strings(cs.NonTrivial)
	}
	name := fmt.Sprintf("stats-%d.json", Shard())
	if Race() {
		name = fmt.Sprintf("stats-race-%d.json", Shard())
	}
	if f := os.Getenv("VERIF_STATS_NAME"); f != "" {
		name = f
	}
	b, _ := json.MarshalIndent(proc, "", " ")
	if err := os.WriteFile(filepath.Join(OutDir(), name), b, 0o644); err != nil {
		fmt.Fprintf(os.Stderr, "kit: cannot write stats: %v\n", err)
	}
}

// FuzzAccount lets native fuzz bodies and seed-corpus replays contribute to
// the statistics of a named check.
func FuzzAccount(check, rule string, input []byte, nontrivial bool, classes ...string) {
	cs := statsFor(check, rule)
	raw := mustJSON(map[string]interface{}{"fuzz_input_hex": hex.EncodeToString(trunc(input, 256)), "len": len(input)})
	cs.account(raw, nontrivial, classes)
}

// FuzzFail triages a failure found by a fuzz body: known findings are counted
// and swallowed, anything else fails the fuzz target. Under native fuzzing the
// fuzzer saves the input (the replay file); when the body runs as a plain test
// (seed corpus, saved regressions) the input is written out in the fuzzer's
// corpus format and recorded as a violation.
func FuzzFail(t *testing.T, property, check, target string, v Verdict, args ...interface{}) {
	cs := statsFor(check, "")
	for _, f := range v {
		if Known(f.Sig) {
			knownHit(cs, property, f)
			continue
		}
		var sb strings.Builder
		sb.WriteString("go test fuzz v1\n")
		for _, a := range args {
			switch x := a.(type) {
			case []byte:
				fmt.Fprintf(&sb, "[]byte(%q)\n", x)
			case string:
				fmt.Fprintf(&sb, "string(%q)\n", x)
			default:
				fmt.Fprintf(&sb, "%T(%v)\n", a, a)
			}
		}
		body := []byte(sb.String())
		dir := filepath.Join(Root(), "replays")
		os.MkdirAll(dir, 0o755)
		path := filepath.Join(dir, fmt.Sprintf("%s-fuzz-%s-%s", property, target, fingerprint(body)))
		os.WriteFile(path, body, 0o644)
		mu.Lock()
		proc.Violations = append(proc.Violations, Violation{Check: check, Sig: f.Sig, Msg: f.Msg, Replay: path})
		mu.Unlock()
		fmt.Printf("VIOLATION property=%s replay=%s\n", property, path)
		t.Fatalf("%s: %s", f.Sig, f.Msg)
	}
}

func trunc(b []byte, n int) []byte {
	if len(b) > n {
		return b[:n]
	}
	return b
}

// Register makes props known to TestReplay from an init function (for props
// that live in a file of their own).
func Register(props ...Registrar) {
	for _, p := range props {
		p.register()
	}
}
