package kit
