module verifharness

go 1.23

toolchain go1.23.5

require (
	github.com/golang/snappy v0.0.3
	github.com/google/martian/v3 v3.0.0
	golang.org/x/net v0.0.0-20190628185345-da137c7871d7
	pgregory.net/rapid v1.3.0
)

require golang.org/x/text v0.3.0 // indirect

replace github.com/google/martian/v3 => /repo
