// Package c10 decides property C10: the HTTP/2 relay terminates and releases
// both connections whichever side ends.
package c10

import (
	"context"
	"encoding/json"
	"errors"
	"fmt"
	"github.com/google/martian/v3/h2"
	"os"
	"os/exec"
	"regexp"
	"runtime"
	"runtime/debug"
	"strings"
	"testing"
	"time"

	"pgregory.net/rapid"

	"verifharness/internal/kit"
	"verifharness/props/h2kit"
)

func TestMain(m *testing.M) {
	if raw := os.Getenv("C10_CHILD_CASE"); raw != "" {
		childMain(raw)
		return
	}
	kit.Main(m, "C10")
}

// Case is one session brought into State, then ended by Event.
//
// State: blocked-c2s-reset / blocked-s2c-reset (as blocked-c2s / blocked-s2c; the sender then
// resets the stream whose DATA waits for the receiver's window - a cancelled upload or
// download - and sends one more frame, a PRIORITY frame for the next stream; ended by
// client-close, server-close or closing) | grpc-partial (the relay runs the library's gRPC adapter around pass-through
// processors; on a gRPC stream the client has sent one complete message and the first 3
// octets of the next one's length prefix; ended by client-close, server-close or closing) |
// blocked-s2c-bulk (as blocked-s2c, but the server, which gets its credit back from
// the relay, has sent 1.5 MB on the stream and all of it waits for the client's window;
// ended by client-close, server-close or closing) | early-credit (as mid; the client then opens stream 3 and widens its window at
// once, before anything has been relayed toward it on that stream, and the server
// answers stream 3 afterwards) | burst (300 short complete requests, HEADERS with
// END_STREAM, sent back to back by the client and answered one by one by the server as
// they arrive; the state does not wait for the answers beyond half the bound) |
// backedup-s2c-upload (as backedup-s2c, and the client, which does not read, then
// uploads a DATA frame: the relay's client-to-server reader wants to return credit for it
// and waits for the write lock that the stuck server-to-client writer holds - now neither
// reader is in a position to see anything; only closing and server-close apply) |
// dialing (the upstream has accepted the TCP connection but does not answer the TLS
// handshake: Config.Proxy is still inside its dial; only closing and client-close apply) |
// queued-s2c (40 DATA frames of the server wait in the relay behind the client's
// zero stream window: more than the relay's output channel holds) | idle-no-alpn (as idle, but the upstream completed the TLS handshake without
// selecting an application protocol; whatever the relay makes of that, both connections
// must be released when Proxy returns) | handshake (the relay has dialled the server; the client has not sent its
// preface yet - only bad-preface and client-close apply) | idle (SETTINGS exchanged) | mid (one stream open, data exchanged both
// ways) | blocked-c2s / blocked-s2c (DATA and trailers queued in the relay
// behind the receiver's zero stream window) | backedup-c2s / backedup-s2c (the
// receiver stopped reading while bulk data is relayed to it: the relay's
// writer is stuck in a write and its output channel is full).
//
// Event: bad-preface (24 octets that are not the connection preface) | closing-first
// (state handshake: the closing channel is already closed when Config.Proxy is called;
// the client then sends a correct preface) | server-close-slow-client (state mid: the
// client's receive path stalls while the relay's writer delivers a DATA frame to it, the
// server closes meanwhile, then the client's path recovers) | client-close
// (in state handshake: after 10 of the 24 preface octets) | server-close (TLS close) | server-reset (TCP RST) |
// client-write-fail (writes toward the client start failing) |
// client-read-deadline (the read deadline of the client connection passes: every read by
// the relay now fails at once with a timeout error; 50 ms later the client closes) |
// client-ack-write-fail (the client's receive path stalls and then dies exactly
// while the relay returns window credit for DATA the client is uploading, and
// the server has a frame for the client at that moment) |
// client-proto-error | server-proto-error (Variant says which malformed frame) |
// closing (the proxy's closing channel is closed).
//
// Traffic: after the event the surviving endpoint keeps sending, so that the
// relay direction toward the side that went away also gets to notice.
type Case struct {
	State   string `json:"state"`
	Event   string `json:"event"`
	Variant string `json:"variant,omitempty"`
	Traffic bool   `json:"traffic,omitempty"`
	Procs   int    `json:"procs,omitempty"`
}

var collect = os.Getenv("C10_COLLECT") != ""

var (
	states   = []string{"dialing", "handshake", "idle-no-alpn", "queued-s2c", "idle", "mid", "blocked-c2s", "blocked-s2c", "backedup-c2s", "backedup-s2c", "backedup-s2c-upload", "early-credit", "burst", "blocked-s2c-bulk", "grpc-partial", "blocked-c2s-reset", "blocked-s2c-reset"}
	events   = []string{"bad-preface", "closing-first", "server-close-slow-client", "server-close-slow-client-credit", "server-close-slow-client-credit-close", "client-close", "server-close", "server-reset", "client-write-fail", "client-read-deadline", "client-ack-write-fail", "client-proto-error", "server-proto-error", "closing"}
	variants = []string{"continuation-without-headers", "bad-padding", "settings-bad-length", "max-frame-size-zero", "settings-invalid-value"}

	h2RE = regexp.MustCompile(`github\.com/google/martian/v3/h2\.`)
)

// valid excludes events that the relay cannot perceive in the state: a
// malformed frame from the side whose frames the relay has stopped reading
// (its reader is parked on the full output channel) never reaches it.
// isolated cases run in a process of their own: what they can set off in the relay
// (a loop that allocates without bound) cannot be stopped from outside and would take
// the whole check down with it.
func isolated(c Case) bool { return c.Variant == "max-frame-size-zero" }

func valid(c Case) bool {
	if (c.Variant == "max-frame-size-zero" || c.Variant == "settings-invalid-value") && c.State != "mid" {
		return false // needs an open stream on which the other side sends DATA
	}
	if c.Event == "server-close-slow-client" && c.State != "mid" {
		return false
	}
	credit := c.Event == "server-close-slow-client-credit" || c.Event == "server-close-slow-client-credit-close"
	if credit != (c.State == "queued-s2c") && !(c.State == "queued-s2c" && (c.Event == "server-close" || c.Event == "closing")) {
		return false
	}
	if c.State == "idle-no-alpn" && c.Event != "client-close" && c.Event != "server-close" && c.Event != "closing" {
		return false // three ways to end it are enough for this variant of idle
	}
	if c.State == "dialing" {
		return c.Event == "closing" || c.Event == "client-close"
	}
	if c.State == "backedup-s2c-upload" {
		return c.Event == "closing" || c.Event == "server-close"
	}
	if c.State == "early-credit" || c.State == "burst" || c.State == "blocked-s2c-bulk" || c.State == "grpc-partial" || c.State == "blocked-c2s-reset" || c.State == "blocked-s2c-reset" {
		return c.Event == "client-close" || c.Event == "server-close" || c.Event == "closing"
	}
	if (c.State == "handshake") != (c.Event == "bad-preface" || c.Event == "closing-first" || (c.State == "handshake" && (c.Event == "client-close" || c.Event == "closing"))) {
		return false // before the preface only the client can end the session, and only then can the preface be wrong
	}
	if c.Event == "client-ack-write-fail" && c.State != "mid" && c.State != "blocked-s2c" {
		return false // needs a stream the client may still upload on and a relay that is still reading
	}
	if c.State == "backedup-s2c" && c.Event == "server-proto-error" {
		return false
	}
	if c.State == "backedup-c2s" && (c.Event == "client-proto-error" || c.Event == "client-read-deadline") {
		return false // (the parked reader does not read: same situation as the open backedup-c2s+client-close finding)
	}
	return true
}

func normalise(c Case) Case {
	if c.Event != "client-proto-error" && c.Event != "server-proto-error" {
		c.Variant = ""
	} else if c.Variant == "" {
		c.Variant = variants[0]
	}
	if c.Event == "client-write-fail" {
		c.Traffic = true // a failing write is only noticed when something is written
	}
	if c.Variant == "max-frame-size-zero" || c.Variant == "settings-invalid-value" {
		c.Traffic = true // the value only matters once the other side sends DATA toward its author
	}
	if c.State == "handshake" || c.State == "dialing" {
		c.Traffic = false // there is no session to send on
	}
	return c
}

var reqFields = []h2kit.Field{{N: ":method", V: "POST"}, {N: ":scheme", V: "https"}, {N: ":path", V: "/svc/Method"}, {N: ":authority", V: "example.com"}}

// arrange brings the session into the state. It returns a description of what
// went wrong, or "".
func arrange(c Case, s *h2kit.Session, bound time.Duration) string {
	cl, sv := s.Client, s.Server
	wide := []h2kit.Setting{{ID: 4, Val: 1 << 30}}
	var cInit, sInit []h2kit.Setting
	switch c.State {
	case "blocked-c2s":
		sInit = []h2kit.Setting{{ID: 4, Val: 0}}
		cl.SetAutoAck(false) // the client has not processed the server's SETTINGS yet
	case "blocked-c2s-reset":
		sInit = []h2kit.Setting{{ID: 4, Val: 0}}
		cl.SetAutoAck(false)
	case "blocked-s2c", "queued-s2c", "blocked-s2c-bulk", "blocked-s2c-reset":
		cInit = []h2kit.Setting{{ID: 4, Val: 0}}
		sv.SetAutoAck(false)
	case "backedup-c2s":
		sInit = wide
	case "backedup-s2c", "backedup-s2c-upload":
		cInit = wide
	case "mid", "early-credit":
		cl.SetAutoWU(true)
		sv.SetAutoWU(true)
	}
	cl.WritePreface()
	cl.WriteSettings(cInit...)
	sv.WriteSettings(sInit...)
	// nothing may still be on its way when the event happens: also wait for the
	// acknowledgements (none from a side that has not processed SETTINGS yet)
	svAcks, clAcks := 1, 1
	if c.State == "blocked-c2s" || c.State == "blocked-c2s-reset" {
		svAcks = 0
	}
	if c.State == "blocked-s2c" || c.State == "queued-s2c" || c.State == "blocked-s2c-bulk" || c.State == "blocked-s2c-reset" {
		clAcks = 0
	}
	if !sv.Wait(bound, func(r *h2kit.Rec) bool { return (r.PrefaceOK && len(r.Settings) >= 1 && r.Acks >= svAcks) || r.Done }) ||
		!cl.Wait(bound, func(r *h2kit.Rec) bool { return (len(r.Settings) >= 1 && r.Acks >= clAcks) || r.Done }) {
		return "preface, SETTINGS and acknowledgements were not forwarded"
	}
	if c.State == "idle" || c.State == "idle-no-alpn" {
		return ""
	}
	if c.State == "grpc-partial" {
		cl.WriteHeaders(h2kit.HeadersSpec{Stream: 1, Pad: -1, Fields: append(append([]h2kit.Field(nil), reqFields...), h2kit.Field{N: "content-type", V: "application/grpc"}, h2kit.Field{N: "te", V: "trailers"})})
		msg := append([]byte{0, 0, 0, 0, 7}, kit.Bytes(1, 7)...)
		cl.WriteData(1, msg, -1, false)
		if !sv.Wait(bound, func(r *h2kit.Rec) bool { return r.DataBytes[1] >= len(msg) || r.Done }) {
			return "the first gRPC message was not forwarded"
		}
		cl.WriteData(1, []byte{0, 0, 0}, -1, false) // the next message's prefix, so far
		kit.Eventually(bound, func() bool { return s.Duplex.Pending() == 0 })
		time.Sleep(20 * time.Millisecond) // (sets the scene: the adapter has the three octets)
		return ""
	}
	if c.State == "burst" {
		const n = 300
		stop := make(chan struct{})
		defer close(stop)
		go func() { // the server answers every request it sees
			answered := map[uint32]bool{}
			for {
				var todo []uint32
				sv.Wait(50*time.Millisecond, func(r *h2kit.Rec) bool {
					todo = todo[:0]
					for id := range r.Streams {
						if !answered[id] {
							todo = append(todo, id)
						}
					}
					return len(todo) > 0 || r.Done
				})
				for _, id := range todo {
					answered[id] = true
					sv.WriteHeaders(h2kit.HeadersSpec{Stream: id, Pad: -1, EndStream: true, Fields: []h2kit.Field{{N: ":status", V: "204"}}})
				}
				select {
				case <-stop:
					return
				default:
				}
			}
		}()
		for k := 0; k < n; k++ {
			cl.WriteHeaders(h2kit.HeadersSpec{Stream: uint32(2*k + 1), Pad: -1, EndStream: true, Fields: reqFields})
		}
		// (whether every answer arrives is C08's business; here the session only has to be in
		// the middle or at the end of the burst when the event comes)
		cl.Wait(bound/2, func(r *h2kit.Rec) bool { return len(r.Streams) >= n || r.Done })
		return ""
	}
	cl.WriteHeaders(h2kit.HeadersSpec{Stream: 1, Pad: -1, Fields: reqFields})
	if !sv.Wait(bound, func(r *h2kit.Rec) bool { return len(r.Streams[1]) >= 1 || r.Done }) {
		return "request HEADERS were not forwarded"
	}
	sv.WriteHeaders(h2kit.HeadersSpec{Stream: 1, Pad: -1, Fields: []h2kit.Field{{N: ":status", V: "200"}}})
	if !cl.Wait(bound, func(r *h2kit.Rec) bool { return len(r.Streams[1]) >= 1 || r.Done }) {
		return "response HEADERS were not forwarded"
	}
	switch c.State {
	case "mid", "early-credit":
		cl.WriteData(1, kit.Bytes(1, 1000), -1, false)
		sv.WriteData(1, kit.Bytes(2, 1000), -1, false)
		if !sv.Wait(bound, func(r *h2kit.Rec) bool { return r.DataBytes[1] >= 1000 || r.Done }) ||
			!cl.Wait(bound, func(r *h2kit.Rec) bool { return r.DataBytes[1] >= 1000 || r.Done }) {
			return "DATA was not forwarded"
		}
		if c.State == "early-credit" {
			cl.WriteHeaders(h2kit.HeadersSpec{Stream: 3, Pad: -1, Fields: reqFields})
			cl.WriteWindowUpdate(3, 100000) // nothing has been relayed toward the client on stream 3 yet
			if !sv.Wait(bound, func(r *h2kit.Rec) bool { return len(r.Streams[3]) >= 1 || r.Done }) {
				return "request HEADERS of stream 3 were not forwarded"
			}
			sv.WriteHeaders(h2kit.HeadersSpec{Stream: 3, Pad: -1, Fields: []h2kit.Field{{N: ":status", V: "200"}}})
			sv.WriteData(3, kit.Bytes(4, 1000), -1, false)
			// (not waited for: a relay that chokes here has to end the session all the same)
			cl.Wait(bound/6, func(r *h2kit.Rec) bool { return r.DataBytes[3] >= 1000 || r.Done })
		}
	case "blocked-c2s", "blocked-s2c", "queued-s2c", "blocked-s2c-bulk", "blocked-c2s-reset", "blocked-s2c-reset":
		S, R := cl, sv
		if c.State != "blocked-c2s" && c.State != "blocked-c2s-reset" {
			S, R = sv, cl
		}
		if c.State == "blocked-s2c-bulk" {
			// as fast as the relay takes it (it returns the credit for what it accepts); a relay
			// that stops taking more at some point is no reason to wait longer
			S.SendBulk(1, 16384, 1500000, 300*time.Millisecond)
		} else if c.State == "queued-s2c" {
			for i := 0; i < 40; i++ {
				S.WriteData(1, kit.Bytes(uint64(i), 100), -1, false)
			}
		} else {
			for i := 0; i < 3; i++ {
				S.WriteData(1, kit.Bytes(uint64(i), 1000), -1, false)
			}
			if c.State != "blocked-c2s-reset" && c.State != "blocked-s2c-reset" {
				S.WriteHeaders(h2kit.HeadersSpec{Stream: 1, Pad: -1, EndStream: true, Fields: []h2kit.Field{{N: "x-trail", V: "1"}}})
			}
		}
		S.WritePing(false, h2kit.MarkerPing(1))
		if c.State == "blocked-s2c-bulk" {
			// (no barrier here: whether the relay still forwards anything at this point is
			// not the question of this property; the session has to end all the same)
			R.Wait(bound/6, func(r *h2kit.Rec) bool { return r.HasMarker(1) || r.Done })
		} else if !R.Wait(bound, func(r *h2kit.Rec) bool { return r.HasMarker(1) || r.Done }) {
			return "barrier PING was not forwarded"
		}
		held := false
		R.With(func(r *h2kit.Rec) { held = r.DataBytes[1] == 0 })
		if !held {
			return "DATA passed a zero window"
		}
		if c.State == "blocked-c2s-reset" || c.State == "blocked-s2c-reset" {
			S.WriteRST(1, 8)                           // the transfer is cancelled while its DATA waits in the relay
			S.WritePriority(3, h2kit.Prio{Weight: 10}) // and the sender goes on to the next stream
			R.Wait(bound/6, func(r *h2kit.Rec) bool { return len(r.Streams[3]) > 0 || r.Done })
		}
	case "backedup-c2s", "backedup-s2c", "backedup-s2c-upload":
		S, R := cl, sv
		if c.State != "backedup-c2s" {
			S, R = sv, cl
		}
		R.WriteWindowUpdate(0, 1<<30)
		R.WritePing(false, h2kit.MarkerPing(1))
		if !S.Wait(bound, func(r *h2kit.Rec) bool { return r.HasMarker(1) || r.Done }) {
			return "barrier PING was not forwarded"
		}
		R.Pause()
		// until the relay stops returning credit (its reader is parked), at most 32 MiB
		S.SendBulk(1, 16384, 32<<20, 300*time.Millisecond)
		if c.State == "backedup-s2c-upload" {
			cl.WriteData(1, kit.Bytes(3, 1000), -1, false)
			kit.Eventually(bound, func() bool { return s.Duplex.Pending() == 0 })
			time.Sleep(50 * time.Millisecond) // (sets the scene: the relay has read the frame)
		}
	}
	return ""
}

func malformed(ep *h2kit.Endpoint, variant string) {
	switch variant {
	case "continuation-without-headers":
		ep.WriteRaw(0x9, 0x4, 1, []byte{0x82})
	case "bad-padding":
		ep.WriteRaw(0x0, 0x8, 1, []byte{200, 'a'})
	case "settings-bad-length":
		ep.WriteRaw(0x4, 0, 0, []byte{0, 4, 0, 0, 1})
	case "settings-invalid-value":
		// well-formed SETTINGS frame, SETTINGS_ENABLE_PUSH = 7 (only 0 and 1 are allowed: a
		// connection error PROTOCOL_ERROR); the framer lets it through
		ep.WriteRaw(0x4, 0, 0, []byte{0, 2, 0, 0, 0, 7})
	case "max-frame-size-zero":
		// well-formed SETTINGS frame, invalid value (RFC 7540 6.5.2: values below 16 384
		// are a connection error PROTOCOL_ERROR)
		ep.WriteRaw(0x4, 0, 0, []byte{0, 5, 0, 0, 0, 0})
	}
}

func keepSending(ep *h2kit.Endpoint, c Case) {
	ep.WritePing(false, [8]byte{1, 2, 3, 4, 5, 6, 7, 8})
	if c.State != "idle" {
		ep.WriteData(1, kit.Bytes(9, 100), -1, false)
	}
	ep.WritePing(false, [8]byte{2, 2, 3, 4, 5, 6, 7, 8})
}

func cell(c Case) string {
	if c.Variant == "max-frame-size-zero" {
		// this one is not like the other malformed frames: the framer lets it through
		return c.State + "+" + strings.Replace(c.Event, "proto-error", "settings-max-frame-size-zero", 1)
	}
	return c.State + "+" + c.Event
}

// runOnce executes the case; slow reports that a bounded wait expired.
func runOnce(c Case, bound time.Duration) (v kit.Verdict, slow bool) {
	c = normalise(c)
	base := kit.GoroutinesMatching(h2RE)
	o := h2kit.Options{Factories: h2kit.Factories(c.Procs), Bound: bound}
	if c.State == "backedup-s2c" || c.State == "backedup-s2c-upload" {
		o.OutLimit = 32 << 10
	}
	if c.State == "backedup-c2s" {
		o.ServerRcvBuf = 8 << 10
	}
	if c.State == "grpc-partial" {
		o.Factories = []h2.StreamProcessorFactory{h2kit.GRPCFactory()}
	}
	o.PreClosed = c.Event == "closing-first"
	o.NoALPN = c.State == "idle-no-alpn"
	o.NoHandshake = c.State == "dialing"
	// A connection that is merely dropped is closed by its finalizer at some later
	// garbage collection; that is not "closed when Proxy returns". Collections are
	// held off until the upstream connection has been looked at.
	gc := debug.SetGCPercent(-1)
	restoreGC := func() {
		if gc != -2 {
			debug.SetGCPercent(gc)
			gc = -2
		}
	}
	defer restoreGC()
	s, err := h2kit.Open(o)
	if err != nil {
		if c.Event == "closing-first" && errors.Is(err, h2kit.ErrProxyReturned) {
			// shut down before it started: returning without ever connecting is an answer too
			if !kit.Eventually(bound, func() bool { return kit.GoroutinesMatching(h2RE) <= base }) {
				return kit.Failf("C10/goroutines/"+cell(c)+"/session-goroutines-remain", "Config.Proxy returned at once (%v) but %d goroutine(s) of the session remain: %s", err, kit.GoroutinesMatching(h2RE)-base, blockedAt()), true
			}
			return nil, false
		}
		return kit.Failf("C10/setup/"+c.State+"/relay-did-not-connect", "%v", err), true
	}
	defer s.Teardown(bound)
	// early: Config.Proxy gave the session up on its own before the event. That is its
	// right (for instance when it does not like what the upstream negotiated), but the
	// connections must be released all the same.
	early, earlyErr := false, error(nil)
	if c.State == "handshake" || c.State == "dialing" {
		// nothing to arrange: Open has seen the relay's upstream connection
	} else if msg := arrange(c, s, bound); msg != "" {
		if early, earlyErr = s.ProxyReturned(0); !early {
			return kit.Failf("C10/setup/"+c.State+"/state-not-reached", "%s within %v", msg, bound), true
		}
	}
	if ret, perr := s.ProxyReturned(0); ret {
		early, earlyErr = true, perr
	}
	if early && c.State != "idle-no-alpn" && c.Event != "closing-first" {
		// (closing-first: the channel was closed before the call; giving up at any point of the
		// setup, also after the upstream connection stands, is the expected answer)
		v.Addf("C10/setup/"+c.State+"/proxy-returned-early", "Config.Proxy returned while the session was being set up: %v", earlyErr)
	}

	// the terminating event
	cl, sv := s.Client, s.Server
	event := c.Event
	if early {
		event = "" // the session is over already
	}
	switch event {
	case "closing-first":
		// the channel was closed before Proxy was called; the session itself starts normally
		cl.WritePreface()
		cl.WriteSettings()
		sv.WriteSettings()
	case "server-close-slow-client":
		// The relay's server-to-client writer is inside the write of a DATA frame that
		// the client is slow to take; its reader is free and sees the server go away.
		s.Duplex.StallRelayWrites()
		sv.WriteData(1, kit.Bytes(5, 1000), -1, false)
		kit.Eventually(bound, func() bool { return s.Duplex.StalledWrites() >= 1 })
		s.ServerTLS().Close()
		time.Sleep(100 * time.Millisecond) // sets the scene only: the reader has seen the end by now
		s.Duplex.ResumeRelayWrites()
	case "server-close-slow-client-credit", "server-close-slow-client-credit-close":
		s.Duplex.StallRelayWrites()
		sv.WritePriority(3, h2kit.Prio{Weight: 1}) // one frame for the writer to get stuck on
		kit.Eventually(bound, func() bool { return s.Duplex.StalledWrites() >= 1 })
		s.ServerTLS().Close()
		time.Sleep(100 * time.Millisecond) // (sets the scene: the server-to-client reader has seen the end)
		cl.WriteWindowUpdate(1, 1<<20)     // 40 frames become eligible; the output channel holds 15
		kit.Eventually(bound, func() bool { return s.Duplex.Pending() == 0 })
		time.Sleep(50 * time.Millisecond)
		if event == "server-close-slow-client-credit" {
			s.Duplex.ResumeRelayWrites()
		} else {
			s.Duplex.HarnessSide().Close()
		}
	case "bad-preface":
		s.Duplex.HarnessSide().Write([]byte("GET / HTTP/1.1\r\nHost: x\r\n\r\n"))
	case "client-close":
		if c.State == "handshake" {
			s.Duplex.HarnessSide().Write([]byte(h2kit.Preface[:10]))
		}
		s.Duplex.HarnessSide().Close()
	case "server-close":
		s.ServerTLS().Close()
	case "server-reset":
		s.ServerTCP().SetLinger(0)
		s.ServerTCP().Close()
	case "client-write-fail":
		s.Duplex.FailRelayWrites()
	case "client-read-deadline":
		s.Duplex.ExpireRelayReads()
		time.Sleep(50 * time.Millisecond)
		s.Duplex.HarnessSide().Close()
	case "client-ack-write-fail":
		// Writes toward the client stall. The client uploads one DATA frame: the
		// relay's client-to-server side blocks in the write of the first
		// WINDOW_UPDATE it owes the client. Meanwhile the server sends frames for the
		// client (one written by the relay's reader itself, one through its writer
		// goroutine). Then the stalled write fails, as do all later ones.
		s.Duplex.StallRelayWrites()
		cl.WriteData(1, kit.Bytes(7, 2000), -1, false)
		kit.Eventually(bound, func() bool { return s.Duplex.Pending() == 0 })
		sv.WritePing(false, [8]byte{9, 9, 9, 9, 9, 9, 9, 9})
		if c.State != "blocked-s2c" {
			sv.WriteHeaders(h2kit.HeadersSpec{Stream: 1, Pad: -1, Fields: []h2kit.Field{{N: ":status", V: "100"}}})
		}
		// give the relay the time to read them; this establishes the state, it is not
		// part of the oracle (read too late, the case is merely a plain write failure)
		time.Sleep(100 * time.Millisecond)
		s.Duplex.FailRelayWrites()
	case "client-proto-error", "server-proto-error":
		bad, other := cl, sv
		if event == "server-proto-error" {
			bad, other = sv, cl
		}
		if c.Variant == "settings-invalid-value" {
			// the other side is in the middle of a body: a dense run of small DATA frames
			// before and after the offending frame
			for i := 0; i < 100; i++ {
				other.WriteData(1, []byte{byte(i)}, -1, false)
			}
			// ... and the offender itself has frames under way that the relay is still writing out
			for i := 0; i < 60; i++ {
				bad.WriteData(1, []byte{byte(i)}, -1, false)
			}
			malformed(bad, c.Variant)
			for i := 0; i < 100; i++ {
				other.WriteData(1, []byte{byte(i)}, -1, false)
			}
		} else {
			malformed(bad, c.Variant)
		}
	case "closing":
		s.CloseClosing()
	}
	if c.Traffic && !early {
		switch c.Event {
		case "client-close", "client-write-fail", "client-read-deadline", "client-ack-write-fail", "client-proto-error":
			go keepSending(sv, c)
		case "server-close", "server-reset", "server-proto-error", "server-close-slow-client", "server-close-slow-client-credit":
			go keepSending(cl, c)
		default:
			go keepSending(sv, c)
			go keepSending(cl, c)
		}
	}

	// A cell whose hang is already an open finding is not waited for at length:
	// the failure would be excluded anyway, and a return inside the short wait
	// still counts as the property holding for this case.
	retSig := "C10/return/" + cell(c) + "/proxy-does-not-return"
	upSig := "C10/upstream/" + cell(c) + "/left-open-after-return"
	retBound, upBound := bound, bound
	if kit.Known(retSig) {
		retBound = bound / 6
	}
	if kit.Known(upSig) {
		upBound = bound / 6
	}
	returned, _ := s.ProxyReturned(retBound)
	if !returned {
		return kit.Failf(retSig, "state %s, event %s%s: Config.Proxy had not returned %v after the event; relay goroutines: %s", c.State, c.Event, vsuffix(c), retBound, blockedAt()), true
	}
	// the caller of Proxy (martian's connection handler) now closes the client connection
	s.Duplex.RelaySide().Close()

	if !kit.Eventually(upBound, func() bool { open, _, ok := s.UpstreamOpen(); return ok && !open }) {
		_, st, ok := s.UpstreamOpen()
		if !ok {
			kit.Note("matrix", "/proc/net/tcp unreadable: upstream closure judged by the server's read side only")
			if !sv.Wait(bound, func(r *h2kit.Rec) bool { return r.Done }) {
				v.Addf(upSig, "state %s, event %s: Config.Proxy returned but the server never saw its connection end", c.State, c.Event)
				slow = true
			}
		} else {
			v.Addf(upSig, "state %s, event %s%s: Config.Proxy returned but the connection it dialled is still %s %v later", c.State, c.Event, vsuffix(c), st, upBound)
			slow = true
		}
	}
	restoreGC()
	if len(v) > 0 {
		// The goroutine reading from the connection that was left open is part of
		// that defect. The harness now ends the server side itself; what remains
		// after that is a leak of its own.
		s.ServerTCP().SetLinger(0)
		s.ServerTCP().Close()
	}
	if !kit.Eventually(bound, func() bool { return kit.GoroutinesMatching(h2RE) <= base }) {
		v.Addf("C10/goroutines/"+cell(c)+"/session-goroutines-remain", "state %s, event %s%s: %d goroutine(s) of the session still exist %v after Config.Proxy returned and both connections were closed: %s", c.State, c.Event, vsuffix(c), kit.GoroutinesMatching(h2RE)-base, bound, blockedAt())
		slow = true
	}
	return v, slow
}

func vsuffix(c Case) string {
	s := ""
	if c.Variant != "" {
		s += " (" + c.Variant + ")"
	}
	if c.Traffic {
		s += " with the other side still sending"
	}
	return s
}

var lineRE = regexp.MustCompile(`h2/([a-z_]+\.go:\d+)`)

// blockedAt summarises where the relay's goroutines are parked.
func blockedAt() string {
	dump := kit.GoroutineDump(h2RE)
	seen := map[string]int{}
	var order []string
	for _, g := range regexp.MustCompile(`\n\n`).Split(dump, -1) {
		m := lineRE.FindStringSubmatch(g)
		if m == nil {
			continue
		}
		if seen[m[1]] == 0 {
			order = append(order, m[1])
		}
		seen[m[1]]++
	}
	out := ""
	for _, k := range order {
		out += fmt.Sprintf("%s x%d; ", k, seen[k])
	}
	if len(out) > 300 {
		out = out[:300]
	}
	return out
}

var patience h2kit.Patience

func run(c Case) kit.Verdict {
	h2kit.ShortShrink()
	bound, revalidate := patience.Bound()
	once := runOnce
	if isolated(normalise(c)) {
		once = runInChild
	}
	v, slow := once(c, bound)
	if !slow {
		return v
	}
	// a wait expired. Known findings are accepted as they are; anything else is
	// repeated once, alone, with three times the bound.
	allKnown := len(v) > 0
	for _, f := range v {
		if !kit.Known(f.Sig) {
			allKnown = false
		}
	}
	if allKnown {
		return v
	}
	if !revalidate {
		patience.Spent(bound)
		return v
	}
	v2, slow2 := once(c, 3*bound)
	if !slow2 {
		kit.Inconclusive("matrix")
	} else if len(v2) > 0 {
		patience.Confirm()
	}
	return v2
}

func classes(c Case) []string {
	c = normalise(c)
	out := []string{"state:" + c.State, "event:" + c.Event}
	if c.Traffic {
		out = append(out, "other-side-keeps-sending")
	}
	if c.Variant != "" {
		out = append(out, "malformed:"+c.Variant)
	}
	if c.Procs > 0 {
		out = append(out, "stream-processors")
	}
	return out
}

func nontrivial(c Case) bool { return c.State != "idle" || c.Event != "closing" }

const rule = "a relay session is brought into a state (idle, mid-stream, DATA+trailers queued behind a zero window in either direction, writer backed up toward either side) and ended by one event (client close, server TLS close, server TCP reset, failing writes toward the client, a malformed frame from either side, the closing channel), optionally with the surviving side still sending; Config.Proxy must return within T, the dialled upstream connection must then be closed (/proc/net/tcp), and no goroutine with a martian h2 frame may remain once the caller has closed the client connection; non-trivial = any state other than idle or any event other than closing"

var propMatrix = &kit.Prop[Case]{
	ID: "C10", Name: "matrix", Rule: "ALL state x event cells: " + rule,
	Run: run, NonTrivial: nontrivial, Classes: classes,
}

var propRandom = &kit.Prop[Case]{
	ID: "C10", Name: "random", Rule: "rapid-drawn: " + rule,
	Run: run, NonTrivial: nontrivial, Classes: classes,
	Gen: func(t *rapid.T) Case {
		for {
			c := Case{
				State:   rapid.SampledFrom(states).Draw(t, "state"),
				Event:   rapid.SampledFrom(events).Draw(t, "event"),
				Variant: rapid.SampledFrom(variants).Draw(t, "variant"),
				Traffic: rapid.Bool().Draw(t, "traffic"),
				Procs:   rapid.SampledFrom([]int{0, 0, 1, 2, 3}).Draw(t, "procs"),
			}
			if valid(c) {
				return normalise(c)
			}
		}
	},
}

// TestMatrix enumerates the state x event matrix. Quick tier: every cell once
// (quiet variant; the first malformed frame). Thorough tier: also with the
// other side still sending, every malformed-frame variant, and with
// pass-through stream processors.
func matrixCases(thorough bool, yield func(Case) bool) {
	for _, st := range states {
		for _, ev := range events {
			vs := []string{""}
			if ev == "client-proto-error" || ev == "server-proto-error" {
				vs = variants
				if !thorough {
					vs = []string{variants[0], "max-frame-size-zero", "settings-invalid-value"} // (the latter two only exist in state mid)
				}
			}
			for _, va := range vs {
				for _, traffic := range []bool{false, true} {
					for _, procs := range []int{0, 2} {
						if !thorough && (traffic || procs != 0) {
							continue
						}
						if thorough && (ev == "client-write-fail" || va == "max-frame-size-zero" || va == "settings-invalid-value") && !traffic {
							continue // normalise would make it the same case as traffic=true
						}
						c := normalise(Case{State: st, Event: ev, Variant: va, Traffic: traffic, Procs: procs})
						if !valid(c) {
							continue
						}
						if !yield(c) {
							return
						}
					}
				}
			}
		}
	}
}

func TestMatrix(t *testing.T) {
	propMatrix.Enumerate(t, func(yield func(Case) bool) { matrixCases(kit.Thorough(), yield) })
}

func TestRandom(t *testing.T) {
	propRandom.Check(t, kit.N(10, 12))
}

func TestReplay(t *testing.T) { kit.Replay(t, propMatrix, propRandom) }

// TestCollect prints the signature of every failing cell (development aid).
func TestCollect(t *testing.T) {
	if !collect {
		t.Skip()
	}
	matrixCases(os.Getenv("C10_COLLECT") == "thorough", func(c Case) bool {
		t0 := time.Now()
		v, _ := runOnce(c, time.Second)
		fmt.Printf("CELL %s %s traffic=%v variant=%s procs=%d %v\n", c.State, c.Event, c.Traffic, c.Variant, c.Procs, time.Since(t0).Round(time.Millisecond))
		for _, f := range v {
			fmt.Printf("   SIG %s :: %.400s\n", f.Sig, f.Msg)
		}
		return true
	})
}

// ---------------------------------------------------------------- isolated cases

const childHeapLimit = 256 << 20

// childMain runs one case in this (child) process and prints its verdict. A
// watchdog ends the process when the heap grows beyond childHeapLimit.
func childMain(raw string) {
	var c Case
	if err := json.Unmarshal([]byte(raw), &c); err != nil {
		fmt.Println("CHILD-ERROR", err)
		os.Exit(2)
	}
	bound, err := time.ParseDuration(os.Getenv("C10_CHILD_BOUND"))
	if err != nil {
		bound = kit.T()
	}
	c = normalise(c)
	go func() {
		for {
			time.Sleep(20 * time.Millisecond)
			var m runtime.MemStats
			runtime.ReadMemStats(&m)
			if m.HeapAlloc > childHeapLimit {
				out, _ := json.Marshal(kit.Failure{Sig: "C10/resources/" + cell(c) + "/relay-allocates-without-bound",
					Msg: fmt.Sprintf("state %s, event %s%s: the relay's heap grew beyond %d MiB after the event; relay goroutines: %s", c.State, c.Event, vsuffix(c), childHeapLimit>>20, blockedAt())})
				fmt.Printf("CHILD-FAIL %s\n", out)
				os.Exit(0)
			}
		}
	}()
	v, slow := runOnce(c, bound)
	for _, f := range v {
		out, _ := json.Marshal(f)
		fmt.Printf("CHILD-FAIL %s\n", out)
	}
	if slow {
		fmt.Println("CHILD-SLOW")
	}
	fmt.Println("CHILD-DONE")
	os.Exit(0)
}

// runInChild executes the case in a child process (the test binary itself).
func runInChild(c Case, bound time.Duration) (v kit.Verdict, slow bool) {
	raw, _ := json.Marshal(c)
	ctx, cancel := context.WithTimeout(context.Background(), 6*bound+10*time.Second)
	defer cancel()
	cmd := exec.CommandContext(ctx, os.Args[0], "-test.run", "^$")
	cmd.Env = append(os.Environ(), "C10_CHILD_CASE="+string(raw), "C10_CHILD_BOUND="+bound.String(), "GOMEMLIMIT=off")
	out, err := cmd.Output()
	done := false
	for _, line := range strings.Split(string(out), "\n") {
		switch {
		case strings.HasPrefix(line, "CHILD-FAIL "):
			var f kit.Failure
			if json.Unmarshal([]byte(strings.TrimPrefix(line, "CHILD-FAIL ")), &f) == nil {
				v = append(v, f)
			}
			if strings.Contains(f.Sig, "/resources/") {
				done = true
			}
		case line == "CHILD-SLOW":
			slow = true
		case line == "CHILD-DONE":
			done = true
		}
	}
	if !done {
		v.Addf("C10/return/"+cell(normalise(c))+"/isolated-case-did-not-finish", "the child process running the case did not report a verdict (%v); output: %.300s", err, out)
		slow = true
	}
	return v, slow
}
