package c03

import (
	"bufio"
	"crypto/tls"
	"fmt"
	"net"
	"net/http"
	"strings"
	"sync"
	"testing"
	"time"

	"github.com/google/martian/v3"
	"github.com/google/martian/v3/trafficshape"
	"pgregory.net/rapid"

	"verifharness/internal/kit"
	"verifharness/internal/netkit"
)

// SessCase: upstream failures inside a MITM'd TLS session, and the end of the
// session, on a plain or traffic-shaped listener.
type SessCase struct {
	Shaped bool `json:"shaped,omitempty"`
	// Faults: the fault of each request sent inside the session (refused |
	// accept-close | nonhttp), in order.
	Faults []string `json:"faults"`
	// Healthy: a request to a healthy TLS origin follows the failing ones.
	Healthy bool `json:"healthy,omitempty"`
	// End: how the session ends: client-close | half-close | connection-close
	// (the last request asks for it) | proxy-shutdown is not drawn here.
	End string `json:"end"`
	// Sessions: this many sessions, one after the other, each on a connection of its own.
	Sessions int `json:"sessions"`
	// Overlap: the sessions are open at the same time and end in reverse order.
	Overlap bool `json:"overlap,omitempty"`
}

var (
	sessOriginOnce sync.Once
	sessOrigin     *netkit.Origin
)

func runSess(c SessCase) kit.Verdict {
	v := runSessOnce(c, kit.T())
	for _, f := range v {
		if strings.Contains(f.Sig, "timeout") && !kit.Shrinking() {
			v2 := runSessOnce(c, 3*kit.T())
			if len(v2) == 0 {
				kit.Inconclusive("mitm-session-faults")
				return nil
			}
			return v2
		}
	}
	return v
}

func runSessOnce(c SessCase, T time.Duration) (v kit.Verdict) {
	shape := "mitm-session"
	if c.Shaped {
		shape += "-on-shaped-listener"
	}
	sig := func(class string) string { return "C03/" + shape + "/" + class }
	ok := func(m string) netkit.Script {
		return netkit.Script{Raw: []byte(fmt.Sprintf("HTTP/1.1 200 OK\r\nContent-Length: %d\r\n\r\n%s", len(m), m)), CutAt: -1}
	}
	// one TLS origin per process: its key and certificate take longer to make than a case to run
	sessOriginOnce.Do(func() {
		sessOrigin = netkit.NewTLSOrigin(netkit.ServerTLS("healthy.test"), func(r *netkit.ReqLog) netkit.Script { return ok(marker2) })
	})
	healthyTLS := sessOrigin
	healthy := netkit.NewOrigin(func(r *netkit.ReqLog) netkit.Script { return ok(marker3) })
	defer healthy.Close()
	closer, stopCloser := acceptAnd(func(conn net.Conn) { conn.Close() })
	defer stopCloser()
	garbage, stopGarbage := acceptAnd(func(conn net.Conn) {
		conn.Write([]byte("SSH-2.0-OpenSSH_8.9p1 Debian-3\r\n"))
		conn.Close()
	})
	defer stopGarbage()
	dialer := &netkit.Dialer{Route: func(addr string) string {
		switch {
		case strings.HasPrefix(addr, "refused"):
			return ""
		case strings.HasPrefix(addr, "accept-close"):
			return closer
		case strings.HasPrefix(addr, "nonhttp"):
			return garbage
		case strings.HasPrefix(addr, "healthy.test:443"):
			return healthyTLS.Addr
		}
		return healthy.Addr
	}}
	mc, pool, err := netkit.MITM()
	if err != nil {
		return kit.Failf("C03/harness/mitm-setup", "%v", err)
	}
	p := martian.NewProxy()
	netkit.UpstreamTLS(p)
	p.SetTimeout(60 * time.Second)
	p.SetDial(dialer.Dial)
	p.SetMITM(mc)
	p.SetResponseModifier(martian.ResponseModifierFunc(func(res *http.Response) error {
		res.Header.Set("X-Verif-Resmod", "1")
		return nil
	}))
	var wrap func(net.Listener) net.Listener
	if c.Shaped {
		wrap = func(l net.Listener) net.Listener { return trafficshape.NewListener(l) }
	}
	pr := netkit.Start(p, wrap)
	defer pr.Stop(10 * time.Second)

	type sess struct {
		raw net.Conn
		tc  *tls.Conn
		br  *bufio.Reader
	}
	open := func(i int) *sess {
		raw, err := net.DialTimeout("tcp", pr.Addr, 5*time.Second)
		if err != nil {
			v.Addf(sig("proxy-dead"), "session %d: cannot reach the proxy: %v", i, err)
			return nil
		}
		raw.SetDeadline(time.Now().Add(T))
		fmt.Fprintf(raw, "CONNECT secure.test:443 HTTP/1.1\r\nHost: secure.test:443\r\n\r\n")
		rbr := bufio.NewReader(raw)
		res, err := http.ReadResponse(rbr, &http.Request{Method: "CONNECT"})
		if err != nil || res.StatusCode != 200 {
			raw.Close()
			v.Addf(sig("connect-not-answered"), "session %d: CONNECT under MITM got %v / %+v", i, err, res)
			return nil
		}
		tc := tls.Client(raw, &tls.Config{ServerName: "secure.test", RootCAs: pool, NextProtos: []string{"http/1.1"}})
		if err := tc.Handshake(); err != nil {
			raw.Close()
			v.Addf(sig("handshake-failed"), "session %d: TLS handshake inside the tunnel: %v", i, err)
			return nil
		}
		raw.SetDeadline(time.Time{})
		return &sess{raw: raw, tc: tc, br: bufio.NewReader(tc)}
	}
	exchange := func(i int, s *sess) bool {
		n := len(c.Faults)
		if c.Healthy {
			n++
		}
		for j := 0; j < n; j++ {
			host, want := "healthy.test", 200
			if j < len(c.Faults) {
				host, want = fmt.Sprintf("%s-%d-%d.faulty.test", c.Faults[j], i, j), 502
			}
			extra := ""
			if j == n-1 && c.End == "connection-close" {
				extra = "Connection: close\r\n"
			}
			s.tc.SetDeadline(time.Now().Add(T))
			if _, err := fmt.Fprintf(s.tc, "GET /s%d/r%d HTTP/1.1\r\nHost: %s\r\n%s\r\n", i, j, host, extra); err != nil {
				v.Addf(sig("connection-unusable-after-502"), "session %d: writing request %d: %v", i, j, err)
				return false
			}
			res, err := http.ReadResponse(s.br, &http.Request{Method: "GET"})
			if err != nil {
				class := "no-well-formed-response"
				if netkit.IsTimeout(err) {
					class = "timeout-response"
				}
				v.Addf(sig(class), "session %d, response %d (host %s): %v", i, j, host, err)
				return false
			}
			body := make([]byte, 64)
			m, _ := readFull(res, body)
			switch {
			case res.StatusCode != want:
				v.Addf(sig("status-differs"), "session %d, response %d (host %s): status %d, want %d (Warning %q)", i, j, host, res.StatusCode, want, res.Header["Warning"])
			case want == 502 && res.Header.Get("Warning") == "":
				v.Addf(sig("502-without-warning"), "session %d, response %d (host %s): 502 without Warning: %v", i, j, host, res.Header)
			case res.Header.Get("X-Verif-Resmod") != "1":
				v.Addf(sig("response-bypassed-response-modifier"), "session %d, response %d (host %s): the response modifier's stamp is missing: %v", i, j, host, res.Header)
			case want == 200 && string(body[:m]) != marker2:
				v.Addf(sig("healthy-response-wrong-after-502s"), "session %d: body %q", i, body[:m])
			}
		}
		return true
	}
	end := func(s *sess) {
		switch c.End {
		case "half-close":
			s.tc.CloseWrite()
			s.raw.SetReadDeadline(time.Now().Add(T))
			s.br.ReadByte() // the proxy ends its side
			s.raw.Close()
		case "connection-close":
			s.raw.SetReadDeadline(time.Now().Add(T))
			s.br.ReadByte() // the proxy closes after the response that was asked to be the last
			s.raw.Close()
		default:
			s.raw.Close()
		}
	}
	var open_ []*sess
	for i := 0; i < c.Sessions; i++ {
		s := open(i)
		if s == nil {
			break
		}
		exchange(i, s)
		if c.Overlap {
			open_ = append(open_, s)
		} else {
			end(s)
		}
	}
	for i := len(open_) - 1; i >= 0; i-- {
		end(open_[i])
	}

	// the sessions are over: the process lives and serves a fresh connection
	probe := func(bound time.Duration) error {
		cl, err := netkit.Dial(pr.Addr)
		if err != nil {
			return err
		}
		defer cl.Close()
		cl.Write([]byte("GET http://plain.test/third HTTP/1.1\r\nHost: plain.test\r\n\r\n"))
		res, _, err := cl.ReadResponse("GET", bound)
		if err != nil {
			return err
		}
		if res.Status != 200 || string(res.Body) != marker3 {
			return fmt.Errorf("status %d body %q", res.Status, trunc(res.Body, 60))
		}
		return nil
	}
	time.Sleep(20 * time.Millisecond) // the proxy notices the end of the sessions
	if err := probe(T); err != nil {
		class := "fresh-connection-not-served"
		if netkit.IsTimeout(err) {
			class = "timeout-fresh-connection"
		}
		v.Addf(sig(class), "after %d session(s) a fresh connection got: %v", c.Sessions, err)
	}
	return v
}

var propSess = &kit.Prop[SessCase]{
	ID: "C03", Name: "mitm-session-faults", Journal: true,
	Rule: "1..3 MITM'd TLS sessions (one after the other or overlapping) on a plain or traffic-shaped listener, each carrying 0..4 requests whose upstream fails (refused, accepted then closed, non-HTTP bytes) and optionally a healthy one, ended by the client closing, half-closing or asking for Connection: close; every failing request gets a 502 with Warning through the response modifier; after the sessions a fresh connection is served (a process death is reported through the journal); non-trivial = always",
	Gen: func(t *rapid.T) SessCase {
		return SessCase{
			Shaped:   rapid.Bool().Draw(t, "shaped"),
			Faults:   rapid.SliceOfN(rapid.SampledFrom([]string{"refused", "accept-close", "nonhttp"}), 0, 4).Draw(t, "faults"),
			Healthy:  rapid.Bool().Draw(t, "healthy"),
			End:      rapid.SampledFrom([]string{"client-close", "half-close", "connection-close"}).Draw(t, "end"),
			Sessions: rapid.IntRange(1, 3).Draw(t, "sessions"),
			Overlap:  rapid.Bool().Draw(t, "overlap"),
		}
	},
	Run:        runSess,
	NonTrivial: func(SessCase) bool { return true },
	Classes: func(c SessCase) []string {
		out := []string{"end-" + c.End}
		if c.Shaped {
			out = append(out, "traffic-shaped-listener")
		}
		if len(c.Faults) > 0 {
			out = append(out, "upstream-failures-inside-session")
		}
		if c.Overlap && c.Sessions > 1 {
			out = append(out, "overlapping-sessions")
		}
		return out
	},
	Gates: map[string]float64{"traffic-shaped-listener": 0.3},
}

func init() { kit.Register(propSess) }

func TestMITMSessionFaults(t *testing.T) {
	if kit.Race() {
		t.Skip("the race shard runs the concurrent check only")
	}
	propSess.Check(t, kit.N(40, 150))
}
