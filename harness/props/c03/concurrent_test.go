package c03

import (
	"bufio"
	"fmt"
	"net"
	"net/http"
	"strings"
	"sync"
	"testing"
	"time"

	"github.com/google/martian/v3"
	"pgregory.net/rapid"

	"verifharness/internal/kit"
	"verifharness/internal/netkit"
)

// ConcCase: several client connections served at the same time, each sending
// a run of requests whose upstream fails, then a healthy one.
type ConcCase struct {
	Conns int `json:"conns"`
	Run   int `json:"run"` // failing requests per connection
	// Kinds[i%len] is the fault of connection i's requests: refused |
	// accept-close | accept-rst | nonhttp | cut-head | mixed (request j takes the
	// j-th of the others).
	Kinds []string `json:"kinds"`
	// SameHost: every request of the case names one host per fault kind; else
	// every request names a host of its own (each fails for the first time).
	SameHost bool `json:"same_host,omitempty"`
	// Pipelined: a connection writes its whole run at once; else one at a time.
	Pipelined bool `json:"pipelined,omitempty"`
}

var concKinds = []string{"refused", "accept-close", "accept-rst", "nonhttp", "cut-head"}

func (c ConcCase) kind(conn, j int) string {
	k := c.Kinds[conn%len(c.Kinds)]
	if k == "mixed" {
		k = concKinds[(conn+j)%len(concKinds)]
	}
	return k
}

func runConc(c ConcCase) kit.Verdict {
	v := runConcOnce(c, kit.T())
	for _, f := range v {
		if strings.Contains(f.Sig, "timeout") && !kit.Shrinking() {
			if v2 := runConcOnce(c, 3*kit.T()); len(v2) == 0 {
				kit.Inconclusive("concurrent-faults")
				return nil
			} else {
				return v2
			}
		}
	}
	return v
}

func runConcOnce(c ConcCase, T time.Duration) (v kit.Verdict) {
	ok := func(m string) netkit.Script {
		return netkit.Script{Raw: []byte(fmt.Sprintf("HTTP/1.1 200 OK\r\nContent-Length: %d\r\nX-Healthy: yes\r\n\r\n%s", len(m), m)), CutAt: -1}
	}
	healthy := netkit.NewOrigin(func(r *netkit.ReqLog) netkit.Script {
		if r.Path == "/third" {
			return ok(marker3)
		}
		return ok(marker2)
	})
	defer healthy.Close()
	// (listeners of the case's own: netkit's AcceptHook is set after its accept loop has started)
	closer, stopCloser := acceptAnd(func(conn net.Conn) { conn.Close() })
	defer stopCloser()
	resetter, stopResetter := acceptAnd(func(conn net.Conn) { netkit.Reset(conn) })
	defer stopResetter()
	garbage := netkit.NewOrigin(func(r *netkit.ReqLog) netkit.Script {
		return netkit.Script{Raw: []byte("SSH-2.0-OpenSSH_8.9p1 Debian-3\r\n"), CutAt: -1, After: "close"}
	})
	defer garbage.Close()
	cutter := netkit.NewOrigin(func(r *netkit.ReqLog) netkit.Script {
		return netkit.Script{Raw: []byte("HTTP/1.1 200 OK\r\nContent-Length: 10\r\n\r\n0123456789"), CutAt: 20, After: "close"}
	})
	defer cutter.Close()
	dialer := &netkit.Dialer{Route: func(addr string) string {
		switch {
		case strings.HasPrefix(addr, "refused"):
			return ""
		case strings.HasPrefix(addr, "accept-close"):
			return closer
		case strings.HasPrefix(addr, "accept-rst"):
			return resetter
		case strings.HasPrefix(addr, "nonhttp"):
			return garbage.Addr
		case strings.HasPrefix(addr, "cut-head"):
			return cutter.Addr
		}
		return healthy.Addr
	}}
	p := martian.NewProxy()
	p.SetTimeout(60 * time.Second)
	p.SetDial(dialer.Dial)
	p.SetResponseModifier(martian.ResponseModifierFunc(func(res *http.Response) error {
		res.Header.Set("X-Verif-Resmod", "1")
		return nil
	}))
	pr := netkit.Start(p, nil)
	defer pr.Stop(10 * time.Second)

	shape := "concurrent-" + c.Kinds[0]
	for _, k := range c.Kinds[1:] {
		if k != c.Kinds[0] {
			shape = "concurrent-several-kinds"
		}
	}
	sig := func(class string) string { return "C03/" + shape + "/" + class }

	var mu sync.Mutex
	add := func(class, format string, args ...interface{}) {
		mu.Lock()
		if len(v) < 8 {
			v.Addf(sig(class), format, args...)
		}
		mu.Unlock()
	}
	start := make(chan struct{})
	var ready, done sync.WaitGroup
	for i := 0; i < c.Conns; i++ {
		ready.Add(1)
		done.Add(1)
		go func(i int) {
			defer done.Done()
			conn, err := net.DialTimeout("tcp", pr.Addr, 5*time.Second)
			ready.Done()
			if err != nil {
				add("proxy-dead", "connection %d: cannot reach the proxy: %v", i, err)
				return
			}
			defer conn.Close()
			br := bufio.NewReaderSize(conn, 64<<10)
			reqs := make([]string, 0, c.Run+1)
			for j := 0; j < c.Run; j++ {
				host := c.kind(i, j) + ".faulty.test"
				if !c.SameHost {
					host = fmt.Sprintf("%s-%d-%d.faulty.test", c.kind(i, j), i, j)
				}
				reqs = append(reqs, fmt.Sprintf("GET http://%s/c%d/r%d HTTP/1.1\r\nHost: %s\r\n\r\n", host, i, j, host))
			}
			reqs = append(reqs, "GET http://healthy.test/second HTTP/1.1\r\nHost: healthy.test\r\n\r\n")
			<-start
			conn.SetWriteDeadline(time.Now().Add(30 * time.Second))
			if c.Pipelined {
				if _, err := conn.Write([]byte(strings.Join(reqs, ""))); err != nil {
					add("client-write-failed", "connection %d: %v", i, err)
					return
				}
			}
			for j := range reqs {
				if !c.Pipelined {
					if _, err := conn.Write([]byte(reqs[j])); err != nil {
						add("connection-unusable-after-502", "connection %d: writing request %d: %v", i, j, err)
						return
					}
				}
				conn.SetReadDeadline(time.Now().Add(T))
				res, err := http.ReadResponse(br, &http.Request{Method: "GET"})
				if err != nil {
					class := "no-well-formed-response"
					if netkit.IsTimeout(err) {
						class = "timeout-response"
					}
					add(class, "connection %d of %d, response %d of %d (%s): %v", i, c.Conns, j, len(reqs), strings.SplitN(reqs[j], " HTTP", 2)[0], err)
					return
				}
				body := make([]byte, 64)
				n, _ := readFull(res, body)
				if j == c.Run {
					if res.StatusCode != 200 || string(body[:n]) != marker2 || res.Header.Get("X-Verif-Resmod") != "1" {
						add("healthy-response-wrong-after-502s", "connection %d: the healthy request after %d failing ones got status %d, body %q, resmod stamp %q", i, c.Run, res.StatusCode, body[:n], res.Header.Get("X-Verif-Resmod"))
					}
					return
				}
				switch {
				case res.StatusCode != 502:
					add("no-502", "connection %d, response %d (%s): status %d instead of a 502", i, j, c.kind(i, j), res.StatusCode)
				case res.Header.Get("Warning") == "":
					add("502-without-warning", "connection %d, response %d (%s): 502 without Warning: %v", i, j, c.kind(i, j), res.Header)
				case res.Header.Get("X-Verif-Resmod") != "1":
					add("502-bypassed-response-modifier", "connection %d, response %d (%s): 502 lacks the response modifier's stamp: %v", i, j, c.kind(i, j), res.Header)
				}
			}
		}(i)
	}
	ready.Wait()
	close(start)
	done.Wait()

	cl, err := netkit.Dial(pr.Addr)
	if err != nil {
		v.Addf(sig("proxy-dead"), "fresh connection refused after the concurrent faults: %v", err)
		return v
	}
	defer cl.Close()
	cl.Write([]byte("GET http://healthy.test/third HTTP/1.1\r\nHost: healthy.test\r\n\r\n"))
	if res, _, err := cl.ReadResponse("GET", T); err != nil || res.Status != 200 || string(res.Body) != marker3 {
		class := "fresh-connection-not-served"
		if netkit.IsTimeout(err) {
			class = "timeout-fresh-connection"
		}
		v.Addf(sig(class), "after the concurrent faults a fresh connection got %v / %+v", err, res)
	}
	return v
}

// acceptAnd listens on a loopback port and hands every accepted connection to f.
func acceptAnd(f func(net.Conn)) (addr string, stop func()) {
	l, err := netkit.Listen()
	if err != nil {
		panic(err)
	}
	done := make(chan struct{})
	go func() {
		defer close(done)
		for {
			conn, err := l.Accept()
			if err != nil {
				return
			}
			f(conn)
		}
	}()
	return l.Addr().String(), func() { l.Close(); <-done }
}

func readFull(res *http.Response, b []byte) (int, error) {
	defer res.Body.Close()
	n := 0
	for n < len(b) {
		m, err := res.Body.Read(b[n:])
		n += m
		if err != nil {
			return n, err
		}
	}
	return n, nil
}

var propConc = &kit.Prop[ConcCase]{
	ID: "C03", Name: "concurrent-faults", Journal: true,
	Rule: "4..16 client connections released at the same moment, each sending 1..40 requests (one at a time or pipelined) whose upstream fails (refused, accepted then closed / reset, non-HTTP bytes, cut inside the head; one kind per connection or mixed), to hosts that are all distinct or shared, then a healthy request; every answer must be a 502 with Warning and response-modifier stamp, the healthy one a 200; also run under the race detector; non-trivial = always",
	Gen: func(t *rapid.T) ConcCase {
		c := ConcCase{
			Conns:     rapid.SampledFrom([]int{4, 6, 8, 12, 16}).Draw(t, "conns"),
			Run:       rapid.SampledFrom([]int{1, 3, 10, 40}).Draw(t, "run"),
			SameHost:  rapid.IntRange(0, 3).Draw(t, "same_host") == 0,
			Pipelined: rapid.Bool().Draw(t, "pipelined"),
		}
		c.Kinds = rapid.SliceOfN(rapid.SampledFrom(append([]string{"mixed"}, concKinds...)), 1, 4).Draw(t, "kinds")
		return c
	},
	Run:        runConc,
	NonTrivial: func(ConcCase) bool { return true },
	Classes: func(c ConcCase) []string {
		out := []string{fmt.Sprintf("conns-%d", c.Conns)}
		if c.SameHost {
			out = append(out, "shared-failing-hosts")
		} else {
			out = append(out, "distinct-failing-hosts")
		}
		if c.Pipelined {
			out = append(out, "pipelined")
		}
		seen := map[string]bool{}
		for _, k := range c.Kinds {
			if !seen[k] {
				seen[k] = true
				out = append(out, "fault-"+k)
			}
		}
		return out
	},
	Gates: map[string]float64{"distinct-failing-hosts": 0.5},
}

func init() { kit.Register(propConc) }

func TestConcurrentFaults(t *testing.T) {
	n := kit.N(40, 120)
	if kit.Race() {
		n = kit.N(15, 40)
	}
	propConc.Check(t, n)
}
