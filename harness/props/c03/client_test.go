package c03

import (
	"bufio"
	"bytes"
	"crypto/tls"
	"fmt"
	"io"
	"net"
	"net/http"
	"runtime"
	"strings"
	"sync"
	"sync/atomic"
	"testing"
	"time"

	"github.com/google/martian/v3"
	"github.com/google/martian/v3/mitm"
	"pgregory.net/rapid"

	"verifharness/internal/kit"
	"verifharness/internal/netkit"
)

// A long-lived proxy (MITM configured) shared by the client-byte-stream
// checks: the clause under test is "no byte sequence sent by a client
// terminates the proxy process", so the proxy must outlive the inputs.
var (
	sharedOnce  sync.Once
	sharedProxy *netkit.Proxy
	sharedErr   error
	// served counts requests the shared origin received other than the liveness probe
	served int64
)

func shared() (*netkit.Proxy, error) {
	sharedOnce.Do(func() {
		healthy := netkit.NewOrigin(func(r *netkit.ReqLog) netkit.Script {
			if r.Path != "/third" {
				atomic.AddInt64(&served, 1)
			}
			return netkit.Script{Raw: []byte(fmt.Sprintf("HTTP/1.1 200 OK\r\nContent-Length: %d\r\n\r\n%s", len(marker3), marker3)), CutAt: -1}
		})
		dialer := &netkit.Dialer{Route: func(addr string) string { return healthy.Addr }}
		ca, priv, err := mitm.NewAuthority("verif", "verif", time.Hour)
		if err != nil {
			sharedErr = err
			return
		}
		mc, err := mitm.NewConfig(ca, priv)
		if err != nil {
			sharedErr = err
			return
		}
		p := martian.NewProxy()
		p.SetTimeout(5 * time.Second)
		p.SetDial(dialer.Dial)
		p.SetMITM(mc)
		sharedProxy = netkit.Start(p, nil)
	})
	return sharedProxy, sharedErr
}

// feed sends the bytes on a fresh connection, half-closes, and drains what the
// proxy answers; then checks that a fresh connection is still served.
func feed(input []byte) (closedByProxy bool, v kit.Verdict) {
	pr, err := shared()
	if err != nil {
		return false, kit.Failf("C03/harness/mitm-setup", "%v", err)
	}
	conn, err := net.DialTimeout("tcp", pr.Addr, 5*time.Second)
	if err != nil {
		return false, kit.Failf("C03/client-bytes/proxy-dead", "cannot connect: %v", err)
	}
	// Is the first message on the connection something the request parser rejects?
	_, perr := http.ReadRequest(bufio.NewReader(bytes.NewReader(input)))
	firstBad := perr != nil
	before := atomic.LoadInt64(&served)
	conn.SetWriteDeadline(time.Now().Add(2 * time.Second))
	conn.Write(input)
	if tc, ok := conn.(*net.TCPConn); ok {
		tc.CloseWrite()
	}
	wait := 300 * time.Millisecond
	if firstBad {
		wait = kit.T()
	}
	conn.SetReadDeadline(time.Now().Add(wait))
	_, rerr := io.Copy(io.Discard, conn)
	closedByProxy = rerr == nil || netkit.IsReset(rerr)
	conn.Close()
	if firstBad {
		// a request that cannot be read ends the connection: nothing behind it is served
		if n := atomic.LoadInt64(&served) - before; n > 0 {
			v.Addf("C03/client-bytes/malformed-first-message/later-bytes-served-as-requests", "the first message of the stream is rejected by the request parser (%v), yet %d request(s) from this connection reached the origin; input %q", perr, n, trunc(input, 160))
		}
		if !closedByProxy {
			v.Addf("C03/client-bytes/malformed-first-message/timeout-connection-not-closed", "the first message of the stream is rejected by the request parser (%v) and the client half-closed, yet the proxy had not closed the connection after %v; input %q", perr, wait, trunc(input, 160))
		}
	}

	cl, err := netkit.Dial(pr.Addr)
	if err != nil {
		return closedByProxy, kit.Failf("C03/client-bytes/proxy-dead", "fresh connection refused after input %q: %v", trunc(input, 120), err)
	}
	defer cl.Close()
	cl.Write([]byte("GET http://healthy.test/third HTTP/1.1\r\nHost: healthy.test\r\n\r\n"))
	res, _, err := cl.ReadResponse("GET", kit.T())
	if err != nil || res.Status != 200 || string(res.Body) != marker3 {
		// re-validate once with a longer bound before calling it
		cl2, err2 := netkit.Dial(pr.Addr)
		if err2 == nil {
			defer cl2.Close()
			cl2.Write([]byte("GET http://healthy.test/third HTTP/1.1\r\nHost: healthy.test\r\n\r\n"))
			if res2, _, err3 := cl2.ReadResponse("GET", 3*kit.T()); err3 == nil && res2.Status == 200 && string(res2.Body) == marker3 {
				kit.Inconclusive("client-bytes")
				return closedByProxy, nil
			}
		}
		return closedByProxy, kit.Failf("C03/client-bytes/fresh-connection-not-served", "after input %q a fresh connection got %v / %+v", trunc(input, 120), err, res)
	}
	return closedByProxy, v
}

var validHeads = [][]byte{
	[]byte("GET http://healthy.test/a HTTP/1.1\r\nHost: healthy.test\r\n\r\n"),
	[]byte("CONNECT healthy.test:443 HTTP/1.1\r\nHost: healthy.test:443\r\n\r\n"),
	[]byte("POST http://healthy.test/p HTTP/1.1\r\nHost: healthy.test\r\nTransfer-Encoding: chunked\r\n\r\n5\r\nhello\r\n0\r\n\r\n"),
	[]byte("GET /origin-form HTTP/1.1\r\nHost: healthy.test\r\n\r\n"),
	[]byte("POST http://healthy.test/cl HTTP/1.1\r\nHost: healthy.test\r\nContent-Length: 5\r\n\r\nhello"),
	[]byte("OPTIONS * HTTP/1.1\r\nHost: healthy.test\r\n\r\n"),
	[]byte("GET http://healthy.test/a HTTP/1.0\r\n\r\n"),
	[]byte("CONNECT healthy.test:443 HTTP/1.1\r\nHost: healthy.test:443\r\n\r\nGET / HTTP/1.1\r\nHost: healthy.test\r\n\r\n"),
	[]byte("CONNECT healthy.test:443 HTTP/1.1\r\nHost: healthy.test:443\r\n\r\n\x16\x03\x01\x00\x05hello"),
	[]byte("HEAD http://healthy.test/h HTTP/1.1\r\nHost: healthy.test\r\nConnection: close\r\n\r\n"),
}

var hostile = [][]byte{
	[]byte("\x00\x00\x00"), []byte("\r\n\r\n"), []byte("GET"), []byte("GET  HTTP/1.1\r\n\r\n"), []byte("GET / HTTP/1.1\n\n"),
	[]byte("GET http://[::1 HTTP/1.1\r\nHost: x\r\n\r\n"), []byte("GET / HTTP/1.1\r\n\r\n"),
	[]byte("CONNECT  HTTP/1.1\r\n\r\n"), []byte("CONNECT :0 HTTP/1.1\r\nHost: \r\n\r\n"),
	[]byte("POST / HTTP/1.1\r\nHost: h\r\nContent-Length: -1\r\n\r\n"),
	[]byte("POST / HTTP/1.1\r\nHost: h\r\nContent-Length: 99999999999999999999\r\n\r\n"),
	[]byte("POST / HTTP/1.1\r\nHost: h\r\nTransfer-Encoding: chunked\r\n\r\nffffffffffffffffff\r\n"),
	[]byte("GET / HTTP/1.1\r\nHost: h\r\n" + string(bytes.Repeat([]byte("X-A: b\r\n"), 3000)) + "\r\n"),
	[]byte("PRI * HTTP/2.0\r\n\r\nSM\r\n\r\n"),
}

// ClientCase is a valid request head with byte-level mutations applied.
type ClientCase struct {
	Base int   `json:"base"`
	Ops  []Mut `json:"ops"`
	Tail int   `json:"tail"` // index of a second message appended (-1 none)
}

// Mut is one mutation: delete, insert, replace, truncate, duplicate.
type Mut struct {
	Op  string `json:"op"`
	Pos int    `json:"pos"`
	Val string `json:"val"`
}

func (c ClientCase) bytes() []byte {
	all := append(append([][]byte{}, validHeads...), hostile...)
	b := append([]byte(nil), all[c.Base%len(all)]...)
	for _, m := range c.Ops {
		if len(b) == 0 {
			break
		}
		pos := m.Pos % (len(b) + 1)
		switch m.Op {
		case "del":
			if pos < len(b) {
				b = append(b[:pos], b[pos+1:]...)
			}
		case "ins":
			b = append(b[:pos], append([]byte(m.Val), b[pos:]...)...)
		case "rep":
			if pos < len(b) && len(m.Val) > 0 {
				b[pos] = m.Val[0]
			}
		case "trunc":
			b = b[:pos]
		case "dup":
			b = append(b, b[pos:]...)
		}
	}
	if c.Tail >= 0 {
		b = append(b, all[c.Tail%len(all)]...)
	}
	return b
}

var propClient = &kit.Prop[ClientCase]{
	ID: "C03", Name: "client-bytes", Journal: true,
	Rule: "valid and hostile request byte strings with 0..6 byte-level mutations (delete, insert, replace, truncate, duplicate tail), optionally followed by a second message, sent to a long-lived MITM-configured proxy; afterwards a fresh connection must be served; non-trivial = at least one mutation or a hostile base",
	Gen: func(t *rapid.T) ClientCase {
		c := ClientCase{Base: rapid.IntRange(0, len(validHeads)+len(hostile)-1).Draw(t, "base"), Tail: rapid.IntRange(-1, len(validHeads)-1).Draw(t, "tail")}
		n := rapid.IntRange(0, 6).Draw(t, "nops")
		for i := 0; i < n; i++ {
			c.Ops = append(c.Ops, Mut{
				Op:  rapid.SampledFrom([]string{"del", "ins", "rep", "trunc", "dup"}).Draw(t, "op"),
				Pos: rapid.IntRange(0, 200).Draw(t, "pos"),
				Val: rapid.SampledFrom([]string{"\x00", "\r", "\n", " ", ":", "\xff", "%", "/", "@", "[", "\x16\x03\x01", "HTTP/1.1", "999999999999", "-", "\t"}).Draw(t, "val"),
			})
		}
		return c
	},
	Run: func(c ClientCase) kit.Verdict {
		_, v := feed(c.bytes())
		return v
	},
	NonTrivial: func(c ClientCase) bool { return len(c.Ops) > 0 || c.Base >= len(validHeads) },
	Classes: func(c ClientCase) []string {
		if c.Base < len(validHeads) {
			return []string{"valid-base"}
		}
		return []string{"hostile-base"}
	},
}

func TestClientBytes(t *testing.T) {
	if kit.Race() {
		t.Skip("the race shard runs the concurrent check only")
	}
	kit.Assume("client byte streams are fed to one long-lived proxy per process; only process survival and continued service are asserted for them")
	propClient.Check(t, kit.N(400, 1500))
}

const fuzzRule = "native coverage-guided fuzzing of raw client byte streams against the long-lived MITM-configured proxy; oracle: no panic, fresh connection still served; non-trivial = the proxy answered or closed the connection itself"

func FuzzClientBytes(f *testing.F) {
	for _, b := range validHeads {
		f.Add(b)
	}
	for _, b := range hostile {
		f.Add(b)
	}
	if kit.Race() {
		f.Skip("the race shard runs the concurrent check only")
	}
	f.Fuzz(func(t *testing.T, input []byte) {
		if len(input) > 1<<16 {
			return
		}
		closed, v := feed(input)
		kit.FuzzAccount("fuzz-client-bytes", fuzzRule, input, closed)
		kit.FuzzFail(t, "C03", "fuzz-client-bytes", "FuzzClientBytes", v, input)
	})
}

// ---------------------------------------------------------------- CONNECT + TLS sessions

// HelloCase is a CONNECT in one of the forms the request parser accepts,
// followed - when the proxy answers 200 - by a TLS handshake with or without a
// server name and one request inside the session.
type HelloCase struct {
	Target string `json:"target"` // request-target of the CONNECT
	Host   string `json:"host"`   // value of the Host header; "" = no Host header at all
	SNI    string `json:"sni"`    // server_name of the ClientHello; "" = the extension is absent
	Inner  string `json:"inner"`  // request line target sent inside the session
}

var helloTargets = []string{"healthy.test:443", "/tunnel", ":443", "[::1]:443", "[::1]", "healthy.test", "*", "127.0.0.1:443", "http://healthy.test/", "[", "]:443", "[]", "[]:443", "a:b:c"}
var helloHosts = []string{"", "healthy.test:443", "healthy.test", "[::1]", ":443", "[]"}
var helloSNI = []string{"", "healthy.test", "xn--verif-.test"}

func (c HelloCase) shape() string {
	sh := "connect-authority"
	switch {
	case strings.HasPrefix(c.Target, "/") || c.Target == "*" || strings.Contains(c.Target, "://"):
		sh = "connect-non-authority-target"
	case strings.HasPrefix(c.Target, "[") || strings.HasPrefix(c.Target, "]") || strings.Count(c.Target, ":") > 1:
		sh = "connect-bracketed-target"
	case strings.HasPrefix(c.Target, ":"):
		sh = "connect-empty-host-target"
	}
	if c.Host == "" {
		sh += "-no-host-header"
	}
	if c.SNI == "" {
		sh += "-hello-without-sni"
	}
	return sh
}

func runHello(c HelloCase) (v kit.Verdict) {
	pr, err := shared()
	if err != nil {
		return kit.Failf("C03/harness/mitm-setup", "%v", err)
	}
	conn, err := net.DialTimeout("tcp", pr.Addr, 5*time.Second)
	if err != nil {
		return kit.Failf("C03/client-tls-sessions/"+c.shape()+"/proxy-dead", "cannot connect: %v", err)
	}
	defer conn.Close()
	head := "CONNECT " + c.Target + " HTTP/1.1\r\n"
	if c.Host != "" {
		head += "Host: " + c.Host + "\r\n"
	}
	head += "\r\n"
	conn.SetDeadline(time.Now().Add(kit.T()))
	conn.Write([]byte(head))
	br := bufio.NewReader(conn)
	res, err := http.ReadResponse(br, &http.Request{Method: "CONNECT"})
	if err == nil && res.StatusCode == 200 && br.Buffered() == 0 {
		tc := tls.Client(conn, &tls.Config{ServerName: c.SNI, InsecureSkipVerify: true})
		if tc.Handshake() == nil {
			fmt.Fprintf(tc, "GET %s HTTP/1.1\r\nHost: healthy.test\r\nConnection: close\r\n\r\n", c.Inner)
			io.Copy(io.Discard, tc)
		}
	}
	conn.Close()

	// whatever became of the session: the process lives and serves a fresh connection
	probe := func(bound time.Duration) error {
		cl, err := netkit.Dial(pr.Addr)
		if err != nil {
			return err
		}
		defer cl.Close()
		cl.Write([]byte("GET http://healthy.test/third HTTP/1.1\r\nHost: healthy.test\r\n\r\n"))
		res, _, err := cl.ReadResponse("GET", bound)
		if err != nil {
			return err
		}
		if res.Status != 200 || string(res.Body) != marker3 {
			return fmt.Errorf("status %d body %q", res.Status, trunc(res.Body, 60))
		}
		return nil
	}
	if err := probe(kit.T()); err != nil {
		if probe(3*kit.T()) == nil {
			kit.Inconclusive("client-tls-sessions")
			return nil
		}
		v.Addf("C03/client-tls-sessions/"+c.shape()+"/fresh-connection-not-served", "after %q and a ClientHello with server name %q a fresh connection got: %v", head, c.SNI, err)
	}
	return v
}

var propHello = &kit.Prop[HelloCase]{
	ID: "C03", Name: "client-tls-sessions", Journal: true,
	Rule: "every CONNECT request-target form the request parser accepts (authority, path, *, absolute URI, bracketed and empty hosts) x Host header (absent, authority, bare name, bracketed, empty host) x ClientHello with/without server name, one request inside the session, against the long-lived MITM-configured proxy; afterwards a fresh connection must be served; non-trivial = the target is not a plain host:port or the Host header or the server name is missing",
	Run:  runHello,
	NonTrivial: func(c HelloCase) bool {
		return c.shape() != "connect-authority"
	},
	Classes: func(c HelloCase) []string { return []string{c.shape()} },
}

func TestClientTLSSessions(t *testing.T) {
	if kit.Race() {
		t.Skip("the race shard runs the concurrent check only")
	}
	propHello.Enumerate(t, func(yield func(HelloCase) bool) {
		for _, tg := range helloTargets {
			for _, h := range helloHosts {
				for i, sni := range helloSNI {
					inner := []string{"/in", "https://healthy.test/in", "*"}[i%3]
					if !yield(HelloCase{Target: tg, Host: h, SNI: sni, Inner: inner}) {
						return
					}
				}
			}
		}
	})
}

// ---------------------------------------------------------------- long client streams

// RepCase is one well-formed message repeated many times on one connection.
type RepCase struct {
	Unit  int `json:"unit"`
	Count int `json:"count"`
	// CutAt: after this many repetitions the stream is cut short if the stacks
	// of the process have not grown by then.
	CutAt int `json:"cut_at"`
}

var repUnits = []struct {
	name string
	raw  []byte
}{
	{"plaintext-connect-under-mitm", []byte("CONNECT a.test:80 HTTP/1.1\r\nHost: a.test:80\r\n\r\n")},
	{"get-absolute-form", []byte("GET http://healthy.test/r HTTP/1.1\r\nHost: healthy.test\r\n\r\n")},
	{"options-asterisk", []byte("OPTIONS * HTTP/1.1\r\nHost: healthy.test\r\n\r\n")},
	{"connect-then-get", []byte("CONNECT a.test:80 HTTP/1.1\r\nHost: a.test:80\r\n\r\nGET /x HTTP/1.1\r\nHost: a.test\r\n\r\n")},
}

// runRep streams Count copies of the unit to a MITM-configured proxy with the
// default (5 minute) idle timeout. What one connection costs the process must
// not grow with the number of messages it has carried: the stream is cut short
// after CutAt repetitions if the stacks of the process have not grown by then;
// otherwise it is sent in full (a process death is reported through the journal).
func runRep(c RepCase) (v kit.Verdict) {
	unit := repUnits[c.Unit%len(repUnits)]
	healthy := netkit.NewOrigin(func(r *netkit.ReqLog) netkit.Script {
		return netkit.Script{Raw: []byte(fmt.Sprintf("HTTP/1.1 200 OK\r\nContent-Length: %d\r\n\r\n%s", len(marker3), marker3)), CutAt: -1}
	})
	defer healthy.Close()
	dialer := &netkit.Dialer{Route: func(addr string) string { return healthy.Addr }}
	mc, _, err := netkit.MITM()
	if err != nil {
		return kit.Failf("C03/harness/mitm-setup", "%v", err)
	}
	p := martian.NewProxy() // default timeout: five minutes
	p.SetDial(dialer.Dial)
	p.SetMITM(mc)
	pr := netkit.Start(p, nil)
	defer pr.Stop(10 * time.Second)
	conn, err := net.DialTimeout("tcp", pr.Addr, 5*time.Second)
	if err != nil {
		return kit.Failf("C03/harness/dial", "%v", err)
	}
	defer conn.Close()
	var received int64
	go func() {
		buf := make([]byte, 64<<10)
		for {
			n, err := conn.Read(buf)
			atomic.AddInt64(&received, int64(n))
			if err != nil {
				return
			}
		}
	}()
	// settled: the proxy has answered what it was sent so far (nothing new for 300 ms)
	settled := func() {
		last, since := int64(-1), time.Now()
		for deadline := time.Now().Add(60 * time.Second); time.Now().Before(deadline); time.Sleep(20 * time.Millisecond) {
			if now := atomic.LoadInt64(&received); now != last {
				last, since = now, time.Now()
			} else if time.Since(since) > 300*time.Millisecond {
				return
			}
		}
	}
	var ms runtime.MemStats
	runtime.GC() // stacks of goroutines that ended with earlier cases are released
	runtime.ReadMemStats(&ms)
	base := ms.StackInuse
	chunk := bytes.Repeat(unit.raw, 1000)
	sent := 0
	for sent < c.Count {
		conn.SetWriteDeadline(time.Now().Add(30 * time.Second))
		if _, err := conn.Write(chunk); err != nil {
			break // the proxy closed the connection: its right
		}
		sent += 1000
		if sent == c.CutAt {
			settled()
			runtime.ReadMemStats(&ms)
			if grown := int64(ms.StackInuse) - int64(base); grown < 4<<20 {
				kit.Note("client-repetition", "a stream is cut short after 40 000 (thorough: 200 000) repetitions when the stacks of the process have grown by less than 4 MiB by then")
				break
			}
		}
	}
	conn.Close()
	cl, err := netkit.Dial(pr.Addr)
	if err != nil {
		return kit.Failf("C03/client-repetition/"+unit.name+"/proxy-dead", "fresh connection refused after %d repetitions: %v", sent, err)
	}
	defer cl.Close()
	cl.Write([]byte("GET http://healthy.test/third HTTP/1.1\r\nHost: healthy.test\r\n\r\n"))
	if res, _, err := cl.ReadResponse("GET", 3*kit.T()); err != nil || res.Status != 200 || string(res.Body) != marker3 {
		class := "fresh-connection-not-served"
		if netkit.IsTimeout(err) {
			class = "timeout-fresh-connection"
		}
		v.Addf("C03/client-repetition/"+unit.name+"/"+class, "after %d repetitions of %q on one connection a fresh connection got %v / %+v", sent, unit.raw, err, res)
	}
	return v
}

var propRep = &kit.Prop[RepCase]{
	ID: "C03", Name: "client-repetition", Journal: true,
	Rule: "one well-formed message (plaintext CONNECT under MITM, GET, OPTIONS *, CONNECT followed by a request) repeated up to 600 000 times (15-30 MB) on one connection to a MITM-configured proxy with the default idle timeout; the process must survive and go on serving; non-trivial = always",
	Run:  runRep, NonTrivial: func(RepCase) bool { return true },
	Classes: func(c RepCase) []string { return []string{repUnits[c.Unit%len(repUnits)].name} },
}

func TestClientRepetition(t *testing.T) {
	if kit.Race() {
		t.Skip("the race shard runs the concurrent check only")
	}
	propRep.Enumerate(t, func(yield func(RepCase) bool) {
		for u := range repUnits {
			n, cut := 600000, kit.N(40000, 200000)
			if u == 1 {
				n, cut = 300000, kit.N(5000, 100000) // every repetition is a round trip to the origin
			}
			if !yield(RepCase{Unit: u, Count: n, CutAt: cut}) {
				return
			}
		}
	})
}
