// Package c03 decides property C03: upstream failures become 502s or clean
// closes, never a crash, hang or desync.
package c03

import (
	"bufio"
	"bytes"
	"compress/gzip"
	"compress/zlib"
	"errors"
	"fmt"
	"io"
	"net"
	"net/http"
	"net/url"
	"regexp"
	"strings"
	"sync"
	"sync/atomic"
	"testing"
	"time"

	"github.com/google/martian/v3"
	"github.com/google/martian/v3/fifo"
	"github.com/google/martian/v3/har"
	"github.com/google/martian/v3/martianlog"
	"github.com/google/martian/v3/trafficshape"
	"pgregory.net/rapid"

	"verifharness/internal/kit"
	"verifharness/internal/netkit"
)

func TestMain(m *testing.M) { kit.Main(m, "C03") }

// Case is one upstream fault followed by a healthy request on the same
// client connection.
type Case struct {
	Kind string `json:"kind"` // truncate | dial | nonhttp

	// truncate: the response template and where it is cut
	Framing string `json:"framing,omitempty"` // cl | chunked
	Body    int    `json:"body,omitempty"`    // body bytes
	Chunks  []int  `json:"chunks,omitempty"`  // chunk sizes (chunked)
	Pad     int    `json:"pad,omitempty"`     // extra header bytes
	Cut     int    `json:"cut"`               // bytes of the response that are written
	End     string `json:"end,omitempty"`     // fin | rst

	Dial    string `json:"dial,omitempty"`    // one of dialOutcomes
	Payload string `json:"payload,omitempty"` // class of non-HTTP bytes
	Seed    uint64 `json:"seed,omitempty"`

	Post bool `json:"post,omitempty"` // first request is a POST with a small body
	// Logger: a body-capturing HAR logger runs as response modifier (before the
	// stamp): a logger must not turn a truncated response into a complete one.
	Logger bool `json:"logger,omitempty"`
	// ConnectFirst (kind dial, proxy without MITM): request 1 is a CONNECT to
	// the unreachable target instead of a plain request.
	ConnectFirst bool `json:"connect_first,omitempty"`
	// Shaped: the proxy is served on a trafficshape.Listener without shapes.
	Shaped bool `json:"shaped,omitempty"`
	// Downstream (with ConnectFirst): the proxy reaches everything through a
	// downstream proxy, and it is that proxy which fails on the CONNECT: its
	// connection is closed/reset on accept, it answers with non-HTTP bytes, or
	// its "200 Connection established" head is cut at offset Cut (kind truncate,
	// framing connect-200). Ordinary requests through it are answered properly.
	Downstream bool `json:"downstream,omitempty"`
	// Kind rt-error: the round tripper the embedding program installed fails for
	// request 1 without touching the request body (as a circuit breaker does).

	// Refusal (kind truncate, with Downstream and ConnectFirst): the downstream
	// proxy refuses the CONNECT with this status and a body framed as Framing
	// says; its answer is cut at Cut like any other response, or (End "keep") it
	// is complete and the downstream proxy keeps its connection open, as an
	// HTTP/1.1 proxy does after an answer that is not a tunnel.
	Refusal int `json:"refusal,omitempty"`
	// Timeout (ms, 0 = 60 s) is the proxy's timeout; the client idles Idle ms on
	// its fresh connection before it sends request 1, and the origin waits Slow
	// ms after reading the request before it fails: Idle+Slow exceeds Timeout,
	// Slow alone is well within it.
	// Coding: the response (and, with Post, the request) announces this
	// Content-Encoding (deflate | gzip | DEFLATE | x-gzip) and its body is the
	// first Body bytes of a stream in that coding: a complete one when Body is
	// large enough, else a body that is cut short at the source or is not the
	// coding at all (one byte, two bytes ...).
	Coding string `json:"coding,omitempty"`
	// Decode: the modifier chain is the one cmd/proxy wires: a martianlog logger
	// that decodes bodies (before the stamp), besides the HAR logger of Logger.
	Decode bool `json:"decode,omitempty"`
	Timeout int `json:"timeout,omitempty"`
	Idle    int `json:"idle,omitempty"`
	Slow    int `json:"slow,omitempty"`
}

type dialTimeout struct{}

func (dialTimeout) Error() string   { return "i/o timeout" }
func (dialTimeout) Timeout() bool   { return true }
func (dialTimeout) Temporary() bool { return true }

// dialOutcomes: what a dial can come to. The first three are played by the
// harness (refusal reported without address, accepted then closed / reset).
var dialOutcomes = []string{"refused", "accept-close", "accept-rst", "unresolvable", "bad-port", "bad-address", "refused-real", "timeout", "plain-error"}

// failingRT fails for one host without reading the request.
type failingRT struct {
	next http.RoundTripper
}

func (f failingRT) RoundTrip(req *http.Request) (*http.Response, error) {
	if strings.HasPrefix(req.URL.Host, "faulty.test") {
		return nil, errors.New("verif: upstream circuit open")
	}
	return f.next.RoundTrip(req)
}

var warnDate = regexp.MustCompile(`"([A-Z][a-z][a-z], [0-9]{2} [A-Z][a-z][a-z] [0-9]{4} [0-9:]{8} GMT)"$`)

// The process lives in a zone that is not GMT, as most do: a time that is
// formatted without being converted shows.
func init() { time.Local = time.FixedZone("verif-east", 5*3600) }

const marker2 = "MARKER-TWO-7f3a91c2"
const marker3 = "MARKER-THREE-55e0b7"

// wireBody is the body the origin sends (before framing).
func (c *Case) wireBody() []byte {
	if c.Coding == "" {
		return kit.Text(c.Seed+11, c.Body)
	}
	var b bytes.Buffer
	text := kit.Text(c.Seed+11, 40)
	if strings.Contains(strings.ToLower(c.Coding), "gzip") {
		w := gzip.NewWriter(&b)
		w.Write(text)
		w.Close()
	} else {
		w := zlib.NewWriter(&b)
		w.Write(text)
		w.Close()
	}
	if c.Body < b.Len() {
		return b.Bytes()[:c.Body]
	}
	return b.Bytes()
}

func (c *Case) template() (raw []byte, headLen int) {
	var b bytes.Buffer
	if c.Framing == "connect-200" {
		b.WriteString("HTTP/1.1 200 Connection established\r\nVia: 1.1 downstream.test\r\n\r\n")
		return b.Bytes(), b.Len()
	}
	if c.Refusal != 0 {
		fmt.Fprintf(&b, "HTTP/1.1 %d %s\r\n", c.Refusal, http.StatusText(c.Refusal))
	} else {
		b.WriteString("HTTP/1.1 200 OK\r\n")
	}
	if c.Pad > 0 {
		fmt.Fprintf(&b, "X-Pad: %s\r\n", kit.Text(7, c.Pad))
	}
	body := c.wireBody()
	if c.Coding != "" {
		fmt.Fprintf(&b, "Content-Encoding: %s\r\n", c.Coding)
	}
	if c.Framing == "chunked" {
		b.WriteString("Transfer-Encoding: chunked\r\n\r\n")
		headLen = b.Len()
		i, k := 0, 0
		for i < len(body) {
			n := 5
			if len(c.Chunks) > 0 {
				n = c.Chunks[k%len(c.Chunks)]
				k++
			}
			if n < 1 {
				n = 1
			}
			if i+n > len(body) {
				n = len(body) - i
			}
			fmt.Fprintf(&b, "%x\r\n%s\r\n", n, body[i:i+n])
			i += n
		}
		b.WriteString("0\r\n\r\n")
	} else {
		fmt.Fprintf(&b, "Content-Length: %d\r\n\r\n", len(body))
		headLen = b.Len()
		b.Write(body)
	}
	return b.Bytes(), headLen
}

func (c *Case) payload() []byte {
	switch c.Payload {
	case "random":
		b := kit.Bytes(c.Seed, 64+int(c.Seed%512))
		b[0] |= 0x80 // never starts like an HTTP status line
		return b
	case "ssh":
		return []byte("SSH-2.0-OpenSSH_8.9p1 Debian-3\r\n")
	case "tls-alert":
		return []byte{0x15, 0x03, 0x03, 0x00, 0x02, 0x02, 0x28}
	case "half-status-line":
		return []byte("HTTP/1.1 20")
	case "huge-status-code":
		return []byte("HTTP/1.1 99999999999999999999 Whatever\r\nContent-Length: 0\r\n\r\n")
	case "negative-status-code":
		return []byte("HTTP/1.1 -200 OK\r\nContent-Length: 0\r\n\r\n")
	case "header-without-colon":
		return []byte("HTTP/1.1 200 OK\r\nThis line has no colon\r\nContent-Length: 0\r\n\r\n")
	case "bad-version":
		return []byte("HTTX/9.9 200 OK\r\nContent-Length: 0\r\n\r\n")
	case "bad-content-length":
		return []byte("HTTP/1.1 200 OK\r\nContent-Length: nineteen\r\n\r\n")
	case "nul-bytes":
		return bytes.Repeat([]byte{0}, 300)
	case "control-byte-in-header-name":
		return []byte("HTTP/1.1 200 OK\r\nX-Bro\x01ken\x7f: v\r\nContent-Length: 0\r\n\r\n")
	case "control-byte-in-header-value":
		return []byte("HTTP/1.1 200 OK\r\nX-Fine: a\x00b\x1bc\r\nContent-Length: 0\r\n\r\n")
	case "cr-in-header-line":
		return []byte("HTTP/1.1 200 OK\r\nX-Fine: a\rInjected: yes\r\nContent-Length: 0\r\n\r\n")
	case "control-byte-in-status-line":
		return []byte("HTTP/1.1 200 O\x02K\x00\r\nBad Header\x03Line\r\n\r\n")
	case "non-ascii-header-name":
		return []byte("HTTP/1.1 200 OK\r\nX-\xc3\xa9\xff: v\r\nContent-Length: 0\r\n\r\n")
	}
	return []byte("garbage\r\n\r\n")
}

var payloads = []string{"random", "ssh", "tls-alert", "half-status-line", "huge-status-code", "negative-status-code", "header-without-colon", "bad-version", "bad-content-length", "nul-bytes",
	"control-byte-in-header-name", "control-byte-in-header-value", "cr-in-header-line", "control-byte-in-status-line", "non-ascii-header-name"}

// lenientOK lists payloads that Go's own response parser may accept as a valid
// response (it tolerates some control bytes in values); for them the origin's
// response coming through is as acceptable as a 502.
var lenientOK = map[string]bool{"control-byte-in-header-value": true, "cr-in-header-line": true, "non-ascii-header-name": true, "control-byte-in-status-line": true}

// malformedHead reports control bytes in a response head (everything before
// the first blank line): a well-formed message has none besides CR LF and HT.
func malformedHead(stream []byte) (bool, int) {
	end := bytes.Index(stream, []byte("\r\n\r\n"))
	if end < 0 {
		end = len(stream)
	}
	for i, b := range stream[:end] {
		if (b < 0x20 && b != '\r' && b != '\n' && b != '\t') || b == 0x7f {
			return true, i
		}
		if b == '\r' && (i+1 >= len(stream) || stream[i+1] != '\n') {
			return true, i
		}
	}
	return false, 0
}

// recConn records every byte read from the connection.
type recConn struct {
	net.Conn
	mu  sync.Mutex
	got bytes.Buffer
}

func (r *recConn) Read(p []byte) (int, error) {
	n, err := r.Conn.Read(p)
	r.mu.Lock()
	r.got.Write(p[:n])
	r.mu.Unlock()
	return n, err
}

func (r *recConn) bytes() []byte {
	r.mu.Lock()
	defer r.mu.Unlock()
	return append([]byte(nil), r.got.Bytes()...)
}

func shape(c Case, headLen, total int) string {
	if c.Idle > 0 {
		return "late-request-" + c.Kind
	}
	switch c.Kind {
	case "dial":
		if c.Downstream {
			return "connect-downstream-dial-" + c.Dial
		}
		if c.ConnectFirst {
			return "connect-dial-" + c.Dial
		}
		return "dial-" + c.Dial
	case "nonhttp":
		if c.Downstream {
			return "connect-downstream-nonhttp-" + c.Payload
		}
		return "nonhttp-" + c.Payload
	case "rt-error":
		return "round-tripper-error"
	}
	if c.Downstream && c.Refusal == 0 {
		return "connect-downstream-answer-cut"
	}
	pos := "post-head"
	switch {
	case c.Cut == 0:
		pos = "nothing-sent"
	case c.Cut < headLen:
		pos = "inside-head"
	case c.Cut >= total:
		pos = "complete-then-close"
	}
	if c.Refusal != 0 {
		if c.End == "keep" {
			return "connect-downstream-refusal-kept-open"
		}
		return "connect-downstream-refusal-cut-" + pos
	}
	return "truncate-" + c.Framing + "-" + pos
}

func run(c Case) kit.Verdict {
	v := runOnce(c, kit.T())
	if c.Idle > 0 && len(v) > 0 && !kit.Shrinking() {
		// timing is part of the case: say it only if it also fails with every span doubled
		c2 := c
		c2.Timeout, c2.Idle, c2.Slow = 2*c.Timeout, 2*c.Idle, 2*c.Slow
		if v2 := runOnce(c2, 2*kit.T()); len(v2) == 0 {
			kit.Inconclusive("faults")
			return nil
		}
		return v
	}
	retry := false
	for _, f := range v {
		if strings.Contains(f.Sig, "timeout") || strings.Contains(f.Sig, "not-followed-by-close") {
			retry = true
		}
	}
	if retry && !kit.Shrinking() {
		v2 := runOnce(c, 3*kit.T())
		if len(v2) == 0 {
			kit.Inconclusive("faults")
			return nil
		}
		return v2
	}
	return v
}

func runOnce(c Case, T time.Duration) (v kit.Verdict) {
	raw, headLen := c.template()
	if c.Kind != "truncate" {
		headLen = 1 << 30
	}
	sh := shape(c, headLen, len(raw))
	if c.Logger {
		sh += "-with-har-logger"
	}
	if c.Decode {
		sh += "-with-decoding-logger"
	}
	if c.Coding != "" {
		sh += "-coded-body"
	}
	if c.Shaped {
		sh += "-on-shaped-listener"
	}
	sig := func(class string) string { return "C03/" + sh + "/" + class }

	healthy := netkit.NewOrigin(func(r *netkit.ReqLog) netkit.Script {
		m := marker2
		if r.Path == "/third" {
			m = marker3
		}
		return netkit.Script{Raw: []byte(fmt.Sprintf("HTTP/1.1 200 OK\r\nContent-Length: %d\r\nX-Healthy: yes\r\n\r\n%s", len(m), m)), CutAt: -1}
	})
	defer healthy.Close()
	faulty := netkit.NewOrigin(func(r *netkit.ReqLog) netkit.Script {
		if c.Downstream && r.Method != "CONNECT" {
			// the downstream proxy relays ordinary requests properly
			m := marker2
			if r.Path == "/third" {
				m = marker3
			}
			return netkit.Script{Raw: []byte(fmt.Sprintf("HTTP/1.1 200 OK\r\nContent-Length: %d\r\nX-Healthy: yes\r\n\r\n%s", len(m), m)), CutAt: -1}
		}
		slow := time.Duration(c.Slow) * time.Millisecond
		switch c.Kind {
		case "nonhttp":
			return netkit.Script{Raw: c.payload(), CutAt: -1, After: "close", Delay: slow}
		default:
			after := "close"
			switch c.End {
			case "rst":
				after = "rst"
			case "keep":
				return netkit.Script{Raw: raw, CutAt: -1, After: "keep"}
			}
			return netkit.Script{Raw: raw, CutAt: c.Cut, After: after, Delay: slow}
		}
	})
	defer faulty.Close()
	if c.Kind == "dial" && (c.Dial == "accept-close" || c.Dial == "accept-rst") {
		faulty.AcceptHook = func(idx int, conn net.Conn) bool {
			if c.Downstream && idx > 0 {
				return false // only the connection made for the CONNECT is dropped
			}
			if c.Dial == "accept-rst" {
				netkit.Reset(conn)
			} else {
				conn.Close()
			}
			return true
		}
	}
	var downDials int32
	dialer := &netkit.Dialer{Route: func(addr string) string {
		if strings.HasPrefix(addr, "faulty.test") || strings.HasPrefix(addr, "downstream.test") {
			if c.Kind == "dial" && c.Dial == "refused" {
				if !c.Downstream || atomic.AddInt32(&downDials, 1) == 1 {
					return "" // (a downstream proxy is unreachable for the CONNECT only)
				}
			}
			return faulty.Addr
		}
		return healthy.Addr
	}}
	p := martian.NewProxy()
	p.SetTimeout(60 * time.Second)
	if c.Timeout > 0 {
		p.SetTimeout(time.Duration(c.Timeout) * time.Millisecond)
	}
	p.SetDial(func(network, addr string) (net.Conn, error) {
		if c.Kind == "dial" && !c.Downstream && strings.HasPrefix(addr, "faulty.test") {
			// dial outcomes as the net package itself reports them
			switch c.Dial {
			case "unresolvable": // no address exists yet: OpError.Addr and Source are nil
				return nil, &net.OpError{Op: "dial", Net: network, Err: &net.DNSError{Err: "no such host", Name: "faulty.test", IsNotFound: true}}
			case "bad-port":
				return net.Dial("tcp", "127.0.0.1:99999")
			case "bad-address":
				return net.Dial("tcp", "[fe80::1%%]:80")
			case "refused-real":
				l, err := netkit.Listen()
				if err != nil {
					return nil, err
				}
				to := l.Addr().String()
				l.Close()
				return net.Dial("tcp", to)
			case "timeout":
				return nil, &net.OpError{Op: "dial", Net: network, Addr: &net.TCPAddr{IP: net.IPv4(192, 0, 2, 1), Port: 80}, Err: dialTimeout{}}
			case "plain-error": // a custom dialer's error that is no OpError at all
				return nil, errors.New("verif: no route to " + addr)
			}
		}
		return dialer.Dial(network, addr)
	})
	if c.Downstream {
		p.SetDownstreamProxy(&url.URL{Scheme: "http", Host: "downstream.test:3128"})
	}
	if c.Kind == "rt-error" {
		p.SetRoundTripper(failingRT{p.GetRoundTripper()})
	}
	stamp := martian.ResponseModifierFunc(func(res *http.Response) error {
		res.Header.Set("X-Verif-Resmod", "1")
		return nil
	})
	if c.Logger || c.Decode {
		grp := fifo.NewGroup()
		grp.SetAggregateErrors(true)
		if c.Decode {
			ml := martianlog.NewLogger()
			ml.SetDecode(true)
			ml.SetLogFunc(func(string) {})
			grp.AddRequestModifier(ml)
			grp.AddResponseModifier(ml)
		}
		if c.Logger {
			hl := har.NewLogger()
			grp.AddRequestModifier(hl)
			grp.AddResponseModifier(hl)
		}
		grp.AddResponseModifier(stamp)
		p.SetRequestModifier(grp)
		p.SetResponseModifier(grp)
	} else {
		p.SetResponseModifier(stamp)
	}
	var wrap func(net.Listener) net.Listener
	if c.Shaped {
		wrap = func(l net.Listener) net.Listener { return trafficshape.NewListener(l) }
	}
	pr := netkit.Start(p, wrap)
	defer pr.Stop(10 * time.Second)

	conn, err := net.DialTimeout("tcp", pr.Addr, 5*time.Second)
	if err != nil {
		return kit.Failf("C03/harness/dial", "cannot reach the proxy: %v", err)
	}
	rc := &recConn{Conn: conn}
	defer rc.Close()
	br := bufio.NewReaderSize(rc, 64<<10)

	req1 := "GET http://faulty.test/first HTTP/1.1\r\nHost: faulty.test\r\n\r\n"
	method1 := "GET"
	if c.Post {
		pbody := "hello"
		if c.Seed%3 == 2 {
			pbody = string(kit.Text(c.Seed, 6000)) // does not fit the proxy's read buffer
		}
		coding := ""
		if c.Coding != "" {
			pbody, coding = string(c.wireBody()), "Content-Encoding: "+c.Coding+"\r\n"
		}
		req1 = fmt.Sprintf("POST http://faulty.test/first HTTP/1.1\r\nHost: faulty.test\r\n%sContent-Length: %d\r\n\r\n%s", coding, len(pbody), pbody)
		method1 = "POST"
	}
	if c.ConnectFirst {
		req1 = "CONNECT faulty.test:443 HTTP/1.1\r\nHost: faulty.test:443\r\n\r\n"
		method1 = "CONNECT"
	}
	req2 := "GET http://healthy.test/second HTTP/1.1\r\nHost: healthy.test\r\n\r\n"
	time.Sleep(time.Duration(c.Idle) * time.Millisecond)
	rc.SetWriteDeadline(time.Now().Add(10 * time.Second))
	if _, err := rc.Write([]byte(req1)); err != nil {
		return kit.Failf(sig("client-write-failed"), "writing request 1: %v", err)
	}

	readBody := func(res *http.Response) (body []byte, state string, err error) {
		var buf bytes.Buffer
		tmp := make([]byte, 32<<10)
		for {
			rc.SetReadDeadline(time.Now().Add(T))
			n, rerr := res.Body.Read(tmp)
			buf.Write(tmp[:n])
			if rerr == io.EOF {
				return buf.Bytes(), "complete", nil
			}
			if rerr != nil {
				if netkit.IsTimeout(rerr) {
					return buf.Bytes(), "open", rerr
				}
				return buf.Bytes(), "closed", rerr
			}
		}
	}
	checkSecond := func(after string) {
		rc.SetWriteDeadline(time.Now().Add(10 * time.Second))
		if _, err := rc.Write([]byte(req2)); err != nil {
			v.Addf(sig("connection-unusable-after-"+after), "writing request 2 after a %s: %v", after, err)
			return
		}
		rc.SetReadDeadline(time.Now().Add(T))
		res2, err := http.ReadResponse(br, &http.Request{Method: "GET"})
		if err != nil {
			class := "connection-unusable-after-" + after
			if netkit.IsTimeout(err) {
				class = "timeout-second-response-after-" + after
			}
			v.Addf(sig(class), "no parseable response to request 2 after a %s: %v; stream so far %q", after, err, trunc(rc.bytes(), 300))
			return
		}
		b2, st2, _ := readBody(res2)
		if res2.StatusCode != 200 || st2 != "complete" || string(b2) != marker2 || res2.Header.Get("X-Verif-Resmod") != "1" {
			v.Addf(sig("second-response-wrong-after-"+after), "response 2 after a %s: status %d, body %q (%s), resmod stamp %q, Warning %q", after, res2.StatusCode, trunc(b2, 80), st2, res2.Header.Get("X-Verif-Resmod"), res2.Header["Warning"])
		}
	}

	rc.SetReadDeadline(time.Now().Add(T + time.Duration(c.Slow)*time.Millisecond))
	res1, err := http.ReadResponse(br, &http.Request{Method: method1})
	switch {
	case err != nil:
		class := "no-well-formed-response"
		if netkit.IsTimeout(err) {
			class = "timeout-first-response"
		}
		v.Addf(sig(class), "response 1 is not a parseable response head (%v); stream %q", err, trunc(rc.bytes(), 200))
	case res1.StatusCode == 502:
		if bad, at := malformedHead(rc.bytes()); bad {
			v.Addf(sig("502-malformed"), "the 502 head carries a raw control byte at offset %d: %q", at, trunc(rc.bytes(), 300))
		}
		body, st, berr := readBody(res1)
		if st != "complete" {
			v.Addf(sig("502-incomplete"), "the 502 itself is incomplete (%s, %v) after %d body bytes", st, berr, len(body))
			break
		}
		if res1.Header.Get("Warning") == "" {
			v.Addf(sig("502-without-warning"), "502 carries no Warning header: %v", res1.Header)
		}
		for _, w := range res1.Header["Warning"] {
			// warning-value = warn-code SP warn-agent SP warn-text [ SP DQUOTE HTTP-date DQUOTE ]:
			// an HTTP-date is a time in GMT. (The harness runs with a local zone five hours east of it.)
			if m := warnDate.FindStringSubmatch(w); m != nil {
				if d, err := time.Parse(http.TimeFormat, m[1]); err == nil {
					if off := time.Since(d); off > time.Hour || off < -time.Hour {
						v.Addf("C03/502/any-upstream-failure/warn-date-is-not-the-time-in-gmt", "the 502's Warning %q is dated %v away from the present (local zone of the process: %s)", w, -off.Round(time.Minute), time.Now().Format("-07:00"))
					}
				}
			}
		}
		if res1.Header.Get("X-Verif-Resmod") != "1" {
			v.Addf(sig("502-bypassed-response-modifier"), "502 lacks the response modifier's stamp: %v", res1.Header)
		}
		checkSecond("502")
	default:
		// the origin's own response head came through
		if c.Kind == "nonhttp" && lenientOK[c.Payload] && res1.StatusCode == 200 {
			// Go's parser accepted the origin's bytes as a response: not a failure that "precedes a complete response head"
			if _, st, _ := readBody(res1); st == "complete" && !res1.Close {
				checkSecond("leniently-parsed-response")
			}
			break
		}
		if c.Kind != "truncate" || c.Cut < headLen {
			v.Addf(sig("no-502"), "failure precedes a complete response head, yet the client got status %d instead of a 502", res1.StatusCode)
			break
		}
		body, st, berr := readBody(res1)
		want := c.wireBody()
		switch st {
		case "complete":
			if c.Cut < len(raw) && !(c.Framing == "cl" && c.Cut >= headLen+len(want)) {
				v.Addf(sig("truncated-response-passed-off-as-complete"), "origin was cut at %d of %d bytes yet the client parsed a complete response with %d body bytes", c.Cut, len(raw), len(body))
				break
			}
			if !bytes.Equal(body, want) {
				v.Addf(sig("body-differs"), "complete response but %s", kit.Diff(want, body))
				break
			}
			if res1.Close {
				// the proxy chose to close after the complete response: fine
				break
			}
			checkSecond("complete-response")
		case "closed":
			// detectably incomplete, then closed: acceptable. Nothing of a later response may be in the stream.
			if !bytes.HasPrefix(want, body) {
				v.Addf(sig("body-differs"), "the delivered part of the body is not a prefix of the origin's: %s", kit.Diff(want, body))
			}
			rc.SetWriteDeadline(time.Now().Add(2 * time.Second))
			rc.Write([]byte(req2))
			rc.SetReadDeadline(time.Now().Add(200 * time.Millisecond))
			io.Copy(io.Discard, br)
			if bytes.Contains(rc.bytes(), []byte(marker2)) {
				v.Addf(sig("later-response-after-incomplete-one"), "bytes of response 2 followed an incomplete response 1: %q", trunc(rc.bytes(), 400))
			}
		case "open":
			// incomplete and NOT closed within T: see what a second request does to the stream
			rc.SetWriteDeadline(time.Now().Add(2 * time.Second))
			rc.Write([]byte(req2))
			deadline := time.Now().Add(T)
			tmp := make([]byte, 4096)
			for time.Now().Before(deadline) && !bytes.Contains(rc.bytes(), []byte(marker2)) {
				rc.SetReadDeadline(deadline)
				if _, err := br.Read(tmp); err != nil {
					break
				}
			}
			if bytes.Contains(rc.bytes(), []byte(marker2)) {
				v.Addf(sig("later-response-inside-earlier-body"), "response 1 promised more body than it delivered (%d bytes, %v), the connection stayed open and response 2 was delivered inside it: %q", len(body), berr, trunc(rc.bytes(), 400))
			} else {
				v.Addf(sig("incomplete-response-not-followed-by-close"), "response 1 is incomplete (%d body bytes, %v) but the connection was not closed within %v", len(body), berr, T)
			}
		}
	}

	// liveness: a fresh connection is still served
	cl, err := netkit.Dial(pr.Addr)
	if err != nil {
		v.Addf(sig("proxy-dead"), "fresh connection refused after the fault: %v", err)
		return v
	}
	defer cl.Close()
	cl.Write([]byte("GET http://healthy.test/third HTTP/1.1\r\nHost: healthy.test\r\n\r\n"))
	res3, _, err := cl.ReadResponse("GET", T)
	if err != nil || res3.Status != 200 || string(res3.Body) != marker3 {
		class := "fresh-connection-not-served"
		if netkit.IsTimeout(err) {
			class = "timeout-fresh-connection"
		}
		v.Addf(sig(class), "after the fault a fresh connection got %v / %+v", err, res3)
	}
	return v
}

func trunc(b []byte, n int) []byte {
	if len(b) > n {
		return b[:n]
	}
	return b
}

func nontrivial(c Case) bool {
	if c.Kind == "nonhttp" || c.Kind == "dial" || c.Kind == "rt-error" {
		return true
	}
	raw, _ := c.template()
	return (c.Cut > 0 && c.Cut < len(raw)) || c.End == "keep" || c.Idle > 0
}

func classes(c Case) []string {
	raw, headLen := c.template()
	out := []string{shape(c, headLen, len(raw)), "end-" + c.End}
	if c.Logger {
		out = append(out, "har-logger-in-response-path")
	}
	if c.Decode {
		out = append(out, "decoding-logger-in-chain")
	}
	if c.Coding != "" {
		out = append(out, "content-encoding-announced")
		if c.Body <= 2 {
			out = append(out, "coded-body-of-0-2-bytes")
		}
	}
	if c.Shaped {
		out = append(out, "traffic-shaped-listener")
	}
	if c.Downstream {
		out = append(out, "failing-downstream-proxy")
	}
	if c.Refusal != 0 {
		out = append(out, "downstream-proxy-refuses-connect")
	}
	if c.Idle > 0 {
		out = append(out, "request-late-in-idle-window")
	}
	if c.Post && (c.Kind == "dial" || c.Kind == "rt-error") {
		out = append(out, "request-body-nobody-read")
	}
	return out
}

const rule = "an upstream fault on request 1 (response cut at offset k then FIN/RST; dial refused / accepted-then-closed / accepted-then-reset; non-HTTP bytes) followed by a well-formed request 2 on the same client connection and a request 3 on a fresh one; non-trivial = 0<k<len, a dial fault or a non-HTTP payload"

var propEnum = &kit.Prop[Case]{ID: "C03", Name: "truncation-exhaustive", Rule: "EVERY cut offset k in 0..len of each small response template x {FIN,RST}; " + rule,
	Run: run, NonTrivial: nontrivial, Classes: classes, Journal: true}

var propMatrix = &kit.Prop[Case]{ID: "C03", Name: "dial-and-nonhttp-matrix", Rule: "every dial outcome and every non-HTTP payload class; " + rule,
	Run: run, NonTrivial: nontrivial, Classes: classes, Journal: true}

var propFaults = &kit.Prop[Case]{ID: "C03", Name: "faults", Rule: "rapid-drawn: larger templates (bodies to 5000 bytes, padded heads), sampled offsets biased to head end, chunk boundaries and body end; " + rule,
	Run: run, NonTrivial: nontrivial, Classes: classes, Journal: true,
	Gen: func(t *rapid.T) Case {
		kind := rapid.SampledFrom([]string{"truncate", "truncate", "truncate", "truncate", "dial", "nonhttp", "rt-error"}).Draw(t, "kind")
		c := Case{Kind: kind, Post: rapid.Bool().Draw(t, "post"), Seed: rapid.Uint64Range(1, 1<<16).Draw(t, "seed"), Logger: rapid.IntRange(0, 2).Draw(t, "logger") == 0, Decode: rapid.IntRange(0, 2).Draw(t, "decode") == 0, Shaped: rapid.IntRange(0, 4).Draw(t, "shaped") == 0}
		switch kind {
		case "dial":
			c.Dial = rapid.SampledFrom(dialOutcomes).Draw(t, "dial")
			if !strings.HasPrefix(c.Dial, "accept-") && rapid.Bool().Draw(t, "connect_first") {
				c.ConnectFirst, c.Post = true, false
			}
		case "nonhttp":
			c.Payload = rapid.SampledFrom(payloads).Draw(t, "payload")
		case "rt-error":
		default:
			c.Framing = rapid.SampledFrom([]string{"cl", "chunked"}).Draw(t, "framing")
			c.Body = rapid.SampledFrom([]int{0, 1, 10, 100, 5000, 70000}).Draw(t, "body")
			c.Pad = rapid.SampledFrom([]int{0, 0, 50, 5000}).Draw(t, "pad")
			if c.Framing == "chunked" {
				c.Chunks = rapid.SliceOfN(rapid.SampledFrom([]int{1, 3, 10, 500, 4096}), 1, 4).Draw(t, "chunks")
			}
			c.End = rapid.SampledFrom([]string{"fin", "rst"}).Draw(t, "end")
			if rapid.IntRange(0, 3).Draw(t, "coded") == 0 {
				c.Coding = rapid.SampledFrom([]string{"deflate", "gzip", "DEFLATE", "x-gzip"}).Draw(t, "coding")
				c.Body = rapid.SampledFrom([]int{0, 1, 2, 3, 10, 1000}).Draw(t, "coded_body")
			}
			refusal := rapid.IntRange(0, 5).Draw(t, "refusal") == 0
			if refusal {
				c.Refusal = rapid.SampledFrom([]int{403, 407, 500, 503, 504}).Draw(t, "status")
				c.ConnectFirst, c.Downstream, c.Post, c.Logger, c.Shaped, c.Decode, c.Coding = true, true, false, false, false, false, ""
				if c.Body > 5000 {
					c.Body = 5000
				}
			}
			raw, headLen := c.template()
			switch rapid.IntRange(0, 4).Draw(t, "where") {
			case 0:
				c.Cut = rapid.IntRange(0, headLen).Draw(t, "cut")
			case 1:
				c.Cut = headLen + rapid.IntRange(-3, 12).Draw(t, "cut")
			case 2:
				c.Cut = len(raw) - rapid.IntRange(0, 12).Draw(t, "cut")
			default:
				c.Cut = rapid.IntRange(0, len(raw)).Draw(t, "cut")
			}
			if c.Cut < 0 {
				c.Cut = 0
			}
			if c.Cut > len(raw) {
				c.Cut = len(raw)
			}
			if refusal && rapid.IntRange(0, 3).Draw(t, "keep") == 0 {
				c.End, c.Cut = "keep", len(raw)
			}
		}
		return c
	},
}

func smallTemplates() []Case {
	return []Case{
		{Kind: "truncate", Framing: "cl", Body: 0},
		{Kind: "truncate", Framing: "cl", Body: 1},
		{Kind: "truncate", Framing: "cl", Body: 10},
		{Kind: "truncate", Framing: "chunked", Body: 1, Chunks: []int{1}},
		{Kind: "truncate", Framing: "chunked", Body: 7, Chunks: []int{3, 4}},
		{Kind: "truncate", Framing: "chunked", Body: 12, Chunks: []int{5, 1, 4, 2}},
		{Kind: "truncate", Framing: "cl", Body: 300, Pad: 20},
	}
}

func TestTruncationExhaustive(t *testing.T) {
	if kit.Race() {
		t.Skip("the race shard runs the concurrent check only")
	}
	tmpl := smallTemplates()
	if !kit.Thorough() {
		tmpl = []Case{tmpl[2], tmpl[4]}
	}
	propEnum.Enumerate(t, func(yield func(Case) bool) {
		for _, base := range tmpl {
			raw, _ := base.template()
			for _, end := range []string{"fin", "rst"} {
				for k := 0; k <= len(raw); k++ {
					c := base
					c.Cut, c.End = k, end
					c.Logger = end == "rst" // every offset is cut once without and once with a body-capturing logger
					if !yield(c) {
						return
					}
				}
			}
		}
	})
}

func TestDialAndNonHTTPMatrix(t *testing.T) {
	if kit.Race() {
		t.Skip("the race shard runs the concurrent check only")
	}
	propMatrix.Enumerate(t, func(yield func(Case) bool) {
		for _, post := range []bool{false, true} {
			for _, d := range dialOutcomes {
				if !yield(Case{Kind: "dial", Dial: d, Post: post}) {
					return
				}
			}
			for _, pl := range payloads {
				if !yield(Case{Kind: "nonhttp", Payload: pl, Seed: 5, Post: post, Logger: post}) {
					return
				}
			}
		}
		for _, d := range dialOutcomes {
			if strings.HasPrefix(d, "accept-") {
				continue // an accepted connection is a tunnel, however short-lived (C04)
			}
			if !yield(Case{Kind: "dial", Dial: d, ConnectFirst: true}) {
				return
			}
		}
		for _, post := range []bool{false, true} {
			if !yield(Case{Kind: "rt-error", Post: post}) {
				return
			}
		}
		// the downstream proxy fails on the CONNECT
		for _, d := range []string{"refused", "accept-close", "accept-rst"} {
			if !yield(Case{Kind: "dial", Dial: d, ConnectFirst: true, Downstream: true}) {
				return
			}
		}
		for _, pl := range payloads {
			if lenientOK[pl] {
				continue
			}
			if !yield(Case{Kind: "nonhttp", Payload: pl, Seed: 5, ConnectFirst: true, Downstream: true}) {
				return
			}
		}
		base := Case{Kind: "truncate", Framing: "connect-200", ConnectFirst: true, Downstream: true}
		raw, _ := base.template()
		for _, end := range []string{"fin", "rst"} {
			for k := 0; k < len(raw); k++ {
				c := base
				c.Cut, c.End = k, end
				if !yield(c) {
					return
				}
			}
		}
		// the downstream proxy refuses the CONNECT with a framed answer: every cut of it, and the complete answer on a connection it keeps
		for i, base := range []Case{
			{Kind: "truncate", Framing: "cl", Body: 10, Refusal: 503, ConnectFirst: true, Downstream: true},
			{Kind: "truncate", Framing: "chunked", Body: 7, Chunks: []int{3, 4}, Refusal: 407, ConnectFirst: true, Downstream: true},
		} {
			raw, _ := base.template()
			for k := 0; k <= len(raw); k++ {
				c := base
				c.Cut, c.End = k, []string{"fin", "rst"}[(k+i)%2]
				if !yield(c) {
					return
				}
			}
			c := base
			c.Cut, c.End = len(raw), "keep"
			if !yield(c) {
				return
			}
		}
		// bodies that announce a coding and are 0, 1, 2 ... bytes of it, complete as framed, through the logging chain cmd/proxy wires
		for _, coding := range []string{"deflate", "gzip", "DEFLATE"} {
			for _, body := range []int{0, 1, 2, 3, 10, 1000} {
				for i, framing := range []string{"cl", "chunked"} {
					for _, post := range []bool{false, true} {
						c := Case{Kind: "truncate", Framing: framing, Body: body, Coding: coding, End: "fin", Post: post, Decode: true, Logger: (body+i)%2 == 0}
						raw, _ := c.template()
						c.Cut = len(raw)
						if !yield(c) {
							return
						}
					}
				}
			}
		}
		// the failure comes when most of the idle window had passed before the request was sent
		for _, c := range []Case{
			{Kind: "truncate", Framing: "cl", Body: 10, Cut: 0, End: "fin", Timeout: 2000, Idle: 1200, Slow: 1200},
			{Kind: "nonhttp", Payload: "ssh", Seed: 5, Timeout: 2000, Idle: 1200, Slow: 1200},
		} {
			if !yield(c) {
				return
			}
		}
	})
}

func TestFaults(t *testing.T) {
	if kit.Race() {
		t.Skip("the race shard runs the concurrent check only")
	}
	propFaults.Check(t, kit.N(300, 800))
}

func TestReplay(t *testing.T) { kit.Replay(t, propEnum, propMatrix, propFaults, propClient, propRep, propHello) }
