package c20

import (
	"bufio"
	"bytes"
	"encoding/json"
	"errors"
	"fmt"
	"io"
	"math"
	"math/big"
	"mime/multipart"
	"net/http"
	"net/url"
	"os"
	"path"
	"path/filepath"
	"regexp"
	"runtime"
	"strings"
	"sync"
	"syscall"
	"testing"
	"time"
	"unicode/utf8"

	"github.com/google/martian/v3/body"
	"github.com/google/martian/v3/parse"
	"github.com/google/martian/v3/proxyutil"
	"github.com/google/martian/v3/static"
	"pgregory.net/rapid"

	"verifharness/internal/kit"
)

func TestMain(m *testing.M) { kit.Main(m, "C20") }

const maxContent = 64 << 10

// ---------------------------------------------------------------- file tree

// tree is the directory structure used by the static-file checks:
//
//	top/sentinel.txt, top/up2/sentinel.txt                                 (outside, 3 and 2 levels up)
//	base = top/up2/up1: base/sentinel.txt, base/secret/sentinel.txt,
//	base/root-evil/file.txt, base/a.txt                                    (outside, 1 level up / siblings)
//	base/root/...                                                          (the configured root)
//
// It is created once per test function, read-only afterwards (except
// root/case.bin, rewritten by every range case), and removed by the test's
// cleanup.
type fileTree struct {
	top, base, root string
	files           map[string][]byte // path below root ("/a.txt") -> content
	explicit        map[string]string
}

var (
	treeMu sync.Mutex
	tree   *fileTree
)

var rootFiles = []string{
	"/index.html", "/a.txt", "/sub/b.txt", "/sub/deep/c.bin", "/sub/deep/d.txt",
	"/dir with space/e.txt", "/..x/f.txt", "/.../g.txt", "/sub/.hidden", "/sentinel.txt.ok",
	"/back\\slash.txt", "/pct%41.txt",
}

// explicitMap is the operator's explicit path mapping (request path -> file
// below the root); the last two point at files that do not exist.
var explicitMap = map[string]string{
	"/alias":          "a.txt",
	"/deep/alias.bin": "/sub/deep/c.bin",
	"/a.txt":          "sub/b.txt",
	"/missing":        "nope.txt",
	"/sub/deep/d.txt": "sub/deep/gone.txt",
}

// linkedNames: request paths of the tree that are links or have odd names
// (filled by getTree; the same every time).
var linkedNames []string

func appendOnce(l []string, s string) []string {
	for _, x := range l {
		if x == s {
			return l
		}
	}
	return append(l, s)
}

// caseTargets: the names under which the file of a static range case is asked for.
var caseTargets = map[string]string{
	"": "/case.bin", "hard": "/case-hard.bin", "noext": "/case", "zzz": "/case.zzz",
	"link": "/case-link.bin", "chain": "/case-chain.bin", "uplink": "/sub/case-up.bin",
}

var caseVias = []string{"", "hard", "noext", "zzz", "link", "chain", "uplink"}

func getTree(tb testing.TB) *fileTree {
	treeMu.Lock()
	defer treeMu.Unlock()
	if tree != nil {
		return tree
	}
	work := filepath.Join(kit.Root(), ".work")
	if out := kit.OutDir(); strings.HasPrefix(out, work+string(filepath.Separator)) {
		work = out
	}
	os.MkdirAll(work, 0o755)
	top, err := os.MkdirTemp(work, "c20-tree-")
	if err != nil {
		tb.Fatalf("cannot create the static root: %v", err)
	}
	base := filepath.Join(top, "up2", "up1")
	ft := &fileTree{top: top, base: base, root: filepath.Join(base, "root"), files: map[string][]byte{}, explicit: explicitMap}
	must := func(err error) {
		if err != nil {
			os.RemoveAll(top)
			tb.Fatalf("cannot build the static root: %v", err)
		}
	}
	write := func(p string, b []byte) {
		must(os.MkdirAll(filepath.Dir(p), 0o755))
		must(os.WriteFile(p, b, 0o644))
	}
	write(filepath.Join(base, "sentinel.txt"), sentinelMarker)
	write(filepath.Join(base, "secret", "sentinel.txt"), sentinelMarker)
	write(filepath.Join(base, "root-evil", "file.txt"), sentinelMarker)
	write(filepath.Join(base, "a.txt"), sentinelMarker)
	write(filepath.Join(top, "up2", "sentinel.txt"), sentinelMarker)
	write(filepath.Join(top, "sentinel.txt"), sentinelMarker)
	for i, f := range rootFiles {
		c := []byte(fmt.Sprintf("file %s below the root\n%s", f, kit.Text(uint64(100+i), 40+17*i)))
		ft.files[f] = c
		write(filepath.Join(ft.root, filepath.FromSlash(f)), c)
	}
	must(os.MkdirAll(filepath.Join(ft.root, "emptydir"), 0o755))
	// names without / with unknown extensions, longer than any sniffing window
	for i, f := range []string{"/README", "/noext", "/data.zzz", "/sub/archive.tar.unknownext", "/LICENSE.", "/.dotfile"} {
		c := []byte(fmt.Sprintf("file %s below the root\n%s", f, kit.Text(uint64(300+i), 700+211*i)))
		ft.files[f] = c
		write(filepath.Join(ft.root, filepath.FromSlash(f)), c)
		linkedNames = appendOnce(linkedNames, f)
	}
	// links to regular files below the root: symbolic (same directory, another
	// directory, absolute target, chains of two, through a linked directory)
	// and hard; every one of them names the content of its target
	for _, l := range [][2]string{
		{"/link-a.txt", "a.txt"}, {"/sub/link-up.txt", "../a.txt"}, {"/link-deep.bin", "sub/deep/c.bin"}, {"/sub/deep/link-side.txt", "d.txt"},
		{"/link-abs.txt", filepath.Join(ft.root, "sub", "b.txt")}, {"/chain-2.txt", "sub/b.txt"}, {"/chain-1.txt", "chain-2.txt"},
		{"/sub/chain-x", "../chain-1.txt"}, {"/link-noext", "README"}, {"/link.zzz", "index.html"}, {"/linkdir", "sub"},
	} {
		must(os.Symlink(l[1], filepath.Join(ft.root, filepath.FromSlash(l[0]))))
	}
	for _, l := range [][2]string{{"/hard-a.txt", "/a.txt"}, {"/sub/hard-c", "/sub/deep/c.bin"}} {
		must(os.Link(filepath.Join(ft.root, filepath.FromSlash(l[1])), filepath.Join(ft.root, filepath.FromSlash(l[0]))))
	}
	for _, f := range []string{"/link-a.txt", "/sub/link-up.txt", "/link-deep.bin", "/sub/deep/link-side.txt", "/link-abs.txt", "/chain-2.txt", "/chain-1.txt", "/sub/chain-x", "/link-noext", "/link.zzz", "/linkdir/b.txt", "/linkdir/deep/c.bin", "/linkdir/link-up.txt", "/hard-a.txt", "/sub/hard-c"} {
		linkedNames = appendOnce(linkedNames, f)
	}
	// the file of the range cases under other names: hard links (no extension,
	// unknown extension) and symbolic links (direct, chain of two, from below)
	write(filepath.Join(ft.root, "case.bin"), nil)
	for _, n := range []string{"case-hard.bin", "case", "case.zzz"} {
		must(os.Link(filepath.Join(ft.root, "case.bin"), filepath.Join(ft.root, n)))
	}
	must(os.Symlink("case.bin", filepath.Join(ft.root, "case-link.bin")))
	must(os.Symlink("case-link.bin", filepath.Join(ft.root, "case-chain.bin")))
	must(os.Symlink("../case.bin", filepath.Join(ft.root, "sub", "case-up.bin")))
	tree = ft
	tb.Cleanup(func() {
		treeMu.Lock()
		defer treeMu.Unlock()
		os.RemoveAll(top)
		tree = nil
	})
	return ft
}

// ---------------------------------------------------------------- running the modifiers

func newRequest(target, rangeHeader string) *http.Request {
	req, err := http.NewRequest("GET", target, nil)
	if err != nil {
		panic(err)
	}
	if rangeHeader != "" {
		req.Header["Range"] = []string{rangeHeader}
	}
	return req
}

func readLimit(content int, h string) int64 {
	k := int64(strings.Count(h, ",") + 2)
	return k*(int64(content)+600+192<<10) + 256<<10
}

// responseModifier is what both modifiers are to the proxy.
type responseModifier interface {
	ModifyResponse(*http.Response) error
}

// newBodyModifier builds a body.Modifier directly, or through the documented
// configuration path: parse.FromJSON of {"body.Modifier": {scope, contentType,
// body (base64)}}.
func newBodyModifier(content []byte, viaJSON bool) (responseModifier, error) {
	if !viaJSON {
		return body.NewModifier(content, "application/octet-stream"), nil
	}
	cfg, err := json.Marshal(map[string]interface{}{"body.Modifier": map[string]interface{}{
		"scope": []string{"response"}, "contentType": "application/octet-stream", "body": content,
	}})
	if err != nil {
		return nil, err
	}
	r, err := parse.FromJSON(cfg)
	if err != nil {
		return nil, err
	}
	if r.ResponseModifier() == nil {
		return nil, fmt.Errorf("parse.FromJSON gave no response modifier")
	}
	return r.ResponseModifier(), nil
}

// newStaticModifier builds a static.Modifier directly or through
// parse.FromJSON of {"static.Modifier": {scope, rootPath, explicitPaths}}.
func newStaticModifier(root string, explicit map[string]string, viaJSON bool) (responseModifier, error) {
	if !viaJSON {
		mod := static.NewModifier(root)
		if explicit != nil {
			mod.SetExplicitPathMappings(explicit)
		}
		return mod, nil
	}
	m := map[string]interface{}{"scope": []string{"request", "response"}, "rootPath": root}
	if root == "" {
		delete(m, "rootPath") // a configuration without the field
	}
	if explicit != nil {
		m["explicitPaths"] = explicit
	}
	cfg, err := json.Marshal(map[string]interface{}{"static.Modifier": m})
	if err != nil {
		return nil, err
	}
	r, err := parse.FromJSON(cfg)
	if err != nil {
		return nil, err
	}
	if r.ResponseModifier() == nil {
		return nil, fmt.Errorf("parse.FromJSON gave no response modifier")
	}
	return r.ResponseModifier(), nil
}

func whoLabel(who string, viaJSON bool) string {
	if viaJSON {
		return who + "-json"
	}
	return who
}

func configRejected(who string, err error) obs {
	return obs{Panic: "", Err: err, Status: -1}
}

// bodyOpts: how body.Modifier is built and what it is handed.
type bodyOpts struct {
	Slack    int     // spare capacity behind the content slice
	ViaJSON  bool    // built by parse.FromJSON
	Upstream string  // "" transport-like upstream 200; "nop": its body stays readable after Close; "206cr"/"416cr": upstream answered the Range itself
	Boundary *string // SetBoundary(*Boundary) is called (constructor-built only)
}

// nopBody is a body whose Close is a no-op (bytes.Reader behind ioutil.NopCloser:
// what other modifiers, proxyutil.NewResponse and tests hand over).
type nopBody struct{ *bytes.Reader }

func (nopBody) Close() error { return nil }

// boundaryKind: "" = usable as it is; "quoted" = accepted by multipart.Writer
// but not an RFC 2045 token (must be quoted in Content-Type); "invalid" =
// multipart.Writer.SetBoundary rejects it.
func boundaryKind(b string) string {
	if multipart.NewWriter(io.Discard).SetBoundary(b) != nil {
		return "invalid"
	}
	for i := 0; i < len(b); i++ {
		c := b[i]
		if !(c >= '0' && c <= '9' || c >= 'a' && c <= 'z' || c >= 'A' && c <= 'Z' || strings.IndexByte("!#$%&'*+-.^_`|~", c) >= 0) {
			return "quoted"
		}
	}
	return ""
}

// boundaryWho names the case shape "SetBoundary was called with a boundary
// that is not a plain token" ("" otherwise).
func boundaryWho(o bodyOpts) string {
	if o.Boundary != nil && !o.ViaJSON {
		switch boundaryKind(*o.Boundary) {
		case "invalid":
			return "body-set-boundary-rejected-by-writer"
		case "quoted":
			return "body-set-boundary-needing-quotes"
		}
	}
	return ""
}

// runBodyModifier answers a request with body.Modifier the way the proxy
// does: the upstream response is handed to ModifyResponse.
func runBodyModifier(content []byte, h string, opt bodyOpts) obs {
	slack := opt.Slack
	if opt.ViaJSON {
		slack = 0
	}
	if slack > 0 {
		// the same content in a slice with spare capacity behind it (as a decoder
		// or an append would leave it); the spare bytes are not content
		buf := make([]byte, len(content)+slack)
		copy(buf, content)
		for i := len(content); i < len(buf); i++ {
			buf[i] = 0xA5
		}
		content = buf[:len(content)]
	} else {
		content = content[:len(content):len(content)]
	}
	req := newRequest("http://example.com/resource", h)
	res := &http.Response{
		Status: "200 OK", StatusCode: 200, Proto: "HTTP/1.1", ProtoMajor: 1, ProtoMinor: 1,
		Header:        http.Header{"Content-Type": {"application/x-upstream"}, "Content-Encoding": {"gzip"}},
		Body:          newUpstreamBody(),
		ContentLength: int64(3 * len(upstreamMarker)),
		Request:       req,
	}
	strict := false
	if p := parseRange(h); h != "" && p.valid() && !p.ambiguous {
		strict = true
	}
	switch {
	case opt.Upstream == "nop":
		res.Body = nopBody{bytes.NewReader(bytes.Repeat(upstreamMarker, 3))}
	case opt.Upstream == "206cr" && strict:
		// the origin served the (forwarded) Range itself
		res.Status, res.StatusCode = "206 Partial Content", 206
		res.Header.Set("Content-Range", "bytes 0-0/12345")
	case (opt.Upstream == "304" || opt.Upstream == "204") && h == "":
		// the origin answered a conditional request / had nothing to send
		res.StatusCode = map[string]int{"304": 304, "204": 204}[opt.Upstream]
		res.Status = fmt.Sprintf("%d %s", res.StatusCode, http.StatusText(res.StatusCode))
		res.Body, res.ContentLength = http.NoBody, 0
	case opt.Upstream == "416cr" && strict:
		res.Status, res.StatusCode = "416 Requested Range Not Satisfiable", 416
		res.Header.Set("Content-Range", "bytes */12345")
	}
	mod, err := newBodyModifier(content, opt.ViaJSON)
	if err != nil {
		return configRejected("body", err)
	}
	if bm, ok := mod.(*body.Modifier); ok && opt.Boundary != nil && !opt.ViaJSON {
		bm.SetBoundary(*opt.Boundary)
	}
	return observe(res, mod.ModifyResponse, readLimit(len(content), h))
}

// static.Modifier never closes the file it opens when it answers a Range
// request (206, 416 and error paths alike): the descriptor lives until the
// garbage collector finalises the os.File. A tight loop of range cases would
// run the process out of descriptors before the collector wakes up, so the
// harness collects every 256 static runs, and once more if the limit is hit.
var staticRuns int

func drainLeakedFiles() {
	for i := 0; i < 2; i++ {
		runtime.GC()
		time.Sleep(5 * time.Millisecond)
	}
}

func outOfDescriptors(err error) bool {
	return errors.Is(err, syscall.EMFILE) || errors.Is(err, syscall.ENFILE)
}

// runStaticModifier answers a request for /case.bin (holding content) with
// static.Modifier the way the proxy does when the round trip is skipped.
func runStaticModifier(ft *fileTree, content []byte, h string, viaJSON bool, upstream ...string) (obs, error) {
	up, via := "", ""
	if len(upstream) > 0 {
		up = upstream[0]
	}
	if len(upstream) > 1 {
		via = upstream[1]
	}
	target, ok := caseTargets[via]
	if !ok {
		target = "/case.bin"
	}
	if staticRuns++; staticRuns%256 == 0 {
		runtime.GC()
	}
	var o obs
	for attempt := 0; ; attempt++ {
		err := os.WriteFile(filepath.Join(ft.root, "case.bin"), content, 0o644)
		if err == nil {
			req := newRequest("http://example.com"+target, h)
			res := proxyutil.NewResponse(200, nil, req)
			switch {
			case up == "origin" || up == "nop":
				// response scope only: the round trip was made, the origin's answer is replaced
				res.Header.Set("Content-Type", "application/x-upstream")
				res.ContentLength = int64(3 * len(upstreamMarker))
				res.Body = newUpstreamBody()
				if up == "nop" {
					res.Body = nopBody{bytes.NewReader(bytes.Repeat(upstreamMarker, 3))}
				}
			case (up == "304" || up == "204") && h == "":
				res.StatusCode = map[string]int{"304": 304, "204": 204}[up]
				res.Status = fmt.Sprintf("%d %s", res.StatusCode, http.StatusText(res.StatusCode))
				res.Body, res.ContentLength = http.NoBody, 0
			}
			mod, merr := newStaticModifier(ft.root, nil, viaJSON)
			if merr != nil {
				return configRejected("static", merr), nil
			}
			o = observe(res, mod.ModifyResponse, readLimit(len(content), h))
			err = o.Err
		}
		if outOfDescriptors(err) && attempt < 3 {
			kit.Note("range", "the process ran out of file descriptors (static.Modifier leaks one per Range request until the collector runs); collected and retried")
			drainLeakedFiles()
			continue
		}
		if o.Status == 0 && o.Panic == "" && err != nil {
			return obs{}, err
		}
		return o, nil
	}
}

// ---------------------------------------------------------------- allocation guard

var digitsRE = regexp.MustCompile(`[0-9]+`)

// allocBand reports whether the header can make an implementation that sizes
// buffers from the header allocate between 192 KiB and 2^49 bytes: some
// difference of two numbers in it (or a number itself) lies in that band.
// Larger sizes fail at once in makeslice; smaller ones are harmless.
func allocBand(h string, n int) bool {
	vals := []int64{0, int64(n) - 1}
	for _, d := range digitsRE.FindAllString(h, -1) {
		v, _ := new(big.Int).SetString(d, 10)
		if v.IsInt64() {
			vals = append(vals, v.Int64())
		}
	}
	if len(vals) > 66 {
		return true
	}
	for _, a := range vals {
		for _, b := range vals {
			if d := b - a + 1; b >= a && d > 192<<10 && d <= 1<<49 {
				return true
			}
		}
	}
	return false
}

var (
	probeOnce   sync.Once
	staticSizes bool // the static modifier sizes its buffers from the Range header
)

// staticAllocatesFromHeader probes the tree under test once with a harmless
// 1 MiB end position (single and multipart): if the answer is longer than the
// file or announces the unclamped position, header-sized buffers are in use
// and the static checks stay out of the allocation band.
func staticAllocatesFromHeader(ft *fileTree) bool {
	probeOnce.Do(func() {
		for _, h := range []string{"bytes=0-1048575", "bytes=0-1,2-1048575"} {
			o, err := runStaticModifier(ft, []byte("0123456789"), h, false)
			if err != nil || o.Panic != "" || len(o.Body) > 4096 || strings.Contains(o.Header.Get("Content-Range"), "1048575") {
				staticSizes = true
			}
		}
		if staticSizes {
			kit.Assume("static.Modifier in the tree under test sizes buffers from the Range header: static cases whose positions would make it allocate between 192 KiB and 2^49 bytes are run against body.Modifier only (the process must survive to report)")
		}
	})
	return staticSizes
}

// ---------------------------------------------------------------- range cases

// RangeCase: the content is kit.Bytes(Seed, Len); Who is "body" or "static".
// Slack (body only) is the spare capacity of the slice handed to
// body.NewModifier, filled with bytes that are not content.
type RangeCase struct {
	Who   string `json:"who"`
	Len   int    `json:"len"`
	Seed  uint64 `json:"seed"`
	Range string `json:"range"`
	Slack int    `json:"slack,omitempty"`
	// ViaJSON: the modifier is built by parse.FromJSON from its documented
	// JSON configuration instead of its Go constructor.
	ViaJSON bool `json:"via_json,omitempty"`
	// Upstream (body only): "" = a 200 whose body fails after Close (as the
	// transport's does); "nop" = its body stays readable after Close; "206cr" /
	// "416cr" = the origin answered the forwarded Range itself (206 / 416 with a
	// Content-Range of its own; used when the header is strictly valid).
	Upstream string `json:"upstream,omitempty"`
	// Boundary (body, constructor-built): SetBoundary is called with it.
	Boundary *string `json:"boundary,omitempty"`
	// Via (static): the name under which the file is asked for: "" /case.bin;
	// "hard", "noext", "zzz": hard links to it (another name, no extension, an
	// unknown extension); "link", "chain", "uplink": symbolic links (direct, a
	// chain of two, from a directory below).
	Via string `json:"via,omitempty"`
}

func (c RangeCase) opts() bodyOpts {
	return bodyOpts{Slack: c.Slack, ViaJSON: c.ViaJSON, Upstream: c.Upstream, Boundary: c.Boundary}
}

func runRange(c RangeCase) kit.Verdict {
	if c.Len < 0 || c.Len > maxContent || c.Slack < 0 || c.Slack > 4096 || !validHeaderValue(c.Range) {
		return nil
	}
	content := kit.Bytes(c.Seed, c.Len)
	switch c.Who {
	case "body":
		o := runBodyModifier(content, c.Range, c.opts())
		o.BoundaryWho = boundaryWho(c.opts())
		return judge(whoLabel("body", c.ViaJSON), content, c.Range, o)
	case "static":
		treeMu.Lock()
		ft := tree
		treeMu.Unlock()
		if ft == nil {
			return kit.Failf("C20/harness/no-tree", "static case without a file tree")
		}
		if staticAllocatesFromHeader(ft) && allocBand(c.Range, c.Len) {
			return judge(whoLabel("body", c.ViaJSON), content, c.Range, runBodyModifier(content, c.Range, bodyOpts{ViaJSON: c.ViaJSON}))
		}
		o, err := runStaticModifier(ft, content, c.Range, c.ViaJSON, c.Upstream, c.Via)
		if err != nil {
			return kit.Failf("C20/harness/cannot-write-case-file", "%v", err)
		}
		who := whoLabel("static", c.ViaJSON)
		if c.Via == "link" || c.Via == "chain" || c.Via == "uplink" {
			who += "-through-symlink"
		}
		return judge(who, content, c.Range, o)
	}
	return nil
}

func classesRange(c RangeCase) []string {
	n := int64(c.Len)
	p := parseRange(c.Range)
	cl := []string{"who-" + c.Who}
	if c.Who == "body" && c.Slack > 0 && !c.ViaJSON {
		cl = append(cl, "body-slice-with-spare-capacity")
	}
	if c.ViaJSON {
		cl = append(cl, "built-from-json-config")
	}
	if c.Upstream != "" {
		cl = append(cl, "upstream-"+c.Upstream)
	}
	if c.Who == "static" && c.Via != "" {
		cl = append(cl, "asked-via-"+c.Via)
		if c.Via == "link" || c.Via == "chain" || c.Via == "uplink" {
			cl = append(cl, "through-symlink")
		}
	}
	if c.Who == "body" && c.Boundary != nil && !c.ViaJSON {
		cl = append(cl, "set-boundary-"+map[string]string{"": "plain", "quoted": "needing-quotes", "invalid": "rejected-by-writer"}[boundaryKind(*c.Boundary)])
	}
	if c.Range == "" {
		return append(cl, "shape-no-range")
	}
	cl = append(cl, "shape-"+p.shape(n))
	if p.valid() {
		sat, unsat := p.resolve(n)
		switch {
		case len(sat) == 0:
			cl = append(cl, "expect-unsatisfiable")
		case len(sat) == 1:
			cl = append(cl, "expect-single-range")
		default:
			cl = append(cl, "expect-multipart")
		}
		if unsat > 0 && len(sat) > 0 {
			cl = append(cl, "mixed-satisfiable-and-not")
		}
		for _, s := range sat {
			if s.RawEnd > s.E {
				cl = append(cl, "clamped")
				break
			}
		}
	} else {
		cl = append(cl, "expect-invalid")
	}
	if p.ambiguous {
		cl = append(cl, "lenient-only-syntax")
	}
	if p.listOWS && !p.ambiguous && p.ok {
		cl = append(cl, "list-whitespace-strict")
	}
	if c.Len == 0 {
		cl = append(cl, "empty-content")
	}
	return cl
}

var rangeRule = "content of 0..64 KiB x Range header drawn from the RFC 7233 grammar (1..4 specs a-b / a- / -n, positions from {0,1,len-2,len-1,len,len+1,2^31,2^50,2^63-1,2^63,2^64,10^30} and uniform, reversed pairs, blanks inside members, 0..2 SP/HTAB around every comma for all three spec kinds in every list position, other letter case, other units, empty and garbage elements, stray commas, character-level mutations), answered by body.Modifier (content slice with or without spare capacity) or static.Modifier (the file asked for by its own name, through hard links without / with an unknown extension, through symbolic links: direct, chain of two, from a directory below), built by their Go constructors or by parse.FromJSON from the documented JSON configuration, and judged against an independent range resolver; non-trivial = an end >= len, a suffix or open-ended spec, >= 2 specs, or a malformed spec"

// ---- generator

func edgePositions(n int) []string {
	out := []string{"0", "1"}
	for _, d := range []int{-2, -1, 0, 1, 100} {
		if n+d >= 0 {
			out = append(out, fmt.Sprint(n+d))
		}
	}
	return append(out, "65535", "65536", "2147483647", "2147483648", "4294967296", "1125899906842624",
		"4611686018427387904", "9223372036854775806", "9223372036854775807", "9223372036854775808",
		"18446744073709551615", "18446744073709551616", "1000000000000000000000000000000")
}

func genPos(t *rapid.T, n int, label string) string {
	var s string
	switch rapid.IntRange(0, 9).Draw(t, label+"_how") {
	case 0, 1, 2, 3:
		s = fmt.Sprint(rapid.IntRange(0, n+2).Draw(t, label))
	case 4, 5, 6:
		s = rapid.SampledFrom(edgePositions(n)).Draw(t, label+"_edge")
	case 7:
		s = fmt.Sprint(rapid.IntRange(0, 3*maxContent).Draw(t, label+"_near"))
	case 8:
		s = fmt.Sprint(rapid.Uint64().Draw(t, label+"_u64"))
	default:
		s = fmt.Sprint(rapid.IntRange(0, 9).Draw(t, label+"_digit"))
	}
	// (rapid favours the ends of an integer range: rare choices sit in the middle)
	switch rapid.IntRange(0, 39).Draw(t, label+"_deco") {
	case 20:
		s = "00" + s
	case 21:
		s = "+" + s
	}
	return s
}

var garbageSpecs = []string{"", "-", "abc", "1-2-3", "7", "0x10-0x20", "1.5-2", "--5", "a-b", "１-２", "1-b", "a-2", "-x", "5-x", "- 3", "1 2-3", "-1-2", "*", "0-*"}

func genSpec(t *rapid.T, n int) string {
	ows := func(label string) string {
		if rapid.IntRange(0, 29).Draw(t, label) == 13 {
			return rapid.SampledFrom([]string{" ", "\t", "  "}).Draw(t, label+"_ws")
		}
		return ""
	}
	var s string
	switch k := rapid.IntRange(0, 19).Draw(t, "form"); {
	case k < 9: // a-b, ordered more often than not
		a, b := genPos(t, n, "a"), genPos(t, n, "b")
		if rapid.IntRange(0, 3).Draw(t, "order") != 0 {
			x, okx := new(big.Int).SetString(strings.TrimPrefix(a, "+"), 10)
			y, oky := new(big.Int).SetString(strings.TrimPrefix(b, "+"), 10)
			if okx && oky && x.Cmp(y) > 0 {
				a, b = b, a
			}
		}
		s = a + ows("ows1") + "-" + ows("ows2") + b
	case k < 13:
		s = genPos(t, n, "a") + "-"
	case k < 17:
		s = "-" + genPos(t, n, "n")
	case k < 19:
		s = rapid.SampledFrom(garbageSpecs).Draw(t, "garbage")
	default:
		s = ""
	}
	return ows("ows0") + s + ows("ows3")
}

const mutAlphabet = "0123456789-,= \tbytesBYTES+x"

var owsChoices = []string{"", " ", "\t", "  ", " \t", "\t "}

// genListOWS draws a valid range set whose members (all three kinds, in every
// list position) carry 0..2 SP / HTAB at both ends, i.e. around every comma -
// the optional white space of the list grammar (RFC 7230 §7). Nothing follows
// the "=" directly and nothing trails: an HTTP parser trims the field value,
// and the grammar allows no blank between "=" and the first member.
func genListOWS(t *rapid.T, n int) string {
	k := rapid.IntRange(1, 4).Draw(t, "ows_specs")
	hi := n - 1
	if hi < 0 {
		hi = 0
	}
	var sb strings.Builder
	sb.WriteString("bytes=")
	for i := 0; i < k; i++ {
		if i > 0 {
			sb.WriteString(rapid.SampledFrom(owsChoices).Draw(t, "ows_before_comma"))
			sb.WriteString(",")
			sb.WriteString(rapid.SampledFrom(owsChoices).Draw(t, "ows_after_comma"))
		}
		a := rapid.IntRange(0, hi).Draw(t, "ows_a")
		switch rapid.IntRange(0, 2).Draw(t, "ows_kind") {
		case 0:
			fmt.Fprintf(&sb, "%d-%d", a, rapid.IntRange(a, hi+3).Draw(t, "ows_b"))
		case 1:
			fmt.Fprintf(&sb, "%d-", a)
		default:
			fmt.Fprintf(&sb, "-%d", rapid.IntRange(1, n+2).Draw(t, "ows_n"))
		}
	}
	return sb.String()
}

func genRangeHeader(t *rapid.T, n int) string {
	mode := rapid.IntRange(0, 22).Draw(t, "mode") // 0..14 grammar, 15..18 grammar + mutations, 19 free-form, 20..22 list white space
	if mode >= 20 {
		return genListOWS(t, n)
	}
	if mode == 19 {
		// free-form garbage
		return sanitizeHeader(rapid.StringOfN(rapid.RuneFrom([]rune(mutAlphabet+"é ")), 0, 24, -1).Draw(t, "free"))
	}
	unit := "bytes"
	switch u := rapid.IntRange(0, 19).Draw(t, "unit"); {
	case u == 11 || u == 14 || u == 15:
		b := []byte("bytes") // any letter case
		for i := range b {
			if rapid.Bool().Draw(t, "upper") {
				b[i] -= 'a' - 'A'
			}
		}
		unit = string(b)
	case u == 12 || u == 13:
		unit = rapid.SampledFrom([]string{"items", "seconds", "tes", "b", "", "bytes ", "byte", "bytess", "none", "yes", "bits", "bytes=bytes", "bytes="}).Draw(t, "unit_other")
	}
	k := 1
	if rapid.Bool().Draw(t, "several") {
		k = rapid.IntRange(2, 4).Draw(t, "specs")
	}
	var sb strings.Builder
	sb.WriteString(unit)
	sb.WriteString("=")
	for i := 0; i < k; i++ {
		if i > 0 {
			sb.WriteString(rapid.SampledFrom([]string{",", ",", ",", ",", ",", ",", ", ", ",,", " ,"}).Draw(t, "joiner"))
		}
		sb.WriteString(genSpec(t, n))
	}
	h := sb.String()
	if mode >= 15 && mode <= 18 {
		// character-level mutations
		b := []byte(h)
		for m := rapid.IntRange(1, 3).Draw(t, "mutations"); m > 0; m-- {
			pos := rapid.IntRange(0, len(b)).Draw(t, "mut_pos")
			ch := mutAlphabet[rapid.IntRange(0, len(mutAlphabet)-1).Draw(t, "mut_ch")]
			switch op := rapid.IntRange(0, 2).Draw(t, "mut_op"); {
			case op == 0 && pos < len(b):
				b = append(b[:pos], b[pos+1:]...)
			case op == 1 && pos < len(b):
				b[pos] = ch
			default:
				b = append(b[:pos], append([]byte{ch}, b[pos:]...)...)
			}
		}
		h = string(b)
	}
	return sanitizeHeader(h)
}

// sanitizeHeader makes h what an HTTP parser would hand over: valid UTF-8
// (for the JSON replay file), no control characters, outer blanks trimmed.
func sanitizeHeader(h string) string {
	if !utf8.ValidString(h) {
		h = strings.ToValidUTF8(h, "?")
	}
	h = strings.Map(func(r rune) rune {
		if (r < 0x20 && r != '\t') || r == 0x7f {
			return -1
		}
		return r
	}, h)
	return strings.Trim(h, " \t")
}

func genLen(t *rapid.T) int {
	switch rapid.IntRange(0, 9).Draw(t, "len_how") {
	case 0, 1, 2, 3, 4:
		return rapid.IntRange(0, 24).Draw(t, "len_small")
	case 5, 6:
		return rapid.SampledFrom([]int{0, 1, 2, 255, 256, 4095, 4096, 4097, 32768, 65535, 65536}).Draw(t, "len_edge")
	default:
		return rapid.IntRange(0, maxContent).Draw(t, "len")
	}
}

var propRange = &kit.Prop[RangeCase]{
	ID: "C20", Name: "range", Rule: "rapid: " + rangeRule,
	Run: runRange, Classes: classesRange,
	NonTrivial: func(c RangeCase) bool { return c.Range != "" && nonTrivialRange(c.Range, int64(c.Len)) },
	Gates: map[string]float64{
		"nontrivial": 0.5, "who-body": 0.3, "body-slice-with-spare-capacity": 0.08, "built-from-json-config": 0.1, "list-whitespace-strict": 0.06, "through-symlink": 0.05, "who-static": 0.25, "expect-multipart": 0.1, "expect-single-range": 0.15,
		"clamped": 0.08, "shape-suffix": 0.05, "expect-invalid": 0.08, "shape-inside": 0.05, "expect-unsatisfiable": 0.03,
	},
	Gen: func(t *rapid.T) RangeCase {
		c := RangeCase{Len: genLen(t), Seed: uint64(rapid.IntRange(0, 1<<20).Draw(t, "seed"))}
		if w := rapid.IntRange(0, 49).Draw(t, "with_range"); w < 30 || w > 32 {
			c.Range = genRangeHeader(t, c.Len)
		}
		c.Who = rapid.SampledFrom([]string{"body", "static"}).Draw(t, "who")
		if c.Who == "static" && staticSizes && allocBand(c.Range, c.Len) {
			c.Who = "body"
		}
		if c.Who == "body" && rapid.IntRange(0, 2).Draw(t, "with_slack") == 0 {
			c.Slack = rapid.SampledFrom([]int{1, 2, 7, 64, 1000}).Draw(t, "slack")
		} else if rapid.IntRange(0, 2).Draw(t, "via_json") == 2 {
			c.ViaJSON = true
		}
		if c.Who == "static" && rapid.IntRange(0, 9).Draw(t, "via_name") >= 5 {
			c.Via = rapid.SampledFrom(caseVias[1:]).Draw(t, "via")
		}
		if c.Who == "static" {
			c.Upstream = rapid.SampledFrom([]string{"", "", "", "", "origin", "nop", "origin", "", "", ""}).Draw(t, "upstream")
		}
		if c.Range == "" && rapid.Bool().Draw(t, "bodyless_origin") {
			c.Upstream = rapid.SampledFrom([]string{"304", "204"}).Draw(t, "bodyless")
		}
		if c.Who == "body" {
			if c.Upstream == "" {
				c.Upstream = rapid.SampledFrom([]string{"", "", "", "", "nop", "206cr", "416cr", "nop", "", ""}).Draw(t, "upstream")
			}
			if !c.ViaJSON && rapid.IntRange(0, 7).Draw(t, "set_boundary") == 4 {
				b := rapid.SampledFrom(boundaryChoices).Draw(t, "boundary")
				c.Boundary = &b
			}
		}
		return c
	},
}

// boundaryChoices: usable tokens, boundaries multipart.Writer accepts but that
// need quoting in Content-Type, and boundaries it rejects.
var boundaryChoices = []string{
	"3d6b6a416f9b5", strings.Repeat("x", 70), "simple-boundary_1.0",
	"a b", "a:b", "x(y)z", "q=1?", "'quoted'", "with,comma/slash",
	"", strings.Repeat("y", 71), "bad@boundary", "trailing ", "caf\u00e9", "semi;colon", "quo\"te",
}

func TestRange(t *testing.T) {
	if kit.Race() {
		t.Skip("sequential, in-process: nothing for the race detector")
	}
	staticAllocatesFromHeader(getTree(t))
	propRange.Check(t, kit.N(4000, 20000))
}

// ---- bounded exhaustive matrix

var propRangeMatrix = &kit.Prop[RangeCase]{
	ID: "C20", Name: "range-matrix",
	Rule: "ALL headers 'bytes=' + one spec, and + two specs from a reduced set, over positions {0,1,len-2,len-1,len,len+1,2^31,2^50,2^63-1,2^63,2^64} and forms a-b / a- / -n, plus a fixed list of unit and syntax variants, plus (length 10) the unit in all 32 letter cases, nine representative headers x {transport-like upstream, upstream body readable after Close, upstream 206 / 416 with its own Content-Range} x 16 SetBoundary arguments (tokens, boundaries needing quotes, boundaries multipart.Writer rejects), and every placement of SP / HTAB around the commas of all ordered pairs and triples of the three spec kinds, for every content length in {0,1,2,3,10}, against both modifiers (for lengths 2 and 10 also built from their JSON configuration); non-trivial as in 'range'",
	Run:  runRange, Classes: classesRange,
	NonTrivial: func(c RangeCase) bool { return c.Range != "" && nonTrivialRange(c.Range, int64(c.Len)) },
}

var syntaxVariants = []string{
	"", "bytes=", "bytes", "bytes=,", "bytes=-", "bytes=--1", "bytes=0-0,", "bytes=,0-0", "bytes=0-0,,1-1", "bytes=0-0, 1-1", "bytes=0-0 ,1-1",
	"bytes= 0-0", "bytes=0 - 0", "bytes=0- ,1-1", "bytes=0-\t,0-0", "Bytes=0-0", "BYTES=0-1", "bytes =0-0", "items=0-0", "seconds=0-1", "tes=0-0", "tes=0-99",
	"=0-0", "=0-99", "yes=-1", "bytes=bytes=0-0", "bytes==0-0", "bytes==0-99", "bytes=s0-1", "bytes=b-1", "none", "0-0", "bytes:0-0",
	"bytes=abc", "bytes=a-b", "bytes=0-b", "bytes=a-1", "bytes=1-2-3", "bytes=7", "bytes=0x0-0x1", "bytes=+0-+1", "bytes=00-01", "bytes=0-0,abc", "bytes=abc,0-0",
	"bytes=1-0", "bytes=0-0,1-0", "bytes=1-0,0-0", "bytes=-0", "bytes=-1,-0", "bytes=0-,0-,0-", "bytes=0-0,0-0", "bytes=1-1,0-0", "bytes=0-1,1-2,2-3,0-",
	"bytes=0-1000000000000000000000000000000", "bytes=1000000000000000000000000000000-", "bytes=-1000000000000000000000000000000",
	"bytes= 0-0", "bytes=0-0 ,1-1", "bytes=１-２",
	"bytes=0-99999999999999999999x", "bytes=99999999999999999999x-", "bytes=-99999999999999999999x", "bytes=0-1,2-99999999999999999999 9", "bytes=--5,0-", "bytes=0-1,--0",
}

func TestRangeMatrix(t *testing.T) {
	if kit.Race() {
		t.Skip("sequential, in-process: nothing for the race detector")
	}
	staticAllocatesFromHeader(getTree(t))
	propRangeMatrix.Enumerate(t, enumRangeMatrix)
}

func enumRangeMatrix(yield func(RangeCase) bool) {
	for _, n := range []int{0, 1, 2, 3, 10} {
		pos := []string{"0", "1"}
		seen := map[string]bool{"0": true, "1": true}
		for _, d := range []int{-2, -1, 0, 1} {
			if s := fmt.Sprint(n + d); n+d >= 0 && !seen[s] {
				seen[s] = true
				pos = append(pos, s)
			}
		}
		pos = append(pos, "2147483648", "1125899906842624", "9223372036854775807", "9223372036854775808", "18446744073709551616")
		var singles, reduced []string
		for i, a := range pos {
			singles = append(singles, a+"-", "-"+a)
			for j, b := range pos {
				singles = append(singles, a+"-"+b)
				if i < 6 && j < 6 && i <= j {
					reduced = append(reduced, a+"-"+b)
				}
			}
		}
		reduced = append(reduced, "0-", "1-", fmt.Sprint(n)+"-", "-1", "-0", fmt.Sprintf("-%d", n+1), "0-9223372036854775807", "1125899906842624-1125899906842625", "x")
		var headers []string
		headers = append(headers, syntaxVariants...)
		for _, s := range singles {
			headers = append(headers, "bytes="+s)
		}
		for _, a := range reduced {
			for _, b := range reduced {
				headers = append(headers, "bytes="+a+","+b)
			}
		}
		plainOnly := map[string]bool{} // headers run against the two constructor-built modifiers only
		if n == 10 {
			// every placement of list white space: ordered pairs and triples of the
			// three spec kinds, each comma with SP / HTAB / two blanks on either side
			kinds := []string{"0-1", "5-", "-3"}
			for _, a := range kinds {
				for _, b := range kinds {
					for _, l := range []string{"", " ", "\t", "  "} {
						for _, r := range []string{"", " ", "\t", "  "} {
							headers = append(headers, "bytes="+a+l+","+r+b)
						}
					}
					for _, c3 := range kinds {
						for _, l1 := range []string{"", " ", "\t"} {
							for _, r1 := range []string{"", " ", "\t"} {
								for _, l2 := range []string{"", " ", "\t"} {
									for _, r2 := range []string{"", " ", "\t"} {
										if l1+r1+l2+r2 != "" {
											h := "bytes=" + a + l1 + "," + r1 + b + l2 + "," + r2 + c3
											headers = append(headers, h)
											plainOnly[h] = true
										}
									}
								}
							}
						}
					}
				}
			}
		}
		if n == 10 {
			// the unit in every letter case
			for m := 1; m < 32; m++ {
				u := []byte("bytes")
				for i := range u {
					if m&(1<<i) != 0 {
						u[i] -= 'a' - 'A'
					}
				}
				for _, set := range []string{"2-5", "0-1,4-", "-3", "2-5, 7-"} {
					headers = append(headers, string(u)+"="+set)
				}
			}
			// the file asked for under its other names (hard and symbolic links, odd extensions)
			for _, h := range []string{"", "bytes=2-5", "bytes=0-", "bytes=-3", "bytes=0-1,4-", "bytes=8-20", "bytes=9-", "bytes=10-", "bytes=0-1,20-"} {
				for _, via := range caseVias[1:] {
					for _, vj := range []bool{false, true} {
						if !yield(RangeCase{Who: "static", Len: n, Seed: 10, Range: h, Via: via, ViaJSON: vj}) {
							return
						}
					}
				}
			}
			// static.Modifier in response scope (the origin's answer is replaced), and
			// both modifiers over an origin answer that cannot carry a body
			for _, h := range []string{"", "bytes=2-5", "bytes=0-1,4-", "bytes=20-", "bytes=5-2", "bytes=abc", "bytes=-0", "bytes=0-1,20-", "items=0-1"} {
				for _, up := range []string{"origin", "nop"} {
					for _, vj := range []bool{false, true} {
						if !yield(RangeCase{Who: "static", Len: n, Seed: 10, Range: h, Upstream: up, ViaJSON: vj}) {
							return
						}
					}
				}
			}
			for _, who := range []string{"body", "static"} {
				for _, up := range []string{"304", "204"} {
					for _, vj := range []bool{false, true} {
						if !yield(RangeCase{Who: who, Len: n, Seed: 10, Upstream: up, ViaJSON: vj}) {
							return
						}
					}
				}
			}
			// what the modifier is handed and how its boundary was set (body.Modifier)
			for _, h := range []string{"", "bytes=2-5", "bytes=0-1,4-", "bytes=0-1,-2,5-7", "bytes=20-", "bytes=5-2", "bytes=abc", "bytes=0-99999999999999999999", "items=0-1"} {
				for _, up := range []string{"", "nop", "206cr", "416cr"} {
					if up != "" && !yield(RangeCase{Who: "body", Len: n, Seed: 10, Range: h, Upstream: up}) {
						return
					}
					for i := range boundaryChoices {
						if up == "" || up == "nop" && i%3 == 0 {
							if !yield(RangeCase{Who: "body", Len: n, Seed: 10, Range: h, Upstream: up, Boundary: &boundaryChoices[i]}) {
								return
							}
						}
					}
				}
			}
		}
		for _, h := range headers {
			for _, c := range []RangeCase{{Who: "body"}, {Who: "static"}, {Who: "body", Slack: 2}, {Who: "body", ViaJSON: true}, {Who: "static", ViaJSON: true}} {
				if c.ViaJSON && n != 2 && n != 10 {
					continue // JSON-built modifiers: two of the five lengths
				}
				if plainOnly[h] && (c.ViaJSON || c.Slack > 0) {
					continue
				}
				c.Len, c.Seed, c.Range = n, uint64(n), h
				if !yield(c) {
					return
				}
			}
		}
	}
}

// ---------------------------------------------------------------- path cases

// PathCase is one request line answered by the static modifier. Target is the
// raw request-target as it appears on the wire.
type PathCase struct {
	Target   string `json:"target"`
	Explicit bool   `json:"explicit,omitempty"` // the modifier carries explicitMap
	ViaJSON  bool   `json:"via_json,omitempty"` // built by parse.FromJSON
	// Root: how the root is spelled to the modifier (see rootSpellings). "{TOP}" in
	// Target stands for the absolute path of the scratch tree (it changes per run).
	Root string `json:"root,omitempty"`
	// Direct: Target is put into req.URL.Path as it is (a request built by a
	// program, or a path written by a URL-rewriting modifier) instead of being
	// parsed from a request line; it need not start with a slash then.
	Direct bool `json:"direct,omitempty"`
	// MapDotted: the explicit mapping in force is dottedMap, whose VALUES carry
	// dot segments (the documentation says values are "still rooted at rootPath").
	MapDotted bool `json:"map_dotted,omitempty"`
}

// dottedMap: explicit path mappings whose values try to leave the root.
var dottedMap = map[string]string{
	"/m1": "../sentinel.txt", "/m2": "../../sentinel.txt", "/m3": "sub/../../sentinel.txt", "/m4": "/../secret/sentinel.txt",
	"/m5": "../root-evil/file.txt", "/m6": "sub/../a.txt", "/m7": "./sub/./b.txt",
}

// rootSpellings: key -> (argument for NewModifier / rootPath, directory that
// is the root). The "cwd-" spellings make the working directory (the package
// directory) the root: "" and "." mean that to path.Clean and to the OS.
var rootSpellings = []string{"", "abs-slash", "abs-dot", "abs-dotdot", "abs-doubled", "rel", "rel-dotslash", "rel-slash", "rel-dotdot", "cwd-empty", "cwd-dot", "cwd-dotslash", "cwd-parent-child"}

func spellRoot(ft *fileTree, key string) (arg, dir string, ok bool) {
	cwd, err := os.Getwd()
	if err != nil {
		return "", "", false
	}
	rel, err := filepath.Rel(cwd, ft.root)
	if err != nil {
		return "", "", false
	}
	switch key {
	case "":
		return ft.root, ft.root, true
	case "abs-slash":
		return ft.root + "/", ft.root, true
	case "abs-dot":
		return ft.root + "/.", ft.root, true
	case "abs-dotdot":
		return ft.root + "/../root", ft.root, true
	case "abs-doubled":
		return ft.base + "//root", ft.root, true
	case "rel":
		return rel, ft.root, true
	case "rel-dotslash":
		return "./" + rel, ft.root, true
	case "rel-slash":
		return rel + "/", ft.root, true
	case "rel-dotdot":
		return rel + "/sub/..", ft.root, true
	case "cwd-empty":
		return "", cwd, true
	case "cwd-dot":
		return ".", cwd, true
	case "cwd-dotslash":
		return "./", cwd, true
	case "cwd-parent-child":
		return "../" + filepath.Base(cwd), cwd, true
	}
	return "", "", false
}

// cwdTargets: what is asked of a modifier rooted at the working directory:
// files of the package (below the root), the sentinels and the scratch root's
// files by their absolute names, system files.
var cwdTargets = []string{
	"{TOP}/up2/up1/sentinel.txt", "{TOP}/sentinel.txt", "{TOP}/up2/sentinel.txt", "{TOP}/up2/up1/secret/sentinel.txt", "{TOP}/up2/up1/root/a.txt", "{TOP}/up2/up1/root/sub/b.txt",
	"/{TOP}/up2/up1/sentinel.txt", "/.{TOP}/up2/up1/sentinel.txt", "/x/..{TOP}/up2/up1/sentinel.txt", "http://example.com{TOP}/up2/up1/sentinel.txt",
	"/c20_test.go", "/./ref_test.go", "/x/../seq_test.go", "/%63%32%30_test.go", "http://example.com/long_test.go", "/../c20/seq_test.go", "/no-such-file.go",
	"/etc/passwd", "/etc/hostname", "/proc/self/cmdline", "/", "/..", "/.", "http://example.com",
}

// parseTarget reads the request line the way the proxy does.
func parseTarget(target string) (*http.Request, error) {
	raw := "GET " + target + " HTTP/1.1\r\nHost: example.com\r\n\r\n"
	return http.ReadRequest(bufio.NewReader(strings.NewReader(raw)))
}

// designated is the independent resolver: the decoded request path, made
// absolute and cleaned lexically, names a file below the root (through the
// explicit mapping when the cleaned path is one of its keys). It returns the
// file's content, or nil when no regular file is designated, plus the shape of
// the case for signatures.
func designated(ft *fileTree, root, urlPath, rawTarget string, explicit map[string]string) (content []byte, shape string) {
	clean := path.Clean("/" + urlPath)
	rel := clean
	mapped, dotted := false, false
	if to, ok := explicit[clean]; ok {
		rel, mapped = path.Clean("/"+to), true
		dotted = hasDotSegment(to)
	}
	full := root + rel // rel is absolute and clean: lexically below the root
	fi, err := os.Stat(full)
	lower := strings.ToLower(rawTarget)
	switch {
	case strings.ContainsRune(rel, 0):
		shape = "nul-byte"
	case errors.Is(err, syscall.ENAMETOOLONG):
		shape = "name-too-long"
	case errors.Is(err, syscall.ENOTDIR):
		shape = "through-regular-file"
	case err == nil && fi.IsDir():
		shape = "directory"
	case err == nil && isSymlink(full):
		shape = "symlink"
	case mapped && dotted:
		shape = "explicit-mapping-with-dot-segments"
	case mapped:
		shape = "explicit-mapping"
	case !strings.HasPrefix(urlPath, "/") && urlPath != "" && urlPath != "*":
		shape = "relative-path"
	case strings.Contains(lower, "%25"):
		shape = "double-encoded"
	case strings.Contains(lower, "%2f") || strings.Contains(lower, "%5c") || strings.Contains(lower, "%2e") || strings.Contains(rawTarget, "\\"):
		shape = "encoded-separator-or-dot"
	case hasDotSegment(urlPath):
		shape = "dot-segments"
	case strings.Contains(urlPath, "//"):
		shape = "doubled-slash"
	default:
		shape = "plain"
	}
	if err != nil || !fi.Mode().IsRegular() {
		return nil, shape
	}
	b, err := os.ReadFile(full)
	if err != nil {
		return nil, shape
	}
	return b, shape
}

func isSymlink(p string) bool {
	fi, err := os.Lstat(p)
	return err == nil && fi.Mode()&os.ModeSymlink != 0
}

func hasDotSegment(p string) bool {
	for _, s := range strings.Split(p, "/") {
		if s == "." || s == ".." {
			return true
		}
	}
	return false
}

// pathRequest builds the request of a path case and names the mapping in force.
func pathRequest(ft *fileTree, c PathCase, target string) (*http.Request, map[string]string, error) {
	var explicit map[string]string
	switch {
	case c.MapDotted:
		explicit = dottedMap
	case c.Explicit:
		explicit = ft.explicit
	}
	if c.Direct {
		if strings.ContainsRune(target, 0) {
			return nil, nil, fmt.Errorf("NUL")
		}
		req, err := http.NewRequest("GET", "http://example.com/", nil)
		if err != nil {
			return nil, nil, err
		}
		req.URL.Path = target
		return req, explicit, nil
	}
	req, err := parseTarget(target)
	return req, explicit, err
}

func runPath(c PathCase) kit.Verdict {
	treeMu.Lock()
	ft := tree
	treeMu.Unlock()
	if ft == nil {
		return kit.Failf("C20/harness/no-tree", "path case without a file tree")
	}
	rootArg, rootDir, ok := spellRoot(ft, c.Root)
	if !ok {
		return nil
	}
	target := strings.ReplaceAll(c.Target, "{TOP}", ft.top)
	req, explicit, err := pathRequest(ft, c, target)
	if err != nil {
		return nil // not a request the proxy would hand to a modifier
	}
	want, shape := designated(ft, rootDir, req.URL.Path, c.Target, explicit)
	who := whoLabel("static", c.ViaJSON)
	if c.Root != "" {
		who += "-root-" + c.Root
	}
	sig := func(class string) string {
		return "C20/" + who + "/path-" + shape + "/" + class
	}
	res := proxyutil.NewResponse(200, nil, req)
	mod, err := newStaticModifier(rootArg, explicit, c.ViaJSON)
	if err != nil {
		return kit.Failf(sig("json-config-rejected"), "parse.FromJSON rejects the static.Modifier configuration: %v", err)
	}
	o := observe(res, mod.ModifyResponse, 1<<20)

	var v kit.Verdict
	if o.Panic != "" {
		v.Addf(sig("panic"), "target %q (path %q): panic: %s", c.Target, req.URL.Path, o.Panic)
		return v
	}
	if bytes.Contains(o.Body, sentinelMarker) {
		v.Addf(sig("file-outside-root-served"), "target %q (path %q): status %d with the content of a file outside the root %s (given to the modifier as %q)", c.Target, req.URL.Path, o.Status, rootDir, rootArg)
		return v
	}
	// An exotic spelling (encoded separators or dots, backslashes) may also be
	// taken literally by a correct implementation, which then finds nothing.
	exotic := shape == "encoded-separator-or-dot"
	switch {
	case want == nil:
		switch {
		case o.Status == http.StatusNotFound:
		case o.Status == http.StatusOK || o.Status == http.StatusPartialContent:
			if o.BodyErr != nil {
				v.Addf(sig("200-with-unreadable-body"), "target %q (path %q) designates no file below the root: want 404, got %d with Content-Length %d and a body that cannot be read (%v)", c.Target, req.URL.Path, o.Status, o.CL, o.BodyErr)
			} else {
				v.Addf(sig("served-where-no-file-is-designated"), "target %q (path %q) designates no file below the root: want 404, got %d with %d bytes", c.Target, req.URL.Path, o.Status, len(o.Body))
			}
		default:
			v.Addf(sig(fmt.Sprintf("status-%d-not-404", o.Status)), "target %q (path %q) designates no file below the root: want 404, got %d (error %v)", c.Target, req.URL.Path, o.Status, o.Err)
		}
	case o.Status == http.StatusNotFound:
		if !exotic {
			v.Addf(sig("existing-file-not-served"), "target %q (path %q) designates a file of %d bytes below the root, got 404", c.Target, req.URL.Path, len(want))
		}
	case o.Status == http.StatusOK:
		switch {
		case o.BodyErr != nil:
			v.Addf(sig("200-with-unreadable-body"), "target %q (path %q): 200 whose body cannot be read: %v", c.Target, req.URL.Path, o.BodyErr)
		case !bytes.Equal(o.Body, want):
			v.Addf(sig("wrong-file-served"), "target %q (path %q): the body is not the designated file: %s", c.Target, req.URL.Path, kit.Diff(want, o.Body))
		case o.CL != int64(len(want)):
			v.Addf(sig("content-length-mismatch"), "target %q (path %q): Content-Length %d for a file of %d bytes", c.Target, req.URL.Path, o.CL, len(want))
		}
	default:
		v.Addf(sig(fmt.Sprintf("status-%d-for-existing-file", o.Status)), "target %q (path %q) designates a file below the root, got status %d (error %v)", c.Target, req.URL.Path, o.Status, o.Err)
	}
	return v
}

// climbsWhenDecodedAgain: the path, unescaped once more (twice, thrice) and
// joined below a root WITHOUT being made absolute first, would leave the
// root: the trap for implementations that decode again after cleaning.
func climbsWhenDecodedAgain(urlPath string) bool {
	p := urlPath
	for i := 0; i < 3; i++ {
		u, err := url.PathUnescape(p)
		if err != nil || u == p {
			return false
		}
		p = u
		if c := path.Clean("root/" + p); c == ".." || strings.HasPrefix(c, "../") || !strings.HasPrefix(c+"/", "root/") {
			return true
		}
	}
	return false
}

func nonTrivialPath(c PathCase) bool {
	l := strings.ToLower(c.Target)
	return strings.Contains(c.Target, "..") || strings.Contains(l, "%252e") || strings.Contains(l, "%252f") || strings.Contains(l, "%2e") || strings.Contains(l, "%2f") || strings.Contains(l, "%5c") || strings.Contains(c.Target, "\\")
}

func classesPath(c PathCase) []string {
	treeMu.Lock()
	ft := tree
	treeMu.Unlock()
	if ft == nil {
		return []string{"unparseable-target"}
	}
	_, rootDir, ok := spellRoot(ft, c.Root)
	req, explicit, err := pathRequest(ft, c, strings.ReplaceAll(c.Target, "{TOP}", ft.top))
	if err != nil || !ok {
		return []string{"unparseable-target"}
	}
	want, shape := designated(ft, rootDir, req.URL.Path, c.Target, explicit)
	cl := []string{"shape-" + shape}
	switch {
	case strings.HasPrefix(c.Root, "cwd-"):
		cl = append(cl, "root-is-working-directory")
	case c.Root != "":
		cl = append(cl, "root-spelled-unclean")
	}
	if strings.Contains(c.Target, "{TOP}") {
		cl = append(cl, "asks-by-absolute-name")
	}
	if c.Direct {
		cl = append(cl, "path-set-directly")
	}
	if c.MapDotted {
		cl = append(cl, "mapping-values-with-dot-segments")
	}
	if want != nil {
		cl = append(cl, "designates-a-file")
	} else {
		cl = append(cl, "designates-nothing")
	}
	if strings.Contains(c.Target, "sentinel") || strings.Contains(c.Target, "root-evil") {
		cl = append(cl, "aims-outside")
	}
	if strings.HasPrefix(c.Target, "http") {
		cl = append(cl, "absolute-form")
	}
	if climbsWhenDecodedAgain(req.URL.Path) {
		cl = append(cl, "climbs-out-if-decoded-again")
	}
	if c.Explicit {
		cl = append(cl, "explicit-map")
	}
	if c.ViaJSON {
		cl = append(cl, "built-from-json-config")
	}
	if nonTrivialPath(c) {
		cl = append(cl, "dotted-or-encoded")
	}
	return cl
}

var hostileSegs = []string{
	"..", "..", "..", ".", "", "%2e%2e", "%2E%2E", ".%2e", "%2e.", "%2e", "..%2f..", "..%2F", "%2f", "%2f..", "..%5c..", "%5c", "..\\..", "\\",
	"...", "....", "..x", "%252e%252e", "%252e%252e", "..%252f..", "%252f", "%252e%252e%252f..", "%25252e%25252e", "%c0%ae%c0%ae", "..;", "%00", "a.txt%00", "sub", "deep", "root", "root-evil", "secret", "emptydir", "dir%20with%20space",
	"sentinel.txt", "file.txt", "a.txt", "b.txt", "c.bin", "index.html", "case.bin", "nope", "alias", "missing",
}

func obfuscate(t *rapid.T, p string) string {
	// p is a clean absolute path; spell it in a different but equivalent way
	segs := strings.Split(strings.TrimPrefix(p, "/"), "/")
	var sb strings.Builder
	for _, s := range segs {
		switch rapid.IntRange(0, 7).Draw(t, "obf") {
		case 0:
			sb.WriteString("/.")
		case 1:
			sb.WriteString("/" + rapid.SampledFrom([]string{"x", "sub", "..x", "nope", "%2e%2e%2e"}).Draw(t, "detour") + "/..")
		case 2:
			sb.WriteString("/")
		case 3:
			sb.WriteString("/" + rapid.SampledFrom([]string{"sub", "x"}).Draw(t, "detour2") + "/%2e%2e")
		}
		sb.WriteString("/")
		for _, r := range []byte(s) {
			switch {
			case r == ' ' || r == '%' || r == '\\' || r == '?' || r == '#':
				fmt.Fprintf(&sb, "%%%02X", r)
			case rapid.IntRange(0, 11).Draw(t, "enc") == 0:
				fmt.Fprintf(&sb, "%%%02x", r)
			default:
				sb.WriteByte(r)
			}
		}
	}
	return sb.String()
}

func genTarget(t *rapid.T) string {
	var p string
	switch k := rapid.IntRange(0, 11).Draw(t, "target_kind"); {
	case k >= 10: // climb out with dot segments / separators that are encoded once, twice or three times
		var sb strings.Builder
		for i, n := 0, rapid.IntRange(0, 2).Draw(t, "inside_segs"); i < n; i++ {
			sb.WriteString("/" + rapid.SampledFrom([]string{"sub", "deep", "nope", "emptydir", "x"}).Draw(t, "inside"))
		}
		sep := func() string {
			return rapid.SampledFrom([]string{"/", "/", "/", "%252f", "%252F", "%2f", "%25252f", "//"}).Draw(t, "climb_sep")
		}
		for i, n := 0, rapid.IntRange(1, 5).Draw(t, "climbs"); i < n; i++ {
			s := sep()
			if i == 0 && s != "//" {
				s = "/"
			}
			sb.WriteString(s)
			sb.WriteString(rapid.SampledFrom([]string{"%252e%252e", "%252e%252e", "%252E%252E", ".%252e", "%252e.", "%252e%2e", "%2e%252e", "%25252e%25252e", "..", "%2e%2e"}).Draw(t, "climb"))
		}
		sb.WriteString(sep())
		sb.WriteString(rapid.SampledFrom([]string{"sentinel.txt", "sentinel.txt", "secret" + "/" + "sentinel.txt", "secret%252fsentinel.txt", "root-evil/file.txt", "root-evil%252ffile.txt", "a.txt", "up1/sentinel.txt", "root/a.txt"}).Draw(t, "outside"))
		p = sb.String()
	case k < 3: // an existing file, spelled deviously
		all := append(append(append([]string{}, rootFiles...), linkedNames...), "/alias", "/deep/alias.bin", "/missing", "/emptydir", "/sub", "/a.txt/x", "/sub/b.txt/../../a.txt")
		p = obfuscate(t, rapid.SampledFrom(all).Draw(t, "file"))
	case k < 9: // hostile segments
		n := rapid.IntRange(0, 8).Draw(t, "segs")
		var sb strings.Builder
		for i := 0; i < n; i++ {
			sb.WriteString(rapid.SampledFrom([]string{"/", "/", "/", "/", "//", "%2f", "/./"}).Draw(t, "sep"))
			sb.WriteString(rapid.SampledFrom(hostileSegs).Draw(t, "seg"))
		}
		if rapid.IntRange(0, 9).Draw(t, "trail") == 0 {
			sb.WriteString("/")
		}
		p = sb.String()
		if !strings.HasPrefix(p, "/") && rapid.IntRange(0, 3).Draw(t, "lead") != 0 {
			p = "/" + p
		}
	default: // long paths
		seg := strings.Repeat("a", rapid.SampledFrom([]int{200, 255, 256, 300}).Draw(t, "seglen"))
		p = strings.Repeat("/"+seg, rapid.IntRange(1, 20).Draw(t, "segcount")) + rapid.SampledFrom([]string{"", "/../a.txt", "/a.txt"}).Draw(t, "tail")
	}
	switch rapid.IntRange(0, 9).Draw(t, "form") {
	case 0:
		return "http://example.com" + p
	case 1:
		return "http://example.com" + p + "?q=/../../sentinel.txt"
	case 2:
		return p + "?x=1"
	}
	return p
}

var pathRule = "request lines parsed by http.ReadRequest as the proxy does: paths built from dot segments, doubled slashes, %2e/%2f/%5c, the same encoded twice and three times (%252e%252e, %252f, %25252e, mixed with single encodings, climbing 1..5 levels towards sentinel files placed 1, 2 and 3 levels above the root), backslashes, NUL, long names and names of files outside the root, devious spellings of existing files (regular files, names without or with unknown extensions longer than 512 bytes, hard links, symbolic links to files below the root: same directory, other directory, absolute target, chains of two, through a linked directory), origin- and absolute-form, with and without the explicit path mapping, the root handed to the modifier as a clean absolute path or spelled with a trailing slash / dot segments / doubled slash / relative to the working directory, or as the empty string, '.', './', '../<dir>' (the working directory is the root: its files, the sentinels and system files are asked for by absolute name), through the constructor and through the JSON configuration (rootPath absent when empty); paths put into URL.Path directly (no leading slash: '../sentinel.txt', 'sub/../../sentinel.txt') and explicit mappings whose values carry dot segments; answered by static.Modifier over a root with sentinel files outside it; judged against path.Clean('/'+path) below the root; non-trivial = the target contains '..' or an encoded dot/separator"

var propPath = &kit.Prop[PathCase]{
	ID: "C20", Name: "static-path", Rule: "rapid: " + pathRule,
	Run: runPath, NonTrivial: nonTrivialPath, Classes: classesPath,
	Gates: map[string]float64{"nontrivial": 0.4, "designates-a-file": 0.12, "aims-outside": 0.1, "climbs-out-if-decoded-again": 0.05, "root-is-working-directory": 0.04, "root-spelled-unclean": 0.08, "path-set-directly": 0.08, "mapping-values-with-dot-segments": 0.04, "absolute-form": 0.1, "explicit-map": 0.2},
	Gen: func(t *rapid.T) PathCase {
		c := PathCase{Target: genTarget(t), Explicit: rapid.IntRange(0, 2).Draw(t, "explicit") == 0, ViaJSON: rapid.IntRange(0, 3).Draw(t, "via_json") == 2}
		switch rapid.IntRange(0, 9).Draw(t, "special") {
		case 4, 5: // a path set directly, mostly without the leading slash
			c.Direct, c.Explicit = true, false
			var segs []string
			for i, n := 0, rapid.IntRange(1, 5).Draw(t, "direct_segs"); i < n; i++ {
				segs = append(segs, rapid.SampledFrom([]string{"..", "..", "..", ".", "sub", "deep", "x", "", "root", "up1"}).Draw(t, "direct_seg"))
			}
			segs = append(segs, rapid.SampledFrom([]string{"sentinel.txt", "sentinel.txt", "secret/sentinel.txt", "root-evil/file.txt", "a.txt", "sub/b.txt", "m1"}).Draw(t, "direct_name"))
			c.Target = strings.Join(segs, "/")
			if rapid.IntRange(0, 3).Draw(t, "direct_slash") == 2 {
				c.Target = "/" + c.Target
			}
			return c
		case 6: // mapping values with dot segments
			c.MapDotted, c.Explicit = true, false
			c.Target = rapid.SampledFrom([]string{"/m1", "/m2", "/m3", "/m4", "/m5", "/m6", "/m7", "/x/../m1", "/m1/", "//m3", "/%6d1", "/m8", "http://example.com/m2"}).Draw(t, "mapped")
			return c
		}
		if rapid.IntRange(0, 9).Draw(t, "root_spelled") >= 6 {
			c.Root = rapid.SampledFrom(rootSpellings[1:]).Draw(t, "root")
			if strings.HasPrefix(c.Root, "cwd-") && rapid.Bool().Draw(t, "cwd_target") {
				c.Target = rapid.SampledFrom(cwdTargets).Draw(t, "cwd_file")
			} else if rapid.IntRange(0, 4).Draw(t, "abs_name") == 2 {
				c.Target = rapid.SampledFrom(cwdTargets[:10]).Draw(t, "abs_file")
			}
		}
		return c
	},
}

func TestStaticPath(t *testing.T) {
	if kit.Race() {
		t.Skip("sequential, in-process: nothing for the race detector")
	}
	getTree(t)
	propPath.Check(t, kit.N(4000, 20000))
}

var propPathMatrix = &kit.Prop[PathCase]{
	ID: "C20", Name: "static-path-matrix",
	Rule: "ALL targets of 1..4 segments over {.., ., empty, %2e%2e, ..%2f.., sub, a.txt, sentinel.txt, secret, root-evil, file.txt, emptydir}, origin-form, plus absolute-form for up to 3 segments, with and without the explicit mapping; ALL targets of 1..3 members over 15 doubly / triply / singly encoded dot segments, separators and outside names, joined by / and by %252f; " + pathRule,
	Run:  runPath, NonTrivial: nonTrivialPath, Classes: classesPath,
}

func TestStaticPathMatrix(t *testing.T) {
	if kit.Race() {
		t.Skip("sequential, in-process: nothing for the race detector")
	}
	getTree(t)
	alphabet := []string{"..", ".", "", "%2e%2e", "..%2f..", "sub", "a.txt", "sentinel.txt", "secret", "root-evil", "file.txt", "emptydir"}
	propPathMatrix.Enumerate(t, func(yield func(PathCase) bool) {
		for _, fixed := range []string{"http://example.com", "http://example.com?x", "*", "/", "//", "/%00", "/a.txt/", "/a.txt/x", "/alias", "/x/../alias", "/missing", "/sub/deep/d.txt", "/deep/alias.bin"} {
			for _, ex := range []bool{false, true} {
				if !yield(PathCase{Target: fixed, Explicit: ex}) {
					return
				}
			}
		}
		// paths set directly (with and without the leading slash) and mapping values with dot segments
		for _, vj := range []bool{false, true} {
			for _, d := range []string{"../sentinel.txt", "sub/../../sentinel.txt", "../../sentinel.txt", "../secret/sentinel.txt", "../root-evil/file.txt", "..", ".", "a.txt", "sub/b.txt", "sub/../a.txt", "./a.txt", "../root/a.txt", "x/../../root/sub/b.txt", "/../sentinel.txt", "/a.txt", "nope"} {
				if !yield(PathCase{Target: d, Direct: true, ViaJSON: vj}) {
					return
				}
			}
			for _, m := range []string{"/m1", "/m2", "/m3", "/m4", "/m5", "/m6", "/m7", "/x/../m1", "/m8", "/a.txt"} {
				if !yield(PathCase{Target: m, MapDotted: true, ViaJSON: vj}) {
					return
				}
			}
		}
		// every spelling of the root x what is asked of it by absolute name, of the
		// working directory, and a handful of traversals
		for _, key := range rootSpellings[1:] {
			for _, tg := range append(append([]string{}, cwdTargets...), "/a.txt", "/sub/../a.txt", "/../sentinel.txt", "/%2e%2e/sentinel.txt", "/sub/b.txt", "/alias", "/emptydir", "/../root/a.txt") {
				for _, vj := range []bool{false, true} {
					if !yield(PathCase{Target: tg, Root: key, ViaJSON: vj, Explicit: tg == "/alias"}) {
						return
					}
				}
			}
		}
		// doubly encoded dot segments and separators: every target of 1..3 members
		// over the alphabet below, joined by "/" and by "%252f"
		dbl := []string{"%252e%252e", "%252E%252e", ".%252e", "%252e%2e", "..%252f..", "%25252e%25252e", "..", "%2e%2e", "sub", "nope", "sentinel.txt", "secret", "root-evil", "file.txt", "a.txt"}
		for _, join := range []string{"/", "%252f"} {
			for L := 1; L <= 3; L++ {
				idx := make([]int, L)
				for {
					var sb strings.Builder
					for k, a := range idx {
						if k == 0 {
							sb.WriteString("/")
						} else {
							sb.WriteString(join)
						}
						sb.WriteString(dbl[a])
					}
					if !yield(PathCase{Target: sb.String(), Explicit: L == 1, ViaJSON: L == 2 && idx[0]%2 == 0}) {
						return
					}
					i := L - 1
					for i >= 0 {
						idx[i]++
						if idx[i] < len(dbl) {
							break
						}
						idx[i] = 0
						i--
					}
					if i < 0 {
						break
					}
				}
			}
		}
		for L := 1; L <= 4; L++ {
			idx := make([]int, L)
			for {
				var sb strings.Builder
				for _, a := range idx {
					sb.WriteString("/" + alphabet[a])
				}
				forms := []string{sb.String()}
				if L <= 3 {
					forms = append(forms, "http://example.com"+sb.String())
				}
				for _, f := range forms {
					if !yield(PathCase{Target: f, Explicit: L <= 2}) {
						return
					}
				}
				i := L - 1
				for i >= 0 {
					idx[i]++
					if idx[i] < len(alphabet) {
						break
					}
					idx[i] = 0
					i--
				}
				if i < 0 {
					break
				}
			}
		}
	})
}

// ---------------------------------------------------------------- native fuzzing

const fuzzRule = "native fuzzing over (content length mod 65537 with the quotient choosing the spare capacity of the body slice and whether the modifiers are built from their JSON configuration, Range header bytes as an HTTP parser would deliver them, <= 512 bytes); each input is answered by body.Modifier and static.Modifier and judged like 'range'; non-trivial as in 'range'"

func FuzzRange(f *testing.F) {
	ft := getTree(f)
	staticAllocatesFromHeader(ft)
	blob := kit.Bytes(20, maxContent)
	for _, n := range []uint32{0, 1, 10, 4096, 65536} {
		for _, h := range syntaxVariants {
			f.Add(n, h)
		}
		for _, h := range []string{"bytes=0-9", "bytes=0-10", "bytes=5-", "bytes=-5", "bytes=9-20", "bytes=10-20", "bytes=0-1,3-4", "bytes=0-1,8-20", "bytes=0-1,20-30",
			"bytes=0-9223372036854775807", "bytes=0-18446744073709551616", "bytes=4294967296-4294967297", "bytes=0-0,-1,5-", "bytes=0-65535", "bytes=0-65536", "bytes=65535-65536", "bytes=4095-4096,0-0"} {
			f.Add(n, h)
		}
	}
	f.Fuzz(func(t *testing.T, n32 uint32, h string) {
		n := int(n32 % (maxContent + 1))
		slack := int(n32/(maxContent+1)) % 4 * 5
		viaJSON := int(n32/(maxContent+1))/4%2 == 1
		h = strings.Trim(h, " \t")
		if len(h) > 512 || !validHeaderValue(h) {
			return
		}
		content := blob[:n:n]
		var v kit.Verdict
		v = append(v, judge(whoLabel("body", viaJSON), content, h, runBodyModifier(content, h, bodyOpts{Slack: slack, ViaJSON: viaJSON}))...)
		classes := []string{}
		if viaJSON {
			classes = append(classes, "built-from-json-config")
		} else if slack > 0 {
			classes = append(classes, "body-slice-with-spare-capacity")
		}
		if staticSizes && allocBand(h, n) {
			classes = append(classes, "static-skipped-allocation-band")
		} else {
			o, err := runStaticModifier(ft, content, h, viaJSON)
			if err != nil {
				t.Fatalf("cannot write the case file: %v", err)
			}
			v = append(v, judge(whoLabel("static", viaJSON), content, h, o)...)
		}
		if h != "" {
			classes = append(classes, "shape-"+parseRange(h).shape(int64(n)))
		}
		input := append([]byte(fmt.Sprintf("%d+%d+%v|", n, slack, viaJSON)), h...)
		kit.FuzzAccount("fuzz-range", fuzzRule, input, h != "" && nonTrivialRange(h, int64(n)), classes...)
		if len(v) > 0 {
			kit.FuzzFail(t, "C20", "fuzz-range", "FuzzRange", v, n32, h)
		}
	})
}

// ---------------------------------------------------------------- replay

func TestReplay(t *testing.T) {
	if os.Getenv("VERIF_REPLAY") != "" {
		staticAllocatesFromHeader(getTree(t))
	}
	kit.Replay(t, propRange, propRangeMatrix, propPath, propPathMatrix, propSequence, propSequenceMatrix, propHistory, propHistoryEach)
}

var _ = math.MaxInt64
