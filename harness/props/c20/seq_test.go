package c20

// Sequences of responses: the modifiers are asked for several responses
// before any body is read (the proxy serves many connections with one
// modifier, and a client may be slow to read), so a response must not depend
// on, or be changed by, the ones produced after it.

import (
	"fmt"
	"net/http"
	"os"
	"path/filepath"
	"runtime"
	"strings"
	"sync"
	"testing"

	"github.com/google/martian/v3/proxyutil"
	"pgregory.net/rapid"

	"verifharness/internal/kit"
)

// SeqContent is one content: kit.Bytes(Seed, Len). For "body" it is the body
// of one body.Modifier instance shared by every request that names it; for
// "static" it is the file /seq-<index>.bin below the root of the one
// static.Modifier.
type SeqContent struct {
	Len  int    `json:"len"`
	Seed uint64 `json:"seed"`
}

// SeqReq. Rewrite (mode "rewrite", static only): before this request the file
// of Content is rewritten in place to hold kit.Bytes(Rewrite.Seed, Rewrite.Len).
type SeqReq struct {
	Content int         `json:"content"`
	Range   string      `json:"range"`
	Rewrite *SeqContent `json:"rewrite,omitempty"`
}

// SeqCase. Mode: "batch" = every ModifyResponse in order, then every body is
// read in order; "batch2" = the ModifyResponse calls are made from two
// goroutines (even / odd requests), then every body is read; "conns" = two
// goroutines, each producing and reading its own responses one at a time
// (two client connections); "rewrite" (static) = one response at a time,
// produced and read at once by the SAME static.Modifier, with files rewritten
// (shrunk, grown) between requests: every answer is judged against the file
// as it is when the request is made. The whole schedule is repeated Rounds
// times with the same modifier instances.
type SeqCase struct {
	Who      string       `json:"who"`
	Mode     string       `json:"mode"`
	ViaJSON  bool         `json:"via_json,omitempty"` // modifiers built by parse.FromJSON
	Rounds   int          `json:"rounds"`
	Contents []SeqContent `json:"contents"`
	Reqs     []SeqReq     `json:"reqs"`
}

type seqPending struct {
	res *http.Response
	o   obs
}

func runSequence(c SeqCase) kit.Verdict {
	if len(c.Contents) == 0 || len(c.Contents) > 4 || len(c.Reqs) == 0 || len(c.Reqs) > 8 || c.Rounds < 1 || c.Rounds > 16 {
		return nil
	}
	contents := make([][]byte, len(c.Contents))
	for i, sc := range c.Contents {
		if sc.Len < 0 || sc.Len > maxContent {
			return nil
		}
		contents[i] = kit.Bytes(sc.Seed, sc.Len)
	}
	for _, r := range c.Reqs {
		if r.Content < 0 || r.Content >= len(contents) || !validHeaderValue(r.Range) {
			return nil
		}
	}

	// one modifier per content (body) / one for the root (static)
	var newResponse func(i int) (*http.Response, func(*http.Response) error)
	switch c.Who {
	case "body":
		if c.Mode == "rewrite" {
			return nil
		}
		mods := make([]responseModifier, len(contents))
		for i, b := range contents {
			m, err := newBodyModifier(b[:len(b):len(b)], c.ViaJSON)
			if err != nil {
				return kit.Failf("C20/"+whoLabel("body", c.ViaJSON)+"/json-config/rejected", "parse.FromJSON rejects the documented configuration: %v", err)
			}
			mods[i] = m
		}
		newResponse = func(i int) (*http.Response, func(*http.Response) error) {
			r := c.Reqs[i]
			req := newRequest("http://example.com/resource", r.Range)
			res := &http.Response{
				Status: "200 OK", StatusCode: 200, Proto: "HTTP/1.1", ProtoMajor: 1, ProtoMinor: 1,
				Header:        http.Header{"Content-Type": {"application/x-upstream"}},
				Body:          newUpstreamBody(),
				ContentLength: int64(3 * len(upstreamMarker)),
				Request:       req,
			}
			return res, mods[r.Content].ModifyResponse
		}
	case "static":
		treeMu.Lock()
		ft := tree
		treeMu.Unlock()
		if ft == nil {
			return kit.Failf("C20/harness/no-tree", "static sequence without a file tree")
		}
		for i, b := range contents {
			if err := os.WriteFile(filepath.Join(ft.root, fmt.Sprintf("seq-%d.bin", i)), b, 0o644); err != nil {
				return kit.Failf("C20/harness/cannot-write-case-file", "%v", err)
			}
		}
		for _, r := range c.Reqs {
			if staticSizes && allocBand(r.Range, len(contents[r.Content])) {
				return nil
			}
		}
		mod, err := newStaticModifier(ft.root, nil, c.ViaJSON)
		if err != nil {
			return kit.Failf("C20/"+whoLabel("static", c.ViaJSON)+"/json-config/rejected", "parse.FromJSON rejects the documented configuration: %v", err)
		}
		if c.Mode == "rewrite" {
			return runRewrite(c, ft, mod, contents)
		}
		newResponse = func(i int) (*http.Response, func(*http.Response) error) {
			r := c.Reqs[i]
			req := newRequest(fmt.Sprintf("http://example.com/seq-%d.bin", r.Content), r.Range)
			return proxyutil.NewResponse(200, nil, req), mod.ModifyResponse
		}
		if staticRuns += len(c.Reqs) * (c.Rounds + 1); staticRuns%1024 < len(c.Reqs)*(c.Rounds+1) {
			runtime.GC() // see staticRuns: descriptors leaked by Range answers
		}
	default:
		return nil
	}
	limit := func(i int) int64 { return readLimit(len(contents[c.Reqs[i].Content]), c.Reqs[i].Range) }
	judgeReq := func(i int, o obs) kit.Verdict {
		return judge(whoLabel(c.Who, c.ViaJSON), contents[c.Reqs[i].Content], c.Reqs[i].Range, o)
	}

	// what each request gets when it is alone (produced and read at once)
	alone := make([]kit.Verdict, len(c.Reqs))
	for i := range c.Reqs {
		res, modify := newResponse(i)
		alone[i] = judgeReq(i, observe(res, modify, limit(i)))
	}

	var v kit.Verdict
	report := func(round, i int, w kit.Verdict, class string) {
		if len(w) == 0 {
			return
		}
		if len(alone[i]) > 0 {
			// fails on its own as well: an ordinary range failure, reported as such
			v = append(v, w...)
			return
		}
		shape := "sequence"
		if c.Mode != "batch" {
			shape = "sequence-concurrent"
		}
		v.Addf("C20/"+whoLabel(c.Who, c.ViaJSON)+"/"+shape+"/"+class, "round %d, request %d of %d (%s, content %d of %d bytes, Range %q) is answered correctly when produced and read on its own, but not in the sequence %s: %s: %s",
			round, i, len(c.Reqs), c.Mode, c.Reqs[i].Content, len(contents[c.Reqs[i].Content]), c.Reqs[i].Range, describeSeq(c), w[0].Sig, w[0].Msg)
	}

	for round := 0; round < c.Rounds && len(v) == 0; round++ {
		switch c.Mode {
		case "batch", "batch2":
			pend := make([]seqPending, len(c.Reqs))
			if c.Mode == "batch" {
				for i := range c.Reqs {
					res, modify := newResponse(i)
					pend[i] = seqPending{res: res, o: produce(res, modify)}
				}
			} else {
				var wg sync.WaitGroup
				for g := 0; g < 2; g++ {
					wg.Add(1)
					go func(g int) {
						defer wg.Done()
						for i := g; i < len(c.Reqs); i += 2 {
							res, modify := newResponse(i)
							pend[i] = seqPending{res: res, o: produce(res, modify)}
						}
					}(g)
				}
				wg.Wait()
			}
			for i := range pend {
				w := judgeReq(i, readBody(pend[i].o, pend[i].res, limit(i)))
				class := "earlier-response-changed-by-later-one"
				if i == len(pend)-1 && c.Mode == "batch" {
					class = "response-depends-on-earlier-ones"
				}
				if c.Mode == "batch2" {
					class = "pending-responses-interfere"
				}
				report(round, i, w, class)
			}
		case "conns":
			var wg sync.WaitGroup
			var mu sync.Mutex
			for g := 0; g < 2; g++ {
				wg.Add(1)
				go func(g int) {
					defer wg.Done()
					for i := g; i < len(c.Reqs); i += 2 {
						res, modify := newResponse(i)
						w := judgeReq(i, observe(res, modify, limit(i)))
						mu.Lock()
						report(round, i, w, "responses-of-two-connections-interfere")
						mu.Unlock()
					}
				}(g)
			}
			wg.Wait()
		default:
			return nil
		}
	}
	return v
}

// runRewrite: mode "rewrite". mod is the one long-lived static.Modifier.
func runRewrite(c SeqCase, ft *fileTree, mod responseModifier, contents [][]byte) kit.Verdict {
	who := whoLabel("static", c.ViaJSON)
	cur := make([][]byte, len(contents))
	copy(cur, contents)
	for _, r := range c.Reqs {
		if r.Rewrite != nil && (r.Rewrite.Len < 0 || r.Rewrite.Len > maxContent) {
			return nil
		}
	}
	var v kit.Verdict
	for round := 0; round < c.Rounds && len(v) == 0; round++ {
		for i, r := range c.Reqs {
			rewritten := false
			if r.Rewrite != nil {
				nb := kit.Bytes(r.Rewrite.Seed, r.Rewrite.Len)
				if err := os.WriteFile(filepath.Join(ft.root, fmt.Sprintf("seq-%d.bin", r.Content)), nb, 0o644); err != nil {
					return kit.Failf("C20/harness/cannot-write-case-file", "%v", err)
				}
				cur[r.Content], rewritten = nb, true
			}
			if staticSizes && allocBand(r.Range, len(cur[r.Content])) {
				continue
			}
			target := fmt.Sprintf("http://example.com/seq-%d.bin", r.Content)
			limit := readLimit(len(cur[r.Content]), r.Range)
			w := judge(who, cur[r.Content], r.Range, observe(proxyutil.NewResponse(200, nil, newRequest(target, r.Range)), mod.ModifyResponse, limit))
			if len(w) == 0 {
				continue
			}
			fresh, err := newStaticModifier(ft.root, nil, c.ViaJSON)
			if err != nil {
				return kit.Failf("C20/"+who+"/json-config/rejected", "%v", err)
			}
			if wf := judge(who, cur[r.Content], r.Range, observe(proxyutil.NewResponse(200, nil, newRequest(target, r.Range)), fresh.ModifyResponse, limit)); len(wf) > 0 {
				v = append(v, w...) // wrong for a fresh instance too: an ordinary range failure
				continue
			}
			_ = rewritten
			v.Addf("C20/"+who+"/sequence-file-rewritten/answer-from-earlier-file-state", "round %d, request %d of %d (file %d, now %d bytes, Range %q): a fresh static.Modifier answers correctly, the long-lived one that served this path before the file was rewritten does not (sequence %s): %s: %s",
				round, i, len(c.Reqs), r.Content, len(cur[r.Content]), r.Range, describeSeq(c), w[0].Sig, w[0].Msg)
		}
	}
	return v
}

func describeSeq(c SeqCase) string {
	var parts []string
	for _, r := range c.Reqs {
		if r.Rewrite != nil {
			parts = append(parts, fmt.Sprintf("(file %d := %d bytes)", r.Content, r.Rewrite.Len))
		}
		parts = append(parts, fmt.Sprintf("[%d:%q]", r.Content, r.Range))
	}
	return strings.Join(parts, " ")
}

// expectedMultipart: the request's allowed 206 is a multipart body.
func expectedMultipart(c SeqCase, i int) bool {
	r := c.Reqs[i]
	if r.Content < 0 || r.Content >= len(c.Contents) {
		return false
	}
	p := parseRange(r.Range)
	if !p.valid() {
		return false
	}
	sat, _ := p.resolve(int64(c.Contents[r.Content].Len))
	return len(sat) >= 2
}

// selected is a rough size of the expected multipart body: the selected bytes.
func selected(c SeqCase, i int) int64 {
	p := parseRange(c.Reqs[i].Range)
	if !p.valid() {
		return 0
	}
	sat, _ := p.resolve(int64(c.Contents[c.Reqs[i].Content].Len))
	var n int64
	for _, s := range sat {
		n += s.E - s.S + 1
	}
	return n
}

// rewriteShape: in mode "rewrite", whether some file is served, then shrunk /
// grown, then served again.
func rewriteShape(c SeqCase) (shrunk, grown bool) {
	size := map[int]int{}
	served := map[int]bool{}
	for i, sc := range c.Contents {
		size[i] = sc.Len
	}
	for round := 0; round < 2; round++ { // the schedule repeats: the second round sees the first one's last state
		for _, r := range c.Reqs {
			if r.Rewrite != nil {
				if served[r.Content] && r.Rewrite.Len < size[r.Content] {
					shrunk = true
				}
				if served[r.Content] && r.Rewrite.Len > size[r.Content] {
					grown = true
				}
				size[r.Content] = r.Rewrite.Len
			}
			served[r.Content] = true
		}
	}
	return
}

func nonTrivialSeq(c SeqCase) bool {
	if c.Mode == "rewrite" {
		s, g := rewriteShape(c)
		return s || g
	}
	// at least two multipart answers in flight together
	n := 0
	for i := range c.Reqs {
		if expectedMultipart(c, i) {
			n++
		}
	}
	return n >= 2
}

func classesSeq(c SeqCase) []string {
	cl := []string{"who-" + c.Who, "mode-" + c.Mode}
	if c.ViaJSON {
		cl = append(cl, "built-from-json-config")
	}
	if c.Mode == "rewrite" {
		s, g := rewriteShape(c)
		if s {
			cl = append(cl, "served-shrunk-served-again")
		}
		if g {
			cl = append(cl, "served-grown-served-again")
		}
		return cl
	}
	multi, single := 0, 0
	var sizes []int64
	for i := range c.Reqs {
		if expectedMultipart(c, i) {
			multi++
			sizes = append(sizes, selected(c, i))
		} else {
			single++
		}
	}
	if multi >= 2 {
		cl = append(cl, "two-multipart-in-flight")
		smaller, larger := false, false
		for i := 1; i < len(sizes); i++ {
			smaller = smaller || sizes[i] < sizes[i-1]
			larger = larger || sizes[i] > sizes[i-1]
		}
		if smaller {
			cl = append(cl, "later-multipart-smaller")
		}
		if larger {
			cl = append(cl, "later-multipart-larger")
		}
	}
	if multi >= 1 && single >= 1 {
		cl = append(cl, "multipart-and-other-mixed")
	}
	if len(c.Contents) >= 2 {
		cl = append(cl, "several-contents")
	}
	return cl
}

var seqRule = "2..4 (content, Range) requests over 1..2 contents of 0..64 KiB answered by ONE body.Modifier per content / ONE static.Modifier: every ModifyResponse is called first (in order, or from two goroutines) and only then is every body read and judged exactly like 'range' (also: two goroutines producing and reading one response at a time); repeated for 3..6 rounds on the same instances; Range headers mostly valid multi-range sets of varied total size (later ones smaller and larger than earlier ones), mixed with single ranges, no Range and generated hostile headers; a response that is right on its own but wrong in the sequence fails; mode rewrite (static): one long-lived static.Modifier serves the same paths again after the files were rewritten in place (shrunk and grown), each answer judged against the file as it is at the time of the request; modifiers built by their constructors or by parse.FromJSON; non-trivial = at least two multipart answers in flight, or (rewrite) a file served, resized and served again"

// genInsideSet draws a valid range set with k specs inside (or a little past) a content of n bytes.
func genInsideSet(t *rapid.T, n, k int) string {
	var specs []string
	for i := 0; i < k; i++ {
		hi := n - 1
		if hi < 0 {
			hi = 0
		}
		a := rapid.IntRange(0, hi).Draw(t, "a")
		switch rapid.IntRange(0, 5).Draw(t, "form") {
		case 0:
			specs = append(specs, fmt.Sprintf("%d-", a))
		case 5:
			specs = append(specs, fmt.Sprintf("-%d", rapid.IntRange(1, n+1).Draw(t, "suffix")))
		default:
			b := rapid.IntRange(a, hi+2).Draw(t, "b")
			specs = append(specs, fmt.Sprintf("%d-%d", a, b))
		}
	}
	return "bytes=" + strings.Join(specs, ",")
}

var propSequence = &kit.Prop[SeqCase]{
	ID: "C20", Name: "sequence", Rule: "rapid: " + seqRule,
	Run: runSequence, NonTrivial: nonTrivialSeq, Classes: classesSeq,
	Gates: map[string]float64{"nontrivial": 0.5, "who-body": 0.25, "who-static": 0.3, "mode-batch": 0.25, "later-multipart-smaller": 0.15, "later-multipart-larger": 0.15, "multipart-and-other-mixed": 0.15,
		"served-shrunk-served-again": 0.05, "served-grown-served-again": 0.05, "built-from-json-config": 0.1},
	Gen: func(t *rapid.T) SeqCase {
		c := SeqCase{
			Who:     rapid.SampledFrom([]string{"static", "body"}).Draw(t, "who"),
			Mode:    rapid.SampledFrom([]string{"batch", "batch", "batch2", "conns", "rewrite"}).Draw(t, "mode"),
			Rounds:  rapid.IntRange(3, 6).Draw(t, "rounds"),
			ViaJSON: rapid.IntRange(0, 3).Draw(t, "via_json") == 2,
		}
		if c.Mode == "rewrite" {
			c.Who = "static"
		}
		for i, n := 0, rapid.IntRange(1, 2).Draw(t, "contents"); i < n; i++ {
			l := rapid.IntRange(2, 600).Draw(t, "len")
			if rapid.IntRange(0, 9).Draw(t, "len_big") == 5 {
				l = rapid.IntRange(0, maxContent).Draw(t, "len_any")
			}
			c.Contents = append(c.Contents, SeqContent{Len: l, Seed: uint64(rapid.IntRange(0, 1<<20).Draw(t, "seed"))})
		}
		for i, n := 0, rapid.IntRange(2, 4).Draw(t, "reqs"); i < n; i++ {
			r := SeqReq{Content: rapid.IntRange(0, len(c.Contents)-1).Draw(t, "content")}
			l := c.Contents[r.Content].Len
			if c.Mode == "rewrite" {
				// headers are drawn for the larger of the old and the new size, so that
				// they reach into what a shrink removed and what a growth added
				for _, prev := range c.Reqs {
					if prev.Content == r.Content && prev.Rewrite != nil {
						l = prev.Rewrite.Len
					}
				}
				if i > 0 && rapid.IntRange(0, 2).Draw(t, "rewrite") != 1 {
					nl := rapid.IntRange(0, 2*l+10).Draw(t, "new_len")
					r.Rewrite = &SeqContent{Len: nl, Seed: uint64(rapid.IntRange(0, 1<<20).Draw(t, "new_seed"))}
					if nl > l {
						l = nl
					}
				}
			}
			switch k := rapid.IntRange(0, 9).Draw(t, "req_kind"); {
			case k <= 5:
				r.Range = genInsideSet(t, l, rapid.IntRange(2, 5).Draw(t, "specs"))
			case k == 6:
				r.Range = genInsideSet(t, l, 1)
			case k == 7:
				r.Range = ""
			default:
				r.Range = genRangeHeader(t, l)
				if staticSizes && allocBand(r.Range, l) {
					r.Range = "bytes=0-0,1-1"
				}
			}
			c.Reqs = append(c.Reqs, r)
		}
		return c
	},
}

func TestSequence(t *testing.T) {
	staticAllocatesFromHeader(getTree(t))
	n := kit.N(600, 3000)
	if kit.Race() {
		n = kit.N(150, 600)
	}
	propSequence.Check(t, n)
}

var propSequenceMatrix = &kit.Prop[SeqCase]{
	ID: "C20", Name: "sequence-matrix",
	Rule: "ALL ordered pairs and triples of 6 requests (multi-range small / large / clamped / with suffix, single range, no Range) over two contents (40 and 300 bytes), both modifiers (body.Modifier also built from JSON), modes batch and batch2, 3 rounds (JSON-built: pairs only); mode rewrite: a 40-byte file served, resized through every ordered pair of sizes from {0,10,40,100} and served again after each, every pair of six requests, with and without JSON construction; " + seqRule,
	Run:  runSequence, NonTrivial: nonTrivialSeq, Classes: classesSeq,
}

func TestSequenceMatrix(t *testing.T) {
	if kit.Race() {
		t.Skip("covered by TestSequence under the race detector")
	}
	staticAllocatesFromHeader(getTree(t))
	contents := []SeqContent{{Len: 40, Seed: 1}, {Len: 300, Seed: 2}}
	reqs := []SeqReq{
		{Content: 0, Range: "bytes=0-1,5-6"}, {Content: 1, Range: "bytes=0-99,100-199,250-"}, {Content: 1, Range: "bytes=10-20,290-400"},
		{Content: 0, Range: "bytes=-5,0-0,3-"}, {Content: 1, Range: "bytes=7-77"}, {Content: 0, Range: ""},
	}
	propSequenceMatrix.Enumerate(t, func(yield func(SeqCase) bool) {
		// rewrite: a 40-byte file served, then resized through every ordered pair of
		// sizes from {0, 10, 40, 100} and served again after each, for every pair of
		// requests from the list below
		rw := []string{"bytes=0-9,30-39", "bytes=5-", "", "bytes=-5", "bytes=50-59,90-", "bytes=0-0,9-200"}
		sizes := []int{0, 10, 40, 100}
		for _, viaJSON := range []bool{false, true} {
			for _, s1 := range sizes {
				for _, s2 := range sizes {
					for a := range rw {
						for b := range rw {
							if viaJSON && a != b {
								continue
							}
							cs := SeqCase{Who: "static", Mode: "rewrite", ViaJSON: viaJSON, Rounds: 2, Contents: []SeqContent{{Len: 40, Seed: 3}}, Reqs: []SeqReq{
								{Content: 0, Range: rw[a]},
								{Content: 0, Range: rw[b], Rewrite: &SeqContent{Len: s1, Seed: 4}},
								{Content: 0, Range: rw[a], Rewrite: &SeqContent{Len: s2, Seed: 5}},
							}}
							if !yield(cs) {
								return
							}
						}
					}
				}
			}
		}
		for _, who := range []string{"static", "body", "body-json"} {
			for _, mode := range []string{"batch", "batch2"} {
				for a := range reqs {
					for b := range reqs {
						w, vj := strings.TrimSuffix(who, "-json"), strings.HasSuffix(who, "-json")
						if !yield(SeqCase{Who: w, ViaJSON: vj, Mode: mode, Rounds: 3, Contents: contents, Reqs: []SeqReq{reqs[a], reqs[b]}}) {
							return
						}
						for d := range reqs {
							if vj {
								break // pairs only for the JSON-built modifier
							}
							if !yield(SeqCase{Who: w, ViaJSON: vj, Mode: mode, Rounds: 3, Contents: contents, Reqs: []SeqReq{reqs[a], reqs[b], reqs[d]}}) {
								return
							}
						}
					}
				}
			}
		}
	})
}
