package c20

import (
	"fmt"
	"os"
	"sort"
	"testing"

	"pgregory.net/rapid"
)

func TestZDiscover(t *testing.T) {
	if os.Getenv("C20_DISCOVER") == "" {
		t.Skip()
	}
	ft := getTree(t)
	staticAllocatesFromHeader(ft)
	sigs := map[string]string{}
	count := map[string]int{}
	rec := func(sig, msg string) {
		count[sig]++
		if _, ok := sigs[sig]; !ok || len(msg) < len(sigs[sig]) {
			sigs[sig] = msg
		}
	}
	enumRangeMatrix(func(c RangeCase) bool {
		for _, f := range runRange(c) {
			rec(f.Sig, f.Msg)
		}
		return true
	})
	for n := 0; n < 40000; n++ {
		for _, f := range runRange(rapid.Custom(propRange.Gen).Example(n)) {
			rec(f.Sig, f.Msg)
		}
		if n < 4000 {
			for _, f := range runSequence(rapid.Custom(propSequence.Gen).Example(n)) {
				rec(f.Sig, f.Msg)
			}
			for _, f := range runPath(rapid.Custom(propPath.Gen).Example(n)) {
				rec(f.Sig, f.Msg)
			}
		}
	}
	var keys []string
	for k := range sigs {
		keys = append(keys, k)
	}
	sort.Strings(keys)
	for _, k := range keys {
		m := sigs[k]
		if len(m) > 300 {
			m = m[:300]
		}
		fmt.Printf("%6d %s\n       %s\n", count[k], k, m)
	}
}
