package c20

import (
	"bytes"
	"flag"
	"net/http"
	"net/http/httptest"
	"strconv"
	"testing"
	"time"

	"pgregory.net/rapid"

	"verifharness/internal/kit"
)

// TestOracleAcceptsNetHTTP guards the soundness of the judge: the answers of
// an independent, widely deployed implementation of RFC 7233 (net/http's
// ServeContent) to the generated headers must all be accepted. A failure here
// is a defect of the harness, not of martian (the driver reports it as
// inconclusive). One known deviation of net/http is left out: it answers a
// suffix that selects nothing ("-0", or any suffix over empty content) with an
// empty 206 instead of 416; and its 206 answers to headers with an unreadable
// element (it skips them unread when the first position is past the content).
func TestOracleAcceptsNetHTTP(t *testing.T) {
	if kit.Race() {
		t.Skip()
	}
	check := func(t interface {
		Fatalf(string, ...interface{})
	}, n int, seed uint64, h string) {
		p := parseRange(h)
		for _, s := range p.specs {
			if s.Kind == kindSuffix && (s.B == 0 || n == 0) {
				return // net/http answers a suffix that selects nothing with an empty 206
			}
		}
		content := kit.Bytes(seed, n)
		rec := httptest.NewRecorder()
		req := httptest.NewRequest("GET", "/x.bin", nil)
		if h != "" {
			req.Header["Range"] = []string{h}
		}
		rec.Header().Set("Content-Type", "application/octet-stream")
		http.ServeContent(rec, req, "x.bin", time.Time{}, bytes.NewReader(content))
		o := obs{Status: rec.Code, Header: rec.Header(), Body: rec.Body.Bytes(), CL: -1}
		if cl, err := strconv.ParseInt(rec.Header().Get("Content-Length"), 10, 64); err == nil {
			o.CL = cl
		}
		if (p.unitCase || p.overflow) && o.Status == http.StatusRequestedRangeNotSatisfiable {
			// net/http wants the unit in lower case and numbers that fit an int64
			return
		}
		if !p.ok && o.Status == http.StatusPartialContent {
			// net/http stops reading a spec once its first position is past the
			// content, so garbage after it goes unnoticed: not an answer the
			// judge has to accept.
			return
		}
		if v := judge("nethttp", content, h, o); len(v) > 0 {
			t.Fatalf("the judge rejects net/http's answer (status %d) to Range %q over %d bytes: %s: %s", o.Status, h, n, v[0].Sig, v[0].Msg)
		}
	}
	for _, n := range []int{0, 1, 2, 3, 10} {
		for _, h := range syntaxVariants {
			if validHeaderValue(h) {
				check(t, n, uint64(n), h)
			}
		}
	}
	flag.Set("rapid.nofailfile", "true")
	flag.Set("rapid.checks", "3000") // whatever the previous kit.Check left there
	rapid.Check(t, func(rt *rapid.T) {
		n := genLen(rt)
		h := genRangeHeader(rt, n)
		check(rt, n, 5, h)
	})
}

// TestOracleRejects pins the judge on answers that the statement forbids.
func TestOracleRejects(t *testing.T) {
	content := []byte("0123456789")
	hdr := func(kv ...string) http.Header {
		h := http.Header{}
		for i := 0; i+1 < len(kv); i += 2 {
			h.Set(kv[i], kv[i+1])
		}
		return h
	}
	cases := []struct {
		name, rng string
		o         obs
		want      string
	}{
		{"off-by-one body", "bytes=1-4", obs{Status: 206, Header: hdr("Content-Range", "bytes 1-4/10"), CL: 3, Body: []byte("123")}, "C20/x/inside/body-mismatch"},
		{"wrong total", "bytes=1-4", obs{Status: 206, Header: hdr("Content-Range", "bytes 1-4/11"), CL: 4, Body: []byte("1234")}, "C20/x/inside/content-range-mismatch"},
		{"unclamped", "bytes=1-40", obs{Status: 206, Header: hdr("Content-Range", "bytes 1-40/10"), CL: 9, Body: []byte("123456789")}, "C20/x/end-past-content/content-range-unclamped"},
		{"416 for satisfiable", "bytes=1-4", obs{Status: 416, Header: hdr()}, "C20/x/inside/416-although-satisfiable"},
		{"416 for another letter case", "BYTES=2-5", obs{Status: 416, Header: hdr()}, "C20/x/unit-letter-case/416-although-satisfiable"},
		{"416 for digits beyond int64", "bytes=0-99999999999999999999", obs{Status: 416, Header: hdr()}, "C20/x/number-beyond-int64/416-although-satisfiable"},
		{"416 with upstream Content-Range", "bytes=20-", obs{Status: 416, Header: hdr("Content-Range", "bytes */12345")}, "C20/x/answered-416/stale-content-range"},
		{"416 with upstream length", "bytes=20-", obs{Status: 416, Header: hdr(), CL: 13}, "C20/x/answered-416/416-content-length-mismatch"},
		{"416 for a partly satisfiable set", "bytes=0-1,10-", obs{Status: 416, Header: hdr()}, "C20/x/partly-satisfiable-set/416-although-satisfiable"},
		{"416 for an empty list element", "bytes=0-4,", obs{Status: 416, Header: hdr()}, "C20/x/empty-element/416-although-satisfiable"},
		{"304 with content", "", obs{Status: 304, Header: hdr(), CL: 10, Body: []byte("0123456789")}, "C20/x/no-range/content-under-bodyless-status"},
		{"416 for suffix", "bytes=-4", obs{Status: 416, Header: hdr()}, "C20/x/suffix/416-although-satisfiable"},
		{"416 for list OWS before a suffix", "bytes=0-1, -3", obs{Status: 416, Header: hdr()}, "C20/x/list-whitespace/416-although-satisfiable"},
		{"416 for list OWS after an open-ended spec", "bytes=5- ,\t0-1", obs{Status: 416, Header: hdr()}, "C20/x/list-whitespace/416-although-satisfiable"},
		{"short full", "bytes=abc", obs{Status: 200, Header: hdr(), CL: 9, Body: []byte("012345678")}, "C20/x/malformed/full-content-mismatch"},
		{"206 other unit", "items=0-1", obs{Status: 206, Header: hdr("Content-Range", "bytes 0-1/10"), CL: 2, Body: []byte("01")}, "C20/x/other-unit/treated-as-bytes-range"},
		{"cl mismatch", "bytes=0-1", obs{Status: 206, Header: hdr("Content-Range", "bytes 0-1/10"), CL: 3, Body: []byte("01")}, "C20/x/inside/content-length-mismatch"},
	}
	for _, c := range cases {
		v := judge("x", content, c.rng, c.o)
		found := false
		for _, f := range v {
			if f.Sig == c.want {
				found = true
			}
		}
		if !found {
			t.Errorf("%s: judge gave %v, want a failure %s", c.name, v, c.want)
		}
	}
	ok := []struct {
		rng string
		o   obs
	}{
		{"bytes=1-40", obs{Status: 206, Header: hdr("Content-Range", "bytes 1-9/10"), CL: 9, Body: []byte("123456789")}},
		{"bytes=-3", obs{Status: 206, Header: hdr("Content-Range", "bytes 7-9/10"), CL: 3, Body: []byte("789")}},
		{"bytes=-3", obs{Status: 200, Header: hdr(), CL: 10, Body: content}},
		{"bytes=10-", obs{Status: 416, Header: hdr()}},
		{"bytes=0-1,10-", obs{Status: 206, Header: hdr("Content-Range", "bytes 0-1/10"), CL: 2, Body: []byte("01")}},
		{"bytes=abc", obs{Status: 416, Header: hdr()}},
		{"bytes =0-1", obs{Status: 416, Header: hdr()}},
		{"bytes=20-", obs{Status: 416, Header: hdr("Content-Range", "bytes */10")}},
		{"bytes= 0-1", obs{Status: 416, Header: hdr()}},
		{"bytes=0 -1", obs{Status: 416, Header: hdr()}},
		{"bytes=0-1,\u00a0-3", obs{Status: 416, Header: hdr()}},
		{"items=0-1", obs{Status: 200, Header: hdr(), CL: 10, Body: content}},
	}
	for _, c := range ok {
		if v := judge("x", content, c.rng, c.o); len(v) > 0 {
			t.Errorf("judge rejects an allowed answer to %q: %v", c.rng, v)
		}
	}
}
