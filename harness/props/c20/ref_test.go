// Package c20 decides property C20: the synthetic bodies produced by
// body.Modifier and static.Modifier honour Range requests exactly, never
// panic, never return bytes outside the content, and the static modifier stays
// inside its root.
//
// This file holds the reference semantics: an independent RFC 7233 range
// resolver and the judge that decides whether an observed response is one of
// the outcomes the property statement allows.
package c20

import (
	"bytes"
	"fmt"
	"io"
	"math"
	"math/big"
	"mime"
	"mime/multipart"
	"net/http"
	"regexp"
	"strconv"
	"strings"

	"verifharness/internal/kit"
)

// ---------------------------------------------------------------- range header syntax

const (
	kindRange  = "range"  // a-b
	kindOpen   = "open"   // a-
	kindSuffix = "suffix" // -n
)

// spec is one byte-range-spec. Numbers that do not fit an int64 are saturated
// (every content here is far shorter, so saturation does not change what they
// select) and flagged.
type spec struct {
	Kind string
	A, B int64
}

// parsed is the syntactic reading of a Range header value.
type parsed struct {
	raw       string
	unit      string // text before the first '='
	hasEq     bool
	ok        bool   // lenient reading produced at least one spec and no unreadable element
	why       string // reason when !ok
	specs     []spec
	ambiguous bool // readable only leniently: strict RFC 7233 grammar rejects it (or a recipient may reasonably do so)

	whitespace, emptyElem, plusSign, overflow, reversed bool
	listOWS                                             bool // SP / HTAB next to a comma (allowed by the list grammar)
	unitCase                                            bool // the unit is "bytes" in another letter case
}

var numRE = regexp.MustCompile(`^\+?[0-9]+$`)

var maxInt64 = new(big.Int).SetInt64(math.MaxInt64)

// number reads 1*DIGIT (leniently: an optional '+', as strconv does).
func (p *parsed) number(s string) (int64, bool) {
	if !numRE.MatchString(s) {
		return 0, false
	}
	if s[0] == '+' {
		p.plusSign, p.ambiguous = true, true
		s = s[1:]
	}
	v, _ := new(big.Int).SetString(s, 10)
	if v.Cmp(maxInt64) > 0 {
		// Valid digits (1*DIGIT has no upper bound): a position past any content.
		// The statement wants a last position beyond the end clamped, however it
		// is spelled; net/http refuses such numbers (left out of the differential
		// test).
		p.overflow = true
		return math.MaxInt64, true
	}
	return v.Int64(), true
}

// parseRange reads a Range header value. The lenient reading is the superset
// that common recipients accept (white space trimmed around elements and
// numbers, empty list elements skipped, '+' signs, any letter case of the
// unit); whatever is outside strict RFC 7233 grammar marks the header
// ambiguous, which widens the set of accepted answers, never narrows it.
func parseRange(h string) *parsed {
	p := &parsed{raw: h}
	i := strings.IndexByte(h, '=')
	if i < 0 {
		p.unit, p.why = h, "no '='"
		return p
	}
	p.hasEq = true
	p.unit = h[:i]
	rest := h[i+1:]
	if strings.ToLower(strings.TrimSpace(p.unit)) != "bytes" {
		p.why = "unit is not bytes"
		return p
	}
	if strings.ToLower(p.unit) != "bytes" {
		p.ambiguous = true // blanks around the unit
	} else if p.unit != "bytes" {
		p.unitCase = true // range unit names are case-insensitive: plain syntax
	}
	for idx, raw := range strings.Split(rest, ",") {
		// RFC 7230 §7 (#rule): optional SP / HTAB is allowed before a comma and
		// after one. Such list white space is plain RFC 7233 syntax. Blanks after
		// the "=", inside a member, or other space characters are lenient-only.
		el := strings.Trim(raw, " \t")
		if el != raw {
			p.listOWS = true
			if idx == 0 && strings.TrimLeft(raw, " \t") != raw {
				p.whitespace, p.ambiguous = true, true // between "=" and the first member
			}
		}
		if strings.IndexFunc(el, isSpaceRune) >= 0 {
			p.whitespace, p.ambiguous = true, true
		}
		el = strings.TrimSpace(el)
		if el == "" {
			// a recipient MUST parse and ignore empty list elements (RFC 7230 §7)
			p.emptyElem = true
			continue
		}
		j := strings.IndexByte(el, '-')
		if j < 0 {
			p.why = "element without '-'"
			return p
		}
		a, b := strings.TrimSpace(el[:j]), strings.TrimSpace(el[j+1:])
		switch {
		case a == "" && b == "":
			p.why = "bare '-'"
			return p
		case a == "":
			n, ok := p.number(b)
			if !ok {
				p.why = "suffix length is not a number"
				return p
			}
			p.specs = append(p.specs, spec{Kind: kindSuffix, B: n})
		case b == "":
			n, ok := p.number(a)
			if !ok {
				p.why = "first position is not a number"
				return p
			}
			p.specs = append(p.specs, spec{Kind: kindOpen, A: n})
		default:
			n1, ok1 := p.number(a)
			n2, ok2 := p.number(b)
			if !ok1 || !ok2 {
				p.why = "position is not a number"
				return p
			}
			if n2 < n1 {
				p.reversed = true
			}
			p.specs = append(p.specs, spec{Kind: kindRange, A: n1, B: n2})
		}
	}
	if len(p.specs) == 0 {
		p.why = "no range in the set"
		return p
	}
	p.ok = true
	return p
}

func isSpaceRune(r rune) bool { return strings.TrimSpace(string(r)) == "" }

// valid reports whether the header is a bytes range set under the lenient
// reading. A reversed pair (last < first) makes the whole set invalid under
// RFC 7233 §2.1, but recipients that meet it (net/http among them) may also
// just skip that spec: resolve counts it as selecting nothing, which lets
// both a 416 and a 206 with the remaining ranges through.
func (p *parsed) valid() bool { return p.ok }

// span is a satisfiable range with positions clamped to the content.
type span struct {
	S, E   int64 // inclusive
	Spec   int   // index into specs
	RawEnd int64 // last position as written (== E unless clamped)
}

// resolve gives the satisfiable ranges (ends clamped to n-1) in header order
// and the number of unsatisfiable specs.
func (p *parsed) resolve(n int64) (sat []span, unsat int) {
	for i, s := range p.specs {
		switch s.Kind {
		case kindRange:
			if s.A >= n || s.B < s.A {
				unsat++
				continue
			}
			e := s.B
			if e > n-1 {
				e = n - 1
			}
			sat = append(sat, span{S: s.A, E: e, Spec: i, RawEnd: s.B})
		case kindOpen:
			if s.A >= n {
				unsat++
				continue
			}
			sat = append(sat, span{S: s.A, E: n - 1, Spec: i, RawEnd: n - 1})
		case kindSuffix:
			if s.B == 0 || n == 0 {
				unsat++
				continue
			}
			k := s.B
			if k > n {
				k = n
			}
			sat = append(sat, span{S: n - k, E: n - 1, Spec: i, RawEnd: n - 1})
		}
	}
	return sat, unsat
}

// hugePos: positions from here on cannot be the size of any buffer (the Go
// runtime refuses allocations beyond 2^48 bytes).
const hugePos = int64(1) << 48

// Shapes name the triggering shape of a header in signatures. They depend on
// the header and the content length only, never on what the implementation
// answered. Two views exist: the syntax of the header and where its positions
// lie relative to the content; sigShape picks the one the failure class is
// about, so that one defect does not fan out over unrelated features.

// syntaxShape: the first syntactic peculiarity, or "plain".
func (p *parsed) syntaxShape() string {
	switch {
	case strings.ToLower(p.unit) != "bytes" || !p.hasEq:
		return "other-unit"
	case !p.ok:
		return "malformed"
	case p.emptyElem && !p.ambiguous:
		return "empty-element"
	case p.overflow:
		return "number-beyond-int64"
	case p.unitCase:
		return "unit-letter-case"
	case p.listOWS && !p.whitespace:
		return "list-whitespace"
	}
	for _, s := range p.specs {
		if s.Kind == kindSuffix {
			return "suffix"
		}
	}
	switch {
	case p.whitespace:
		return "whitespace"
	case p.emptyElem:
		return "empty-element"
	case p.plusSign:
		return "plus-sign"
	case p.reversed:
		return "reversed"
	}
	return "plain"
}

// boundsShape: where the positions of a readable header lie.
func (p *parsed) boundsShape(n int64) string {
	startPast, endPast, huge := false, false, false
	for _, s := range p.specs {
		switch s.Kind {
		case kindOpen:
			huge = huge || s.A >= hugePos
			startPast = startPast || s.A >= n
		case kindRange:
			huge = huge || s.A >= hugePos || s.B >= hugePos
			if s.A >= n {
				startPast = true
			} else if s.B >= n {
				endPast = true
			}
		}
	}
	switch {
	case huge:
		return "position-huge"
	case startPast:
		return "start-past-content"
	case endPast:
		return "end-past-content"
	}
	return "inside"
}

// unitLettersStripped: the header is not a bytes range set, but what is left
// after removing every leading character that occurs in "bytes=" reads as one
// ("=0-1", "tes=0-1", "bytes==0-1", "1-2").
func (p *parsed) unitLettersStripped() bool {
	if p.ok {
		return false
	}
	return parseRange("bytes=" + strings.TrimLeft(strings.ToLower(p.raw), "bytes=")).ok
}

// parseFailureClasses are about how the header was read, not about positions.
var parseFailureClasses = map[string]bool{"error-leaves-200-without-content": true, "416-although-satisfiable": true}

func (p *parsed) sigShape(class string, n int64) string {
	syn := p.syntaxShape()
	switch {
	case !p.ok && !parseFailureClasses[class] && p.unitLettersStripped():
		return "unit-letters-stripped"
	case !p.ok:
		return syn
	case parseFailureClasses[class] && syn != "plain":
		return syn
	}
	return p.boundsShape(n)
}

// shape is the label used in the class histogram: syntax first, then bounds.
func (p *parsed) shape(n int64) string {
	if syn := p.syntaxShape(); syn != "plain" || !p.ok {
		if !p.ok && p.unitLettersStripped() {
			return "unit-letters-stripped"
		}
		return syn
	}
	return p.boundsShape(n)
}

// nonTrivialRange is DESIGN's rule: an end >= len, a suffix or open-ended
// spec, at least two specs, or a malformed spec.
func nonTrivialRange(h string, n int64) bool {
	p := parseRange(h)
	if !p.ok || p.reversed || len(p.specs) >= 2 {
		return true
	}
	for _, s := range p.specs {
		if s.Kind != kindRange || s.B >= n {
			return true
		}
	}
	return false
}

// ---------------------------------------------------------------- observation

// upstreamMarker fills the body of the response that the modifier is asked to
// replace; sentinelMarker is the content of the files placed outside the
// static root. Neither may ever be served.
var (
	// (built at run time: the package directory itself serves as a static root
	// in some cases, and its files must not contain the markers)
	upstreamMarker = []byte("C20-UPSTREAM-" + "BODY-MUST-BE-REPLACED")
	sentinelMarker = []byte("C20-SENTINEL-" + "OUTSIDE-THE-ROOT")
)

// trackBody behaves like a transport body: reads fail once it is closed.
type trackBody struct {
	r      *bytes.Reader
	closed bool
}

func newUpstreamBody() *trackBody {
	return &trackBody{r: bytes.NewReader(bytes.Repeat(upstreamMarker, 3))}
}

func (b *trackBody) Read(p []byte) (int, error) {
	if b.closed {
		return 0, fmt.Errorf("http: read on closed response body")
	}
	return b.r.Read(p)
}

func (b *trackBody) Close() error { b.closed = true; return nil }

// obs is what a client of the modified response can see.
type obs struct {
	Panic     string
	Err       error
	Status    int
	Header    http.Header
	CL        int64
	Body      []byte
	BodyErr   error
	Truncated bool // more than the read bound was available

	// BoundaryWho: set when the case called SetBoundary with a boundary that is
	// not a plain token; names the case shape in signatures about the framing.
	BoundaryWho string
}

// produce runs modify on res and records what it returned; the body is left
// unread (readBody does that, possibly much later).
func produce(res *http.Response, modify func(*http.Response) error) (o obs) {
	defer func() {
		if r := recover(); r != nil {
			o.Panic = fmt.Sprint(r)
		}
	}()
	o.Err = modify(res)
	return o
}

// readBody completes an observation: status, headers and at most limit bytes
// of the body of res as they are now.
func readBody(o obs, res *http.Response, limit int64) obs {
	if o.Panic != "" {
		return o
	}
	o.Status, o.Header, o.CL = res.StatusCode, res.Header, res.ContentLength
	if res.Body != nil {
		func() {
			defer func() {
				if r := recover(); r != nil {
					o.Panic = "reading the body: " + fmt.Sprint(r)
				}
			}()
			o.Body, o.BodyErr = io.ReadAll(io.LimitReader(res.Body, limit+1))
			if int64(len(o.Body)) > limit {
				o.Truncated = true
			}
			res.Body.Close()
		}()
	}
	return o
}

// observe runs modify on res and reads the resulting body (at most limit bytes).
func observe(res *http.Response, modify func(*http.Response) error, limit int64) obs {
	return readBody(produce(res, modify), res, limit)
}

// ---------------------------------------------------------------- judge

var contentRangeRE = regexp.MustCompile(`^bytes ([0-9]+)-([0-9]+)/([0-9]+|\*)$`)

func trunc(b []byte, n int) []byte {
	if len(b) > n {
		return b[:n]
	}
	return b
}

func allZero(b []byte) bool {
	for _, x := range b {
		if x != 0 {
			return false
		}
	}
	return true
}

// answered416Classes are about the shape of a 416 answer itself, whatever
// header caused it.
var answered416Classes = map[string]bool{"416-with-unreadable-body": true, "upstream-bytes-served": true, "416-content-length-mismatch": true, "stale-content-range": true}

// multiRangeClasses are about the framing of a multipart answer.
var multiRangeClasses = map[string]bool{"stale-content-range": true, "multipart-boundary-unusable": true, "multipart-unparseable": true, "part-count-mismatch": true}

// judge decides whether o is an answer the statement allows for content and
// Range header h. who is "body" or "static". Accepted: 200 with the full
// content and matching Content-Length (always); 206 carrying exactly the
// satisfiable ranges with ends clamped (single range: Content-Range +
// Content-Length; several: multipart/byteranges, one part per range in
// order); 416 when some range cannot be satisfied or the header is not a valid
// bytes range set (including every header only a lenient reader accepts).
func judge(who string, content []byte, h string, o obs) kit.Verdict {
	var v kit.Verdict
	n := int64(len(content))
	p := parseRange(h)
	sig := func(class string) string {
		if answered416Classes[class] && o.Status == http.StatusRequestedRangeNotSatisfiable {
			return "C20/" + who + "/answered-416/" + class
		}
		if multiRangeClasses[class] && o.Status == http.StatusPartialContent && (class == "stale-content-range" || o.BoundaryWho != "") {
			// about the multipart framing, not about where the ranges lie
			if o.BoundaryWho != "" && class != "stale-content-range" {
				return "C20/" + o.BoundaryWho + "/multi-range/" + class
			}
			return "C20/" + who + "/multi-range/" + class
		}
		if h == "" {
			return "C20/" + who + "/no-range/" + class
		}
		return "C20/" + who + "/" + p.sigShape(class, n) + "/" + class
	}

	if o.Panic != "" {
		v.Addf(sig("panic"), "Range %q over %d bytes of content: panic: %s", h, n, o.Panic)
		return v
	}
	if o.Status == -1 {
		v.Addf("C20/"+who+"/json-config/rejected", "parse.FromJSON rejects the documented configuration of the modifier (%d bytes of content): %v", n, o.Err)
		return v
	}
	if bytes.Contains(o.Body, upstreamMarker) {
		v.Addf(sig("upstream-bytes-served"), "Range %q over %d bytes: the answer (status %d) carries bytes of the body that was to be replaced", h, n, o.Status)
	}
	if bytes.Contains(o.Body, sentinelMarker) {
		v.Addf(sig("sentinel-served"), "Range %q: the answer (status %d) carries the sentinel file placed outside the root", h, o.Status)
	}
	if o.Truncated {
		v.Addf(sig("body-unbounded"), "Range %q over %d bytes: the body is longer than any allowed answer (read bound hit)", h, n)
		return v
	}

	var sat []span
	unsat := 0
	if h != "" && p.valid() {
		sat, unsat = p.resolve(n)
	}
	// 416 is for a range SET that cannot be satisfied: no member selects
	// anything (RFC 7233 §2.1, DESIGN's oracle). A set with at least one
	// satisfiable member must be served (the other members are dropped).
	accept416 := h != "" && (!p.valid() || p.ambiguous || p.reversed || len(sat) == 0)
	partly := len(sat) > 0 && unsat > 0 && !p.ambiguous && !p.reversed

	switch o.Status {
	case http.StatusOK:
		switch {
		case o.BodyErr == nil && bytes.Equal(o.Body, content) && o.CL == n:
			if cr := o.Header.Get("Content-Range"); cr != "" {
				v.Addf(sig("200-with-content-range"), "Range %q over %d bytes: 200 with Content-Range %q", h, n, cr)
			}
		case o.Err != nil:
			v.Addf(sig("error-leaves-200-without-content"), "Range %q over %d bytes: the modifier returned %q and left status 200 with %s (Content-Length %d): neither the content, a 206 nor a 416", h, n, o.Err, describeBody(o), o.CL)
		case o.BodyErr != nil:
			v.Addf(sig("200-with-unreadable-body"), "Range %q over %d bytes: 200 whose body cannot be read: %v", h, n, o.BodyErr)
		case !bytes.Equal(o.Body, content):
			v.Addf(sig("full-content-mismatch"), "Range %q over %d bytes: 200 whose body is not the content: %s", h, n, kit.Diff(content, o.Body))
		default:
			v.Addf(sig("full-content-length-mismatch"), "Range %q over %d bytes: 200 with the content but Content-Length %d", h, n, o.CL)
		}
	case http.StatusRequestedRangeNotSatisfiable:
		switch {
		case accept416:
		case partly:
			v.Addf("C20/"+who+"/partly-satisfiable-set/416-although-satisfiable", "Range %q over %d bytes: %d of the %d ranges can be satisfied (the set is satisfiable as soon as one member is), yet the answer is 416", h, n, len(sat), len(sat)+unsat)
		default:
			v.Addf(sig("416-although-satisfiable"), "Range %q over %d bytes is a valid bytes range set and every range is satisfiable, yet the answer is 416", h, n)
		}
		// the 416 itself must be a response that can be delivered: a readable
		// body of the announced length, no Content-Range other than "bytes */len"
		switch {
		case o.BodyErr != nil:
			v.Addf(sig("416-with-unreadable-body"), "Range %q over %d bytes: 416 with Content-Length %d whose body cannot be read: %v", h, n, o.CL, o.BodyErr)
		case o.CL >= 0 && o.CL != int64(len(o.Body)):
			v.Addf(sig("416-content-length-mismatch"), "Range %q over %d bytes: 416 with Content-Length %d and a body of %d bytes", h, n, o.CL, len(o.Body))
		}
		if cr := o.Header.Get("Content-Range"); cr != "" && cr != fmt.Sprintf("bytes */%d", n) {
			v.Addf(sig("stale-content-range"), "Range %q over %d bytes: 416 with Content-Range %q (want none or \"bytes */%d\")", h, n, cr, n)
		}
	case http.StatusPartialContent:
		switch {
		case h == "":
			v.Addf(sig("206-without-range"), "206 for a request without Range")
		case !p.valid():
			v.Addf(sig("treated-as-bytes-range"), "Range %q is not a bytes range set (%s), yet the answer is 206 (Content-Range %q, Content-Type %q)", h, whyInvalid(p), o.Header.Get("Content-Range"), o.Header.Get("Content-Type"))
		case len(sat) == 0:
			v.Addf(sig("206-for-unsatisfiable-range"), "Range %q over %d bytes selects nothing, yet the answer is 206 with Content-Range %q, Content-Length %d, %s", h, n, o.Header.Get("Content-Range"), o.CL, describeBody(o))
		default:
			w := judge206(sig, content, h, p, sat, unsat, o)
			if len(w) > 0 && o.Err != nil {
				w = kit.Failf(sig("error-leaves-206-without-ranges"), "Range %q over %d bytes: the modifier returned %q and left status 206 with Content-Range %q, Content-Length %d, %s", h, n, o.Err, o.Header.Get("Content-Range"), o.CL, describeBody(o))
			}
			v = append(v, w...)
		}
	case http.StatusNotModified, http.StatusNoContent:
		// a status under which no body travels: whatever was attached is cut off
		// by every HTTP/1.x reader and writer, or poisons the connection
		v.Addf(sig("content-under-bodyless-status"), "Range %q over %d bytes: status %d (kept from the replaced response) with Content-Length %d and %s: a %d message has no body, the content cannot be delivered", h, n, o.Status, o.CL, describeBody(o), o.Status)
	default:
		v.Addf(sig("status-unexpected"), "Range %q over %d bytes: status %d (error %v)", h, n, o.Status, o.Err)
	}
	return v
}

func whyInvalid(p *parsed) string { return p.why }

func describeBody(o obs) string {
	if o.BodyErr != nil {
		return fmt.Sprintf("an unreadable body (%v)", o.BodyErr)
	}
	if allZero(o.Body) && len(o.Body) > 0 {
		return fmt.Sprintf("a body of %d zero bytes", len(o.Body))
	}
	return fmt.Sprintf("a body of %d bytes", len(o.Body))
}

type part struct {
	cr   string
	body []byte
}

func judge206(sig func(string) string, content []byte, h string, p *parsed, sat []span, unsat int, o obs) kit.Verdict {
	var v kit.Verdict
	n := int64(len(content))
	if o.BodyErr != nil {
		v.Addf(sig("206-with-unreadable-body"), "Range %q over %d bytes: 206 whose body cannot be read: %v", h, n, o.BodyErr)
		return v
	}
	ct := o.Header.Get("Content-Type")
	mt, params, cterr := mime.ParseMediaType(ct)
	if strings.HasPrefix(strings.ToLower(strings.TrimSpace(ct)), "multipart/byteranges") && (cterr != nil || params["boundary"] == "") {
		v.Addf(sig("multipart-boundary-unusable"), "Range %q over %d bytes: 206 with Content-Type %q: no usable boundary parameter (%v), the %d-byte body (starting %q) cannot be split into parts", h, n, ct, cterr, len(o.Body), trunc(o.Body, 40))
		return v
	}
	if mt != "multipart/byteranges" {
		// single-range form
		if len(sat) != 1 {
			v.Addf(sig("single-part-for-several-ranges"), "Range %q over %d bytes selects %d ranges, the 206 is not multipart (Content-Type %q, Content-Range %q)", h, n, len(sat), o.Header.Get("Content-Type"), o.Header.Get("Content-Range"))
			return v
		}
		padded := false
		v = append(v, judgeRange(sig, "", content, h, sat[0], o.Header.Get("Content-Range"), o.Body, &padded)...)
		if !padded && o.CL != int64(len(o.Body)) {
			v.Addf(sig("content-length-mismatch"), "Range %q over %d bytes: 206 with Content-Length %d and a body of %d bytes", h, n, o.CL, len(o.Body))
		}
		return v
	}
	// multipart form
	if cr := o.Header.Get("Content-Range"); cr != "" {
		v.Addf(sig("stale-content-range"), "Range %q over %d bytes: multipart 206 with a Content-Range %q in the header section (each part carries its own)", h, n, cr)
	}
	if o.CL != int64(len(o.Body)) {
		v.Addf(sig("content-length-mismatch"), "Range %q over %d bytes: multipart 206 with Content-Length %d and a body of %d bytes", h, n, o.CL, len(o.Body))
	}
	var parts []part
	mr := multipart.NewReader(bytes.NewReader(o.Body), params["boundary"])
	for {
		pt, err := mr.NextRawPart()
		if err == io.EOF {
			break
		}
		if err != nil {
			v.Addf(sig("multipart-unparseable"), "Range %q over %d bytes: the multipart body does not parse after %d parts: %v", h, n, len(parts), err)
			return v
		}
		b, err := io.ReadAll(pt)
		if err != nil {
			v.Addf(sig("multipart-unparseable"), "Range %q over %d bytes: part %d does not parse: %v", h, n, len(parts), err)
			return v
		}
		parts = append(parts, part{cr: pt.Header.Get("Content-Range"), body: b})
	}
	if len(parts) != len(sat) {
		if unsat > 0 && len(parts) == len(p.specs) {
			v.Addf(sig("206-includes-unsatisfiable-range"), "Range %q over %d bytes: %d of the %d ranges select nothing, yet the 206 carries %d parts (Content-Ranges %q)", h, n, unsat, len(p.specs), len(parts), partCRs(parts))
			return v
		}
		v.Addf(sig("part-count-mismatch"), "Range %q over %d bytes selects %d satisfiable ranges, the 206 carries %d parts (Content-Ranges %q)", h, n, len(sat), len(parts), partCRs(parts))
		return v
	}
	for i := range parts {
		padded := false
		v = append(v, judgeRange(sig, fmt.Sprintf("part %d: ", i), content, h, sat[i], parts[i].cr, parts[i].body, &padded)...)
	}
	return v
}

func partCRs(ps []part) []string {
	var out []string
	for _, p := range ps {
		out = append(out, p.cr)
	}
	return out
}

// judgeRange checks one range of a 206 (the whole single-range answer or one
// part): Content-Range must be "bytes S-E/len" and the bytes content[S..E].
func judgeRange(sig func(string) string, where string, content []byte, h string, want span, cr string, body []byte, padded *bool) kit.Verdict {
	var v kit.Verdict
	n := int64(len(content))
	wantCR := fmt.Sprintf("bytes %d-%d/%d", want.S, want.E, n)
	m := contentRangeRE.FindStringSubmatch(cr)
	switch {
	case m == nil:
		v.Addf(sig("content-range-mismatch"), "Range %q over %d bytes: %sContent-Range %q, want %q", h, n, where, cr, wantCR)
	default:
		s, _ := strconv.ParseInt(m[1], 10, 64)
		e, err := strconv.ParseInt(m[2], 10, 64)
		totalOK := m[3] == "*" || m[3] == strconv.FormatInt(n, 10)
		switch {
		case s == want.S && e == want.E && totalOK && err == nil:
		case s == want.S && want.RawEnd > want.E && (e == want.RawEnd || err != nil) && totalOK:
			v.Addf(sig("content-range-unclamped"), "Range %q over %d bytes: %sContent-Range %q announces positions past the last byte, want %q", h, n, where, cr, wantCR)
		default:
			v.Addf(sig("content-range-mismatch"), "Range %q over %d bytes: %sContent-Range %q, want %q", h, n, where, cr, wantCR)
		}
	}
	wantBody := content[want.S : want.E+1]
	switch {
	case bytes.Equal(body, wantBody):
	case len(body) > len(wantBody) && bytes.Equal(body[:len(wantBody)], wantBody) && allZero(body[len(wantBody):]):
		*padded = true
		v.Addf(sig("body-zero-padded"), "Range %q over %d bytes: %sthe %d selected bytes are followed by %d zero bytes that are not in the content", h, n, where, len(wantBody), len(body)-len(wantBody))
	case len(body) > len(wantBody) && bytes.Equal(body[:len(wantBody)], wantBody):
		*padded = true
		v.Addf(sig("bytes-beyond-content-served"), "Range %q over %d bytes: %sthe %d selected bytes are followed by %d bytes that are not in the content (%q...)", h, n, where, len(wantBody), len(body)-len(wantBody), trunc(body[len(wantBody):], 8))
	default:
		v.Addf(sig("body-mismatch"), "Range %q over %d bytes: %sbody is not content[%d..%d]: %s", h, n, where, want.S, want.E, kit.Diff(wantBody, body))
	}
	return v
}

// validHeaderValue reports whether h can be the value of a header field as an
// HTTP/1.x parser delivers it: no control characters except tab, no leading or
// trailing blanks.
func validHeaderValue(h string) bool {
	for i := 0; i < len(h); i++ {
		c := h[i]
		if (c < 0x20 && c != '\t') || c == 0x7f {
			return false
		}
	}
	return h == strings.Trim(h, " \t")
}
