package c20

// Long histories in one process: the statement quantifies over every request,
// also the thousandth one. A modifier that leaks something per answer (a file
// descriptor on the 416 path, say) answers correctly for a while and then
// turns every later request - valid range, no range, bad range - into a 500.
// The check gives the process a small descriptor budget, keeps the garbage
// collector (whose finalisers would mop up after a leak every now and then)
// out of the way, serves a few hundred requests of the same kinds from ONE
// static.Modifier and judges every answer, then three ordinary probes.

import (
	"fmt"
	"os"
	"path/filepath"
	"runtime"
	"runtime/debug"
	"strings"
	"syscall"
	"testing"
	"time"

	"github.com/google/martian/v3/proxyutil"
	"pgregory.net/rapid"

	"verifharness/internal/kit"
)

// HistCase: the history is Pattern repeated Repeat times; each letter is one
// request to the same static.Modifier (file /hist.bin of Len bytes):
//
//	u unsatisfiable range (416)   i unreadable range (416)   r reversed pair (416)
//	z zero-length suffix (416)    s single range (206)       m two ranges (206)
//	x suffix range (206)          p no Range (200)           o other unit (200)
//	n missing file (404)          d directory (404)
type HistCase struct {
	Pattern string `json:"pattern"`
	Repeat  int    `json:"repeat"`
	Len     int    `json:"len"`
	ViaJSON bool   `json:"via_json,omitempty"`
}

const histLetters = "uirzsmxpond"

// descriptorHeadroom is how many descriptors beyond those already open the
// process may use while a history runs.
const descriptorHeadroom = 40

func histRequest(letter byte, n int) (target, rng string) {
	target = "http://example.com/hist.bin"
	switch letter {
	case 'u':
		rng = fmt.Sprintf("bytes=%d-", n)
	case 'i':
		rng = "bytes=abc-def"
	case 'r':
		rng = "bytes=5-2"
	case 'z':
		rng = "bytes=-0"
	case 's':
		rng = "bytes=1-3"
	case 'm':
		rng = "bytes=0-1,4-"
	case 'x':
		rng = "bytes=-4"
	case 'o':
		rng = "items=0-3"
	case 'n':
		target = "http://example.com/no-such-file.bin"
	case 'd':
		target = "http://example.com/emptydir"
	}
	return target, rng
}

func openDescriptors() int {
	d, err := os.ReadDir("/proc/self/fd")
	if err != nil {
		return -1
	}
	return len(d) - 1 // the directory handle itself
}

func runHistory(c HistCase) kit.Verdict {
	if c.Repeat < 1 || c.Repeat*len(c.Pattern) > 4000 || len(c.Pattern) == 0 || c.Len < 8 || c.Len > 4096 {
		return nil
	}
	for i := 0; i < len(c.Pattern); i++ {
		if !strings.Contains(histLetters, c.Pattern[i:i+1]) {
			return nil
		}
	}
	treeMu.Lock()
	ft := tree
	treeMu.Unlock()
	if ft == nil {
		return kit.Failf("C20/harness/no-tree", "history case without a file tree")
	}
	who := whoLabel("static", c.ViaJSON)
	content := kit.Bytes(uint64(c.Len), c.Len)
	if err := os.WriteFile(filepath.Join(ft.root, "hist.bin"), content, 0o644); err != nil {
		return kit.Failf("C20/harness/cannot-write-case-file", "%v", err)
	}
	mod, err := newStaticModifier(ft.root, nil, c.ViaJSON)
	if err != nil {
		return kit.Failf("C20/"+who+"/json-config/rejected", "%v", err)
	}

	// settle what earlier cases left behind, then freeze the collector and
	// shrink the descriptor budget for the duration of the history
	runtime.GC()
	time.Sleep(time.Millisecond)
	runtime.GC()
	before := openDescriptors()
	if before < 0 {
		kit.Note("long-history", "/proc/self/fd unavailable: long histories not run")
		return nil
	}
	oldGC := debug.SetGCPercent(-1)
	defer debug.SetGCPercent(oldGC)
	var lim syscall.Rlimit
	if err := syscall.Getrlimit(syscall.RLIMIT_NOFILE, &lim); err != nil {
		return kit.Failf("C20/harness/getrlimit", "%v", err)
	}
	small := lim
	small.Cur = uint64(before + descriptorHeadroom)
	if small.Cur < lim.Cur {
		if err := syscall.Setrlimit(syscall.RLIMIT_NOFILE, &small); err != nil {
			return kit.Failf("C20/harness/setrlimit", "%v", err)
		}
		defer syscall.Setrlimit(syscall.RLIMIT_NOFILE, &lim)
	}

	answer := func(letter byte) kit.Verdict {
		target, rng := histRequest(letter, c.Len)
		o := observe(proxyutil.NewResponse(200, nil, newRequest(target, rng)), mod.ModifyResponse, readLimit(c.Len, rng))
		if letter == 'n' || letter == 'd' {
			if o.Panic == "" && o.Status == 404 {
				return nil
			}
			return kit.Failf("C20/"+who+"/path/status-not-404", "status %d (error %v, panic %q), want 404", o.Status, o.Err, o.Panic)
		}
		return judge(who, content, rng, o)
	}

	var v kit.Verdict
	served := 0
	fail := func(where string, letter byte, w kit.Verdict) {
		syscall.Setrlimit(syscall.RLIMIT_NOFILE, &lim) // counting needs a descriptor
		after := openDescriptors()
		target, rng := histRequest(letter, c.Len)
		v.Addf("C20/"+who+"/long-history/later-request-not-answered",
			"%s (%s, Range %q) is not answered as allowed after %d requests of the pattern %q had been answered correctly by the same static.Modifier: %s: %s [open descriptors: %d before the history, %d now; budget %d]",
			where, target, rng, served, c.Pattern, w[0].Sig, w[0].Msg, before, after, before+descriptorHeadroom)
	}
history:
	for rep := 0; rep < c.Repeat; rep++ {
		for i := 0; i < len(c.Pattern); i++ {
			if w := answer(c.Pattern[i]); len(w) > 0 {
				if served == 0 {
					return w // wrong from the start: an ordinary failure, reported as such
				}
				fail(fmt.Sprintf("request %d of the history", served), c.Pattern[i], w)
				break history
			}
			served++
		}
	}
	if len(v) == 0 {
		for _, probe := range []byte("psu") {
			if w := answer(probe); len(w) > 0 {
				fail("the probe after the history", probe, w)
				break
			}
		}
	}
	return v
}

var histRule = "ONE static.Modifier (constructor- or JSON-built) answers a history of 60..480 requests (every kind in it at least 60 times), a pattern of 1..4 kinds (unsatisfiable / unreadable / reversed / zero-suffix 416s, single / multi / suffix 206s, plain and other-unit 200s, missing-file and directory 404s) repeated, with the process limited to 40 descriptors beyond those already open and the garbage collector paused; every answer of the history and three ordinary probes afterwards (no Range, single range, unsatisfiable range) are judged like 'range'; non-trivial = the pattern contains a kind answered 416 or 206"

func nonTrivialHist(c HistCase) bool { return strings.ContainsAny(c.Pattern, "uirzsmx") }

func classesHist(c HistCase) []string {
	var cl []string
	if strings.ContainsAny(c.Pattern, "uirz") {
		cl = append(cl, "has-416-answers")
	}
	if strings.ContainsAny(c.Pattern, "smx") {
		cl = append(cl, "has-206-answers")
	}
	if strings.ContainsAny(c.Pattern, "nd") {
		cl = append(cl, "has-404-answers")
	}
	if strings.ContainsAny(c.Pattern, "po") {
		cl = append(cl, "has-200-answers")
	}
	if c.ViaJSON {
		cl = append(cl, "built-from-json-config")
	}
	return cl
}

var propHistory = &kit.Prop[HistCase]{
	ID: "C20", Name: "long-history", Rule: "rapid: " + histRule,
	Run: runHistory, NonTrivial: nonTrivialHist, Classes: classesHist,
	Gen: func(t *rapid.T) HistCase {
		n := rapid.IntRange(1, 4).Draw(t, "kinds")
		var sb strings.Builder
		for i := 0; i < n; i++ {
			sb.WriteByte(histLetters[rapid.IntRange(0, len(histLetters)-1).Draw(t, "kind")])
		}
		return HistCase{Pattern: sb.String(), Repeat: rapid.IntRange(60, 120).Draw(t, "repeat"),
			Len: rapid.IntRange(8, 600).Draw(t, "len"), ViaJSON: rapid.IntRange(0, 3).Draw(t, "via_json") == 2}
	},
}

var propHistoryEach = &kit.Prop[HistCase]{
	ID: "C20", Name: "long-history-each-kind", Rule: "EVERY single request kind repeated 120 times, and every ordered pair of kinds 60 times; " + histRule,
	Run: runHistory, NonTrivial: nonTrivialHist, Classes: classesHist,
}

func TestLongHistory(t *testing.T) {
	if kit.Race() {
		t.Skip("sequential, in-process: nothing for the race detector")
	}
	getTree(t)
	propHistoryEach.Enumerate(t, func(yield func(HistCase) bool) {
		for i := 0; i < len(histLetters); i++ {
			if !yield(HistCase{Pattern: histLetters[i : i+1], Repeat: 120, Len: 64, ViaJSON: i%3 == 2}) {
				return
			}
		}
		for i := 0; i < len(histLetters); i++ {
			for j := 0; j < len(histLetters); j++ {
				if i != j && !yield(HistCase{Pattern: histLetters[i:i+1] + histLetters[j:j+1], Repeat: 60, Len: 64}) {
					return
				}
			}
		}
	})
	propHistory.Check(t, kit.N(20, 100))
}
