// Package c06 decides property C06: the certificates forged by mitm.Config
// verify for the host the client named, under the configured CA, at the time
// of the handshake; cached certificates are reused only while valid;
// concurrent requesters never get another name's certificate; no name at all
// means refusal.
//
// A case is a history (a list of operations, plain data) executed against ONE
// fresh mitm.Config. The CA is generated once per process; the per-Config RSA
// key generation inside mitm.NewConfig is the dominant cost of a case.
package c06

import (
	"bufio"
	"crypto"
	"crypto/ecdsa"
	"crypto/elliptic"
	"crypto/rand"
	"crypto/tls"
	"crypto/x509"
	"crypto/x509/pkix"
	"errors"
	"fmt"
	"io"
	"math/big"
	"net"
	"net/http"
	"os"
	"strings"
	"sync"
	"sync/atomic"
	"testing"
	"time"

	"github.com/google/martian/v3"
	"github.com/google/martian/v3/h2"
	"github.com/google/martian/v3/mitm"

	"verifharness/internal/kit"
	"verifharness/internal/netkit"
)

func TestMain(m *testing.M) { kit.Main(m, "C06") }

// ---------------------------------------------------------------- case data

// Host is one spelling of a host a client may name.
type Host struct {
	Spelling string `json:"spelling"`       // the CONNECT authority handed to TLSForHost
	Name     string `json:"name"`           // what the client names: no port, no brackets
	Class    string `json:"class"`          // dns-lower | dns-mixed | ipv4 | ipv6 | ipv6-bracketed ([v6] without a port) | odd
	Port     bool   `json:"port,omitempty"` // Spelling carries a port
	Canon    string `json:"canon"`          // identity of the named host (lower-case DNS name / unmapped IP)
}

// Worker is one goroutine of a concurrent operation.
type Worker struct {
	Host int    `json:"host"`
	Sni  string `json:"sni,omitempty"`
	Hs   bool   `json:"hs,omitempty"`   // real handshake instead of a direct GetCertificate call
	Reps int    `json:"reps,omitempty"` // number of back-to-back requests (direct only)
	// Fresh: after the repetitions, this many rounds of "request a name nobody
	// asked for before this burst (SNI f<j>.s<step>.fresh.test, the same
	// sequence for every worker), then the own name, then the new name again"
	Fresh int `json:"fresh,omitempty"`
	// Gap (tunnels only): stay idle between the proxy's 200 and the ClientHello
	// for the configured validity plus 300 ms
	Gap bool `json:"gap,omitempty"`
}

// Op is one step of a history.
//
//	get    GetCertificate of the tls.Config with a ClientHelloInfo carrying Sni
//	hs     the same through a real tls.Server / tls.Client pair over net.Pipe
//	expire sleep until every certificate seen so far is past its NotAfter
//	conc   Workers run simultaneously behind a start barrier
//	prep   build the tls.Config for Host (TLSForHost / TLS()) now and keep it;
//	       a later get/hs with Held uses that object instead of a new one - what
//	       a server does that sets its TLS side up before the client speaks
//	sweep  Count distinct names (SNI) through TLSForHost(Host), one after the
//	       other, then all again in another order: the long-history class
//	tunnels Workers each open a CONNECT tunnel through a real martian.Proxy
//	       that uses the Config for MITM, optionally idle (Gap), then handshake
//
// Host indexes Case.Hosts (the CONNECT authority, used when Sni is empty);
// Host -1 is the empty fallback "", Host -2 the host-less fallback ":443",
// Host -3 / -4 authorities no certificate can be issued for (raw UTF-8 IDN,
// non-UTF-8 byte). An Sni with non-ASCII bytes is such a name as well: for
// these the outcome is free (refusal expected), but the request must return
// and the config must go on serving the NEXT requests.
// API "tls" uses Config.TLS() (no fallback at all) instead of TLSForHost.
type Op struct {
	Kind    string   `json:"k"`
	API     string   `json:"api,omitempty"`
	Host    int      `json:"host"`
	Sni     string   `json:"sni,omitempty"`
	TLS12   bool     `json:"tls12,omitempty"`     // hs: client caps the version at TLS 1.2
	Client  string   `json:"client,omitempty"`    // hs: capability profile of the client (clientProfiles); "" = crypto/tls defaults
	TCP     bool     `json:"tcp,omitempty"`       // hs: real loopback TCP sockets (a listener's connection) instead of net.Pipe
	Before  int      `json:"before_ms,omitempty"` // expire: stop this many ms BEFORE the last NotAfter instead of after it
	Std     bool     `json:"std,omitempty"`       // hs: the client itself verifies (RootCAs + ServerName), as a browser would
	Held    bool     `json:"held,omitempty"`      // get/hs: use the tls.Config kept by an earlier prep of the same API/Host
	Count   int      `json:"count,omitempty"`     // sweep: number of distinct names
	Tag     int      `json:"tag,omitempty"`       // sweep: names are h<k>.sweep<Tag>.test, so two sweeps with one Tag share them
	Workers []Worker `json:"workers,omitempty"`
}

// Case is a history against one mitm.Config.
type Case struct {
	Org   string `json:"org"`
	CA    string `json:"ca,omitempty"`    // "" = RSA authority from mitm.NewAuthority, "ecdsa" = P-256 authority
	Short bool   `json:"short,omitempty"` // validity 2 s instead of the default hour
	// H2: HTTP/2 configuration of the Config. "" none, "all" an h2.Config whose
	// AllowedHostsFilter accepts every authority, "even" one that accepts the
	// authorities of even length. It changes the ALPN list TLSForHost
	// announces; the certificate obligations are the same.
	H2 string `json:"h2,omitempty"`
	// ValidityMs, when set, is the validity handed to SetValidity: up to 10 s it
	// behaves like Short (expiry can be crossed), above it is just configured -
	// up to 292 years, the largest time.Duration
	ValidityMs int    `json:"validity_ms,omitempty"`
	Hosts      []Host `json:"hosts"`
	Ops        []Op   `json:"ops"`
}

const shortValidity = 2 * time.Second

// validity is what SetValidity gets; 0 = leave the default hour.
func (c Case) validity() time.Duration {
	if c.ValidityMs > 0 {
		return time.Duration(c.ValidityMs) * time.Millisecond
	}
	if c.Short {
		return shortValidity
	}
	return 0
}

// short: a validity the history can wait out (expire steps, idle tunnels).
// ValidityMs also carries the very long validities (years): those are set, but
// never waited for.
func (c Case) short() bool { return c.validity() > 0 && c.validity() <= 10*time.Second }

// fixed decoys: no generated host ever has one of these identities.
var fixedDecoys = []string{"c06-decoy.invalid", "192.0.2.77", "2001:db8::77"}

// ---------------------------------------------------------------- authority (once per process)

// ca is one configured authority. "rsa" comes from mitm.NewAuthority; "ecdsa"
// is a P-256 CA built here (mitm.NewConfig takes any CA certificate and
// signer) - its signatures cost microseconds instead of a millisecond, which
// is what lets the concurrent check push thousands of issuances per burst.
type ca struct {
	cert *x509.Certificate
	key  crypto.PrivateKey
	pool *x509.CertPool
}

var (
	authOnce sync.Once
	auths    = map[string]*ca{}
	authErr  error
)

func authority(kind string) (*ca, error) {
	authOnce.Do(func() {
		c, priv, err := mitm.NewAuthority("c06.martian.proxy", "C06 Authority", 24*time.Hour)
		if err != nil {
			authErr = err
			return
		}
		auths["rsa"] = &ca{cert: c, key: priv, pool: x509.NewCertPool()}
		auths["rsa"].pool.AddCert(c)

		ek, err := ecdsa.GenerateKey(elliptic.P256(), rand.Reader)
		if err != nil {
			authErr = err
			return
		}
		tmpl := &x509.Certificate{
			SerialNumber:          big.NewInt(0xC06),
			Subject:               pkix.Name{CommonName: "c06-ecdsa.martian.proxy", Organization: []string{"C06 ECDSA Authority"}},
			KeyUsage:              x509.KeyUsageDigitalSignature | x509.KeyUsageCertSign,
			ExtKeyUsage:           []x509.ExtKeyUsage{x509.ExtKeyUsageServerAuth},
			BasicConstraintsValid: true,
			IsCA:                  true,
			NotBefore:             time.Now().Add(-24 * time.Hour),
			NotAfter:              time.Now().Add(24 * time.Hour),
		}
		raw, err := x509.CreateCertificate(rand.Reader, tmpl, tmpl, ek.Public(), ek)
		if err != nil {
			authErr = err
			return
		}
		ec, err := x509.ParseCertificate(raw)
		if err != nil {
			authErr = err
			return
		}
		auths["ecdsa"] = &ca{cert: ec, key: ek, pool: x509.NewCertPool()}
		auths["ecdsa"].pool.AddCert(ec)
	})
	if authErr != nil {
		return nil, authErr
	}
	if kind == "ecdsa" {
		return auths["ecdsa"], nil
	}
	return auths["rsa"], nil
}

// ---------------------------------------------------------------- naming helpers

func dnsClass(name string) string {
	if name != strings.ToLower(name) {
		return "dns-mixed"
	}
	return "dns-lower"
}

// expectation of one request: the name the certificate must verify for, or
// refusal.
type expectation struct {
	refuse bool
	// lenient: the name is outside the statement's spellings (raw UTF-8,
	// bytes that are not UTF-8): refusal and issuance are both acceptable, the
	// request only has to come back
	lenient bool
	name    string // host to verify for
	canon   string
	shape   string // signature component: api, sni presence, spelling class
	key     string // identity used for "requested before" bookkeeping (the name exactly as spelled)
}

func expect(hosts []Host, api string, host int, sni string) expectation {
	a := "forhost"
	if api == "tls" {
		a = "tls"
	}
	if sni != "" {
		if !plainASCII(sni) {
			return expectation{lenient: true, name: sni, canon: strings.ToLower(sni), shape: a + "-sni-non-ascii", key: sni}
		}
		return expectation{name: sni, canon: strings.ToLower(sni), shape: a + "-sni-" + dnsClass(sni), key: sni}
	}
	if api == "tls" {
		return expectation{refuse: true, shape: "tls-nosni"}
	}
	switch {
	case host == -1:
		return expectation{refuse: true, shape: "forhost-nosni-empty-fallback"}
	case host == -2:
		return expectation{refuse: true, shape: "forhost-nosni-port-only-fallback"}
	case host == oddUTF8 || host == oddBytes:
		n := fallbackSpelling(hosts, host)
		return expectation{lenient: true, name: n, canon: n, shape: "forhost-nosni-non-ascii-authority", key: n}
	case host < 0 || host >= len(hosts):
		return expectation{refuse: true, shape: "forhost-nosni-bad-index"}
	}
	h := hosts[host]
	if h.Class == "odd" {
		return expectation{lenient: true, name: h.Name, canon: h.Canon, shape: "forhost-nosni-non-ascii-authority", key: h.Name}
	}
	s := a + "-nosni-" + h.Class
	if h.Port {
		s += "-port"
	}
	return expectation{name: h.Name, canon: h.Canon, shape: s, key: h.Name}
}

// Host indexes below -2: CONNECT authorities for which no certificate can be
// issued (x509 refuses a dNSName that is not ASCII / a subject that is not UTF-8).
const (
	oddUTF8  = -3 // an IDN sent as raw UTF-8 instead of its xn-- form
	oddBytes = -4 // a byte that is not UTF-8 at all (kept out of the JSON case for that reason)
)

func plainASCII(s string) bool {
	for i := 0; i < len(s); i++ {
		if s[i] >= 0x80 {
			return false
		}
	}
	return true
}

func fallbackSpelling(hosts []Host, host int) string {
	switch {
	case host == oddUTF8:
		return "b\u00fccher.example:443"
	case host == oddBytes:
		return "a\xffb.example:443"
	case host == -2:
		return ":443"
	case host < 0 || host >= len(hosts):
		return ""
	}
	return hosts[host].Spelling
}

// ---------------------------------------------------------------- executor

type exec struct {
	check  string
	c      Case
	cfg    *mitm.Config
	ca     *ca
	v      kit.Verdict
	seen   map[string]bool
	decoys []Host // every identity that appears in the case, plus the fixed ones

	mu          sync.Mutex
	maxNotAfter time.Time

	wedged   atomic.Bool            // a request did not come back: the rest of the history is not run
	held     map[string]*tls.Config // prep'd configurations, by API/Host
	lastPrep time.Time
	proxy    *netkit.Proxy // started by the first tunnels step

	// (certificate object, name) pairs already judged in full; only used for
	// the results of a burst, which hand the same object back thousands of times
	judged map[judgedKey]bool
}

type judgedKey struct {
	cert *tls.Certificate
	name string
}

func (x *exec) fail(sig, format string, args ...interface{}) {
	x.mu.Lock()
	defer x.mu.Unlock()
	if x.seen[sig] {
		return
	}
	x.seen[sig] = true
	x.v.Addf(sig, format, args...)
}

// panicSeen: GetCertificate has panicked (and was recovered) somewhere in this process.
var panicSeen atomic.Bool

func heldKey(api string, host int) string { return fmt.Sprintf("%s/%d", api, host) }

func (x *exec) serverConfig(api string, host int, held bool) *tls.Config {
	if held {
		if cfg := x.held[heldKey(api, host)]; cfg != nil {
			return cfg
		}
	}
	var cfg *tls.Config
	if api == "tls" {
		cfg = x.cfg.TLS()
	} else {
		cfg = x.cfg.TLSForHost(fallbackSpelling(x.c.Hosts, host))
	}
	// A panic below GetCertificate would otherwise take the process down from
	// inside the tls.Server goroutine; it is a failure of this request.
	inner := cfg.GetCertificate
	cfg.GetCertificate = func(chi *tls.ClientHelloInfo) (cert *tls.Certificate, err error) {
		defer func() {
			if r := recover(); r != nil {
				panicSeen.Store(true)
				x.fail("C06/panic/get-certificate", "GetCertificate(%s, SNI %q) panicked: %v", describeReq(x.c.Hosts, api, host, chi.ServerName), chi.ServerName, r)
				cert, err = nil, fmt.Errorf("panic: %v", r)
			}
		}()
		return inner(chi)
	}
	return cfg
}

// await runs f and waits for it: kit.T(), then (unless rapid is shrinking) once
// more up to 3*kit.T(). ok=false means f is still running - a request that
// never came back; the goroutine is abandoned.
func (x *exec) await(f func()) (ok bool) {
	done := make(chan struct{})
	go func() {
		defer close(done)
		f()
	}()
	select {
	case <-done:
		return true
	case <-time.After(kit.T()):
	}
	if kit.Shrinking() {
		return false
	}
	select {
	case <-done:
		kit.Inconclusive(x.check)
		return true
	case <-time.After(3 * kit.T()):
		return false
	}
}

func describeReq(hosts []Host, api string, host int, sni string) string {
	if api == "tls" {
		return fmt.Sprintf("Config.TLS() with SNI %q", sni)
	}
	return fmt.Sprintf("TLSForHost(%q) with SNI %q", fallbackSpelling(hosts, host), sni)
}

// checkChain applies the oracle to a presented chain. [t0,t1] brackets the
// request: the certificate must be inside its validity window at some instant
// of that interval (the statement's "at the time of the handshake"; asserting
// a single instant would make a correct cache hit near NotAfter look wrong).
func (x *exec) checkChain(where string, e expectation, chain [][]byte, t0, t1 time.Time) *x509.Certificate {
	if len(chain) == 0 {
		x.fail("C06/verify/"+e.shape+"/no-certificate", "%s: no certificate presented", where)
		return nil
	}
	leaf, err := x509.ParseCertificate(chain[0])
	if err != nil {
		x.fail("C06/verify/"+e.shape+"/unparseable-leaf", "%s: leaf does not parse: %v", where, err)
		return nil
	}
	x.mu.Lock()
	if leaf.NotAfter.After(x.maxNotAfter) {
		x.maxNotAfter = leaf.NotAfter
	}
	x.mu.Unlock()
	inter := x509.NewCertPool()
	for _, der := range chain[1:] {
		if ic, err := x509.ParseCertificate(der); err == nil {
			inter.AddCert(ic)
		}
	}
	tv := t0
	if tv.Before(leaf.NotBefore) {
		tv = leaf.NotBefore
		if tv.After(t1) {
			tv = t1
		}
	}
	_, err = leaf.Verify(x509.VerifyOptions{DNSName: e.name, Roots: x.ca.pool, Intermediates: inter, CurrentTime: tv})
	if err != nil {
		class := "verify-error"
		var he x509.HostnameError
		var ie x509.CertificateInvalidError
		var ue x509.UnknownAuthorityError
		switch {
		case errors.As(err, &he):
			class = "not-valid-for-host"
		case errors.As(err, &ie) && ie.Reason == x509.Expired:
			class = "outside-validity-window"
		case errors.As(err, &ue):
			class = "not-chained-to-ca"
		}
		x.fail("C06/verify/"+e.shape+"/"+class,
			"%s: certificate (CN=%q DNS=%q IP=%v, valid %s .. %s) does not verify for %q under the CA at %s (request spanned %s .. %s): %v",
			where, leaf.Subject.CommonName, leaf.DNSNames, leaf.IPAddresses, leaf.NotBefore.Format(time.RFC3339), leaf.NotAfter.Format(time.RFC3339),
			e.name, tv.Format(time.RFC3339Nano), t0.Format(time.RFC3339Nano), t1.Format(time.RFC3339Nano), err)
	}
	if err == nil && leaf.NotAfter.Before(t1) {
		// tolerated by the oracle above (valid when the request began); see the
		// report, round 6, for why the statement is read that way
		kit.Note(x.check, "some requests were served a leaf that expired before the request/handshake had ended (it was valid when it began)")
	}
	if len(leaf.Subject.Organization) != 1 || leaf.Subject.Organization[0] != x.c.Org {
		x.fail("C06/organization/"+e.shape+"/wrong-organization", "%s: leaf organization %q, configured %q", where, leaf.Subject.Organization, x.c.Org)
	}
	// "valid for exactly that host": not for any other identity of the case.
	decoys := x.decoys
	if !isIPName(e.name) {
		// a peer under the same parent (what a wildcard SAN would also cover)
		// and a child of the name itself
		if i := strings.IndexByte(e.name, '.'); i >= 0 {
			peer := "c06-peer" + e.name[i:]
			decoys = append(decoys[:len(decoys):len(decoys)], Host{Name: peer, Canon: strings.ToLower(peer)})
		}
		if len(e.name) < 240 {
			decoys = append(decoys[:len(decoys):len(decoys)], Host{Name: "c06-child." + e.name, Canon: "c06-child." + e.canon})
		}
	}
	for _, d := range decoys {
		if d.Canon == e.canon {
			continue
		}
		if leaf.VerifyHostname(d.Name) == nil {
			x.fail("C06/exact-host/"+e.shape+"/valid-for-other-host", "%s: certificate requested for %q (CN=%q DNS=%q IP=%v) also verifies for the different host %q",
				where, e.name, leaf.Subject.CommonName, leaf.DNSNames, leaf.IPAddresses, d.Name)
			break
		}
	}
	return leaf
}

type publicKey interface{ Equal(x crypto.PublicKey) bool }

// get performs one direct GetCertificate call and applies the oracle.
// result is one direct GetCertificate call, judged later (concurrent workers
// first collect, so that the request rate is not throttled by verification).
type result struct {
	where  string
	e      expectation
	cert   *tls.Certificate
	err    error
	t0, t1 time.Time
	hang   bool // GetCertificate did not return within the liveness bound
}

func (x *exec) request(where string, api string, host int, sni string, held bool) result {
	r := result{e: expect(x.c.Hosts, api, host, sni), where: where + " " + describeReq(x.c.Hosts, api, host, sni)}
	if held && x.held[heldKey(api, host)] != nil {
		r.where += " (tls.Config built at an earlier step)"
		if !r.e.refuse {
			r.e.shape += "-held-config"
		}
	}
	scfg := x.serverConfig(api, host, held)
	r.t0 = time.Now()
	var (
		cert *tls.Certificate
		err  error
	)
	if x.await(func() { cert, err = scfg.GetCertificate(&tls.ClientHelloInfo{ServerName: sni}) }) {
		r.cert, r.err = cert, err
	} else {
		r.hang = true
	}
	r.t1 = time.Now()
	return r
}

// requestInBurst is request without the per-call watchdog (the burst as a
// whole is watched for progress instead, so the call rate stays high).
func (x *exec) requestInBurst(where string, host int, sni string) result {
	r := result{e: expect(x.c.Hosts, "", host, sni), where: where + " " + describeReq(x.c.Hosts, "", host, sni)}
	scfg := x.serverConfig("", host, false)
	r.t0 = time.Now()
	r.cert, r.err = scfg.GetCertificate(&tls.ClientHelloInfo{ServerName: sni})
	r.t1 = time.Now()
	return r
}

// judge applies the oracle to one direct request.
func (x *exec) judge(r result) {
	e, where, cert, err := r.e, r.where, r.cert, r.err
	if r.hang {
		x.wedged.Store(true)
		x.fail("C06/liveness/"+e.shape+"/get-certificate-does-not-return", "%s: GetCertificate has not returned after %s", where, r.t1.Sub(r.t0).Round(time.Millisecond))
		return
	}
	if e.lenient {
		return // refused or served: both fine for a name outside the stated spellings
	}
	if e.refuse {
		if err == nil && cert != nil {
			cn := "?"
			if l, perr := x509.ParseCertificate(cert.Certificate[0]); perr == nil {
				cn = fmt.Sprintf("CN=%q DNS=%q IP=%v", l.Subject.CommonName, l.DNSNames, l.IPAddresses)
			}
			x.fail("C06/no-name/"+e.shape+"/answered-with-certificate", "%s: no host name is available, yet a certificate was issued (%s)", where, cn)
		}
		return
	}
	if err != nil || cert == nil {
		x.fail("C06/verify/"+e.shape+"/get-certificate-error", "%s: GetCertificate failed: %v", where, err)
		return
	}
	leaf := x.checkChain(where, e, cert.Certificate, r.t0, r.t1)
	if leaf == nil {
		return
	}
	signer, ok := cert.PrivateKey.(crypto.Signer)
	if !ok {
		x.fail("C06/key/"+e.shape+"/no-usable-private-key", "%s: tls.Certificate.PrivateKey is %T, not a signer", where, cert.PrivateKey)
		return
	}
	if pk, ok := leaf.PublicKey.(publicKey); !ok || !pk.Equal(signer.Public()) {
		x.fail("C06/key/"+e.shape+"/private-key-does-not-match-leaf", "%s: the private key returned with the certificate is not the one certified", where)
	}
}

func (x *exec) get(where string, api string, host int, sni string, held bool) {
	x.judge(x.request(where, api, host, sni, held))
}

// judgeBurst is judge with the full verification done once per (certificate
// object, name); a repeated pair only has its validity window compared with
// the request interval.
func (x *exec) judgeBurst(r result) {
	if r.e.refuse || r.err != nil || r.cert == nil || r.cert.Leaf == nil {
		x.judge(r)
		return
	}
	k := judgedKey{r.cert, r.e.name}
	if !x.judged[k] {
		x.judged[k] = true
		x.judge(r)
		return
	}
	if l := r.cert.Leaf; l.NotAfter.Before(r.t0) || l.NotBefore.After(r.t1) {
		x.fail("C06/verify/"+r.e.shape+"/outside-validity-window", "%s: certificate valid %s .. %s handed out for a request spanning %s .. %s",
			r.where, l.NotBefore.Format(time.RFC3339), l.NotAfter.Format(time.RFC3339), r.t0.Format(time.RFC3339Nano), r.t1.Format(time.RFC3339Nano))
	}
}

type hsOut struct {
	cerr, serr error
	raw        [][]byte
	echoed     bool
	t0, t1     time.Time
	timeout    bool
	stuck      bool
}

func isTimeout(err error) bool {
	if err == nil {
		return false
	}
	if errors.Is(err, os.ErrDeadlineExceeded) {
		return true
	}
	var ne net.Error
	return errors.As(err, &ne) && ne.Timeout()
}

// handshakeOnce runs a real TLS handshake over an in-memory pipe, followed by
// one application byte from server to client. Both ends carry a deadline.
// tcpPair is a connected pair of real TCP sockets on the loopback (what a
// listener hands to tls.Server: the connection has addresses, unlike a pipe).
func tcpPair(bound time.Duration) (client, server net.Conn, err error) {
	l, err := netkit.Listen()
	if err != nil {
		return nil, nil, err
	}
	defer l.Close()
	type acc struct {
		c   net.Conn
		err error
	}
	ch := make(chan acc, 1)
	go func() {
		c, err := l.Accept()
		ch <- acc{c, err}
	}()
	client, err = net.DialTimeout("tcp", l.Addr().String(), bound)
	if err != nil {
		return nil, nil, err
	}
	select {
	case a := <-ch:
		if a.err != nil {
			client.Close()
			return nil, nil, a.err
		}
		return client, a.c, nil
	case <-time.After(bound):
		client.Close()
		return nil, nil, errors.New("accept did not return")
	}
}

func handshakeOnce(scfg, ccfg *tls.Config, bound time.Duration, tcp bool) hsOut {
	cp, sp := net.Pipe()
	if tcp {
		c, s, err := tcpPair(bound)
		if err != nil {
			return hsOut{cerr: fmt.Errorf("harness: no loopback connection: %w", err), serr: err, timeout: true}
		}
		cp, sp = c, s
	}
	dl := time.Now().Add(bound)
	cp.SetDeadline(dl)
	sp.SetDeadline(dl)
	var out hsOut
	ccfg.VerifyPeerCertificate = func(rawCerts [][]byte, _ [][]*x509.Certificate) error {
		for _, r := range rawCerts {
			out.raw = append(out.raw, append([]byte(nil), r...))
		}
		return nil
	}
	out.t0 = time.Now()
	done := make(chan error, 1)
	go func() {
		srv := tls.Server(sp, scfg)
		err := srv.Handshake()
		if err == nil {
			_, err = srv.Write([]byte{'k'})
		}
		sp.Close()
		done <- err
	}()
	cli := tls.Client(cp, ccfg)
	out.cerr = cli.Handshake()
	if out.cerr == nil {
		var b [1]byte
		if _, err := io.ReadFull(cli, b[:]); err != nil {
			out.cerr = fmt.Errorf("reading the first application byte: %w", err)
		} else {
			out.echoed = b[0] == 'k'
		}
	}
	cp.Close()
	// the server side ends with the pipe - unless it is stuck below
	// GetCertificate, where no deadline reaches it
	grace := time.Until(dl) + time.Second
	if grace < time.Second {
		grace = time.Second
	}
	select {
	case out.serr = <-done:
	case <-time.After(grace):
		out.serr = errors.New("server side of the handshake still has not returned (stuck outside I/O)")
		out.stuck = true
	}
	out.t1 = time.Now()
	out.timeout = out.stuck || isTimeout(out.cerr) || isTimeout(out.serr)
	return out
}

// clientProfiles: what the client of a handshake is able to do. Every profile
// can use an RSA leaf (the only kind of key the proxy holds); none of them is
// owed more than the statement says - the handshake completes.
var clientProfiles = map[string]func(*tls.Config){
	"rsa12": func(c *tls.Config) { // TLS 1.2 at most, ECDHE-RSA suites only: cannot use an ECDSA leaf
		c.MaxVersion = tls.VersionTLS12
		c.CipherSuites = []uint16{tls.TLS_ECDHE_RSA_WITH_AES_128_GCM_SHA256, tls.TLS_ECDHE_RSA_WITH_AES_256_GCM_SHA384}
	},
	"rsa12-chacha": func(c *tls.Config) {
		c.MaxVersion = tls.VersionTLS12
		c.CipherSuites = []uint16{tls.TLS_ECDHE_RSA_WITH_CHACHA20_POLY1305_SHA256}
	},
	"rsa12-cbc": func(c *tls.Config) {
		c.MaxVersion = tls.VersionTLS12
		c.CipherSuites = []uint16{tls.TLS_ECDHE_RSA_WITH_AES_128_CBC_SHA, tls.TLS_ECDHE_RSA_WITH_AES_256_CBC_SHA}
	},
	"tls13":  func(c *tls.Config) { c.MinVersion = tls.VersionTLS13 },
	"x25519": func(c *tls.Config) { c.CurvePreferences = []tls.CurveID{tls.X25519} },
	"p384-12": func(c *tls.Config) {
		c.MaxVersion = tls.VersionTLS12
		c.CurvePreferences = []tls.CurveID{tls.CurveP384}
	},
	"p256": func(c *tls.Config) { c.CurvePreferences = []tls.CurveID{tls.CurveP256} },
}

var clientProfileNames = []string{"rsa12", "rsa12-chacha", "rsa12-cbc", "tls13", "x25519", "p384-12", "p256"}

func (x *exec) clientConfig(e expectation, sni string, tls12, std bool, client string) *tls.Config {
	f := clientProfiles[client]
	cc := x.clientConfigBase(e, sni, tls12 && f == nil, std) // a profile sets its own versions
	if f != nil {
		f(cc)
	}
	return cc
}

func (x *exec) clientConfigBase(e expectation, sni string, tls12, std bool) *tls.Config {
	cc := &tls.Config{ServerName: sni, InsecureSkipVerify: true}
	if std && !e.refuse {
		// ServerName doubles as the name to verify; Go sends it as SNI only
		// when it is not an IP literal, so std is only drawn where that
		// coincides with the op (SNI == name, or IP host without SNI).
		cc = &tls.Config{ServerName: e.name, RootCAs: x.ca.pool}
	}
	if tls12 {
		cc.MaxVersion = tls.VersionTLS12
	}
	return cc
}

// hs performs one real handshake and applies the oracle.
func (x *exec) hs(where string, api string, host int, sni string, tls12, std, held bool) {
	x.hsOver(where, api, host, sni, tls12, std, held, false, "")
}

// hsOver: tcp selects real loopback sockets instead of the in-memory pipe.
func (x *exec) hsOver(where string, api string, host int, sni string, tls12, std, held, tcp bool, client string) {
	e := expect(x.c.Hosts, api, host, sni)
	where = where + " handshake against " + describeReq(x.c.Hosts, api, host, sni)
	if tcp {
		where += " over TCP loopback"
	}
	if client != "" {
		where += " by a client limited to profile " + client
	}
	if held && x.held[heldKey(api, host)] != nil {
		where += " (tls.Config built at an earlier step)"
		if !e.refuse {
			e.shape += "-held-config"
		}
	}
	if std && (x.c.short() || e.refuse || (sni == "" && !isIPName(e.name))) {
		// not expressible with the standard client (it cannot verify a DNS
		// name without sending it as SNI; with a 2 s validity its own clock
		// reading would race the window): fall back to the manual oracle
		std = false
	}
	run := func(bound time.Duration) hsOut {
		return handshakeOnce(x.serverConfig(api, host, held), x.clientConfig(e, sni, tls12, std, client), bound, tcp)
	}
	out := run(kit.T())
	if out.timeout {
		again, bound := out, kit.T()
		if !kit.Shrinking() {
			again, bound = run(3*kit.T()), 3*kit.T()
		}
		if !again.timeout {
			kit.Inconclusive(x.check)
			out = again
		} else {
			x.wedged.Store(true)
			x.fail("C06/liveness/"+e.shape+"/handshake-timeout", "%s: handshake did not finish within %s (client: %v, server: %v)", where, bound, again.cerr, again.serr)
			return
		}
	}
	if e.lenient {
		return // refused or served: both fine for a name outside the stated spellings
	}
	if e.refuse {
		if len(out.raw) > 0 {
			cn := "?"
			if l, perr := x509.ParseCertificate(out.raw[0]); perr == nil {
				cn = fmt.Sprintf("CN=%q DNS=%q IP=%v", l.Subject.CommonName, l.DNSNames, l.IPAddresses)
			}
			x.fail("C06/no-name/"+e.shape+"/answered-with-certificate", "%s: no host name is available, yet the handshake was answered with a certificate (%s; client err %v)", where, cn, out.cerr)
		} else if out.cerr == nil {
			x.fail("C06/no-name/"+e.shape+"/handshake-completed", "%s: no host name is available, yet the handshake completed", where)
		}
		return
	}
	if out.cerr != nil || out.serr != nil || !out.echoed {
		clause, class := "handshake", "failed"
		if std && out.cerr != nil && len(out.raw) == 0 {
			// the verifying client turned the certificate down: same classes as
			// the manual oracle, so one defect has one signature
			var cve *tls.CertificateVerificationError
			if errors.As(out.cerr, &cve) {
				class = "client-verification-failed"
			}
			var he x509.HostnameError
			var ie x509.CertificateInvalidError
			var ue x509.UnknownAuthorityError
			switch {
			case errors.As(out.cerr, &he):
				clause, class = "verify", "not-valid-for-host"
			case errors.As(out.cerr, &ie) && ie.Reason == x509.Expired:
				clause, class = "verify", "outside-validity-window"
			case errors.As(out.cerr, &ue):
				clause, class = "verify", "not-chained-to-ca"
			}
		}
		x.fail("C06/"+clause+"/"+e.shape+"/"+class, "%s (tls12=%v, client verifies itself=%v): client: %v, server: %v, application byte received: %v", where, tls12, std, out.cerr, out.serr, out.echoed)
		if len(out.raw) == 0 {
			return
		}
	}
	x.checkChain(where, e, out.raw, out.t0, out.t1)
}

func isIPName(s string) bool { return net.ParseIP(s) != nil }

func (x *exec) step(i int, op Op) {
	where := fmt.Sprintf("step %d", i)
	if x.wedged.Load() {
		return
	}
	switch op.Kind {
	case "get":
		x.get(where, op.API, op.Host, op.Sni, op.Held)
	case "hs":
		x.hsOver(where, op.API, op.Host, op.Sni, op.TLS12, op.Std, op.Held, op.TCP, op.Client)
	case "prep":
		x.held[heldKey(op.API, op.Host)] = x.serverConfig(op.API, op.Host, false)
		x.lastPrep = time.Now()
	case "tunnels":
		x.tunnels(where, op)
	case "expire":
		x.mu.Lock()
		until := x.maxNotAfter
		x.mu.Unlock()
		if !x.c.short() {
			return
		}
		// whatever a prep may have issued out of sight expires no later than this
		if !x.lastPrep.IsZero() && x.lastPrep.Add(x.c.validity()).After(until) {
			until = x.lastPrep.Add(x.c.validity())
		}
		if until.IsZero() {
			return
		}
		target := until.Add(30 * time.Millisecond)
		if op.Before > 0 {
			// the leaves are about to expire, not expired: whatever is served
			// now has about Before ms left
			target = until.Add(-time.Duration(op.Before) * time.Millisecond)
		}
		// NotAfter has whole-second precision and is inclusive.
		if d := time.Until(target); d > 0 {
			if d > 2*x.c.validity() {
				d = 2 * x.c.validity()
			}
			time.Sleep(d)
		}
	case "conc":
		start := make(chan struct{})
		var wg sync.WaitGroup
		var progress atomic.Int64
		results := make([][]result, len(op.Workers))
		for w, wk := range op.Workers {
			wg.Add(1)
			go func(w int, wk Worker) {
				defer wg.Done()
				defer func() {
					if r := recover(); r != nil {
						x.fail("C06/panic/concurrent-worker", "step %d worker %d panicked: %v", i, w, r)
					}
				}()
				ww := fmt.Sprintf("%s worker %d (of %d concurrent)", where, w, len(op.Workers))
				<-start
				if wk.Hs {
					x.hs(ww, "", wk.Host, wk.Sni, false, false, false)
					progress.Add(1)
					return
				}
				reps := wk.Reps
				if reps < 1 {
					reps = 1
				}
				var mine []result
				ask := func(sni string) {
					mine = append(mine, x.requestInBurst(ww, wk.Host, sni))
					progress.Add(1)
				}
				for r := 0; r < reps; r++ {
					ask(wk.Sni)
				}
				// never-seen names force issuance while the others keep asking
				for j := 0; j < wk.Fresh; j++ {
					ask(freshName(i, j))
					ask(wk.Sni)
					ask(freshName(i, j))
				}
				results[w] = mine // published by wg.Done
			}(w, wk)
		}
		close(start)
		finished := make(chan struct{})
		go func() { wg.Wait(); close(finished) }()
		// liveness of the burst: some request must complete every kit.T()
		// (re-validated once at 3*kit.T()); handshakes carry their own deadline
		last, lastChange, bound, extended := int64(-1), time.Now(), kit.T()+kit.T()/2, false
	watch:
		for {
			select {
			case <-finished:
				break watch
			case <-time.After(50 * time.Millisecond):
			}
			if p := progress.Load(); p != last {
				if extended {
					kit.Inconclusive(x.check)
					bound, extended = kit.T()+kit.T()/2, false
				}
				last, lastChange = p, time.Now()
				continue
			}
			if time.Since(lastChange) < bound {
				continue
			}
			if !extended && !kit.Shrinking() {
				bound, extended = 4*kit.T(), true
				continue
			}
			x.wedged.Store(true)
			x.fail("C06/liveness/concurrent-burst/no-request-completes", "%s: %d goroutines, %d requests completed, then none for %s", where, len(op.Workers), last, time.Since(lastChange).Round(time.Millisecond))
			return // the workers are abandoned; their results are not read
		}
		for _, rs := range results {
			for _, r := range rs {
				x.judgeBurst(r)
			}
		}
	case "sweep":
		x.sweep(where, op)
	}
}

// sweep: a long run of distinct names through one configuration - Count names
// h<k>.sweep<Tag>.test as SNI over the fallback Host, every certificate
// judged, then all of them once more in another order (the cache now holds
// them; what is presented must still be the right one for each).
func (x *exec) sweep(where string, op Op) {
	n := op.Count
	for pass := 0; pass < 2; pass++ {
		for k := 0; k < n; k++ {
			j := k
			if pass == 1 {
				j = (k*7 + 3) % n // a permutation whenever 7 does not divide n; repeats are harmless otherwise
			}
			x.get(fmt.Sprintf("%s sweep pass %d #%d", where, pass, k), "", op.Host, sweepName(op.Tag, j), false)
			if x.wedged.Load() {
				return
			}
		}
	}
}

func sweepName(tag, k int) string { return fmt.Sprintf("h%03d.sweep%d.test", k, tag) }

// tunnels: the path a browser takes. Every worker opens a CONNECT tunnel for
// its authority through a real proxy that MITMs with the case's Config, waits
// (Gap) and then starts TLS inside the tunnel.
func (x *exec) tunnels(where string, op Op) {
	if panicSeen.Load() {
		// on the proxy's own goroutine nothing recovers it: the process would
		// end and take the failures already recorded with it
		kit.Note(x.check, "tunnels through the real proxy are skipped once GetCertificate has panicked in this process")
		return
	}
	if x.proxy == nil {
		p := martian.NewProxy()
		p.SetTimeout(30 * time.Second)
		p.SetMITM(x.cfg)
		x.proxy = netkit.Start(p, nil)
	}
	var wg sync.WaitGroup
	for w, wk := range op.Workers {
		wg.Add(1)
		go func(w int, wk Worker) {
			defer wg.Done()
			defer func() {
				if r := recover(); r != nil {
					x.fail("C06/panic/tunnel-worker", "%s tunnel %d panicked: %v", where, w, r)
				}
			}()
			x.tunnel(fmt.Sprintf("%s tunnel %d (of %d)", where, w, len(op.Workers)), wk)
		}(w, wk)
	}
	wg.Wait()
}

type tunnelOut struct {
	stage   string // where it stopped: dial, connect, handshake, done
	err     error
	status  int
	raw     [][]byte
	t0, t1  time.Time
	timeout bool
}

func (x *exec) tunnelOnce(authority, sni string, gap time.Duration, bound time.Duration) (out tunnelOut) {
	conn, err := net.DialTimeout("tcp", x.proxy.Addr, bound)
	if err != nil {
		return tunnelOut{stage: "dial", err: err, timeout: isTimeout(err)}
	}
	defer conn.Close()
	conn.SetDeadline(time.Now().Add(bound))
	if _, err := fmt.Fprintf(conn, "CONNECT %s HTTP/1.1\r\nHost: %s\r\n\r\n", authority, authority); err != nil {
		return tunnelOut{stage: "connect", err: err, timeout: isTimeout(err)}
	}
	br := bufio.NewReader(conn)
	res, err := http.ReadResponse(br, &http.Request{Method: "CONNECT"})
	if err != nil {
		return tunnelOut{stage: "connect", err: err, timeout: isTimeout(err)}
	}
	if res.StatusCode != 200 || br.Buffered() != 0 {
		return tunnelOut{stage: "connect", status: res.StatusCode, err: fmt.Errorf("CONNECT answered %d with %d stray bytes", res.StatusCode, br.Buffered())}
	}
	if gap > 0 {
		time.Sleep(gap)
	}
	out.stage = "handshake"
	conn.SetDeadline(time.Now().Add(bound))
	cc := &tls.Config{ServerName: sni, InsecureSkipVerify: true}
	cc.VerifyPeerCertificate = func(rawCerts [][]byte, _ [][]*x509.Certificate) error {
		for _, r := range rawCerts {
			out.raw = append(out.raw, append([]byte(nil), r...))
		}
		return nil
	}
	out.t0 = time.Now()
	err = tls.Client(conn, cc).Handshake()
	out.t1 = time.Now()
	if err != nil {
		out.err, out.timeout = err, isTimeout(err)
		return out
	}
	out.stage = "done"
	return out
}

func (x *exec) tunnel(where string, wk Worker) {
	e := expect(x.c.Hosts, "", wk.Host, wk.Sni)
	if e.refuse {
		return // no-name requests are not sent through the proxy
	}
	authority := fallbackSpelling(x.c.Hosts, wk.Host)
	var gap time.Duration
	e.shape += "-tunnel"
	if wk.Gap && x.c.short() {
		gap = x.c.validity() + 300*time.Millisecond
		e.shape += "-idle"
	}
	where = fmt.Sprintf("%s CONNECT %s, idle %s, ClientHello with SNI %q", where, authority, gap, wk.Sni)
	out := x.tunnelOnce(authority, wk.Sni, gap, kit.T())
	if e.lenient {
		return // whatever the proxy did with this name; the next tunnels tell
	}
	if out.timeout {
		again, bound := out, kit.T()
		if !kit.Shrinking() {
			again, bound = x.tunnelOnce(authority, wk.Sni, gap, 3*kit.T()), 3*kit.T()
		}
		if again.timeout {
			x.wedged.Store(true)
			x.fail("C06/liveness/"+e.shape+"/handshake-timeout", "%s: stage %s did not finish within %s: %v", where, again.stage, bound, again.err)
			return
		}
		kit.Inconclusive(x.check)
		out = again
	}
	if out.stage != "done" {
		class := "failed"
		if out.stage != "handshake" {
			class = "connect-failed"
		}
		x.fail("C06/handshake/"+e.shape+"/"+class, "%s: stopped at stage %s: %v", where, out.stage, out.err)
		if len(out.raw) == 0 {
			return
		}
	}
	x.checkChain(where, e, out.raw, out.t0, out.t1)
}

// freshName is shared by the workers of a burst: they all walk the same
// sequence of new names, so issuance of a name races with requests for it.
func freshName(step, j int) string {
	return fmt.Sprintf("f%d.s%d.fresh.test", j, step)
}

func run(check string, c Case) kit.Verdict {
	auth, err := authority(c.CA)
	if err != nil {
		return kit.Failf("C06/setup/new-authority-error", "building the authorities: %v", err)
	}
	cfg, err := mitm.NewConfig(auth.cert, auth.key)
	if err != nil {
		return kit.Failf("C06/setup/new-config-error", "mitm.NewConfig: %v", err)
	}
	cfg.SetOrganization(c.Org)
	switch c.H2 {
	case "all":
		cfg.SetH2Config(&h2.Config{AllowedHostsFilter: func(string) bool { return true }})
	case "even":
		cfg.SetH2Config(&h2.Config{AllowedHostsFilter: func(a string) bool { return len(a)%2 == 0 }})
	}
	if c.validity() > 0 {
		cfg.SetValidity(c.validity())
	}
	x := &exec{check: check, c: c, cfg: cfg, ca: auth, seen: map[string]bool{}, judged: map[judgedKey]bool{}, held: map[string]*tls.Config{}}
	defer func() {
		if x.proxy != nil {
			x.proxy.Stop(kit.T())
		}
	}()
	have := map[string]bool{}
	add := func(name, canon string) {
		if name != "" && !have[canon] {
			have[canon] = true
			x.decoys = append(x.decoys, Host{Name: name, Canon: canon})
		}
	}
	for _, h := range c.Hosts {
		add(h.Name, h.Canon)
	}
	for _, op := range c.Ops {
		add(op.Sni, strings.ToLower(op.Sni))
		for _, w := range op.Workers {
			add(w.Sni, strings.ToLower(w.Sni))
		}
	}
	for _, d := range fixedDecoys {
		add(d, d)
	}
	for i, op := range c.Ops {
		x.step(i, op)
	}
	return x.v
}

// ---------------------------------------------------------------- case analysis (non-trivial rule, classes)

type caseInfo struct {
	ip, v6bare, v6port, port, mixed, hit, crossing, conc, handshake, tls12, noName, sni, sniDiffers, std, apiTLS bool
	profiles, mixedClients                                                                                       bool
	nearExpiry, tcp                                                                                              bool
	v6bracketed                                                                                                  bool
	odd, afterOdd, long                                                                                          bool
	held, heldCrossing, tunnel, idleTunnel                                                                       bool
}

func analyse(c Case) caseInfo {
	var ci caseInfo
	requested := map[string]bool{}
	stale := map[string]bool{}      // requested before an expire step
	clientOf := map[string]string{} // name -> capability profile of the last handshake for it
	prepped := map[string]bool{}    // API/Host with a kept tls.Config -> an expire step has passed since
	visit := func(api string, host int, sni string, hs bool) {
		e := expect(c.Hosts, api, host, sni)
		if hs {
			ci.handshake = true
		}
		if api == "tls" {
			ci.apiTLS = true
		}
		if e.lenient {
			ci.odd = true
			return
		}
		if ci.odd {
			ci.afterOdd = true
		}
		if e.refuse {
			ci.noName = true
			return
		}
		if sni != "" {
			ci.sni = true
			if host >= 0 && host < len(c.Hosts) && c.Hosts[host].Canon != e.canon {
				ci.sniDiffers = true
			}
			if dnsClass(sni) == "dns-mixed" {
				ci.mixed = true
			}
		} else {
			h := c.Hosts[host]
			switch h.Class {
			case "ipv4":
				ci.ip = true
			case "ipv6":
				ci.ip = true
				if h.Port {
					ci.v6port = true
				} else {
					ci.v6bare = true
				}
			case "ipv6-bracketed":
				ci.ip, ci.v6bracketed = true, true
			case "dns-mixed":
				ci.mixed = true
			}
			if h.Port {
				ci.port = true
			}
		}
		if requested[e.key] {
			ci.hit = true
		}
		if stale[e.key] && c.short() {
			ci.crossing = true
			delete(stale, e.key)
		}
		requested[e.key] = true
	}
	for _, op := range c.Ops {
		switch op.Kind {
		case "get", "hs":
			visit(op.API, op.Host, op.Sni, op.Kind == "hs")
			if aged, ok := prepped[heldKey(op.API, op.Host)]; ok && op.Held {
				ci.held = true
				if aged && c.short() {
					ci.heldCrossing = true
				}
			}
			if op.Kind == "hs" && op.TLS12 {
				ci.tls12 = true
			}
			if op.Kind == "hs" && op.Std {
				ci.std = true
			}
			if op.Kind == "hs" && op.TCP {
				ci.tcp = true
			}
			if op.Kind == "hs" {
				if e := expect(c.Hosts, op.API, op.Host, op.Sni); !e.refuse && !e.lenient {
					p := op.Client
					if p == "" && op.TLS12 {
						p = "tls12"
					}
					if prev, ok := clientOf[e.key]; ok && prev != p {
						ci.mixedClients = true
					}
					clientOf[e.key] = p
					if op.Client != "" {
						ci.profiles = true
					}
				}
			}
		case "expire":
			if op.Before > 0 {
				ci.nearExpiry = c.short() && len(requested) > 0
				continue
			}
			for k := range requested {
				stale[k] = true
			}
			for k := range prepped {
				prepped[k] = true
			}
		case "sweep":
			if op.Count > 0 {
				visit("", op.Host, sweepName(op.Tag, 0), false)
				ci.hit = true
			}
			if op.Count >= 160 {
				ci.long = true
			}
		case "prep":
			prepped[heldKey(op.API, op.Host)] = false
		case "tunnels":
			for _, w := range op.Workers {
				if expect(c.Hosts, "", w.Host, w.Sni).refuse {
					continue
				}
				visit("", w.Host, w.Sni, true)
				ci.tunnel = true
				if w.Gap && c.short() {
					ci.idleTunnel = true
				}
			}
		case "conc":
			for _, w := range op.Workers {
				visit("", w.Host, w.Sni, w.Hs)
				if !w.Hs && (w.Reps > 1 || w.Fresh > 0) {
					ci.hit = true
				}
			}
			if len(op.Workers) >= 2 {
				ci.conc = true
			}
		}
	}
	return ci
}

func nonTrivial(c Case) bool {
	ci := analyse(c)
	return ci.ip || ci.port || ci.mixed || ci.hit || ci.crossing || ci.conc || ci.heldCrossing || ci.idleTunnel || ci.afterOdd || ci.long
}

func classes(c Case) []string {
	ci := analyse(c)
	var out []string
	for _, kv := range []struct {
		on   bool
		name string
	}{
		{ci.ip, "ip-literal"}, {ci.v6bare, "ipv6-bare"}, {ci.v6port, "ipv6-bracket-port"}, {ci.v6bracketed, "ipv6-bracketed-no-port"}, {ci.port, "host-port"},
		{ci.mixed, "mixed-case"}, {ci.hit, "cache-hit"}, {ci.crossing, "expiry-crossing"}, {ci.conc, "concurrent"},
		{ci.handshake, "handshake"}, {ci.tls12, "tls12"}, {ci.noName, "no-name"}, {ci.sni, "sni"},
		{ci.sniDiffers, "sni-differs-from-fallback"}, {ci.std, "std-client"}, {ci.apiTLS, "api-tls"}, {c.short(), "short-validity"}, {c.validity() > 24*time.Hour, "validity-over-a-day"}, {c.validity() > (1 << 62), "validity-over-146-years"}, {ci.profiles, "restricted-client"}, {ci.mixedClients, "same-name-different-client-capabilities"}, {ci.nearExpiry, "request-just-before-expiry"}, {ci.tcp, "handshake-over-tcp"}, {ci.odd, "unissuable-name"}, {ci.afterOdd, "request-after-unissuable-name"}, {ci.long, "long-history-160-plus-names"}, {ci.held, "held-config"}, {ci.heldCrossing, "held-config-across-expiry"}, {ci.tunnel, "proxy-tunnel"}, {ci.idleTunnel, "idle-tunnel-past-validity"}, {c.CA == "ecdsa", "ecdsa-authority"}, {c.H2 != "", "h2-configured"},
	} {
		if kv.on {
			out = append(out, kv.name)
		}
	}
	return out
}
