package c06

import (
	"encoding/json"
	"flag"
	"fmt"
	"math"
	"net/netip"
	"os"
	"path/filepath"
	"strings"
	"testing"
	"time"

	"pgregory.net/rapid"

	"verifharness/internal/kit"
)

// ---------------------------------------------------------------- host spellings

func dnsHost(name string, port int) Host {
	h := Host{Name: name, Spelling: name, Class: dnsClass(name), Canon: strings.ToLower(name)}
	if port > 0 {
		h.Spelling = fmt.Sprintf("%s:%d", name, port)
		h.Port = true
	}
	return h
}

// ipHost builds the spelling of an IP literal: IPv4 bare or with port, IPv6
// bare (no port) or bracketed with port - the forms the statement lists.
func ipHost(spelled string, port int) Host {
	a := netip.MustParseAddr(spelled)
	h := Host{Name: spelled, Spelling: spelled, Class: "ipv6", Canon: a.Unmap().String()}
	if a.Is4() {
		h.Class = "ipv4"
	}
	if port > 0 {
		h.Port = true
		if a.Is4() {
			h.Spelling = fmt.Sprintf("%s:%d", spelled, port)
		} else {
			h.Spelling = fmt.Sprintf("[%s]:%d", spelled, port)
		}
	}
	return h
}

// generators built once: StringMatching compiles its expression on every call,
// which dominated the cost of a shrink candidate.
var (
	genHyphenLabel = rapid.StringMatching(`[a-z0-9]{1,4}(-[a-z0-9]{1,4}){1,3}`)
	genDigitLabel  = rapid.StringMatching(`[0-9]{1,5}`)
	genPunyTail    = rapid.StringMatching(`[a-z0-9]{2,10}`)
	genLongLabel   = rapid.StringMatching(`[a-z][a-z0-9]{61}[a-z]`)
	genShortLabel  = rapid.StringMatching(`[a-z][a-z0-9]{0,9}`)
	genFreeOrg     = rapid.StringMatching(`[A-Za-z0-9][A-Za-z0-9 .,'&()-]{0,38}[A-Za-z0-9.]`)
)

// ipHostBracketed is the IPv6 literal as an authority without a port: "[::1]"
// (the authority grammar has no other way to write an IPv6 literal).
func ipHostBracketed(spelled string) Host {
	h := ipHost(spelled, 0)
	h.Spelling, h.Class = "["+spelled+"]", "ipv6-bracketed"
	return h
}

func genLabel(t *rapid.T) string {
	switch rapid.SampledFrom([]string{"short", "short", "short", "hyphen", "digits", "puny", "long"}).Draw(t, "label_style") {
	case "hyphen":
		return genHyphenLabel.Draw(t, "label")
	case "digits":
		return genDigitLabel.Draw(t, "label")
	case "puny":
		return "xn--" + genPunyTail.Draw(t, "label")
	case "long":
		return genLongLabel.Draw(t, "label")
	}
	return genShortLabel.Draw(t, "label")
}

// genDNSName draws a lower-case LDH name of 1..4 labels (<= 253 bytes) that is
// not an IP literal.
func genDNSName(t *rapid.T) string {
	n := rapid.IntRange(1, 4).Draw(t, "labels")
	var labels []string
	total := 0
	for i := 0; i < n; i++ {
		l := genLabel(t)
		if total+len(l)+1 > 253 {
			break
		}
		total += len(l) + 1
		labels = append(labels, l)
	}
	name := strings.Join(labels, ".")
	if _, err := netip.ParseAddr(name); err == nil || name == "" {
		name = "h-" + name
	}
	// the top label of a host name is not all-numeric (RFC 3696 s.2)
	if last := labels[len(labels)-1]; strings.Trim(last, "0123456789") == "" {
		name += ".test"
	}
	return name
}

// mixCase upper-cases letters of name selected by kit.Bytes(seed).
func mixCase(name string, seed uint64) string {
	mask := kit.Bytes(seed, len(name))
	b := []byte(name)
	changed := false
	for i := range b {
		if b[i] >= 'a' && b[i] <= 'z' && mask[i]&1 == 1 {
			b[i] -= 'a' - 'A'
			changed = true
		}
	}
	if !changed {
		for i := range b {
			if b[i] >= 'a' && b[i] <= 'z' {
				b[i] -= 'a' - 'A'
				break
			}
		}
	}
	return string(b)
}

func genPort(t *rapid.T) int {
	if rapid.Bool().Draw(t, "port_edge") {
		return rapid.SampledFrom([]int{1, 80, 443, 8443, 65535}).Draw(t, "port")
	}
	return rapid.IntRange(1, 65535).Draw(t, "port")
}

func genByte(t *rapid.T, label string) int {
	if rapid.Bool().Draw(t, label+"_edge") {
		return rapid.SampledFrom([]int{0, 1, 9, 10, 127, 128, 255}).Draw(t, label)
	}
	return rapid.IntRange(0, 255).Draw(t, label)
}

func genIPv4(t *rapid.T) string {
	return fmt.Sprintf("%d.%d.%d.%d", genByte(t, "a"), genByte(t, "b"), genByte(t, "c"), genByte(t, "d"))
}

// genIPv6 returns the 16 bytes of an address.
func genIPv6(t *rapid.T) [16]byte {
	var b [16]byte
	switch rapid.SampledFrom([]string{"loopback", "random", "random", "zero-run", "zero-run", "mapped", "link-local", "unspecified"}).Draw(t, "v6_kind") {
	case "loopback":
		b[15] = 1
	case "random":
		for i := range b {
			b[i] = byte(genByte(t, "v6"))
		}
		if b[0] == 0 {
			b[0] = 0x20
		}
	case "zero-run":
		b[0], b[1] = 0x20, 0x01
		for i := 2; i < 16; i++ {
			b[i] = byte(genByte(t, "v6"))
		}
		from := rapid.IntRange(1, 6).Draw(t, "run_from")
		to := rapid.IntRange(from+1, 7).Draw(t, "run_to")
		for g := from; g < to; g++ {
			b[2*g], b[2*g+1] = 0, 0
		}
	case "mapped":
		b[10], b[11] = 0xff, 0xff
		for i := 12; i < 16; i++ {
			b[i] = byte(genByte(t, "v6"))
		}
	case "link-local":
		b[0], b[1] = 0xfe, 0x80
		for i := 8; i < 16; i++ {
			b[i] = byte(genByte(t, "v6"))
		}
	}
	return b
}

func spellIPv6(b [16]byte, style string) string {
	a := netip.AddrFrom16(b)
	switch style {
	case "upper":
		return strings.ToUpper(a.String())
	case "expanded":
		var g []string
		for i := 0; i < 16; i += 2 {
			g = append(g, fmt.Sprintf("%x", int(b[i])<<8|int(b[i+1])))
		}
		return strings.Join(g, ":")
	}
	return a.String()
}

// genHosts draws the pool of spellings of one case: 1..3 base hosts, each in
// 1..3 spellings (other letter case, with/without port, other IPv6 text form)
// plus DNS siblings that share labels with the base (different identity).
func genHosts(t *rapid.T) []Host {
	var pool []Host
	nb := rapid.IntRange(1, 3).Draw(t, "bases")
	for b := 0; b < nb; b++ {
		nv := rapid.IntRange(1, 3).Draw(t, "variants")
		switch rapid.SampledFrom([]string{"dns", "dns", "dns", "ipv4", "ipv6", "ipv6"}).Draw(t, "base_kind") {
		case "dns":
			base := genDNSName(t)
			for v := 0; v < nv; v++ {
				name := base
				switch rapid.SampledFrom([]string{"plain", "mixed", "mixed", "sibling-sub", "sibling-prefix"}).Draw(t, "dns_variant") {
				case "mixed":
					name = mixCase(base, rapid.Uint64Range(0, 4095).Draw(t, "case_seed"))
				case "sibling-sub":
					if len(base)+4 <= 253 {
						name = "www." + base
					}
				case "sibling-prefix":
					// same first label, different parent
					name = strings.SplitN(base, ".", 2)[0] + ".sibling.test"
				}
				port := 0
				if rapid.Bool().Draw(t, "with_port") {
					port = genPort(t)
				}
				pool = append(pool, dnsHost(name, port))
			}
		case "ipv4":
			a := genIPv4(t)
			for v := 0; v < nv; v++ {
				port := 0
				if rapid.Bool().Draw(t, "with_port") {
					port = genPort(t)
				}
				pool = append(pool, ipHost(a, port))
			}
		case "ipv6":
			raw := genIPv6(t)
			for v := 0; v < nv; v++ {
				style := rapid.SampledFrom([]string{"canonical", "canonical", "upper", "expanded"}).Draw(t, "v6_style")
				port := 0
				if rapid.Bool().Draw(t, "with_port") {
					port = genPort(t)
				}
				if port == 0 && rapid.IntRange(0, 2).Draw(t, "v6_brackets_no_port") == 0 {
					pool = append(pool, ipHostBracketed(spellIPv6(raw, style)))
					continue
				}
				pool = append(pool, ipHost(spellIPv6(raw, style), port))
			}
		}
	}
	return pool
}

func genOrg(t *rapid.T) string {
	if rapid.Bool().Draw(t, "org_fixed") {
		return rapid.SampledFrom([]string{"Martian Proxy", "Acme, Inc.", "Ünïcode Örg ☃", "O=evil,CN=x", "a", "Org/With+Specials=\"q\""}).Draw(t, "org")
	}
	return genFreeOrg.Draw(t, "org")
}

// genSNI draws the SNI of a request that falls back to hosts[host]: absent,
// the same DNS name (same or other letter case), another name of the pool, or
// a fresh name.
func genSNI(t *rapid.T, hosts []Host, host int, pAbsent int) string {
	modes := []string{"same", "same", "other", "fresh"}
	for i := 0; i < pAbsent; i++ {
		modes = append(modes, "none")
	}
	mode := rapid.SampledFrom(modes).Draw(t, "sni_mode")
	if mode == "none" {
		return ""
	}
	if mode == "same" {
		if host >= 0 && strings.HasPrefix(hosts[host].Class, "dns") {
			if rapid.Bool().Draw(t, "sni_recase") {
				return mixCase(strings.ToLower(hosts[host].Name), rapid.Uint64Range(0, 4095).Draw(t, "case_seed"))
			}
			return hosts[host].Name
		}
		mode = "other"
	}
	if mode == "other" {
		var dns []string
		for i, h := range hosts {
			if i != host && strings.HasPrefix(h.Class, "dns") {
				dns = append(dns, h.Name)
			}
		}
		if len(dns) > 0 {
			return rapid.SampledFrom(dns).Draw(t, "sni_other")
		}
	}
	name := genDNSName(t)
	if rapid.Bool().Draw(t, "sni_mixed") {
		name = mixCase(name, rapid.Uint64Range(0, 4095).Draw(t, "case_seed"))
	}
	return name
}

func genRequest(t *rapid.T, hosts []Host, kind string) Op {
	op := Op{Kind: kind, Host: rapid.IntRange(0, len(hosts)-1).Draw(t, "host")}
	if rapid.IntRange(0, 6).Draw(t, "api_tls") == 0 {
		op.API = "tls"
		op.Sni = genSNI(t, hosts, op.Host, 0)
	} else {
		if rapid.IntRange(0, 9).Draw(t, "empty_fallback_with_sni") == 0 {
			op.Host = -1
			op.Sni = genSNI(t, hosts, -1, 0)
		} else {
			op.Sni = genSNI(t, hosts, op.Host, 6)
		}
	}
	if kind == "hs" {
		op.TLS12 = rapid.IntRange(0, 2).Draw(t, "tls12") == 0
		op.Std = rapid.Bool().Draw(t, "std")
		op.TCP = rapid.IntRange(0, 2).Draw(t, "tcp") == 0
		if rapid.Bool().Draw(t, "restricted_client") {
			op.Client = rapid.SampledFrom(clientProfileNames).Draw(t, "client")
			op.TLS12 = false
		}
	}
	return op
}

func genNoName(t *rapid.T) Op {
	op := Op{Kind: rapid.SampledFrom([]string{"get", "hs"}).Draw(t, "noname_via")}
	switch rapid.SampledFrom([]string{"empty", "port-only", "tls"}).Draw(t, "noname_kind") {
	case "empty":
		op.Host = -1
	case "port-only":
		op.Host = -2
	case "tls":
		op.API = "tls"
	}
	// a listener's connection has addresses a pipe has not
	op.TCP = op.Kind == "hs" && rapid.Bool().Draw(t, "noname_tcp")
	return op
}

func genConc(t *rapid.T, hosts []Host, maxFresh int) Op {
	k := rapid.IntRange(1, min(4, len(hosts))).Draw(t, "conc_hosts")
	var chosen []int
	for i := 0; i < k; i++ {
		chosen = append(chosen, rapid.IntRange(0, len(hosts)-1).Draw(t, "conc_host"))
	}
	m := rapid.IntRange(2, kit.N(12, 16)).Draw(t, "goroutines")
	op := Op{Kind: "conc"}
	for i := 0; i < m; i++ {
		w := Worker{Host: rapid.SampledFrom(chosen).Draw(t, "w_host")}
		w.Sni = genSNI(t, hosts, w.Host, 10)
		if rapid.IntRange(0, 3).Draw(t, "w_hs") == 0 {
			w.Hs = true
		} else {
			w.Reps = rapid.IntRange(1, 4).Draw(t, "w_reps")
			if rapid.Bool().Draw(t, "w_has_fresh") {
				w.Fresh = rapid.IntRange(1, maxFresh).Draw(t, "w_fresh")
			}
		}
		op.Workers = append(op.Workers, w)
	}
	return op
}

// stormFresh bounds the new names per worker in the concurrent check: each
// costs a CA signature - about 1 ms with the RSA authority, tens of
// microseconds with the P-256 one - and much more under the race detector.
func stormFresh(ca string) int {
	n := 40
	if ca == "ecdsa" {
		n = 250
	}
	if kit.Race() {
		n /= 5
	}
	return n
}

const yearMs = 365 * 24 * 3600 * 1000

// maxValidityMs is the largest validity a time.Duration can hold, in ms (292.47 years).
const maxValidityMs = int(math.MaxInt64 / int64(time.Millisecond))

// genLongValidity draws what SetValidity gets in histories that do not wait
// for expiry: mostly nothing (the default hour), else anything from a minute
// to the largest time.Duration, biased to the values where doubling or adding
// a Duration stops fitting (2^62 ns = 146.2 years, 2^63 ns = 292.5 years).
func genLongValidity(t *rapid.T) int {
	switch rapid.SampledFrom([]string{"default", "default", "default", "edge", "years", "any"}).Draw(t, "validity_kind") {
	case "edge":
		return rapid.SampledFrom([]int{60_000, 24 * 3600_000, 10 * yearMs, 100 * yearMs, 146 * yearMs, int(1<<62/1_000_000) - 1, int(1<<62/1_000_000) + 1, 147 * yearMs, 200 * yearMs, 290 * yearMs, maxValidityMs}).Draw(t, "validity_ms")
	case "years":
		return rapid.IntRange(1, 292).Draw(t, "validity_years") * yearMs
	case "any":
		return rapid.IntRange(60_000, maxValidityMs).Draw(t, "validity_ms")
	}
	return 0
}

// genTunnels draws 1..3 CONNECT tunnels over the spellings that carry a port
// (a CONNECT authority has one).
func genTunnels(t *rapid.T, hosts []Host) (Op, bool) {
	var withPort []int
	for i, h := range hosts {
		if h.Port {
			withPort = append(withPort, i)
		}
	}
	if len(withPort) == 0 {
		return Op{}, false
	}
	op := Op{Kind: "tunnels"}
	n := rapid.IntRange(1, 3).Draw(t, "tunnels_n")
	for i := 0; i < n; i++ {
		w := Worker{Host: rapid.SampledFrom(withPort).Draw(t, "t_host"), Gap: rapid.IntRange(0, 3).Draw(t, "t_gap") != 0}
		switch rapid.SampledFrom([]string{"none", "none", "same", "drawn"}).Draw(t, "t_sni") {
		case "same":
			if h := hosts[w.Host]; strings.HasPrefix(h.Class, "dns") {
				w.Sni = h.Name
			}
		case "drawn":
			w.Sni = genSNI(t, hosts, w.Host, 0)
		}
		op.Workers = append(op.Workers, w)
	}
	return op, true
}

// names no certificate can be issued for: IDNs as raw UTF-8 instead of xn--
var oddNames = []string{"b\u00fccher.example", "m\u00fcnchen.test", "\u65e5\u672c\u8a9e.example", "caf\u00e9", "xn--ok.\u00e9x.example"}

// genOdd draws a request for a name outside the stated spellings (as SNI, or
// as CONNECT authority without SNI). What matters is what comes after it.
func genOdd(t *rapid.T, hosts []Host) Op {
	op := Op{Kind: rapid.SampledFrom([]string{"get", "hs"}).Draw(t, "odd_via"), Host: rapid.IntRange(0, len(hosts)-1).Draw(t, "host")}
	switch rapid.SampledFrom([]string{"sni", "sni", "authority", "authority-bytes", "tls-sni"}).Draw(t, "odd_kind") {
	case "sni":
		op.Sni = rapid.SampledFrom(oddNames).Draw(t, "odd_name")
	case "tls-sni":
		op.API, op.Sni = "tls", rapid.SampledFrom(oddNames).Draw(t, "odd_name")
	case "authority":
		op.Host = oddUTF8
	case "authority-bytes":
		op.Host = oddBytes
	}
	return op
}

// genSweep draws the long-history op: mostly a few dozen names, sometimes
// more than the 160 a 160-bit quantity can be halved.
func genSweep(t *rapid.T, hosts []Host) Op {
	op := Op{Kind: "sweep", Host: rapid.IntRange(0, len(hosts)-1).Draw(t, "host"), Tag: rapid.IntRange(0, 2).Draw(t, "sweep_tag")}
	if rapid.IntRange(0, 3).Draw(t, "sweep_long") == 0 {
		op.Count = rapid.IntRange(160, 300).Draw(t, "sweep_count")
	} else {
		op.Count = rapid.IntRange(2, 40).Draw(t, "sweep_count")
	}
	return op
}

func genOp(t *rapid.T, hosts []Host) Op {
	switch k := rapid.SampledFrom([]string{"get", "get", "get", "get", "get", "get", "hs", "hs", "hs", "hs", "noname", "conc", "odd", "odd", "sweep"}).Draw(t, "kind"); k {
	case "odd":
		return genOdd(t, hosts)
	case "sweep":
		return genSweep(t, hosts)
	case "noname":
		return genNoName(t)
	case "conc":
		return genConc(t, hosts, 3)
	default:
		return genRequest(t, hosts, k)
	}
}

// ---------------------------------------------------------------- properties

var oracleText = "oracle: chain verifies under the CA for the named host (SNI, else the CONNECT authority without port/brackets) at an instant of the request, organization as configured, not valid for any other host of the case, key possession (real handshake / key match); no name => refusal"

var propMachine = &kit.Prop[Case]{
	ID: "C06", Name: "machine", Journal: true,
	Rule:       "rapid-drawn histories of 1..12 operations (direct GetCertificate, real handshake TLS1.2/1.3 by clients of drawn capability (TLS 1.3 only, TLS 1.2 with ECDHE-RSA suites only, single curves) - 1 in 3 followed by the same name from another kind of client -, concurrent burst, no-name request, request for a name no certificate can be issued for - raw UTF-8 IDN as SNI or authority -, sweep of 2..300 distinct names) over one mitm.Config with a drawn organization, a drawn validity (default hour in half of the cases, else one minute .. 292 years) and a pool of 1..3 hosts in 1..3 spellings each (LDH names 1..4 labels, mixed case, IPv4, IPv6 bare / bracketed with port / bracketed without port, siblings); " + oracleText + "; non-trivial = IP literal, host:port form, mixed case, cache hit, or concurrency >= 2",
	Run:        budgeted("machine", 8*time.Second, 45*time.Second),
	NonTrivial: nonTrivial, Classes: classes,
	Gates: map[string]float64{"nontrivial": 0.7, "ip-literal": 0.2, "host-port": 0.3, "mixed-case": 0.3, "cache-hit": 0.3, "handshake": 0.4, "sni": 0.4, "no-name": 0.08, "ipv6-bare": 0.03, "ipv6-bracket-port": 0.03, "sni-differs-from-fallback": 0.15},
	Gen: func(t *rapid.T) Case {
		c := Case{Org: genOrg(t), CA: rapid.SampledFrom([]string{"", "", "ecdsa"}).Draw(t, "ca"), Hosts: genHosts(t), H2: rapid.SampledFrom([]string{"", "", "", "all", "even"}).Draw(t, "h2")}
		c.ValidityMs = genLongValidity(t)
		n := rapid.IntRange(1, 12).Draw(t, "n")
		for i := 0; i < n; i++ {
			op := genOp(t, c.Hosts)
			c.Ops = append(c.Ops, op)
			if op.Kind == "hs" && rapid.IntRange(0, 2).Draw(t, "other_client_next") == 0 {
				// the same name again, asked for by a client of other capabilities
				again := op
				again.Client = rapid.SampledFrom(append([]string{""}, clientProfileNames...)).Draw(t, "client_again")
				again.TLS12 = again.Client == "" && !op.TLS12 && op.Client == ""
				c.Ops = append(c.Ops, again)
			}
		}
		return c
	},
}

var propExpiry = &kit.Prop[Case]{
	ID: "C06", Name: "expiry", Journal: true,
	Rule:       "histories over a mitm.Config with SetValidity(2s): 1..4 requests, a sleep past the NotAfter of everything issued, optionally the same request a few ms BEFORE the end, then the same request again after it (the cached entry is now invalid; in 2 of 3 cases served by a tls.Config that was built before the sleep) and 0..3 more requests, a concurrent burst, or 1..3 CONNECT tunnels through a real proxy that stay idle past the validity before the ClientHello; thorough: sometimes a second crossing; " + oracleText + "; non-trivial = a request for a host whose cached certificate has expired",
	Run:        budgeted("expiry", 6*time.Second, 20*time.Second),
	NonTrivial: func(c Case) bool { return analyse(c).crossing },
	Classes:    classes,
	Gen: func(t *rapid.T) Case {
		c := Case{Org: genOrg(t), CA: rapid.SampledFrom([]string{"", "", "ecdsa"}).Draw(t, "ca"), Short: true, Hosts: genHosts(t), H2: rapid.SampledFrom([]string{"", "", "", "all", "even"}).Draw(t, "h2")}
		pre := rapid.IntRange(1, 4).Draw(t, "pre")
		for i := 0; i < pre; i++ {
			c.Ops = append(c.Ops, genRequest(t, c.Hosts, rapid.SampledFrom([]string{"get", "get", "hs"}).Draw(t, "kind")))
		}
		rounds := 1
		if kit.Thorough() && rapid.IntRange(0, 2).Draw(t, "second_round") == 0 {
			rounds = 2
		}
		for r := 0; r < rounds; r++ {
			again := c.Ops[rapid.IntRange(0, pre-1).Draw(t, "again")]
			again.Kind = rapid.SampledFrom([]string{"get", "get", "hs"}).Draw(t, "again_kind")
			again.Held = false
			bracketed := again.Host >= 0 && c.Hosts[again.Host].Class == "ipv6-bracketed" // keeps that spelling's signature shape unique
			if !bracketed && rapid.IntRange(0, 2).Draw(t, "held") != 0 {
				// the server side is set up before the gap, the client speaks after it
				again.Held = true
				if again.API != "tls" && again.Host >= 0 {
					switch rapid.SampledFrom([]string{"keep", "none", "none", "same"}).Draw(t, "held_sni") {
					case "none":
						again.Sni = ""
					case "same":
						if h := c.Hosts[again.Host]; strings.HasPrefix(h.Class, "dns") {
							again.Sni = h.Name
						}
					}
				}
				c.Ops = append(c.Ops, Op{Kind: "prep", API: again.API, Host: again.Host})
			}
			if rapid.IntRange(0, 2).Draw(t, "near_expiry") == 0 {
				// first stop a few ms short of the end: the cached leaf is still
				// (just) valid and may be served
				near := again
				near.Held = false
				c.Ops = append(c.Ops, Op{Kind: "expire", Before: rapid.SampledFrom([]int{1, 3, 10, 40, 150, 400}).Draw(t, "before_ms")}, near)
			}
			c.Ops = append(c.Ops, Op{Kind: "expire"})
			c.Ops = append(c.Ops, again)
			if rapid.IntRange(0, 3).Draw(t, "tunnels") == 0 {
				if op, ok := genTunnels(t, c.Hosts); ok {
					c.Ops = append(c.Ops, op)
				}
			}
			if rapid.IntRange(0, 2).Draw(t, "burst") == 0 {
				c.Ops = append(c.Ops, genConc(t, c.Hosts, 3))
			}
			post := rapid.IntRange(0, 3).Draw(t, "post")
			for i := 0; i < post; i++ {
				if rapid.IntRange(0, 5).Draw(t, "post_odd") == 0 {
					c.Ops = append(c.Ops, genOdd(t, c.Hosts))
					continue
				}
				c.Ops = append(c.Ops, genRequest(t, c.Hosts, rapid.SampledFrom([]string{"get", "get", "hs"}).Draw(t, "kind")))
			}
		}
		return c
	},
}

var propConcurrent = &kit.Prop[Case]{
	ID: "C06", Name: "concurrent", Journal: true,
	Rule:       "0..3 warm-up requests, then 1..3 bursts of 2..12 (thorough 16) goroutines over 1..4 hosts of the pool, each goroutine doing 1..4 direct requests plus 0..40 (RSA authority) / 0..250 (P-256 authority) rounds over a shared sequence of never-seen names (forcing issuance while others ask), or one real handshake, released by a barrier, judged after the burst; " + oracleText + " - for the name each requester asked for; non-trivial = at least 2 goroutines",
	Run:        budgeted("concurrent", 8*time.Second, 45*time.Second),
	NonTrivial: func(c Case) bool { return analyse(c).conc },
	Classes:    classes,
	Gates:      map[string]float64{"nontrivial": 0.9, "handshake": 0.3, "cache-hit": 0.3},
	Gen: func(t *rapid.T) Case {
		c := Case{Org: genOrg(t), CA: rapid.SampledFrom([]string{"", "ecdsa", "ecdsa"}).Draw(t, "ca"), Hosts: genHosts(t), H2: rapid.SampledFrom([]string{"", "", "", "all", "even"}).Draw(t, "h2")}
		warm := rapid.IntRange(0, 3).Draw(t, "warm")
		for i := 0; i < warm; i++ {
			if rapid.IntRange(0, 4).Draw(t, "warm_odd") == 0 {
				c.Ops = append(c.Ops, genOdd(t, c.Hosts))
				continue
			}
			c.Ops = append(c.Ops, genRequest(t, c.Hosts, "get"))
		}
		bursts := rapid.IntRange(1, 3).Draw(t, "bursts")
		for i := 0; i < bursts; i++ {
			c.Ops = append(c.Ops, genConc(t, c.Hosts, stormFresh(c.CA)))
		}
		return c
	},
}

var propMatrix = &kit.Prop[Case]{
	ID: "C06", Name: "matrix",
	Rule:       "fixed matrix: every listed spelling class (lower/mixed-case names, 63-byte label, 253-byte name, punycode, IPv4, IPv6 loopback/compressed/upper-case/expanded/IPv4-mapped, each bare and with port, three bracketed without port) x {direct, cache hit, handshake TLS1.3, handshake TLS1.2, every client capability profile in turn on one name, SNI same / SNI different / SNI through Config.TLS()}, plus the no-name requests (also over real TCP sockets, where a ClientHello has a connection with addresses behind it); three rows repeated under a P-256 authority, three with an h2.Config that allows every host; " + oracleText,
	Run:        journaled("matrix", func(c Case) kit.Verdict { return run("matrix", c) }),
	NonTrivial: nonTrivial, Classes: classes,
}

func matrixCases() []Case {
	long63 := strings.Repeat("a", 63)
	long253 := strings.Join([]string{strings.Repeat("a", 63), strings.Repeat("b", 63), strings.Repeat("c", 63), strings.Repeat("d", 61)}, ".")
	hosts := []Host{
		dnsHost("example.com", 0), dnsHost("example.com", 443), dnsHost("Example.COM", 0), dnsHost("WWW.Example.Org", 8443),
		dnsHost("localhost", 0), dnsHost("a.b.c.example.com", 65535), dnsHost("xn--bcher-kva.example", 443),
		dnsHost("my-host-1.example", 0), dnsHost("123.example", 80), dnsHost(long63+".example", 0), dnsHost(long253, 443),
		ipHost("192.0.2.1", 0), ipHost("192.0.2.1", 443), ipHost("0.0.0.0", 1), ipHost("255.255.255.255", 65535), ipHost("127.0.0.1", 8080),
		ipHost("::1", 0), ipHost("::1", 8443), ipHost("2001:db8::1", 0), ipHost("2001:db8::1", 443),
		ipHost("2001:DB8::A", 0), ipHost("2001:DB8::A", 443), ipHost("2001:db8:0:0:0:0:0:1", 0), ipHost("2001:db8:0:0:0:0:0:1", 443),
		ipHost("::ffff:192.0.2.9", 0), ipHost("::ffff:192.0.2.9", 443), ipHost("fe80::1", 0), ipHost("::", 443),
		ipHostBracketed("::1"), ipHostBracketed("2001:DB8::A"), ipHostBracketed("::ffff:192.0.2.9"),
	}
	var out []Case
	// the first rows once more under the P-256 authority, the next three with HTTP/2 allowed, ahead of the rest
	rows := append([]Host{dnsHost("Ecdsa.Example.com", 443), ipHost("192.0.2.1", 443), ipHost("2001:db8::1", 443),
		dnsHost("H2.Example.com", 443), ipHost("192.0.2.10", 443), ipHost("2001:db8::7", 8443)}, hosts...)
	for i, h := range rows {
		sibling := dnsHost("sibling.example.net", 0)
		c := Case{Org: "Matrix Org", Hosts: []Host{h, sibling}}
		if i < 3 {
			c.CA = "ecdsa"
		}
		if i >= 3 && i < 6 {
			c.H2 = "all"
		}
		isDNS := strings.HasPrefix(h.Class, "dns")
		c.Ops = []Op{
			{Kind: "get", Host: 0},
			{Kind: "get", Host: 0},
			{Kind: "hs", Host: 0, Std: !isDNS},
			{Kind: "hs", Host: 0, TLS12: true},
			{Kind: "hs", Host: 0, TCP: true, Std: !isDNS},
			{Kind: "get", Host: 0, Sni: "other.example.org"},
			{Kind: "hs", Host: 0, Sni: "Other.Example.ORG", Std: true},
			{Kind: "get", Host: 1},
			{Kind: "get", Host: 0},
		}
		// one name, clients of every capability profile in turn (first a
		// default one, then the restricted ones, then default again); a second
		// name the other way round
		seq := append([]string{""}, clientProfileNames...)
		for k := range seq {
			c.Ops = append(c.Ops,
				Op{Kind: "hs", Host: 0, Sni: "caps-up.example.org", Client: seq[k], Std: k%2 == 0},
				Op{Kind: "hs", Host: 0, Sni: "caps-down.example.org", Client: seq[len(seq)-1-k], TCP: k%3 == 0})
		}
		c.Ops = append(c.Ops, Op{Kind: "hs", Host: 0, Sni: "caps-up.example.org"}, Op{Kind: "hs", Host: 0, Sni: "caps-down.example.org", TLS12: true})
		if isDNS {
			c.Ops = append(c.Ops,
				Op{Kind: "hs", Host: 0, Sni: h.Name, Std: true},
				Op{Kind: "hs", Host: 1, Sni: h.Name, TLS12: true, Std: true},
				Op{Kind: "get", API: "tls", Sni: h.Name},
				Op{Kind: "hs", API: "tls", Sni: h.Name, Std: true},
				Op{Kind: "get", Host: -1, Sni: h.Name},
			)
		}
		out = append(out, c)
	}
	for _, op := range []Op{
		{Kind: "get", Host: -1}, {Kind: "hs", Host: -1}, {Kind: "get", Host: -2}, {Kind: "hs", Host: -2},
		{Kind: "get", API: "tls"}, {Kind: "hs", API: "tls"}, {Kind: "hs", API: "tls", TLS12: true},
		{Kind: "hs", API: "tls", TCP: true}, {Kind: "hs", API: "tls", TCP: true, TLS12: true}, {Kind: "hs", Host: -1, TCP: true}, {Kind: "hs", Host: -2, TCP: true},
	} {
		// a successful request before and after: the refusal must not depend on
		// (or disturb) the cache
		out = append(out, Case{Org: "Matrix Org", Hosts: []Host{dnsHost("example.com", 443)},
			Ops: []Op{op, {Kind: "get", Host: 0}, op, {Kind: "hs", Host: 0, Sni: "example.com", Std: true}}})
	}
	return out
}

var propTiming = &kit.Prop[Case]{
	ID: "C06", Name: "timing",
	Rule: "fixed histories about WHEN the leaf is chosen: (a) SetValidity(2s), tls.Configs for five spellings and Config.TLS() built first, one request to fill the cache, a sleep past the validity, then direct requests and real handshakes served by the configs built before the sleep (no SNI, SNI equal to the authority, other SNI); (b) a real martian.Proxy doing MITM with SetValidity(1s): six CONNECT tunnels in parallel, five of them idle for 1.3 s between the 200 and the ClientHello (no SNI, SNI equal to the authority, IPv4, bracketed IPv6, other SNI), one without pause; thorough repeats both under the P-256 authority; (c) SetValidity of 100, 146, 147, 200, 290 years and of the largest time.Duration (292.5 years): direct request, cache hit, verifying handshakes; " + oracleText + "; non-trivial = a certificate served after such a gap",
	Run:  journaled("timing", func(c Case) kit.Verdict { return run("timing", c) }),
	NonTrivial: func(c Case) bool {
		ci := analyse(c)
		return ci.heldCrossing || ci.idleTunnel || c.validity() > 24*time.Hour
	},
	Classes: classes,
}

func timingCases() []Case {
	var out []Case
	cas := []string{""}
	if kit.Thorough() {
		cas = []string{"", "ecdsa"}
	}
	for _, caKind := range cas {
		// (a) configurations built before the gap
		a := Case{Org: "Timing Org", CA: caKind, Short: true, Hosts: []Host{
			dnsHost("held.example.com", 443), dnsHost("Held-Mixed.Example.ORG", 0), ipHost("10.20.30.40", 8443),
			ipHost("2001:db8::77", 443), ipHost("2001:db8::78", 0),
		}}
		for i := range a.Hosts {
			a.Ops = append(a.Ops, Op{Kind: "prep", Host: i})
		}
		a.Ops = append(a.Ops, Op{Kind: "prep", API: "tls"}, Op{Kind: "get", Host: 0}, Op{Kind: "expire"})
		for i, h := range a.Hosts {
			a.Ops = append(a.Ops, Op{Kind: "get", Host: i, Held: true}, Op{Kind: "hs", Host: i, Held: true, TLS12: i%2 == 1})
			if strings.HasPrefix(h.Class, "dns") {
				a.Ops = append(a.Ops, Op{Kind: "hs", Host: i, Sni: h.Name, Held: true}, Op{Kind: "get", Host: i, Sni: h.Name, Held: true})
			}
		}
		a.Ops = append(a.Ops,
			Op{Kind: "get", Host: 0, Sni: "other.example.org", Held: true},
			Op{Kind: "hs", API: "tls", Sni: "held.example.com", Held: true},
			Op{Kind: "get", API: "tls", Held: true}, // still refused
		)
		out = append(out, a)

		// (b) tunnels through the proxy, idle past a 1 s validity
		b := Case{Org: "Timing Org", CA: caKind, ValidityMs: 1000, Hosts: []Host{
			dnsHost("idle-nosni.example.com", 443), dnsHost("Idle-Sni.Example.com", 8443), ipHost("10.20.30.40", 443),
			ipHost("2001:db8::77", 443), dnsHost("nogap.example.com", 443),
		}}
		b.Ops = []Op{
			{Kind: "tunnels", Workers: []Worker{
				{Host: 0, Gap: true}, {Host: 1, Sni: "Idle-Sni.Example.com", Gap: true}, {Host: 2, Gap: true}, {Host: 3, Gap: true},
				{Host: 4}, {Host: 0, Sni: "other.example.org", Gap: true},
			}},
			{Kind: "get", Host: 0},
		}
		out = append(out, b)
	}
	// (c) the configured validity itself: years, up to the largest time.Duration
	for _, ms := range []int{100 * yearMs, 146 * yearMs, 147 * yearMs, 200 * yearMs, 290 * yearMs, maxValidityMs} {
		c := Case{Org: "Timing Org", ValidityMs: ms, Hosts: []Host{dnsHost("forever.example.com", 443), ipHost("10.20.30.40", 443)}}
		c.Ops = []Op{{Kind: "get", Host: 0}, {Kind: "get", Host: 0}, {Kind: "hs", Host: 1, Std: true}, {Kind: "hs", Host: 0, Sni: "Forever.Example.com", Std: true, TLS12: true}}
		out = append(out, c)
	}
	return out
}

var propLongrun = &kit.Prop[Case]{
	ID: "C06", Name: "longrun",
	Rule:       "fixed histories about what a configuration does AFTER something else: (a) a request that cannot be served - raw UTF-8 IDN as SNI (direct, handshake, through Config.TLS()), as CONNECT authority, as CONNECT through a real proxy, an authority with a non-UTF-8 byte - followed by ordinary requests for new and for cached hosts (direct, handshake, tunnel), all of which must return within the liveness bound and verify; (b) 260 distinct names through one configuration, each judged, all again in another order, earlier hosts again, then 40 more; (c, thorough only) SetValidity(2s): 120 names, a sleep past the validity, the same 120 names re-issued; " + oracleText + "; non-trivial = an ordinary request after an unservable one, or a history of 160+ names",
	Run:        journaled("longrun", func(c Case) kit.Verdict { return run("longrun", c) }),
	NonTrivial: func(c Case) bool { ci := analyse(c); return ci.afterOdd || ci.long },
	Classes:    classes,
}

func longrunCases() []Case {
	hosts := func() []Host {
		return []Host{dnsHost("after.example.com", 443), dnsHost("Cached.Example.org", 8443), ipHost("10.9.8.7", 443), ipHost("2001:db8::99", 443)}
	}
	ordinary := []Op{
		{Kind: "get", Host: 0}, {Kind: "get", Host: 1}, {Kind: "hs", Host: 2}, {Kind: "hs", Host: 3, TLS12: true},
		{Kind: "hs", Host: 0, Sni: "fresh-after.example.net", Std: true}, {Kind: "get", API: "tls", Sni: "via-tls.example.net"},
	}
	var out []Case
	for _, odd := range [][]Op{
		{{Kind: "get", Host: 0, Sni: oddNames[0]}},
		{{Kind: "hs", Host: 0, Sni: oddNames[0]}},
		{{Kind: "hs", API: "tls", Sni: oddNames[2], TLS12: true}},
		{{Kind: "get", Host: oddUTF8}},
		{{Kind: "hs", Host: oddUTF8}},
		{{Kind: "get", Host: oddBytes}},
	} {
		c := Case{Org: "Longrun Org", Hosts: hosts()}
		c.Ops = append(c.Ops, Op{Kind: "get", Host: 1}) // one host is in the cache before
		c.Ops = append(c.Ops, odd...)
		c.Ops = append(c.Ops, ordinary...)
		out = append(out, c)
	}
	// through the proxy: CONNECT for the raw UTF-8 authority, then ordinary tunnels
	tun := Case{Org: "Longrun Org", Hosts: append(hosts(), Host{Spelling: fallbackSpelling(nil, oddUTF8), Name: oddNames[0], Class: "odd", Port: true, Canon: oddNames[0]})}
	tun.Ops = []Op{
		{Kind: "tunnels", Workers: []Worker{{Host: 1}}},
		{Kind: "tunnels", Workers: []Worker{{Host: 4}}},
		{Kind: "tunnels", Workers: []Worker{{Host: 0, Sni: oddNames[1]}}},
		{Kind: "tunnels", Workers: []Worker{{Host: 0}, {Host: 1, Sni: "Cached.Example.org"}, {Host: 2}, {Host: 3}}},
		{Kind: "get", Host: 0},
	}
	out = append(out, tun)

	long := Case{Org: "Longrun Org", Hosts: hosts()}
	long.Ops = []Op{
		{Kind: "get", Host: 0}, {Kind: "get", Host: 1},
		{Kind: "sweep", Host: 0, Count: 260, Tag: 1},
		{Kind: "get", Host: 0}, {Kind: "hs", Host: 1}, {Kind: "get", Host: 0, Sni: sweepName(1, 17)},
		{Kind: "get", Host: 0, Sni: oddNames[0]},
		{Kind: "sweep", Host: 2, Count: 40, Tag: 2},
		{Kind: "hs", Host: 3},
	}
	out = append(out, long)

	again := Case{Org: "Longrun Org", CA: "ecdsa", Short: true, Hosts: hosts()}
	again.Ops = []Op{
		{Kind: "sweep", Host: 0, Count: 120, Tag: 3},
		{Kind: "expire"},
		{Kind: "sweep", Host: 0, Count: 120, Tag: 3},
		{Kind: "hs", Host: 1},
	}
	if kit.Thorough() {
		out = append(out, again)
	}
	return out
}

// journaled writes the case where the driver looks for it when a process dies
// (the rapid checks get this from kit's Journal; Enumerate has no journal):
// a panic on a goroutine of the proxy cannot be recovered by the harness.
func journaled(check string, f func(Case) kit.Verdict) func(Case) kit.Verdict {
	return func(c Case) kit.Verdict {
		path := filepath.Join(kit.OutDir(), fmt.Sprintf("current-%d.json", kit.Shard()))
		raw, _ := json.Marshal(c)
		doc, _ := json.Marshal(map[string]interface{}{"property": "C06", "check": check, "sig": "C06/crash/" + check, "msg": "process died while running this case", "case": json.RawMessage(raw)})
		os.WriteFile(path, doc, 0o644)
		v := f(c)
		os.Remove(path)
		return v
	}
}

// budgeted wraps run for the rapid-driven checks and bounds what happens after
// the first failure. kit gives rapid 40 s of shrinking per check; rapid looks
// at that deadline only between blocks, minimising one 64-bit draw is a binary
// search of some 50 runs, and a run here costs an RSA key generation (0.15 s idle,
// 1 s on a loaded machine) or even a sleep - a quick run with three failing
// checks went to its 240 s deadline that way. Once the budget since the first
// failure of this check is spent, further shrink candidates are answered
// "passes" without being run: shrinking just stops improving. During
// shrinking a history that was already tried is answered from memory, so the
// case rapid ends up reporting is one that really failed when it was run (the
// driver's replay step runs it again for real).
func budgeted(check string, quick, thorough time.Duration) func(Case) kit.Verdict {
	var (
		firstFail time.Time
		memo      = map[string]kit.Verdict{} // shrink phase only: case -> what it did
	)
	return func(c Case) kit.Verdict {
		limit := quick
		if kit.Thorough() {
			limit = thorough
		}
		raw, _ := json.Marshal(c)
		if !firstFail.IsZero() {
			// many shrink candidates decode to a history already tried
			if v, ok := memo[string(raw)]; ok {
				return v
			}
			if time.Since(firstFail) > limit {
				return nil
			}
		}
		v := run(check, c)
		for _, f := range v {
			if !kit.Known(f.Sig) && firstFail.IsZero() {
				firstFail = time.Now()
				// rapid reads this when it starts shrinking, i.e. after the
				// run that is reporting its first failure right now (kit
				// sets 40 s at the start of every Check)
				flag.Set("rapid.shrinktime", limit.String())
			}
		}
		if !firstFail.IsZero() && len(memo) < 4096 {
			memo[string(raw)] = v
		}
		return v
	}
}

// ---------------------------------------------------------------- tests

func TestMatrix(t *testing.T) {
	if kit.Race() {
		t.Skip("sequential matrix adds nothing under the race detector")
	}
	propMatrix.Enumerate(t, func(yield func(Case) bool) {
		for _, c := range matrixCases() {
			if !yield(c) {
				return
			}
		}
	})
}

func TestTiming(t *testing.T) {
	if kit.Race() {
		t.Skip("fixed sequential histories; the expiry check covers the same ops under the race detector")
	}
	propTiming.Enumerate(t, func(yield func(Case) bool) {
		for _, c := range timingCases() {
			if !yield(c) {
				return
			}
		}
	})
}

func TestLongrun(t *testing.T) {
	if kit.Race() {
		t.Skip("fixed sequential histories; the rapid checks run the same ops under the race detector")
	}
	propLongrun.Enumerate(t, func(yield func(Case) bool) {
		for _, c := range longrunCases() {
			if !yield(c) {
				return
			}
		}
	})
}

func TestMachine(t *testing.T) {
	n := kit.N(60, 200)
	if kit.Race() {
		n = kit.N(6, 30)
	}
	propMachine.Check(t, n)
}

func TestConcurrent(t *testing.T) {
	n := kit.N(25, 120)
	if kit.Race() {
		n = kit.N(12, 60)
	}
	propConcurrent.Check(t, n)
}

func TestExpiry(t *testing.T) {
	n := kit.N(4, 6)
	if kit.Race() {
		n = kit.N(1, 3)
	}
	propExpiry.Check(t, n)
}

func TestReplay(t *testing.T) {
	kit.Replay(t, propMachine, propExpiry, propConcurrent, propMatrix, propTiming, propLongrun)
}
