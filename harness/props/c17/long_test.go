package c17

import (
	"fmt"
	"testing"

	"github.com/google/martian/v3/har"
	"pgregory.net/rapid"

	"verifharness/internal/kit"
)

// ---------------------------------------------------------------- long captures

// LongCase is a capture far longer than the sequential histories: N requests
// are recorded on one logger, every RespEvery-th of them gets its response
// (0 = none), and after the DrainAt-th request (0 = never) the completed
// entries are taken out once with ExportAndReset. The statement has no bound
// on the number of entries between two resets.
type LongCase struct {
	N         int `json:"n"`
	RespEvery int `json:"resp_every,omitempty"`
	DrainAt   int `json:"drain_at,omitempty"`
}

func firstDiff(got []*har.Entry, want []mentry) string {
	if len(got) != len(want) {
		first := "none in the common prefix"
		for i := 0; i < len(got) && i < len(want); i++ {
			if got[i].ID != want[i].id {
				first = fmt.Sprintf("position %d holds %s, model says %s", i, got[i].ID, want[i].id)
				break
			}
		}
		return fmt.Sprintf("%d entries, model says %d (first difference: %s)", len(got), len(want), first)
	}
	for i := range got {
		rq, rs, has := entryMarker(got[i])
		if got[i].ID != want[i].id || rq != want[i].marker || has != (want[i].resp != "") || rs != want[i].resp {
			return fmt.Sprintf("position %d of %d holds (%s req=%s res=%s), model says (%s req=%s res=%s)", i, len(got), got[i].ID, rq, rs, want[i].id, want[i].marker, want[i].resp)
		}
	}
	return ""
}

func runLong(c LongCase) kit.Verdict {
	l := har.NewLogger()
	var model []mentry
	split := func() (done, pending []mentry) {
		for _, e := range model {
			if e.resp != "" {
				done = append(done, e)
			} else {
				pending = append(pending, e)
			}
		}
		return
	}
	for i := 0; i < c.N; i++ {
		id := fmt.Sprintf("L%d", i)
		marker := fmt.Sprintf("m%d", i)
		req := mkReq(id, marker)
		if err := l.RecordRequest(id, req); err != nil {
			return kit.Failf("C17/long/fresh-id-rejected", "request %d of %d: RecordRequest(%s) = %v", i, c.N, id, err)
		}
		model = append(model, mentry{id: id, marker: marker})
		if c.RespEvery > 0 && i%c.RespEvery == 0 {
			rm := fmt.Sprintf("r%d", i)
			if err := l.RecordResponse(id, mkRes(req, rm)); err != nil {
				return kit.Failf("C17/long/record-response-error", "request %d of %d: RecordResponse(%s) = %v", i, c.N, id, err)
			}
			model[len(model)-1].resp = rm
		}
		if c.DrainAt > 0 && i+1 == c.DrainAt {
			done, pending := split()
			if d := firstDiff(l.ExportAndReset().Log.Entries, done); d != "" {
				return kit.Failf("C17/long/ExportAndReset-differs-from-model", "after %d requests: ExportAndReset returned %s", i+1, d)
			}
			model = pending
		}
	}
	if d := firstDiff(l.Export().Log.Entries, model); d != "" {
		return kit.Failf("C17/long/Export-differs-from-model", "after %d requests (a response for every %d, drained after %d): Export returned %s", c.N, c.RespEvery, c.DrainAt, d)
	}
	done, pending := split()
	if d := firstDiff(l.ExportAndReset().Log.Entries, done); d != "" {
		return kit.Failf("C17/long/ExportAndReset-differs-from-model", "after %d requests (a response for every %d, drained after %d): ExportAndReset returned %s", c.N, c.RespEvery, c.DrainAt, d)
	}
	if d := firstDiff(l.Export().Log.Entries, pending); d != "" {
		return kit.Failf("C17/long/Export-after-drain-differs-from-model", "after %d requests and ExportAndReset: Export returned %s", c.N, d)
	}
	// the pending ones complete later and come out exactly once
	for i := range pending {
		rm := "late-" + pending[i].marker
		if err := l.RecordResponse(pending[i].id, mkRes(mkReq(pending[i].id, pending[i].marker), rm)); err != nil {
			return kit.Failf("C17/long/record-response-error", "late response for %s: %v", pending[i].id, err)
		}
		pending[i].resp = rm
	}
	if d := firstDiff(l.ExportAndReset().Log.Entries, pending); d != "" {
		return kit.Failf("C17/long/late-completions-differ-from-model", "after the %d pending entries of a %d-request capture got their responses: ExportAndReset returned %s", len(pending), c.N, d)
	}
	if n := len(l.Export().Log.Entries); n != 0 {
		return kit.Failf("C17/long/entries-left-after-everything-was-drained", "%d entries left", n)
	}
	return nil
}

var propLong = &kit.Prop[LongCase]{
	ID: "C17", Name: "long-capture", Rule: "captures of 1 000 - 140 000 exchanges on one logger between resets (sizes around powers of two and ten drawn explicitly), a response for every k-th request, one optional ExportAndReset on the way; every export compared with the model entry by entry; non-trivial = more than 4 096 entries live at once",
	Run:        runLong,
	NonTrivial: func(c LongCase) bool { return c.N > 4096 },
	Classes: func(c LongCase) []string {
		var cl []string
		switch {
		case c.N > 65536:
			cl = append(cl, "more-than-65536-entries")
		case c.N > 10000:
			cl = append(cl, "more-than-10000-entries")
		}
		if c.RespEvery == 0 {
			cl = append(cl, "all-pending")
		}
		if c.DrainAt > 0 {
			cl = append(cl, "drained-on-the-way")
		}
		return cl
	},
	Gen: func(t *rapid.T) LongCase {
		base := rapid.SampledFrom([]int{1000, 1024, 4096, 8192, 10000, 16384, 20000, 32768, 50000, 65536, 100000, 131072}).Draw(t, "base")
		n := base + rapid.IntRange(-2, 3000).Draw(t, "delta")
		c := LongCase{N: n, RespEvery: rapid.SampledFrom([]int{0, 1, 1, 2, 3, 7, 1000}).Draw(t, "resp_every")}
		if rapid.Bool().Draw(t, "drain") {
			c.DrainAt = rapid.IntRange(1, n).Draw(t, "drain_at")
		}
		return c
	},
}

func init() { kit.Register(propLong) }

func TestLongCapture(t *testing.T) {
	if kit.Race() {
		t.Skip("sequential")
	}
	// the sizes every run sees, whatever the seed
	propLongFixed.Enumerate(t, func(yield func(LongCase) bool) {
		for _, c := range []LongCase{
			{N: 10001, RespEvery: 1}, {N: 12000, RespEvery: 2}, {N: 12000}, {N: 20000, RespEvery: 3, DrainAt: 15000},
			{N: 65537, RespEvery: 1}, {N: 70000, RespEvery: 7, DrainAt: 66000}, {N: 140000, RespEvery: 2},
		} {
			if !yield(c) {
				return
			}
		}
	})
	propLong.Check(t, kit.N(12, 120))
}

var propLongFixed = &kit.Prop[LongCase]{
	ID: "C17", Name: "long-capture-fixed", Rule: "seven fixed long captures (10 001 - 140 000 exchanges; all completed, half completed, none completed, drained on the way), every export compared with the model entry by entry",
	Run: runLong, NonTrivial: func(c LongCase) bool { return c.N > 4096 },
}
