// Package c17 decides property C17: the HAR log returns every exchange once,
// in arrival order, across any history.
package c17

import (
	"encoding/json"
	"errors"
	"fmt"
	"github.com/google/martian/v3"
	"io"
	"net/http"
	"net/http/httptest"
	"os"
	"strings"
	"sync"
	"sync/atomic"
	"testing"
	"time"

	"github.com/google/martian/v3/har"
	"pgregory.net/rapid"

	"verifharness/internal/kit"
)

func TestMain(m *testing.M) { kit.Main(m, "C17") }

// ---------------------------------------------------------------- sequential model

// Op is one call on the log. Kind: Q=RecordRequest, R=RecordResponse,
// E=Export, X=ExportAndReset, Z=Reset.
type Op struct {
	Kind string `json:"k"`
	ID   int    `json:"id,omitempty"`
	// Status of the response recorded by R / SR (0 = 200). Bad: the message
	// cannot be converted (R: a body whose read fails;
	// Q: a body whose read fails): the call fails and leaves the log
	// as it was.
	Status int  `json:"status,omitempty"`
	Bad    bool `json:"bad,omitempty"`
	// Head (R): the answer to a HEAD request - the length of the representation
	// in Content-Length, and no body.
	Head bool `json:"head,omitempty"`
}

// Kinds SQ / SR: the same exchange goes through Logger.ModifyRequest /
// ModifyResponse with a martian context on which SkipRoundTrip() was called (an
// exchange the proxy answers itself); its entry ID is the context's.

// Case is an operation history, optionally driven through the HTTP handlers.
type Case struct {
	Ops      []Op `json:"ops"`
	Handlers bool `json:"handlers,omitempty"`
	// Twin: a second, independent logger sits in the same modifier chain (as
	// mobile/proxy.go wires /logs/original and /logs): 1 = behind the checked
	// logger, 2 = in front of it. It sees the SQ / SR exchanges only, is never
	// reset, and must not change what the checked logger holds.
	Twin int `json:"twin,omitempty"`
}

type skippedEx struct {
	req    *http.Request
	ctxID  string
	remove func()
}

type mentry struct {
	id     string
	marker string
	resp   string // marker of the attached response, "" if pending
}

var serial uint64

func mkReq(id string, marker string) *http.Request {
	req, err := http.NewRequest("GET", "http://example.com/"+id+"?m="+marker, nil)
	if err != nil {
		panic(err)
	}
	return req
}

func mkRes(req *http.Request, marker string) *http.Response {
	return &http.Response{
		StatusCode: 200, Proto: "HTTP/1.1", ProtoMajor: 1, ProtoMinor: 1,
		Header:  http.Header{"X-Marker": []string{marker}},
		Body:    http.NoBody,
		Request: req,
	}
}

func mkResOp(req *http.Request, marker string, op Op) *http.Response {
	res := mkRes(req, marker)
	if op.Status != 0 {
		res.StatusCode = op.Status
	}
	if op.Head && !op.Bad {
		hr := req.Clone(req.Context())
		hr.Method = "HEAD"
		res.Request, res.Body, res.ContentLength = hr, http.NoBody, 1234
		res.Header.Set("Content-Length", "1234")
	}
	if op.Bad {
		res.StatusCode = 200                            // (bodies of other statuses are not necessarily looked at)
		res.Body, res.ContentLength = failingBody{}, 16 // the origin went away inside the body
	}
	return res
}

type failingBody struct{}

func (failingBody) Read([]byte) (int, error) { return 0, errors.New("verif: upload aborted") }
func (failingBody) Close() error             { return nil }

// mkBadReq is a request whose body cannot be read to its end (an aborted upload).
func mkBadReq(id, marker string) *http.Request {
	req, err := http.NewRequest("POST", "http://example.com/"+id+"?m="+marker, nil)
	if err != nil {
		panic(err)
	}
	req.Body, req.ContentLength = failingBody{}, 5
	req.Header.Set("Content-Type", "application/x-www-form-urlencoded")
	return req
}

func entryMarker(e *har.Entry) (reqMarker, resMarker string, hasRes bool) {
	if e.Request != nil {
		if i := strings.Index(e.Request.URL, "?m="); i >= 0 {
			reqMarker = e.Request.URL[i+3:]
		}
	}
	if e.Response != nil {
		hasRes = true
		for _, h := range e.Response.Headers {
			if h.Name == "X-Marker" {
				resMarker = h.Value
			}
		}
	}
	return
}

func describe(es []*har.Entry) string {
	var sb strings.Builder
	for _, e := range es {
		rq, rs, has := entryMarker(e)
		fmt.Fprintf(&sb, "(%s req=%s", e.ID, rq)
		if has {
			fmt.Fprintf(&sb, " res=%s", rs)
		}
		sb.WriteString(")")
	}
	return sb.String()
}

func describeModel(ms []mentry) string {
	var sb strings.Builder
	for _, e := range ms {
		fmt.Fprintf(&sb, "(%s req=%s", e.id, e.marker)
		if e.resp != "" {
			fmt.Fprintf(&sb, " res=%s", e.resp)
		}
		sb.WriteString(")")
	}
	return sb.String()
}

func compare(step int, op Op, what string, got []*har.Entry, want []mentry) kit.Verdict {
	ok := len(got) == len(want)
	if ok {
		for i := range got {
			rq, rs, has := entryMarker(got[i])
			if got[i].ID != want[i].id || rq != want[i].marker || has != (want[i].resp != "") || rs != want[i].resp {
				ok = false
				break
			}
		}
	}
	if ok {
		return nil
	}
	return kit.Failf("C17/sequential/"+what+"-differs-from-model", "step %d (%s %d): %s returned %s, model says %s", step, op.Kind, op.ID, what, describe(got), describeModel(want))
}

func decodeHAR(body []byte) ([]*har.Entry, error) {
	var h har.HAR
	if err := json.Unmarshal(body, &h); err != nil {
		return nil, err
	}
	if h.Log == nil {
		return nil, fmt.Errorf("no log in %q", body)
	}
	return h.Log.Entries, nil
}

func runSequential(c Case) kit.Verdict {
	l := har.NewLogger()
	exportH, resetH := har.NewExportHandler(l), har.NewResetHandler(l)
	var model, model2 []mentry
	var l2 *har.Logger
	if c.Twin > 0 {
		l2 = har.NewLogger()
	}
	chain := []*har.Logger{l}
	switch c.Twin {
	case 1:
		chain = []*har.Logger{l, l2}
	case 2:
		chain = []*har.Logger{l2, l}
	}
	reqs := map[string]*http.Request{}
	skipped := map[int]*skippedEx{}
	defer func() {
		for _, ex := range skipped {
			ex.remove()
		}
	}()
	for step, op := range c.Ops {
		id := fmt.Sprintf("id%d", op.ID)
		switch op.Kind {
		case "Q":
			serial++
			marker := fmt.Sprintf("m%d", serial)
			req := mkReq(id, marker)
			if op.Bad {
				req = mkBadReq(id, marker)
			}
			err := l.RecordRequest(id, req)
			if op.Bad {
				if err == nil {
					return kit.Failf("C17/sequential/unconvertible-request-accepted", "step %d: RecordRequest(%s) of a request whose body cannot be read returned nil", step, id)
				}
				break // the log is as it was
			}
			dup := false
			for _, e := range model {
				if e.id == id {
					dup = true
				}
			}
			if dup && err == nil {
				return kit.Failf("C17/sequential/duplicate-id-accepted", "step %d: RecordRequest(%s) for an ID already in the log returned nil", step, id)
			}
			if !dup && err != nil {
				return kit.Failf("C17/sequential/fresh-id-rejected", "step %d: RecordRequest(%s) = %v, the ID is not in the log", step, id, err)
			}
			if !dup {
				model = append(model, mentry{id: id, marker: marker})
				reqs[id] = req
			}
		case "R":
			serial++
			marker := fmt.Sprintf("r%d", serial)
			req := reqs[id]
			if req == nil {
				req = mkReq(id, "orphan")
			}
			err := l.RecordResponse(id, mkResOp(req, marker, op))
			known := false
			for _, e := range model {
				known = known || e.id == id
			}
			if op.Bad && !known {
				break // a response for an ID the log does not hold is ignored unseen
			}
			if op.Bad {
				if err == nil {
					return kit.Failf("C17/sequential/unconvertible-response-accepted", "step %d: RecordResponse(%s) of a response whose body cannot be read returned nil", step, id)
				}
				break // the log is as it was: the entry, if any, is still pending
			}
			if err != nil {
				return kit.Failf("C17/sequential/record-response-error", "step %d: RecordResponse(%s) (status %d) = %v", step, id, op.Status, err)
			}
			for i := range model {
				if model[i].id == id {
					model[i].resp = marker
				}
			}
		case "SQ":
			serial++
			marker := fmt.Sprintf("m%d", serial)
			req := mkReq(id, marker)
			ctx, remove, err := martian.TestContext(req, nil, nil)
			if err != nil {
				return kit.Failf("C17/harness/context", "%v", err)
			}
			ctx.SkipRoundTrip()
			if old := skipped[op.ID]; old != nil {
				old.remove()
			}
			skipped[op.ID] = &skippedEx{req: req, ctxID: ctx.ID(), remove: remove}
			for _, lg := range chain {
				if err := lg.ModifyRequest(req); err != nil {
					return kit.Failf("C17/sequential/modify-request-error", "step %d: ModifyRequest = %v", step, err)
				}
			}
			model = append(model, mentry{id: ctx.ID(), marker: marker})
			if l2 != nil {
				model2 = append(model2, mentry{id: ctx.ID(), marker: marker})
			}
		case "SR":
			ex := skipped[op.ID]
			if ex == nil {
				break
			}
			serial++
			marker := fmt.Sprintf("r%d", serial)
			res := mkResOp(ex.req, marker, Op{Status: op.Status})
			for i := len(chain) - 1; i >= 0; i-- { // response modifiers run in reverse order in a stack; either order must do
				if err := chain[i].ModifyResponse(res); err != nil {
					return kit.Failf("C17/sequential/modify-response-error", "step %d: ModifyResponse = %v", step, err)
				}
			}
			for i := range model {
				if model[i].id == ex.ctxID {
					model[i].resp = marker
				}
			}
			for i := range model2 {
				if model2[i].id == ex.ctxID {
					model2[i].resp = marker
				}
			}
		case "E":
			var got []*har.Entry
			if c.Handlers {
				rw := httptest.NewRecorder()
				exportH.ServeHTTP(rw, httptest.NewRequest("GET", "/logs", nil))
				var err error
				if got, err = decodeHAR(rw.Body.Bytes()); err != nil || rw.Code != 200 {
					return kit.Failf("C17/handlers/export-bad-answer", "step %d: export handler answered %d, %v", step, rw.Code, err)
				}
			} else {
				got = l.Export().Log.Entries
			}
			if v := compare(step, op, "Export", got, model); v != nil {
				return v
			}
		case "X":
			var got []*har.Entry
			if c.Handlers {
				rw := httptest.NewRecorder()
				resetH.ServeHTTP(rw, httptest.NewRequest("DELETE", "/logs/reset?return=true", nil))
				var err error
				if got, err = decodeHAR(rw.Body.Bytes()); err != nil || rw.Code != 200 {
					return kit.Failf("C17/handlers/reset-return-bad-answer", "step %d: reset handler answered %d, %v", step, rw.Code, err)
				}
			} else {
				got = l.ExportAndReset().Log.Entries
			}
			var done, pending []mentry
			for _, e := range model {
				if e.resp != "" {
					done = append(done, e)
				} else {
					pending = append(pending, e)
				}
			}
			if v := compare(step, op, "ExportAndReset", got, done); v != nil {
				return v
			}
			model = pending
			for _, e := range done {
				delete(reqs, e.id)
			}
		case "Z":
			if c.Handlers {
				rw := httptest.NewRecorder()
				resetH.ServeHTTP(rw, httptest.NewRequest("DELETE", "/logs/reset", nil))
				if rw.Code != 204 {
					return kit.Failf("C17/handlers/reset-status", "step %d: reset handler answered %d, want 204", step, rw.Code)
				}
			} else {
				l.Reset()
			}
			model = nil
			reqs = map[string]*http.Request{}
		}
		// invariant after every step: a plain export equals the model
		if v := compare(step, op, "Export(after-step)", l.Export().Log.Entries, model); v != nil {
			return v
		}
		if l2 != nil {
			if v := compare(step, op, "twin-logger-Export(after-step)", l2.Export().Log.Entries, model2); v != nil {
				return v
			}
		}
	}
	return nil
}

func nontrivialSeq(c Case) bool {
	// an ExportAndReset with both pending and completed entries present, or a
	// reset followed by re-use of an ID.
	pending, done := map[int]bool{}, map[int]bool{}
	everReset := map[int]bool{}
	for _, op := range c.Ops {
		switch op.Kind {
		case "Q":
			if !pending[op.ID] && !done[op.ID] {
				if everReset[op.ID] {
					return true
				}
				pending[op.ID] = true
			}
		case "R":
			if pending[op.ID] {
				delete(pending, op.ID)
				done[op.ID] = true
			}
		case "X":
			if len(pending) > 0 && len(done) > 0 {
				return true
			}
			for id := range done {
				everReset[id] = true
			}
			done = map[int]bool{}
		case "Z":
			for id := range done {
				everReset[id] = true
			}
			for id := range pending {
				everReset[id] = true
			}
			pending, done = map[int]bool{}, map[int]bool{}
		}
	}
	return false
}

func classesSeq(c Case) []string {
	var cl []string
	hasX, hasZ := false, false
	for _, op := range c.Ops {
		hasX = hasX || op.Kind == "X"
		hasZ = hasZ || op.Kind == "Z"
	}
	if hasX {
		cl = append(cl, "has-export-and-reset")
	}
	if hasZ {
		cl = append(cl, "has-reset")
	}
	if c.Handlers {
		cl = append(cl, "through-handlers")
	}
	if c.Twin > 0 {
		cl = append(cl, "twin-logger-in-the-chain")
	}
	flags := map[string]bool{}
	for _, op := range c.Ops {
		if op.Bad {
			flags["unconvertible-message"] = true
		}
		if op.Status >= 100 && op.Status < 200 {
			flags["1xx-response"] = true
		}
		if op.Head && op.Kind == "R" {
			flags["answer-to-head-with-content-length"] = true
		}
		if op.Kind == "SQ" || op.Kind == "SR" {
			flags["exchange-with-skipped-round-trip-through-the-modifier"] = true
		}
	}
	for k := range flags {
		cl = append(cl, k)
	}
	return cl
}

var seqRule = "histories of RecordRequest/RecordResponse/Export/ExportAndReset/Reset compared step by step with a list model; non-trivial = an ExportAndReset while both pending and completed entries exist, or re-use of an ID after it left the log"

var propExhaustive = &kit.Prop[Case]{
	ID: "C17", Name: "exhaustive", Rule: "ALL " + seqRule + "; sequences of fixed length L over 3 IDs (12 symbols incl. an unconvertible response, a 101 and the answer to a HEAD request), every prefix checked",
	Run: runSequential, NonTrivial: nontrivialSeq, Classes: classesSeq,
}

var propMachine = &kit.Prop[Case]{
	ID: "C17", Name: "machine", Rule: "rapid-drawn " + seqRule + "; up to 80 ops over 8 IDs (response statuses incl. 1xx, unconvertible requests and responses, exchanges with a skipped round trip through ModifyRequest/ModifyResponse), directly or through the export/reset HTTP handlers",
	Run: runSequential, NonTrivial: nontrivialSeq, Classes: classesSeq,
	Gates: map[string]float64{"nontrivial": 0.3, "through-handlers": 0.2},
	Gen: func(t *rapid.T) Case {
		n := rapid.IntRange(1, kit.N(40, 80)).Draw(t, "n")
		ids := rapid.IntRange(1, 8).Draw(t, "ids")
		c := Case{Handlers: rapid.Bool().Draw(t, "handlers"), Twin: rapid.SampledFrom([]int{0, 0, 1, 2}).Draw(t, "twin")}
		for i := 0; i < n; i++ {
			k := rapid.SampledFrom([]string{"Q", "Q", "Q", "R", "R", "R", "E", "X", "X", "Z", "SQ", "SR"}).Draw(t, "kind")
			op := Op{Kind: k}
			if k == "Q" || k == "R" || k == "SQ" || k == "SR" {
				op.ID = rapid.IntRange(0, ids-1).Draw(t, "id")
			}
			if k == "R" || k == "SR" {
				op.Status = rapid.SampledFrom([]int{0, 0, 0, 101, 100, 204, 304, 404, 500}).Draw(t, "status")
			}
			if (k == "Q" || k == "R") && rapid.IntRange(0, 7).Draw(t, "bad") == 0 {
				op.Bad = true
			}
			if k == "R" && !op.Bad && rapid.IntRange(0, 7).Draw(t, "head") == 0 {
				op.Head = true
			}
			c.Ops = append(c.Ops, op)
		}
		return c
	},
}

func TestExhaustive(t *testing.T) {
	if kit.Race() {
		t.Skip("sequential enumeration adds nothing under the race detector")
	}
	L := kit.N(5, 6)
	alphabet := []Op{{Kind: "Q", ID: 0}, {Kind: "Q", ID: 1}, {Kind: "Q", ID: 2}, {Kind: "R", ID: 0}, {Kind: "R", ID: 1}, {Kind: "R", ID: 2}, {Kind: "E"}, {Kind: "X"}, {Kind: "Z"},
		{Kind: "R", ID: 0, Bad: true}, {Kind: "R", ID: 1, Status: 101}, {Kind: "R", ID: 2, Head: true}}
	propExhaustive.Enumerate(t, func(yield func(Case) bool) {
		idx := make([]int, L)
		for {
			ops := make([]Op, L)
			for i, a := range idx {
				ops[i] = alphabet[a]
			}
			if !yield(Case{Ops: ops}) {
				return
			}
			i := L - 1
			for i >= 0 {
				idx[i]++
				if idx[i] < len(alphabet) {
					break
				}
				idx[i] = 0
				i--
			}
			if i < 0 {
				return
			}
		}
	})
}

func TestMachine(t *testing.T) {
	if kit.Race() {
		t.Skip()
	}
	propMachine.Check(t, kit.N(3000, 20000))
}

// ---------------------------------------------------------------- concurrent

// ConcCase describes a concurrent execution: producers record request then
// response for private IDs; exporters mix Export and ExportAndReset.
type ConcCase struct {
	Producers   int      `json:"producers"`
	PerProducer int      `json:"per_producer"`
	Exporters   []string `json:"exporters"` // one string of E/X ops per exporter goroutine
	Handlers    bool     `json:"handlers,omitempty"`
	Yield       int      `json:"yield"` // Gosched calls between producer steps
	// Dups: number of IDs for which several goroutines call RecordRequest at
	// the same moment (POST bodies whose reads yield the processor): exactly one
	// call per ID may succeed, and the ID must be in the log once.
	Dups       int `json:"dups,omitempty"`
	Contenders int `json:"contenders,omitempty"`
}

// yieldingBody is a request body whose reads give other goroutines a chance to run.
type yieldingBody struct {
	data []byte
	off  int
}

func (b *yieldingBody) Read(p []byte) (int, error) {
	runtimeGosched()
	if b.off >= len(b.data) {
		return 0, io.EOF
	}
	n := 1 + len(b.data)/4
	if n > len(p) {
		n = len(p)
	}
	if b.off+n > len(b.data) {
		n = len(b.data) - b.off
	}
	copy(p, b.data[b.off:b.off+n])
	b.off += n
	time.Sleep(50 * time.Microsecond)
	return n, nil
}

func (b *yieldingBody) Close() error { return nil }

type exportObs struct {
	kind       byte
	start, end int64
	ids        []string
	complete   []bool
	markersOK  bool
}

func runConcurrent(c ConcCase) kit.Verdict {
	l := har.NewLogger()
	exportH, resetH := har.NewExportHandler(l), har.NewResetHandler(l)
	var clock int64
	var wg sync.WaitGroup
	var obsMu sync.Mutex
	var obs []exportObs
	var fails kit.Verdict
	recordedAt := map[string]int64{} // id -> clock after RecordResponse returned
	requestedAt := map[string]int64{}
	var recMu sync.Mutex

	doExport := func(kind byte) {
		start := atomic.AddInt64(&clock, 1)
		var es []*har.Entry
		if c.Handlers {
			rw := httptest.NewRecorder()
			if kind == 'E' {
				exportH.ServeHTTP(rw, httptest.NewRequest("GET", "/logs", nil))
			} else {
				resetH.ServeHTTP(rw, httptest.NewRequest("DELETE", "/logs/reset?return=true", nil))
			}
			var err error
			es, err = decodeHAR(rw.Body.Bytes())
			if err != nil {
				obsMu.Lock()
				fails.Addf("C17/concurrent/handler-answer-unparseable", "handler %c answered %d with a body that is not a HAR log: %v", kind, rw.Code, err)
				obsMu.Unlock()
				return
			}
		} else if kind == 'E' {
			es = l.Export().Log.Entries
		} else {
			es = l.ExportAndReset().Log.Entries
		}
		end := atomic.AddInt64(&clock, 1)
		o := exportObs{kind: kind, start: start, end: end, markersOK: true}
		for _, e := range es {
			o.ids = append(o.ids, e.ID)
			// Entries handed out by Export stay shared with the log: only those
			// removed by ExportAndReset (or decoded from JSON) are read further.
			if kind == 'X' || c.Handlers {
				rq, rs, has := entryMarker(e)
				o.complete = append(o.complete, has)
				if has && rs != "r-"+rq {
					o.markersOK = false
				}
			}
		}
		obsMu.Lock()
		obs = append(obs, o)
		obsMu.Unlock()
	}

	for p := 0; p < c.Producers; p++ {
		wg.Add(1)
		go func(p int) {
			defer wg.Done()
			for i := 0; i < c.PerProducer; i++ {
				id := fmt.Sprintf("p%d-%04d", p, i)
				marker := fmt.Sprintf("%d.%d", p, i)
				req := mkReq(id, marker)
				qs := atomic.AddInt64(&clock, 1)
				if err := l.RecordRequest(id, req); err != nil {
					obsMu.Lock()
					fails.Addf("C17/concurrent/fresh-id-rejected", "RecordRequest(%s) = %v", id, err)
					obsMu.Unlock()
				}
				for y := 0; y < c.Yield; y++ {
					runtimeGosched()
				}
				l.RecordResponse(id, mkRes(req, "r-"+marker))
				at := atomic.AddInt64(&clock, 1)
				recMu.Lock()
				recordedAt[id] = at
				requestedAt[id] = qs
				recMu.Unlock()
			}
		}(p)
	}
	dupOK := make([]int32, c.Dups)
	for d := 0; d < c.Dups; d++ {
		for k := 0; k < c.Contenders; k++ {
			wg.Add(1)
			go func(d, k int) {
				defer wg.Done()
				id := fmt.Sprintf("dup-%d", d)
				req, _ := http.NewRequest("POST", "http://example.com/"+id+"?m=dup", nil)
				req.Body = &yieldingBody{data: []byte("contender body of some length")}
				req.ContentLength = -1
				req.Header.Set("Content-Type", "text/plain")
				if err := l.RecordRequest(id, req); err == nil {
					atomic.AddInt32(&dupOK[d], 1)
				}
			}(d, k)
		}
	}
	for _, prog := range c.Exporters {
		wg.Add(1)
		go func(prog string) {
			defer wg.Done()
			for i := 0; i < len(prog); i++ {
				doExport(prog[i])
				runtimeGosched()
			}
		}(prog)
	}
	wg.Wait()
	for d := 0; d < c.Dups; d++ {
		id := fmt.Sprintf("dup-%d", d)
		if n := atomic.LoadInt32(&dupOK[d]); n != 1 {
			fails.Addf("C17/concurrent/duplicate-id/accepted-count", "%d concurrent RecordRequest calls for ID %s: %d succeeded, want exactly 1", c.Contenders, id, n)
		}
		n := 0
		for _, e := range l.Export().Log.Entries {
			if e.ID == id {
				n++
			}
		}
		if n != 1 {
			fails.Addf("C17/concurrent/duplicate-id/entries-in-log", "after %d concurrent RecordRequest calls ID %s is in the log %d times, want 1", c.Contenders, id, n)
		}
		l.RecordResponse(id, mkRes(mkReq(id, "dup"), "r-dup"))
	}
	doExport('X') // final drain
	doExport('E') // must be empty now
	if len(fails) > 0 {
		return fails
	}

	total := c.Producers * c.PerProducer
	returned := map[string]int{}
	for _, o := range obs {
		seenIn := map[string]bool{}
		lastIdx := map[string]int{}
		for k, id := range o.ids {
			if seenIn[id] {
				return kit.Failf("C17/concurrent/duplicate-in-one-export", "%c returned %s twice: %v", o.kind, id, o.ids)
			}
			seenIn[id] = true
			if strings.HasPrefix(id, "dup-") {
				if o.kind == 'X' {
					returned[id]++
				}
				continue
			}
			var p, i int
			fmt.Sscanf(id, "p%d-%d", &p, &i)
			key := fmt.Sprint(p)
			if prev, ok := lastIdx[key]; ok && i < prev {
				return kit.Failf("C17/concurrent/order-within-producer", "%c returned producer %d's entries out of arrival order: %v", o.kind, p, o.ids)
			}
			lastIdx[key] = i
			if o.kind == 'X' {
				returned[id]++
				if len(o.complete) > k && !o.complete[k] {
					return kit.Failf("C17/concurrent/pending-entry-exported-by-reset", "ExportAndReset returned %s without a response", id)
				}
			}
		}
		if !o.markersOK {
			return kit.Failf("C17/concurrent/response-attached-to-wrong-request", "%c returned an entry whose response marker is not its request's: %v", o.kind, o.ids)
		}
	}
	for p := 0; p < c.Producers; p++ {
		for i := 0; i < c.PerProducer; i++ {
			id := fmt.Sprintf("p%d-%04d", p, i)
			if returned[id] != 1 {
				return kit.Failf("C17/concurrent/completed-entry-not-returned-exactly-once", "entry %s was returned by %d ExportAndReset calls over the life of the log (want 1; %d entries in total)", id, returned[id], total)
			}
		}
	}
	for d := 0; d < c.Dups; d++ {
		id := fmt.Sprintf("dup-%d", d)
		if returned[id] != 1 && len(fails) == 0 {
			return kit.Failf("C17/concurrent/duplicate-id/returned-count", "ID %s (recorded by concurrent callers) was returned by %d ExportAndReset calls, want 1", id, returned[id])
		}
	}
	if len(fails) > 0 {
		return fails
	}
	// real-time order: an entry removed by an ExportAndReset that returned
	// before a later export started must not be in that later export; an entry
	// whose request was recorded before an Export started, and not removed by
	// an ExportAndReset that started before that Export ended, must be in it.
	removedAt := map[string][2]int64{}
	for _, o := range obs {
		if o.kind == 'X' {
			for _, id := range o.ids {
				removedAt[id] = [2]int64{o.start, o.end}
			}
		}
	}
	for _, o := range obs {
		in := map[string]bool{}
		for _, id := range o.ids {
			in[id] = true
			if r, ok := removedAt[id]; ok && r[1] < o.start && !(o.kind == 'X' && r[0] == o.start) {
				return kit.Failf("C17/concurrent/resurrected-entry", "%c (started at %d) returned %s, which an ExportAndReset that returned at %d had already removed", o.kind, o.start, id, r[1])
			}
		}
		if o.kind == 'E' {
			for id, at := range recordedAt {
				_ = at
				r, removed := removedAt[id]
				if requestedAt[id] != 0 && recordedAt[id] < o.start && (!removed || r[0] > o.end) && !in[id] {
					return kit.Failf("C17/concurrent/entry-missing-from-export", "Export [%d,%d] lacks %s, recorded at %d and not removed before", o.start, o.end, id, recordedAt[id])
				}
			}
		}
	}
	last := obs[len(obs)-1]
	if len(last.ids) != 0 {
		return kit.Failf("C17/concurrent/log-not-empty-after-drain", "after the final ExportAndReset the log still holds %v", last.ids)
	}
	return nil
}

var propConcurrent = &kit.Prop[ConcCase]{
	ID: "C17", Name: "concurrent",
	Rule: "p producer goroutines (request then response on private IDs) against e exporter goroutines mixing Export/ExportAndReset, final drain; every completed ID returned by exactly one ExportAndReset, program order per producer, real-time order respected; non-trivial = at least 2 producers and one concurrent ExportAndReset",
	Run:  runConcurrent,
	NonTrivial: func(c ConcCase) bool {
		return c.Producers >= 2 && strings.Contains(strings.Join(c.Exporters, ""), "X")
	},
	Classes: func(c ConcCase) []string {
		var out []string
		if c.Handlers {
			out = append(out, "through-handlers")
		}
		if c.Dups > 0 {
			out = append(out, "concurrent-duplicate-ids")
		}
		return out
	},
	Gen: func(t *rapid.T) ConcCase {
		c := ConcCase{
			Producers:   rapid.IntRange(1, 6).Draw(t, "producers"),
			PerProducer: rapid.IntRange(1, 40).Draw(t, "per_producer"),
			Handlers:    rapid.Bool().Draw(t, "handlers"),
			Yield:       rapid.IntRange(0, 3).Draw(t, "yield"),
		}
		if rapid.Bool().Draw(t, "has_dups") {
			c.Dups = rapid.IntRange(1, 3).Draw(t, "dups")
			c.Contenders = rapid.IntRange(2, 4).Draw(t, "contenders")
		}
		ne := rapid.IntRange(1, 3).Draw(t, "exporters")
		for i := 0; i < ne; i++ {
			c.Exporters = append(c.Exporters, rapid.StringMatching("[EX]{1,12}").Draw(t, "prog"))
		}
		return c
	},
}

func TestConcurrent(t *testing.T) {
	n := kit.N(300, 3000)
	if kit.Race() {
		n = kit.N(150, 600)
	}
	propConcurrent.Check(t, n)
}

func TestReplay(t *testing.T) {
	kit.Replay(t, propExhaustive, propMachine, propConcurrent)
}

var _ = os.Getenv
