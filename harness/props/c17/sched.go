package c17

import "runtime"

func runtimeGosched() { runtime.Gosched() }
