// Package c05 decides property C05: MITM never downgrades and treats every
// tunnelled request as secure.
package c05

import (
	"bufio"
	"context"
	"crypto/tls"
	"crypto/x509"
	"fmt"
	"io"
	"net"
	"net/http"
	"strings"
	"sync"
	"testing"
	"time"

	"github.com/google/martian/v3"
	"github.com/google/martian/v3/trafficshape"
	"pgregory.net/rapid"

	"verifharness/internal/kit"
	"verifharness/internal/netkit"
)

func TestMain(m *testing.M) { kit.Main(m, "C05") }

// Inner is one request sent inside the (decrypted) connection.
type Inner struct {
	// Form: origin (origin-form with Host), nohost (HTTP/1.0, origin-form, no
	// Host header), abs-http, abs-https (absolute-form targets);
	// nested-abandoned: not a request of its own but a step - a CONNECT to a
	// further host sent inside the decrypted connection (the tunnel's host is
	// itself a proxy for the client), answered 200, whose TLS handshake the
	// client abandons with an alert because it does not trust the certificate
	// it is shown; the decrypted connection is intact and is used on.
	Form   string `json:"form"`
	Hijack bool   `json:"hijack,omitempty"` // the request modifier hijacks on this request
	// HijackEarly (with Hijack): the first bytes meant for the hijacker (the
	// first frame of the protocol switched to) are sent together with the request
	// head, in one write, instead of after the hijacker's greeting.
	HijackEarly bool `json:"hijack_early,omitempty"`
	// MarkInsecure: the request modifier calls Session.MarkInsecure() on this request.
	MarkInsecure bool `json:"mark_insecure,omitempty"`
	// CloseDelimited (last request of the connection only): the origin answers
	// without Content-Length or chunking and ends the response by closing its
	// (TLS) connection, close_notify included; the end of the response that the
	// proxy relays is then the end of the client's session.
	CloseDelimited bool `json:"close_delimited,omitempty"`
}

// Case is one client connection.
type Case struct {
	Listener    string  `json:"listener"` // plain | shaped | transparent | shaped-transparent (shaping around a TLS listener) | tls-connect (CONNECT sent over a TLS connection to the proxy, second handshake inside)
	SNI         bool    `json:"sni"`
	PlainInside bool    `json:"plain_inside,omitempty"` // no TLS handshake inside the CONNECT tunnel
	Inner       []Inner `json:"inner"`
	// RewriteConnect: the request modifier re-targets the CONNECT (as
	// martianurl.Modifier does): the tunnel goes to another upstream, but the
	// certificate presented to the client is still for the host the client named.
	RewriteConnect bool `json:"rewrite_connect,omitempty"`
	// Transport: which round tripper the embedding program hands the proxy:
	// "" = a plain *http.Transport with a TLS client configuration; "dialtls" =
	// one with its own DialTLS hook (the caller does the upstream handshake
	// itself, e.g. to pin certificates); "dialcontext" = one with DialContext set.
	// DialFirst: SetDial is called before SetRoundTripper instead of after it.
	Transport string `json:"transport,omitempty"`
	DialFirst bool   `json:"dial_first,omitempty"`
	// H2Config: the MITM configuration has an h2.Config (admitting no host), so
	// every session is still HTTP/1.1. ALPN is what the client offers:
	// "" = no ALPN extension at all, "http/1.1".
	H2Config bool   `json:"h2_config,omitempty"`
	ALPN     string `json:"alpn,omitempty"`
	// TimeoutMs / GapMs: the proxy's SetTimeout and the pause before every inner
	// request (a session in use for longer than the timeout, never idle that long).
	TimeoutMs int `json:"timeout_ms,omitempty"`
	GapMs     int `json:"gap_ms,omitempty"`
	// SplitFirstMs > 0: the first byte the client sends inside the tunnel (the
	// first byte of its ClientHello, or of its first request when the tunnel
	// carries plain HTTP) travels alone; the rest follows this many milliseconds
	// later (a fragmenting sender, a trickling link).
	SplitFirstMs int `json:"split_first_ms,omitempty"`
	// Before: tunnels this connection carried earlier. Each element is a CONNECT
	// (to a relay) whose traffic is not TLS, with that many plain requests in it;
	// the next CONNECT - of the following element, or the case's own - is sent in
	// the clear inside it (a client chaining through a second proxy, a connection
	// first used for plain HTTP).
	Before []int `json:"before,omitempty"`
	// OriginDelayMs: the origin takes this long over every response.
	OriginDelayMs int `json:"origin_delay_ms,omitempty"`
	// The case's own CONNECT: protocol version ("" = 1.1, "1.0"), its Connection
	// header ("", "close", "keep-alive"), a Proxy-Connection header ("",
	// "keep-alive", "close"), and what the request modifier does to it: "" =
	// nothing, "skip" = ctx.SkipRoundTrip() (an unfiltered skip.RoundTrip, the
	// usual way to stub an https origin), "mutate" = changes its headers.
	ConnectProto     string `json:"connect_proto,omitempty"`
	ConnectConn      string `json:"connect_conn,omitempty"`
	ConnectProxyConn string `json:"connect_proxy_conn,omitempty"`
	ConnectMod       string `json:"connect_mod,omitempty"`
}

// splitConn sends the first byte of its first Write on its own.
type splitConn struct {
	net.Conn
	gap  time.Duration
	done bool
}

func (c *splitConn) Write(b []byte) (int, error) {
	if c.done || len(b) < 2 {
		return c.Conn.Write(b)
	}
	c.done = true
	if _, err := c.Conn.Write(b[:1]); err != nil {
		return 0, err
	}
	time.Sleep(c.gap)
	n, err := c.Conn.Write(b[1:])
	return n + 1, err
}

const authority = "secure.test:443"

type seen struct {
	id        string
	method    string
	scheme    string
	urlHost   string
	host      string
	secure    bool
	hasTLS    bool
	tlsDone   bool
	tlsSNI    string
	sess      *martian.Session
	hijackErr error
}

type probe struct {
	mu      sync.Mutex
	calls   []seen
	rewrite bool
	connMod string
}

func (p *probe) ModifyRequest(req *http.Request) error {
	ctx := martian.NewContext(req)
	s := seen{id: req.Header.Get("X-Verif-Id"), method: req.Method, scheme: req.URL.Scheme, urlHost: req.URL.Host, host: req.Host, hasTLS: req.TLS != nil}
	if req.TLS != nil {
		s.tlsDone, s.tlsSNI = req.TLS.HandshakeComplete, req.TLS.ServerName
	}
	if req.Method == "CONNECT" && s.id == "connect" && ctx != nil {
		switch p.connMod {
		case "skip":
			ctx.SkipRoundTrip()
		case "mutate":
			req.Header.Del("Proxy-Connection")
			req.Header.Del("Connection")
			req.Header.Set("X-Seen-By", "probe")
			req.Header.Set("User-Agent", "mutated/1.0")
		}
	}
	if p.rewrite && req.Method == "CONNECT" {
		req.URL.Host = "rewritten.test:443"
	}
	if ctx != nil {
		s.sess = ctx.Session()
		s.secure = s.sess.IsSecure()
	}
	if req.Header.Get("X-Verif-Hijack") == "1" && ctx != nil {
		conn, brw, err := ctx.Session().Hijack()
		s.hijackErr = err
		if err == nil {
			// the hijacker talks to the client through what it was handed: the
			// connection and the buffered reader/writer on it, in both directions
			conn.SetDeadline(time.Now().Add(5 * time.Second))
			conn.Write([]byte("HIJACKED-" + s.id + "\n"))
			brw.WriteString("VIA-BRW-" + s.id + "\n")
			brw.Flush()
			if line, rerr := brw.ReadString('\n'); rerr == nil {
				conn.Write([]byte("ECHO-" + line))
			}
		}
	}
	if req.Header.Get("X-Verif-Mark-Insecure") == "1" && ctx != nil {
		// what this modifier does to the session concerns this exchange; the next
		// request decrypted from the tunnel is again a request from a TLS connection
		ctx.Session().MarkInsecure()
	}
	p.mu.Lock()
	p.calls = append(p.calls, s)
	p.mu.Unlock()
	return nil
}

func (c Case) mode() string {
	switch {
	case c.Listener == "transparent" || c.Listener == "shaped-transparent":
		return c.Listener
	case c.PlainInside:
		return "connect-" + c.Listener + "-plain-inside"
	}
	return "connect-" + c.Listener
}

func run(c Case) kit.Verdict {
	v := runOnce(c, kit.T())
	for _, f := range v {
		if kit.Shrinking() {
			break
		}
		if strings.Contains(f.Sig, "timeout") {
			v2 := runOnce(c, 3*kit.T())
			if len(v2) == 0 {
				kit.Inconclusive("mitm")
				return nil
			}
			return v2
		}
	}
	return v
}

func runOnce(c Case, T time.Duration) (v kit.Verdict) {
	type receipt struct {
		id   string
		tls  bool
		host string
	}
	var rmu sync.Mutex
	var receipts []receipt
	mk := func(isTLS bool) func(r *netkit.ReqLog) netkit.Script {
		return func(r *netkit.ReqLog) netkit.Script {
			id := r.Header.Get("X-Verif-Id")
			rmu.Lock()
			receipts = append(receipts, receipt{id, isTLS, r.Host})
			rmu.Unlock()
			body := "BODY-" + id
			if r.Header.Get("X-Verif-Close-Delimited") == "1" {
				return netkit.Script{Raw: []byte("HTTP/1.1 200 OK\r\nContent-Type: text/plain\r\n\r\n" + body), CutAt: -1, After: "close"}
			}
			return netkit.Script{Raw: []byte(fmt.Sprintf("HTTP/1.1 200 OK\r\nContent-Length: %d\r\n\r\n%s", len(body), body)), CutAt: -1, Delay: time.Duration(c.OriginDelayMs) * time.Millisecond}
		}
	}
	tlsOrigin := netkit.NewTLSOrigin(netkit.ServerTLS("secure.test", "other.test", "rewritten.test"), mk(true))
	defer tlsOrigin.Close()
	clearOrigin := netkit.NewOrigin(mk(false))
	defer clearOrigin.Close()
	var dmu sync.Mutex
	var dials []string
	dialer := &netkit.Dialer{Route: func(addr string) string {
		dmu.Lock()
		dials = append(dials, addr)
		dmu.Unlock()
		if strings.HasSuffix(addr, ":443") {
			return tlsOrigin.Addr
		}
		if strings.HasSuffix(addr, ":80") {
			return clearOrigin.Addr
		}
		return ""
	}}

	mitmConf := netkit.MITM
	if c.H2Config {
		mitmConf = netkit.MITMH2
	}
	mc, pool, err := mitmConf()
	if err != nil {
		return kit.Failf("C05/harness/mitm", "%v", err)
	}
	pb := &probe{rewrite: c.RewriteConnect, connMod: c.ConnectMod}
	p := martian.NewProxy()
	p.SetTimeout(60 * time.Second)
	if c.TimeoutMs > 0 {
		p.SetTimeout(time.Duration(c.TimeoutMs) * time.Millisecond)
	}
	if c.DialFirst {
		p.SetDial(dialer.Dial)
	}
	switch c.Transport {
	case "dialtls":
		p.SetRoundTripper(&http.Transport{
			TLSHandshakeTimeout: 10 * time.Second, DisableCompression: true,
			DialTLS: func(network, addr string) (net.Conn, error) {
				raw, err := dialer.Dial(network, addr)
				if err != nil {
					return nil, err
				}
				host, _, _ := net.SplitHostPort(addr)
				tc := tls.Client(raw, &tls.Config{RootCAs: netkit.OriginPool(), ServerName: host})
				tc.SetDeadline(time.Now().Add(10 * time.Second))
				if err := tc.Handshake(); err != nil {
					raw.Close()
					return nil, err
				}
				tc.SetDeadline(time.Time{})
				return tc, nil
			},
		})
	case "dialcontext":
		p.SetRoundTripper(&http.Transport{
			TLSClientConfig: &tls.Config{RootCAs: netkit.OriginPool()}, TLSHandshakeTimeout: 10 * time.Second, DisableCompression: true,
			DialContext: func(_ context.Context, network, addr string) (net.Conn, error) { return dialer.Dial(network, addr) },
		})
	default:
		netkit.UpstreamTLS(p)
	}
	if !c.DialFirst {
		p.SetDial(dialer.Dial)
	}
	p.SetMITM(mc)
	p.SetRequestModifier(pb)
	var wrap func(net.Listener) net.Listener
	switch c.Listener {
	case "shaped":
		wrap = func(l net.Listener) net.Listener { return trafficshape.NewListener(l) }
	case "transparent", "tls-connect":
		wrap = func(l net.Listener) net.Listener { return tls.NewListener(l, mc.TLS()) }
	case "shaped-transparent":
		wrap = func(l net.Listener) net.Listener { return trafficshape.NewListener(tls.NewListener(l, mc.TLS())) }
	}
	pr := netkit.Start(p, wrap)
	defer pr.Stop(5 * time.Second)

	m := c.mode()
	raw, err := net.DialTimeout("tcp", pr.Addr, 5*time.Second)
	if err != nil {
		return kit.Failf("C05/harness/dial", "%v", err)
	}
	defer raw.Close()
	var conn net.Conn = raw
	br := bufio.NewReader(conn)
	tlsConf := &tls.Config{RootCAs: pool, ServerName: "secure.test"}
	if c.ALPN != "" {
		tlsConf.NextProtos = strings.Split(c.ALPN, ",")
	}
	if !c.SNI {
		// no SNI: the certificate is checked by hand against the CONNECT authority
		tlsConf = &tls.Config{InsecureSkipVerify: true, VerifyPeerCertificate: func(raw [][]byte, _ [][]*x509.Certificate) error {
			if len(raw) == 0 {
				return fmt.Errorf("no certificate presented")
			}
			leaf, err := x509.ParseCertificate(raw[0])
			if err != nil {
				return err
			}
			_, err = leaf.Verify(x509.VerifyOptions{Roots: pool, DNSName: "secure.test"})
			return err
		}}
	}
	upgrade := func() bool {
		tc := tls.Client(conn, tlsConf)
		tc.SetDeadline(time.Now().Add(T))
		if err := tc.Handshake(); err != nil {
			class := "handshake-failed"
			if netkit.IsTimeout(err) {
				class = "timeout-handshake"
			}
			v.Addf("C05/"+m+"/handshake/"+class, "TLS handshake with the proxy failed: %v", err)
			return false
		}
		tc.SetDeadline(time.Time{})
		conn = tc
		br = bufio.NewReader(tc)
		return true
	}
	var connectSess bool
	var preIDs []string
	if c.Listener == "transparent" || c.Listener == "shaped-transparent" {
		if !upgrade() {
			return v
		}
	} else {
		if c.Listener == "tls-connect" {
			// the connection to the proxy is itself TLS (under another name); the
			// tunnel's own handshake follows inside it
			oc := tls.Client(raw, &tls.Config{RootCAs: pool, ServerName: "proxy.test"})
			oc.SetDeadline(time.Now().Add(T))
			if err := oc.Handshake(); err != nil {
				return kit.Failf("C05/"+m+"/outer-handshake/failed", "TLS handshake with the proxy's listener failed: %v", err)
			}
			oc.SetDeadline(time.Time{})
			conn = oc
			br = bufio.NewReader(oc)
		}
		for si, k := range c.Before {
			conn.SetWriteDeadline(time.Now().Add(5 * time.Second))
			fmt.Fprintf(conn, "CONNECT relay.test:3128 HTTP/1.1\r\nHost: relay.test:3128\r\nX-Verif-Id: pconnect%d\r\n\r\n", si)
			conn.SetReadDeadline(time.Now().Add(T))
			res, err := http.ReadResponse(br, &http.Request{Method: "CONNECT"})
			if err != nil || res.StatusCode != 200 {
				class := "no-200"
				if netkit.IsTimeout(err) {
					class = "timeout-connect"
				}
				return kit.Failf("C05/"+m+"/earlier-plain-tunnel/"+class, "CONNECT of the earlier tunnel %d: %v %v", si, res, err)
			}
			for j := 0; j < k; j++ {
				id := fmt.Sprintf("p%d-%d", si, j)
				preIDs = append(preIDs, id)
				fmt.Fprintf(conn, "GET /%s HTTP/1.1\r\nHost: plain.test\r\nX-Verif-Id: %s\r\n\r\n", id, id)
				conn.SetReadDeadline(time.Now().Add(T))
				res, err := http.ReadResponse(br, &http.Request{Method: "GET"})
				var body []byte
				if err == nil {
					body, err = io.ReadAll(res.Body)
				}
				if err != nil || res.StatusCode != 200 || string(body) != "BODY-"+id {
					class := "wrong-response"
					if netkit.IsTimeout(err) {
						class = "timeout-response"
					}
					return kit.Failf("C05/"+m+"/earlier-plain-tunnel/"+class, "plain request %s in the earlier tunnel: %v %v %q", id, err, res, body)
				}
			}
		}
		conn.SetWriteDeadline(time.Now().Add(5 * time.Second))
		proto := "1.1"
		if c.ConnectProto != "" {
			proto = c.ConnectProto
		}
		extra := ""
		if c.ConnectConn != "" {
			extra += "Connection: " + c.ConnectConn + "\r\n"
		}
		if c.ConnectProxyConn != "" {
			extra += "Proxy-Connection: " + c.ConnectProxyConn + "\r\n"
		}
		fmt.Fprintf(conn, "CONNECT %s HTTP/%s\r\nHost: %s\r\nX-Verif-Id: connect\r\n%s\r\n", authority, proto, authority, extra)
		conn.SetReadDeadline(time.Now().Add(T))
		res, err := http.ReadResponse(br, &http.Request{Method: "CONNECT"})
		if err != nil || res.StatusCode != 200 {
			class := "no-200"
			if netkit.IsTimeout(err) {
				class = "timeout-connect"
			}
			return kit.Failf("C05/"+m+"/connect/"+class, "CONNECT: %v %v", res, err)
		}
		connectSess = true
		if c.SplitFirstMs > 0 {
			conn = &splitConn{Conn: conn, gap: time.Duration(c.SplitFirstMs) * time.Millisecond}
		}
		if !c.PlainInside && !upgrade() {
			return v
		}
	}

	type sent struct {
		id, form string
		hijack   bool
		wantHost string
	}
	var sents []sent
	hijacked := false
	for i, in := range c.Inner {
		time.Sleep(time.Duration(c.GapMs) * time.Millisecond)
		id := fmt.Sprintf("x%d", i)
		if in.Form == "nested-abandoned" {
			conn.SetWriteDeadline(time.Now().Add(5 * time.Second))
			fmt.Fprintf(conn, "CONNECT nested.test:443 HTTP/1.1\r\nHost: nested.test:443\r\nX-Verif-Id: nested%d\r\n\r\n", i)
			conn.SetReadDeadline(time.Now().Add(T))
			res, err := http.ReadResponse(br, &http.Request{Method: "CONNECT"})
			if err != nil || res.StatusCode != 200 || br.Buffered() != 0 {
				class := "no-200"
				if netkit.IsTimeout(err) {
					class = "timeout-connect"
				}
				v.Addf("C05/"+m+"/nested-connect/"+class, "CONNECT inside the decrypted connection: %v %v (%d bytes behind the answer)", res, err, br.Buffered())
				break
			}
			conn.SetDeadline(time.Now().Add(T))
			nested := tls.Client(conn, &tls.Config{RootCAs: x509.NewCertPool(), ServerName: "nested.test"})
			if err := nested.Handshake(); err == nil {
				v.Addf("C05/harness/nested-handshake-succeeded", "the client trusts no authority for the nested tunnel, yet its handshake succeeded")
				break
			}
			// The alert is on its way. What the proxy had sent of its side of the
			// abandoned handshake beyond the certificate left in the same write and
			// has arrived with it: the client discards it.
			conn.SetReadDeadline(time.Now().Add(40 * time.Millisecond))
			io.Copy(io.Discard, br)
			conn.SetDeadline(time.Time{})
			continue
		}
		var reqLine, hostHdr, wantHost string
		switch in.Form {
		case "origin":
			reqLine, hostHdr, wantHost = "GET /"+id+" HTTP/1.1", "secure.test", "secure.test"
		case "nohost":
			reqLine, hostHdr, wantHost = "GET /"+id+" HTTP/1.0", "", authority
		case "abs-http":
			reqLine, hostHdr, wantHost = "GET http://other.test/"+id+" HTTP/1.1", "other.test", "other.test"
		case "abs-https":
			reqLine, hostHdr, wantHost = "GET https://other.test/"+id+" HTTP/1.1", "other.test", "other.test"
		}
		if c.PlainInside {
			// plain HTTP inside the tunnel goes to the cleartext origin
			if in.Form == "origin" {
				hostHdr, wantHost = "plain.test", "plain.test"
			}
		}
		var sb strings.Builder
		sb.WriteString(reqLine + "\r\n")
		if hostHdr != "" {
			sb.WriteString("Host: " + hostHdr + "\r\n")
		}
		sb.WriteString("X-Verif-Id: " + id + "\r\n")
		if in.Form == "nohost" {
			sb.WriteString("Connection: keep-alive\r\n")
		}
		if in.Hijack {
			sb.WriteString("X-Verif-Hijack: 1\r\n")
		}
		if in.MarkInsecure {
			sb.WriteString("X-Verif-Mark-Insecure: 1\r\n")
		}
		if in.CloseDelimited {
			sb.WriteString("X-Verif-Close-Delimited: 1\r\n")
		}
		sb.WriteString("\r\n")
		hs := "hijack"
		if in.Hijack && in.HijackEarly {
			hs = "hijack-with-bytes-behind-the-request-head"
			sb.WriteString("PING-" + id + "\n")
		}
		sents = append(sents, sent{id, in.Form, in.Hijack, wantHost})
		conn.SetWriteDeadline(time.Now().Add(5 * time.Second))
		if _, err := conn.Write([]byte(sb.String())); err != nil {
			v.Addf("C05/"+m+"/request-"+fmt.Sprint(min(i+1, 2))+"/client-write-failed", "request %s: %v", id, err)
			break
		}
		if in.Hijack {
			marker := "HIJACKED-" + id + "\nVIA-BRW-" + id + "\n"
			conn.SetReadDeadline(time.Now().Add(T))
			buf := make([]byte, len(marker))
			n, err := io.ReadFull(br, buf)
			if err == nil && string(buf[:n]) == marker {
				// and the other direction: what the client sends now reaches the hijacker
				echo := "ECHO-PING-" + id + "\n"
				if !in.HijackEarly {
					conn.SetWriteDeadline(time.Now().Add(5 * time.Second))
					conn.Write([]byte("PING-" + id + "\n"))
				}
				ebuf := make([]byte, len(echo))
				conn.SetReadDeadline(time.Now().Add(T))
				en, eerr := io.ReadFull(br, ebuf)
				if eerr != nil || string(ebuf[:en]) != echo {
					class := "hijacker-cannot-read-from-the-client"
					if netkit.IsTimeout(eerr) {
						class = "timeout-hijacker-echo"
					}
					v.Addf("C05/"+m+"/"+hs+"/"+class, "the client sent a line for the hijacker (together with the request head: %v); the hijacker was to echo it through what Hijack handed it, the client read %q (%v)", in.HijackEarly, ebuf[:en], eerr)
				}
			}
			if err != nil || string(buf[:n]) != marker {
				class := "hijacker-not-handed-the-decrypted-connection"
				if netkit.IsTimeout(err) {
					class = "timeout-hijacker-bytes"
				}
				v.Addf("C05/"+m+"/"+hs+"/"+class, "the hijacker wrote %q on the connection it was handed; through its %s session the client read %q (%v)", marker, map[bool]string{true: "cleartext", false: "TLS"}[c.PlainInside], buf[:n], err)
			}
			hijacked = true
			break
		}
		conn.SetReadDeadline(time.Now().Add(T))
		res, err := http.ReadResponse(br, &http.Request{Method: "GET"})
		var body []byte
		if err == nil {
			body, err = io.ReadAll(res.Body)
		}
		idx := "first-request"
		if i > 0 {
			idx = "later-request"
		}
		if err != nil {
			class := "no-response-inside-the-session"
			if netkit.IsTimeout(err) {
				class = "timeout-response"
			}
			v.Addf("C05/"+m+"/"+idx+"/"+in.Form+"/"+class, "request %s: %v", id, err)
			break
		}
		if res.StatusCode != 200 || string(body) != "BODY-"+id {
			v.Addf("C05/"+m+"/"+idx+"/"+in.Form+"/wrong-response", "request %s: status %d body %q (Warning %q)", id, res.StatusCode, body, res.Header["Warning"])
		}
		if res.Close {
			break
		}
	}
	_ = hijacked
	conn.Close()
	pr.Stop(5 * time.Second)

	pb.mu.Lock()
	calls := append([]seen(nil), pb.calls...)
	pb.mu.Unlock()
	rmu.Lock()
	recs := append([]receipt(nil), receipts...)
	rmu.Unlock()
	byID := map[string]seen{}
	var sess *martian.Session
	for _, s := range calls {
		byID[s.id] = s
		if sess == nil {
			sess = s.sess
		} else if s.sess != sess {
			v.Addf("C05/"+m+"/session/not-shared", "request %s runs in another session than the first request of the connection", s.id)
		}
	}
	if connectSess {
		if _, ok := byID["connect"]; !ok {
			v.Addf("C05/"+m+"/connect/modifier-not-run", "the CONNECT request was not shown to the request modifier")
		}
	}
	wantSecure := !c.PlainInside
	for _, id := range preIDs {
		if got, ok := byID[id]; !ok {
			v.Addf("C05/"+m+"/earlier-plain-tunnel/not-seen-by-modifier", "request %s never reached the request modifier", id)
		} else if got.scheme != "http" || got.secure {
			v.Addf("C05/"+m+"/earlier-plain-tunnel/plain-traffic-treated-as-secure", "request %s inside a tunnel without TLS: scheme %q secure=%v", id, got.scheme, got.secure)
		}
	}
	for i, s := range sents {
		got, ok := byID[s.id]
		idx := "first-request"
		if i > 0 {
			idx = "later-request"
		}
		pre := "C05/" + m + "/" + idx + "/" + s.form + "/"
		if !ok {
			if len(v) == 0 {
				v.Addf(pre+"not-seen-by-modifier", "request %s never reached the request modifier", s.id)
			}
			continue
		}
		if wantSecure {
			if got.scheme != "https" {
				v.Addf(pre+"scheme-not-https", "request %s: modifier saw scheme %q", s.id, got.scheme)
			}
			if !got.secure {
				v.Addf(pre+"session-not-secure", "request %s: session not marked secure", s.id)
			}
			if !got.hasTLS {
				v.Addf(pre+"tls-state-missing", "request %s (number %d on the decrypted connection): req.TLS is nil", s.id, i+1)
			} else if !got.tlsDone || (c.SNI && got.tlsSNI != "secure.test") {
				v.Addf(pre+"tls-state-not-the-connections", "request %s (number %d on the decrypted connection): req.TLS is not the negotiated state of the connection (HandshakeComplete=%v, ServerName=%q, client sent SNI %v)", s.id, i+1, got.tlsDone, got.tlsSNI, c.SNI)
			}
			if got.urlHost != s.wantHost {
				v.Addf(pre+"wrong-host", "request %s: modifier saw URL host %q, want %q (own authority, or the tunnel's when none is given)", s.id, got.urlHost, s.wantHost)
			}
		} else {
			// (when the tunnel itself travels over a TLS connection to the proxy,
			// whether req.TLS describes that outer connection is not specified)
			if got.scheme != "http" || got.secure || (got.hasTLS && c.Listener != "tls-connect") {
				v.Addf(pre+"plain-traffic-treated-as-secure", "request %s inside a tunnel without TLS: scheme %q secure=%v tls=%v", s.id, got.scheme, got.secure, got.hasTLS)
			}
		}
		if s.hijack {
			continue
		}
		var mine []receipt
		for _, r := range recs {
			if r.id == s.id {
				mine = append(mine, r)
			}
		}
		if len(mine) == 1 && mine[0].tls != wantSecure {
			if wantSecure {
				v.Addf(pre+"forwarded-in-cleartext", "request %s reached the cleartext origin", s.id)
			} else {
				v.Addf(pre+"plain-request-sent-over-tls", "request %s reached the TLS origin", s.id)
			}
		}
	}
	if wantSecure {
		for _, r := range recs {
			if !r.tls && !strings.HasPrefix(r.id, "p") {
				v.Addf("C05/"+m+"/any/cleartext-origin-contacted", "the cleartext origin received request %q", r.id)
				break
			}
		}
	}
	return v
}

func min(a, b int) int {
	if a < b {
		return a
	}
	return b
}

func genCase(t *rapid.T) Case {
	c := Case{
		Listener: rapid.SampledFrom([]string{"plain", "plain", "shaped", "transparent", "shaped-transparent", "tls-connect"}).Draw(t, "listener"),
		SNI:      rapid.IntRange(0, 3).Draw(t, "sni") != 0,
	}
	transparent := c.Listener == "transparent" || c.Listener == "shaped-transparent"
	if transparent {
		c.SNI = true
	} else if rapid.IntRange(0, 7).Draw(t, "plain_inside") == 0 {
		// (also when the CONNECT itself arrived over a TLS connection to the
		// proxy: what the tunnel carries is still not TLS)
		c.PlainInside = true
	}
	if !transparent && !c.PlainInside && rapid.IntRange(0, 4).Draw(t, "rewrite") == 0 {
		c.RewriteConnect = true
	}
	if !transparent && !c.PlainInside && rapid.IntRange(0, 3).Draw(t, "h2_config") == 0 {
		c.H2Config = true
	}
	if c.SNI && !c.PlainInside {
		c.ALPN = rapid.SampledFrom([]string{"", "", "http/1.1"}).Draw(t, "alpn")
	}
	c.Transport = rapid.SampledFrom([]string{"", "", "", "dialtls", "dialtls", "dialcontext"}).Draw(t, "transport")
	c.DialFirst = rapid.IntRange(0, 3).Draw(t, "dial_first") == 0
	n := rapid.IntRange(2, 5).Draw(t, "n")
	if rapid.IntRange(0, 9).Draw(t, "single") == 0 {
		n = 1
	}
	for i := 0; i < n; i++ {
		forms := []string{"origin", "origin", "nohost", "abs-http", "abs-https"}
		if c.PlainInside {
			forms = []string{"origin"}
		}
		if c.RewriteConnect {
			// which authority a Host-less request falls back to after a rewrite is not defined by the statement
			forms = []string{"origin", "origin", "abs-http", "abs-https"}
		}
		if transparent {
			// no CONNECT, hence no tunnel authority to fall back on
			forms = []string{"origin", "origin", "abs-http", "abs-https"}
		}
		in := Inner{Form: rapid.SampledFrom(forms).Draw(t, "form")}
		if rapid.IntRange(0, 11).Draw(t, "hijack") == 0 {
			in.Hijack = true
			in.HijackEarly = rapid.Bool().Draw(t, "hijack_early")
		} else if !c.PlainInside && rapid.IntRange(0, 7).Draw(t, "mark_insecure") == 0 {
			in.MarkInsecure = true
		}
		if !in.Hijack && i == n-1 && rapid.IntRange(0, 5).Draw(t, "close_delimited") == 0 {
			in.CloseDelimited = true
		}
		c.Inner = append(c.Inner, in)
		if in.Hijack {
			break
		}
	}
	if !c.PlainInside && len(c.Inner) >= 2 && !c.Inner[len(c.Inner)-1].Hijack && rapid.IntRange(0, 5).Draw(t, "nested_abandoned") == 0 {
		// somewhere before the last request; which authority a Host-less request
		// falls back to after a further CONNECT is not defined by the statement
		at := rapid.IntRange(0, len(c.Inner)-1).Draw(t, "nested_at")
		inner := append([]Inner(nil), c.Inner[:at]...)
		inner = append(inner, Inner{Form: "nested-abandoned"})
		for _, in := range c.Inner[at:] {
			if in.Form == "nohost" {
				in.Form = "origin"
			}
			inner = append(inner, in)
		}
		c.Inner = inner
	}
	if !transparent {
		c.ConnectProto = rapid.SampledFrom([]string{"", "", "", "", "1.0"}).Draw(t, "connect_proto")
		c.ConnectConn = rapid.SampledFrom([]string{"", "", "", "close", "keep-alive"}).Draw(t, "connect_conn")
		c.ConnectProxyConn = rapid.SampledFrom([]string{"", "", "", "keep-alive", "close"}).Draw(t, "connect_proxy_conn")
		c.ConnectMod = rapid.SampledFrom([]string{"", "", "", "skip", "mutate"}).Draw(t, "connect_mod")
	}
	if !transparent && rapid.IntRange(0, 3).Draw(t, "before") == 0 {
		c.Before = rapid.SliceOfN(rapid.IntRange(0, 2), 1, 2).Draw(t, "before_stages")
	}
	if !transparent && rapid.IntRange(0, 4).Draw(t, "split_first") == 0 {
		c.SplitFirstMs = rapid.SampledFrom([]int{5, 30}).Draw(t, "split_first_ms")
	}
	return c
}

func nontrivial(c Case) bool {
	if len(c.Inner) >= 2 {
		return true
	}
	for _, in := range c.Inner {
		if in.Form != "origin" || in.Hijack {
			return true
		}
	}
	return false
}

func classes(c Case) []string {
	out := []string{"listener-" + c.Listener}
	if len(c.Inner) >= 2 {
		out = append(out, "multi-request")
	}
	if c.PlainInside {
		out = append(out, "plain-inside")
	}
	if !c.SNI {
		out = append(out, "no-sni")
	}
	if c.RewriteConnect {
		out = append(out, "connect-rewritten-by-modifier")
	}
	if c.Transport != "" {
		out = append(out, "caller-transport-"+c.Transport)
	}
	if c.DialFirst {
		out = append(out, "setdial-before-setroundtripper")
	}
	if c.H2Config {
		out = append(out, "h2-configured-but-not-for-this-host")
		if c.ALPN == "" {
			out = append(out, "h2-configured+client-without-alpn")
		}
	}
	if c.SplitFirstMs > 0 {
		out = append(out, "first-tunnel-byte-travels-alone")
	}
	if len(c.Before) > 0 {
		out = append(out, "connection-carried-a-plain-tunnel-before")
		if !c.PlainInside {
			out = append(out, "tls-tunnel-after-plain-tunnel")
		}
	}
	if c.OriginDelayMs > 0 {
		out = append(out, "slow-origin")
	}
	if c.ConnectProto == "1.0" {
		out = append(out, "connect-http-1.0")
	}
	if c.ConnectConn != "" {
		out = append(out, "connect-connection-"+c.ConnectConn)
	}
	if c.ConnectProxyConn != "" {
		out = append(out, "connect-with-proxy-connection")
	}
	if c.ConnectMod != "" {
		out = append(out, "modifier-on-connect-"+c.ConnectMod)
	}
	if c.PlainInside && c.Listener == "tls-connect" {
		out = append(out, "cleartext-tunnel-carried-by-a-tls-connection")
	}
	if c.TimeoutMs > 0 {
		out = append(out, "session-in-use-longer-than-the-timeout")
	}
	set := map[string]bool{}
	for _, in := range c.Inner {
		set["form-"+in.Form] = true
		if in.Hijack {
			set["hijack"] = true
		}
		if in.Hijack && in.HijackEarly {
			set["hijack-with-bytes-behind-the-request-head"] = true
		}
		if in.MarkInsecure {
			set["modifier-marks-session-insecure"] = true
		}
		if in.CloseDelimited {
			set["response-delimited-by-close"] = true
		}
	}
	for k := range set {
		out = append(out, k)
	}
	return out
}

var propMITM = &kit.Prop[Case]{
	ID: "C05", Name: "mitm",
	Rule: "one client connection to a MITM-configured proxy behind a plain, traffic-shaped or transparent-TLS listener; CONNECT + TLS handshake (SNI present or absent) or plain HTTP inside the tunnel; 1..5 inner requests in origin-form (with and without Host) and absolute-form (http:// and https://), optionally hijacked by the request modifier; non-trivial = >=2 inner requests, a non-origin-form or Host-less target, or a hijack",
	Gen:  genCase, Run: run, NonTrivial: nontrivial, Classes: classes, Journal: true,
	Gates: map[string]float64{"multi-request": 0.5, "listener-shaped": 0.1, "listener-transparent": 0.1, "hijack": 0.1},
}

func TestMITM(t *testing.T) {
	kit.Assume("absolute-form targets carry no explicit port; certificate validity of the forged leaf is C06's property (verified here only with SNI)")
	propMITM.Check(t, kit.N(400, 800))
}

var propBusy = &kit.Prop[Case]{
	ID: "C05", Name: "busy-session", Journal: true,
	Rule: "a decrypted session (plain, traffic-shaped, TLS-in-TLS listener) carrying a request every 350 ms for 2.1 s under a proxy timeout of 1.2 s: never idle for as long as the timeout, every request must be served inside the session; non-trivial = always",
	Run:  run, NonTrivial: func(Case) bool { return true }, Classes: classes,
}

func TestBusySession(t *testing.T) {
	propBusy.Enumerate(t, func(yield func(Case) bool) {
		for _, l := range []string{"plain", "shaped", "tls-connect"} {
			c := Case{Listener: l, SNI: true, TimeoutMs: 1200, GapMs: 350}
			for i := 0; i < 6; i++ {
				c.Inner = append(c.Inner, Inner{Form: "origin"})
			}
			if !yield(c) {
				return
			}
		}
		// exchanges that take most of the timeout, pauses well below it: the pause
		// counts from the end of an exchange, not from the arrival of its request
		c := Case{Listener: "plain", SNI: true, TimeoutMs: 1000, GapMs: 400, OriginDelayMs: 800, Inner: []Inner{{Form: "origin"}, {Form: "origin"}}}
		yield(c)
	})
}

func TestReplay(t *testing.T) { kit.Replay(t, propMITM, propBusy) }
