package h2kit

import (
	"bufio"
	"crypto/tls"
	"errors"
	"fmt"
	"net"
	"net/url"
	"os"
	"regexp"
	"strconv"
	"strings"
	"sync"
	"time"

	"verifharness/internal/kit"

	"github.com/google/martian/v3/h2"
	mgrpc "github.com/google/martian/v3/h2/grpc"
	mlog "github.com/google/martian/v3/log"
	"golang.org/x/net/http2"
	"golang.org/x/net/http2/hpack"
)

func init() {
	if os.Getenv("H2KIT_LOG") == "" {
		mlog.SetLevel(mlog.Silent)
	}
	for _, k := range []string{"HTTP_PROXY", "HTTPS_PROXY", "NO_PROXY", "http_proxy", "https_proxy", "no_proxy"} {
		os.Unsetenv(k)
	}
}

// Options configure one relay session.
type Options struct {
	Pieces    []int // client transport segmentation (sizes of the relay's Reads)
	OutLimit  int   // >0: bound on unread bytes from the relay toward the client
	Factories []h2.StreamProcessorFactory
	Bound     time.Duration // bound for setup waits
	// ServerRcvBuf > 0 shrinks the server's TCP receive buffer (set before the
	// TLS handshake) so that a server that stops reading backs the relay up
	// after little data.
	ServerRcvBuf int
	// PreClosed closes the proxy's closing channel before Config.Proxy is called.
	PreClosed bool
	// NoALPN: the server completes the TLS handshake without selecting an application
	// protocol (an origin that knows nothing of ALPN).
	NoALPN bool
	// NoHandshake: the server accepts the TCP connection and then stays silent: the TLS
	// handshake never completes. The session has no Server endpoint.
	NoHandshake bool
	// DebugLogs sets Config.EnableDebugLogs (the relay then formats every header list and
	// frame for its log; the log itself stays silent in the harness).
	DebugLogs bool
}

// Session is one h2.Config.Proxy call between a frame-level client (in-memory)
// and a frame-level TLS server.
type Session struct {
	Duplex   *Duplex
	Client   *Endpoint
	Server   *Endpoint
	Port     int
	Closing  chan bool
	listener net.Listener
	tcp      *net.TCPConn
	tlsConn  *tls.Conn

	mu        sync.Mutex
	closed    bool
	proxyDone chan struct{}
	proxyErr  error
}

// ErrProxyReturned is what Open reports when Config.Proxy returned before it had
// connected upstream.
var ErrProxyReturned = errors.New("Proxy returned before connecting upstream")

// Open starts a TLS server on 127.0.0.1:0, starts Config.Proxy against it with
// an in-memory client connection and waits (bounded) for the relay's upstream
// connection. The client preface has NOT been written yet. The caller must
// call Teardown.
func Open(o Options) (*Session, error) {
	if o.Bound == 0 {
		o.Bound = 5 * time.Second
	}
	pool, leaf := Certs()
	ln, err := net.Listen("tcp", "127.0.0.1:0")
	if err != nil {
		return nil, err
	}
	s := &Session{listener: ln, Closing: make(chan bool), proxyDone: make(chan struct{})}
	s.Port = ln.Addr().(*net.TCPAddr).Port
	s.Duplex = NewDuplex(o.Pieces, o.OutLimit)
	s.Client = NewEndpoint("client", true, s.Duplex.HarnessSide())

	type acc struct {
		c   net.Conn
		err error
	}
	accCh := make(chan acc, 1)
	go func() {
		c, err := ln.Accept()
		accCh <- acc{c, err}
	}()

	cfg := &h2.Config{
		AllowedHostsFilter:       func(string) bool { return true },
		EnableDebugLogs:          o.DebugLogs,
		RootCAs:                  pool,
		StreamProcessorFactories: o.Factories,
	}
	u := &url.URL{Scheme: "https", Host: ln.Addr().String()}
	if o.PreClosed {
		s.CloseClosing()
	}
	go func() {
		err := cfg.Proxy(s.Closing, s.Duplex.RelaySide(), u)
		s.mu.Lock()
		s.proxyErr = err
		s.mu.Unlock()
		close(s.proxyDone)
	}()

	select {
	case a := <-accCh:
		if a.err != nil {
			s.Teardown(o.Bound)
			return nil, a.err
		}
		s.tcp = a.c.(*net.TCPConn)
	case <-s.proxyDone:
		s.Teardown(o.Bound)
		return nil, fmt.Errorf("%w: %v", ErrProxyReturned, s.proxyErr)
	case <-time.After(o.Bound):
		s.Teardown(o.Bound)
		return nil, fmt.Errorf("relay did not connect upstream within %v", o.Bound)
	}
	if o.ServerRcvBuf > 0 {
		s.tcp.SetReadBuffer(o.ServerRcvBuf)
	}
	if o.NoHandshake {
		// The state begins once the relay's ClientHello has arrived (its TCP connect, which a
		// cancelled dial context can still abort, is then behind it). The server takes the
		// octets and says nothing.
		s.tcp.SetReadDeadline(time.Now().Add(o.Bound))
		hello := make([]byte, 1)
		_, err := s.tcp.Read(hello)
		s.tcp.SetReadDeadline(time.Time{})
		if err != nil {
			gaveUp, perr := s.ProxyReturned(o.Bound / 6)
			s.Teardown(o.Bound)
			if gaveUp {
				return nil, fmt.Errorf("%w (no ClientHello: %v): %v", ErrProxyReturned, err, perr)
			}
			return nil, fmt.Errorf("the relay connected but sent no ClientHello within %v: %v", o.Bound, err)
		}
		s.Client.Start()
		return s, nil
	}
	protos := []string{"h2"}
	if o.NoALPN {
		protos = nil
	}
	s.tlsConn = tls.Server(s.tcp, &tls.Config{Certificates: []tls.Certificate{leaf}, NextProtos: protos})
	s.tcp.SetDeadline(time.Now().Add(o.Bound))
	if err := s.tlsConn.Handshake(); err != nil {
		// a relay that gives the session up while it dials hangs up in the middle of the handshake
		gaveUp, perr := s.ProxyReturned(o.Bound / 6)
		s.Teardown(o.Bound)
		if gaveUp {
			return nil, fmt.Errorf("%w (TLS handshake: %v): %v", ErrProxyReturned, err, perr)
		}
		return nil, fmt.Errorf("TLS handshake with the relay: %v", err)
	}
	s.tcp.SetDeadline(time.Time{})
	s.Server = NewEndpoint("server", false, s.tlsConn)
	s.Client.Start()
	s.Server.Start()
	return s, nil
}

// ProxyReturned waits up to bound for Config.Proxy to return.
func (s *Session) ProxyReturned(bound time.Duration) (bool, error) {
	select {
	case <-s.proxyDone:
		s.mu.Lock()
		defer s.mu.Unlock()
		return true, s.proxyErr
	default:
	}
	if bound <= 0 {
		return false, nil
	}
	select {
	case <-s.proxyDone:
		s.mu.Lock()
		defer s.mu.Unlock()
		return true, s.proxyErr
	case <-time.After(bound):
		return false, nil
	}
}

// ProxyDone is closed when Config.Proxy has returned.
func (s *Session) ProxyDone() <-chan struct{} { return s.proxyDone }

// CloseClosing closes the proxy's closing channel once.
func (s *Session) CloseClosing() {
	s.mu.Lock()
	defer s.mu.Unlock()
	if !s.closed {
		s.closed = true
		close(s.Closing)
	}
}

// ServerTCP is the accepted TCP connection under the server's TLS session.
func (s *Session) ServerTCP() *net.TCPConn { return s.tcp }

// ServerTLS is the server's TLS connection.
func (s *Session) ServerTLS() *tls.Conn { return s.tlsConn }

// Teardown ends everything the case created, whatever state it is in: closing
// channel, client connection, server connection, listener. It reports whether
// Config.Proxy returned and both endpoint readers ended within the bound.
func (s *Session) Teardown(bound time.Duration) bool {
	s.CloseClosing()
	if s.Client != nil {
		s.Client.Resume()
	}
	if s.Server != nil {
		s.Server.Resume()
	}
	s.Duplex.TearDown()
	if s.tlsConn != nil {
		// no close_notify round trip: the peer may be wedged
		s.tcp.SetLinger(0)
		s.tcp.Close()
	} else if s.tcp != nil {
		s.tcp.Close()
	}
	s.listener.Close()
	ok, _ := s.ProxyReturned(bound)
	if !ok && os.Getenv("H2KIT_LOG") != "" {
		fmt.Fprintf(os.Stderr, "h2kit: Proxy did not return after teardown:\n%s\n", kit.GoroutineDump(regexp.MustCompile(`martian/v3/h2`)))
	}
	if s.Client != nil && !s.Client.Join(bound) {
		ok = false
	}
	if s.Server != nil && !s.Server.Join(bound) {
		ok = false
	}
	return ok
}

var relayLoopRE = regexp.MustCompile(`h2\.\(\*relay\)\.relayFrames\(`)

// RelayLoops counts goroutines currently inside (*relay).relayFrames itself:
// 2 while both directions of a session run. Used only to stop waiting early
// for frames that a finished direction can no longer forward; callers must
// calibrate (see the count 2 first) before relying on it.
func RelayLoops() int { return kit.GoroutinesMatching(relayLoopRE) }

// UpstreamOpen reports whether a TCP connection *to* the session's server port
// (that is, the socket the relay dialled) is still established or half-open on
// the relay's side, according to /proc/net/tcp. ok is false if the table
// cannot be read.
func (s *Session) UpstreamOpen() (open bool, state string, ok bool) {
	f, err := os.Open("/proc/net/tcp")
	if err != nil {
		return false, "", false
	}
	defer f.Close()
	want := fmt.Sprintf("0100007F:%04X", s.Port)
	sc := bufio.NewScanner(f)
	for sc.Scan() {
		fs := strings.Fields(sc.Text())
		if len(fs) < 4 || fs[2] != want {
			continue
		}
		st, _ := strconv.ParseUint(fs[3], 16, 8)
		switch st {
		case 1:
			return true, "ESTABLISHED", true
		case 8:
			return true, "CLOSE_WAIT", true
		}
	}
	return false, "", true
}

// ---------------------------------------------------------------- stream processors

type passThrough struct{ sink h2.Processor }

func (p *passThrough) Data(data []byte, streamEnded bool) error {
	return p.sink.Data(data, streamEnded)
}
func (p *passThrough) Header(headers []hpack.HeaderField, streamEnded bool, priority http2.PriorityParam) error {
	return p.sink.Header(headers, streamEnded, priority)
}
func (p *passThrough) Priority(pr http2.PriorityParam) error { return p.sink.Priority(pr) }
func (p *passThrough) RSTStream(c http2.ErrCode) error       { return p.sink.RSTStream(c) }
func (p *passThrough) PushPromise(id uint32, headers []hpack.HeaderField) error {
	return p.sink.PushPromise(id, headers)
}

// PassThroughFactory returns explicit processors that forward every call.
func PassThroughFactory() h2.StreamProcessorFactory {
	return func(_ *url.URL, sinks *h2.Processors) (h2.Processor, h2.Processor) {
		return &passThrough{sinks.ForDirection(h2.ClientToServer)}, &passThrough{sinks.ForDirection(h2.ServerToClient)}
	}
}

// NilFactory returns a factory that declines to process (nil, nil).
func NilFactory() h2.StreamProcessorFactory {
	return func(_ *url.URL, _ *h2.Processors) (h2.Processor, h2.Processor) { return nil, nil }
}

// HalfFactory returns a factory whose processors forward every call; it supplies one for
// the client-to-server direction only if c2s, for the other only if s2c (nil otherwise: an
// observer of one direction).
func HalfFactory(c2s, s2c bool) h2.StreamProcessorFactory {
	return func(_ *url.URL, sinks *h2.Processors) (h2.Processor, h2.Processor) {
		var a, b h2.Processor
		if c2s {
			a = &passThrough{sinks.ForDirection(h2.ClientToServer)}
		}
		if s2c {
			b = &passThrough{sinks.ForDirection(h2.ServerToClient)}
		}
		return a, b
	}
}

// GRPCFactory returns the library's gRPC adapter around processors that pass every header
// list and message on unchanged: gRPC streams are parsed into messages and framed again.
func GRPCFactory() h2.StreamProcessorFactory {
	return mgrpc.AsStreamProcessorFactory(func(_ *url.URL, server, client mgrpc.Processor) (mgrpc.Processor, mgrpc.Processor) {
		return server, client
	})
}

// Chain builds a factory list from kinds: 0 (nil,nil), 1 (proc,proc), 2 (proc,nil), 3 (nil,proc).
func Chain(kinds []int) []h2.StreamProcessorFactory {
	var out []h2.StreamProcessorFactory
	for _, k := range kinds {
		out = append(out, HalfFactory(k == 1 || k == 2, k == 1 || k == 3))
	}
	return out
}

// Factories maps a configuration index to a factory list: 0 none, 1 a factory
// returning nil processors, 2 one pass-through factory, 3 a chain of two,
// 4 pass-through + nil.
func Factories(kind int) []h2.StreamProcessorFactory {
	switch kind {
	case 1:
		return []h2.StreamProcessorFactory{NilFactory()}
	case 2:
		return []h2.StreamProcessorFactory{PassThroughFactory()}
	case 3:
		return []h2.StreamProcessorFactory{PassThroughFactory(), PassThroughFactory()}
	case 4:
		return []h2.StreamProcessorFactory{PassThroughFactory(), NilFactory()}
	}
	return nil
}
