// Package h2kit holds the frame-level HTTP/2 endpoints shared by the checks of
// the relay properties C08, C09 and C10: an in-memory client connection for
// h2.Config.Proxy, a TLS server the relay dials, per-direction HPACK state, a
// recorder of what each endpoint received, and bounded waits.
package h2kit

import (
	"crypto/ecdsa"
	"crypto/elliptic"
	"crypto/rand"
	"crypto/tls"
	"crypto/x509"
	"crypto/x509/pkix"
	"math/big"
	"net"
	"sync"
	"time"
)

var (
	certOnce sync.Once
	certPool *x509.CertPool
	certLeaf tls.Certificate
)

// Certs returns the harness CA pool (for h2.Config.RootCAs) and a server
// certificate for 127.0.0.1 issued by it. Created once per process; immutable.
func Certs() (*x509.CertPool, tls.Certificate) {
	certOnce.Do(func() {
		caKey, err := ecdsa.GenerateKey(elliptic.P256(), rand.Reader)
		if err != nil {
			panic(err)
		}
		caTmpl := &x509.Certificate{
			SerialNumber:          big.NewInt(1),
			Subject:               pkix.Name{CommonName: "verif harness CA"},
			NotBefore:             time.Now().Add(-time.Hour),
			NotAfter:              time.Now().Add(240 * time.Hour),
			IsCA:                  true,
			BasicConstraintsValid: true,
			KeyUsage:              x509.KeyUsageCertSign | x509.KeyUsageDigitalSignature,
		}
		caDER, err := x509.CreateCertificate(rand.Reader, caTmpl, caTmpl, &caKey.PublicKey, caKey)
		if err != nil {
			panic(err)
		}
		caCert, _ := x509.ParseCertificate(caDER)
		leafKey, err := ecdsa.GenerateKey(elliptic.P256(), rand.Reader)
		if err != nil {
			panic(err)
		}
		leafTmpl := &x509.Certificate{
			SerialNumber: big.NewInt(2),
			Subject:      pkix.Name{CommonName: "127.0.0.1"},
			NotBefore:    time.Now().Add(-time.Hour),
			NotAfter:     time.Now().Add(240 * time.Hour),
			KeyUsage:     x509.KeyUsageDigitalSignature,
			ExtKeyUsage:  []x509.ExtKeyUsage{x509.ExtKeyUsageServerAuth},
			IPAddresses:  []net.IP{net.IPv4(127, 0, 0, 1)},
			DNSNames:     []string{"localhost"},
		}
		leafDER, err := x509.CreateCertificate(rand.Reader, leafTmpl, caCert, &leafKey.PublicKey, caKey)
		if err != nil {
			panic(err)
		}
		certPool = x509.NewCertPool()
		certPool.AddCert(caCert)
		certLeaf = tls.Certificate{Certificate: [][]byte{leafDER}, PrivateKey: leafKey}
	})
	return certPool, certLeaf
}
