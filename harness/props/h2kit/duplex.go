package h2kit

import (
	"errors"
	"io"
	"sync"
)

// pipe is one direction of the in-memory connection: an unbounded (or
// limit-bounded) byte queue with blocking reads.
type pipe struct {
	mu      sync.Mutex
	cond    *sync.Cond
	buf     []byte
	eof     bool  // writer side closed: readers drain then get io.EOF
	rdErr   error // reads fail immediately with this error
	wrErr   error // writes fail immediately with this error
	stalled int   // writes currently blocked by the stall
	stall   bool  // writes block until the stall is lifted (or the pipe fails)
	limit   int   // >0: writes block while len(buf) >= limit
	total   int64 // bytes ever written
	pieces  []int // read piece sizes (cyclic); empty = unlimited
	nread   int   // reads served so far
}

func newPipe() *pipe {
	p := &pipe{}
	p.cond = sync.NewCond(&p.mu)
	return p
}

func (p *pipe) read(b []byte) (int, error) {
	p.mu.Lock()
	defer p.mu.Unlock()
	for {
		if p.rdErr != nil {
			return 0, p.rdErr
		}
		if len(p.buf) > 0 {
			break
		}
		if p.eof {
			return 0, io.EOF
		}
		p.cond.Wait()
	}
	n := len(b)
	if len(p.pieces) > 0 {
		if ps := p.pieces[p.nread%len(p.pieces)]; ps > 0 && ps < n {
			n = ps
		}
	}
	p.nread++
	if n > len(p.buf) {
		n = len(p.buf)
	}
	copy(b, p.buf[:n])
	p.buf = p.buf[n:]
	if len(p.buf) == 0 {
		p.buf = nil
	}
	p.cond.Broadcast()
	return n, nil
}

func (p *pipe) write(b []byte) (int, error) {
	p.mu.Lock()
	defer p.mu.Unlock()
	written := 0
	for len(b) > 0 {
		if p.wrErr != nil {
			return written, p.wrErr
		}
		if p.eof {
			return written, io.ErrClosedPipe
		}
		if p.stall {
			p.stalled++
			p.cond.Wait()
			p.stalled--
			continue
		}
		if p.limit > 0 && len(p.buf) >= p.limit {
			p.cond.Wait()
			continue
		}
		n := len(b)
		if p.limit > 0 && n > p.limit-len(p.buf) {
			n = p.limit - len(p.buf)
		}
		p.buf = append(p.buf, b[:n]...)
		p.total += int64(n)
		written += n
		b = b[n:]
		p.cond.Broadcast()
	}
	if p.wrErr != nil {
		return written, p.wrErr
	}
	return written, nil
}

func (p *pipe) closeWrite() {
	p.mu.Lock()
	p.eof = true
	p.cond.Broadcast()
	p.mu.Unlock()
}

func (p *pipe) fail(rd, wr error) {
	p.mu.Lock()
	if rd != nil {
		p.rdErr = rd
	}
	if wr != nil {
		p.wrErr = wr
	}
	p.cond.Broadcast()
	p.mu.Unlock()
}

// Duplex is the in-memory client connection handed to h2.Config.Proxy. The
// relay side's Read returns the generated piece sizes (transport
// segmentation); the harness side is used by the frame-level client.
type Duplex struct {
	toRelay   *pipe // harness writes, relay reads
	fromRelay *pipe // relay writes, harness reads

	mu          sync.Mutex
	relayClosed bool // the relay called Close on its side
}

// ErrInjected is the error returned by injected write failures.
var ErrInjected = errors.New("h2kit: injected write failure")

// NewDuplex creates the connection. pieces are the sizes returned by
// successive relay-side Reads (cyclic, <=0 or empty = whatever is there);
// outLimit > 0 bounds the bytes the relay can have written without the harness
// having read them (back-pressure toward the relay's writer).
func NewDuplex(pieces []int, outLimit int) *Duplex {
	d := &Duplex{toRelay: newPipe(), fromRelay: newPipe()}
	d.toRelay.pieces = append([]int(nil), pieces...)
	d.fromRelay.limit = outLimit
	return d
}

// RelayConn is the io.ReadWriteCloser given to Config.Proxy.
type RelayConn struct{ d *Duplex }

// HarnessConn is the harness end.
type HarnessConn struct{ d *Duplex }

func (d *Duplex) RelaySide() *RelayConn     { return &RelayConn{d} }
func (d *Duplex) HarnessSide() *HarnessConn { return &HarnessConn{d} }

func (c *RelayConn) Read(b []byte) (int, error)  { return c.d.toRelay.read(b) }
func (c *RelayConn) Write(b []byte) (int, error) { return c.d.fromRelay.write(b) }

// Close is what a repaired relay (or the caller of Proxy) does with the client
// connection: both directions end.
func (c *RelayConn) Close() error {
	c.d.mu.Lock()
	c.d.relayClosed = true
	c.d.mu.Unlock()
	c.d.toRelay.fail(io.ErrClosedPipe, io.ErrClosedPipe)
	c.d.fromRelay.closeWrite()
	return nil
}

func (c *HarnessConn) Read(b []byte) (int, error)  { return c.d.fromRelay.read(b) }
func (c *HarnessConn) Write(b []byte) (int, error) { return c.d.toRelay.write(b) }

// Close is the client going away: the relay reads EOF after draining what was
// written and its writes fail.
func (c *HarnessConn) Close() error {
	c.d.toRelay.closeWrite()
	c.d.fromRelay.fail(io.EOF, io.ErrClosedPipe)
	return nil
}

// RelayClosed reports whether the relay side was closed by the relay/caller.
func (d *Duplex) RelayClosed() bool {
	d.mu.Lock()
	defer d.mu.Unlock()
	return d.relayClosed
}

// FailRelayWrites makes every further write by the relay toward the client
// fail (the relay's reads are unaffected).
func (d *Duplex) FailRelayWrites() { d.fromRelay.fail(nil, ErrInjected) }

// StallRelayWrites makes every write by the relay toward the client block (a
// peer whose receive path has stalled) until FailRelayWrites, ResumeRelayWrites
// or the end of the case.
func (d *Duplex) StallRelayWrites() {
	d.fromRelay.mu.Lock()
	d.fromRelay.stall = true
	d.fromRelay.mu.Unlock()
}

// StalledWrites is the number of relay writes currently held by StallRelayWrites.
func (d *Duplex) StalledWrites() int {
	d.fromRelay.mu.Lock()
	defer d.fromRelay.mu.Unlock()
	return d.fromRelay.stalled
}

// ResumeRelayWrites lifts StallRelayWrites.
func (d *Duplex) ResumeRelayWrites() {
	d.fromRelay.mu.Lock()
	d.fromRelay.stall = false
	d.fromRelay.cond.Broadcast()
	d.fromRelay.mu.Unlock()
}

// deadlineError is what a connection returns once its read deadline has passed.
type deadlineError struct{}

func (deadlineError) Error() string   { return "i/o timeout" }
func (deadlineError) Timeout() bool   { return true }
func (deadlineError) Temporary() bool { return true }

// ExpireRelayReads: the client connection's read deadline has passed (martian puts one on
// every connection it accepts): from now on every read by the relay fails at once with a
// timeout error, as net.Conn does.
func (d *Duplex) ExpireRelayReads() { d.toRelay.fail(deadlineError{}, nil) }

// FailRelayReads makes the relay's next read from the client fail with a
// non-EOF error.
func (d *Duplex) FailRelayReads() { d.toRelay.fail(ErrInjected, nil) }

// Buffered is the number of bytes written by the relay and not yet read.
func (d *Duplex) Buffered() int {
	d.fromRelay.mu.Lock()
	defer d.fromRelay.mu.Unlock()
	return len(d.fromRelay.buf)
}

// Pending is the number of bytes written by the harness that the relay has
// not read yet.
func (d *Duplex) Pending() int {
	d.toRelay.mu.Lock()
	defer d.toRelay.mu.Unlock()
	return len(d.toRelay.buf)
}

// TearDown unblocks everybody: used at the end of every case.
func (d *Duplex) TearDown() {
	d.toRelay.closeWrite()
	d.toRelay.mu.Lock()
	if d.toRelay.rdErr != nil {
		d.toRelay.rdErr = io.ErrClosedPipe // (whatever reads failed with before: the connection is gone now)
	}
	d.toRelay.mu.Unlock()
	d.toRelay.fail(nil, io.ErrClosedPipe)
	d.fromRelay.fail(io.EOF, io.ErrClosedPipe)
}
