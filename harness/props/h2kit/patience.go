package h2kit

import (
	"flag"
	"sync"
	"time"

	"verifharness/internal/kit"
)

// Patience bounds what a check spends on liveness failures while rapid shrinks
// one: every failing candidate of a "never arrives" failure costs a full wait,
// and rapid's own shrink deadline is not consulted inside its binary searches.
//
// Until a liveness failure has been confirmed (bound T, re-validated with 3T)
// nothing changes. Afterwards the process is going to report a violation
// anyway: candidates are then run with T and without re-validation, and once
// Budget of such waits has been spent, with a short bound.
type Patience struct {
	mu        sync.Mutex
	confirmed bool
	spent     time.Duration
	Budget    time.Duration
}

// Bound returns the wait bound to use and whether an expired wait should be
// re-validated with three times the bound.
func (p *Patience) Bound() (time.Duration, bool) {
	p.mu.Lock()
	defer p.mu.Unlock()
	if !p.confirmed {
		return kit.T(), true
	}
	budget := p.Budget
	if budget == 0 {
		budget = 9 * time.Second
	}
	if p.spent > budget {
		return 100 * time.Millisecond, false
	}
	return kit.T(), false
}

// Confirm records that a liveness failure survived re-validation.
func (p *Patience) Confirm() {
	p.mu.Lock()
	p.confirmed = true
	p.mu.Unlock()
}

// Spent accounts an expired wait after confirmation.
func (p *Patience) Spent(d time.Duration) {
	p.mu.Lock()
	if p.confirmed {
		p.spent += d
	}
	p.mu.Unlock()
}

var shrinkOnce sync.Once

// ShortShrink limits rapid's minimisation time for this process (the kit sets
// a longer one when a check starts; rapid reads the flag when it starts to
// shrink). Called from inside Run functions: every failing candidate of a
// liveness failure costs a bounded wait, so long minimisation buys little.
func ShortShrink() {
	shrinkOnce.Do(func() { flag.Set("rapid.shrinktime", "15s") })
}
