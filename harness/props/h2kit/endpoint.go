package h2kit

import (
	"bytes"
	"encoding/binary"
	"fmt"
	"io"
	"sync"
	"time"

	"golang.org/x/net/http2"
	"golang.org/x/net/http2/hpack"
)

// Preface is the client connection preface.
const Preface = "PRI * HTTP/2.0\r\n\r\nSM\r\n\r\n"

// Field is one header field.
type Field struct {
	N string `json:"n"`
	V string `json:"v"`
	// S: the field is sent as a never-indexed literal (HPACK "sensitive"): it leaves the
	// dynamic tables of every encoder and decoder on its way untouched.
	S bool `json:"s,omitempty"`
}

// Prio is a priority specification (wire weight, 0..255).
type Prio struct {
	Dep    uint32 `json:"dep"`
	Excl   bool   `json:"x,omitempty"`
	Weight uint8  `json:"w"`
}

// Setting is one SETTINGS parameter.
type Setting struct {
	ID  uint16 `json:"id"`
	Val uint32 `json:"v"`
}

// Event is one thing received on a stream. Kind: H headers (or trailers),
// D data, R reset, P priority, PP push promise.
type Event struct {
	Kind      string
	Fields    []Field
	DecodeErr string
	End       bool
	Prio      *Prio
	Data      []byte
	Code      uint32
	Promised  uint32
	Frames    int // wire frames that made up the event (HEADERS + CONTINUATIONs)
	Seq       int // arrival index over all events of the connection
}

// Ping and GoAway are connection-level observations.
type Ping struct {
	Ack  bool
	Data [8]byte
}
type GoAway struct {
	Last  uint32
	Code  uint32
	Debug []byte
}

// DataObs is one received DATA frame (for the flow-control ledger).
type DataObs struct {
	Stream  uint32
	FlowLen int // frame payload length: data + pad length octet + padding
	DataLen int
	End     bool
}

// Violation is a breach of what this endpoint advertised.
type Violation struct {
	Kind   string // stream-window | conn-window | frame-size
	Stream uint32
	Detail string
}

// Rec is everything an endpoint received. Access only inside Endpoint.Wait /
// Endpoint.With callbacks (the endpoint's lock is held there).
type Rec struct {
	PrefaceOK bool
	Streams   map[uint32][]Event
	Order     []uint32 // stream of every event in arrival order
	Settings  [][]Setting
	Acks      int
	Pings     []Ping
	GoAways   []GoAway
	WU        map[uint32]uint64 // sum of WINDOW_UPDATE increments per stream (0 = connection)
	WUFrames  int
	Data      []DataObs
	DataBytes map[uint32]int // data octets received per stream (padding excluded)
	Frames    int
	// FramesBeforeSettings counts the frames that arrived before the first SETTINGS frame.
	FramesBeforeSettings int
	Unknown              int
	StreamErr            []string
	// Foreign lists frames that arrived between a HEADERS / PUSH_PROMISE frame without
	// END_HEADERS and the end of its CONTINUATION sequence (a connection error for
	// any real receiver, RFC 7540 section 6.10).
	Foreign []string
	ReadErr error // terminal read error (io.EOF when the peer closed cleanly)
	Done    bool  // reader finished

	Violations []Violation
}

// Endpoint is a frame-level HTTP/2 peer with its own HPACK state per
// direction. One goroutine reads; writes are serialised by a mutex so that
// header blocks reach the wire in the order they were encoded.
type Endpoint struct {
	Name    string
	client  bool
	rw      io.ReadWriteCloser
	fr      *http2.Framer // writes
	rd      *http2.Framer // parses the frames readFrame hands it
	rbuf    bytes.Buffer
	maxFrag int // largest header block fragment put in one frame

	wmu  sync.Mutex
	enc  *hpack.Encoder
	ebuf bytes.Buffer

	mu      sync.Mutex
	changed chan struct{}
	rec     Rec
	dec     *hpack.Decoder

	// receive-side ledger: what this endpoint granted
	autoWU       bool // return credit for every DATA frame at once
	autoAck      bool
	pendingAcks  int // SETTINGS received and not acknowledged yet
	recvInit     int64
	recvConn     int64
	recvGrant    map[uint32]int64
	recvUsed     map[uint32]int64
	advMaxFrame  uint32
	maxOnAck     uint32            // a lowered maximum frame size that binds the peer from its next SETTINGS ack on
	peerSettings map[uint16]uint32 // settings of the peer that this endpoint has acknowledged
	heldSettings [][]Setting       // received, not yet acknowledged

	started bool
	done    chan struct{}

	paused bool
	resume chan struct{}
}

// NewEndpoint wraps a connection. client selects who sends the preface.
func NewEndpoint(name string, client bool, rw io.ReadWriteCloser) *Endpoint {
	e := &Endpoint{Name: name, client: client, rw: rw, changed: make(chan struct{}), done: make(chan struct{})}
	e.fr = http2.NewFramer(rw, rw)
	e.fr.SetMaxReadFrameSize(1<<24 - 1)
	// this endpoint reassembles header blocks itself; the x/net Framer of this
	// vintage rejects CONTINUATION after PUSH_PROMISE otherwise
	e.fr.AllowIllegalReads = true
	e.rd = http2.NewFramer(io.Discard, &e.rbuf)
	e.rd.SetMaxReadFrameSize(1<<24 - 1)
	e.rd.AllowIllegalReads = true
	e.maxFrag = MaxFragment
	e.enc = hpack.NewEncoder(&e.ebuf)
	e.dec = hpack.NewDecoder(4096, nil)
	e.rec.Streams = map[uint32][]Event{}
	e.rec.WU = map[uint32]uint64{}
	e.rec.DataBytes = map[uint32]int{}
	e.recvInit, e.recvConn = 65535, 65535
	e.recvGrant, e.recvUsed = map[uint32]int64{}, map[uint32]int64{}
	e.advMaxFrame = 16384
	e.autoAck = true
	e.peerSettings = map[uint16]uint32{}
	return e
}

// SetAutoAck selects whether SETTINGS are acknowledged on receipt (default)
// or only when AckSettings is called (an endpoint that has not processed them
// yet: it legitimately keeps acting under the old values).
func (e *Endpoint) SetAutoAck(v bool) {
	e.mu.Lock()
	e.autoAck = v
	e.mu.Unlock()
}

// SetAutoWU selects whether credit is returned for every DATA frame as soon
// as it is received.
func (e *Endpoint) SetAutoWU(v bool) {
	e.mu.Lock()
	e.autoWU = v
	e.mu.Unlock()
}

// Start launches the reader goroutine.
func (e *Endpoint) Start() {
	e.started = true
	go e.readLoop()
}

// Close closes the connection; the reader goroutine ends.
func (e *Endpoint) Close() {
	e.Resume()
	e.rw.Close()
}

// Pause makes the reader goroutine stop before its next read: the endpoint no
// longer drains its connection (back-pressure toward the relay's writer).
func (e *Endpoint) Pause() {
	e.mu.Lock()
	if !e.paused {
		e.paused = true
		e.resume = make(chan struct{})
	}
	e.mu.Unlock()
}

// Resume undoes Pause.
func (e *Endpoint) Resume() {
	e.mu.Lock()
	if e.paused {
		e.paused = false
		close(e.resume)
	}
	e.mu.Unlock()
}

// Join waits for the reader goroutine (bounded).
func (e *Endpoint) Join(bound time.Duration) bool {
	if !e.started {
		return true
	}
	select {
	case <-e.done:
		return true
	case <-time.After(bound):
		return false
	}
}

func (e *Endpoint) notifyLocked() {
	close(e.changed)
	e.changed = make(chan struct{})
}

// Wait blocks until cond holds on the recorder or the bound expires.
func (e *Endpoint) Wait(bound time.Duration, cond func(r *Rec) bool) bool {
	deadline := time.NewTimer(bound)
	defer deadline.Stop()
	for {
		e.mu.Lock()
		ok := cond(&e.rec)
		ch := e.changed
		e.mu.Unlock()
		if ok {
			return true
		}
		select {
		case <-ch:
		case <-deadline.C:
			e.mu.Lock()
			ok := cond(&e.rec)
			e.mu.Unlock()
			return ok
		}
	}
}

// With runs fn on the recorder under the endpoint's lock.
func (e *Endpoint) With(fn func(r *Rec)) {
	e.mu.Lock()
	fn(&e.rec)
	e.mu.Unlock()
}

// Credit returns the connection credit and the credit of a stream that this
// endpoint has granted and not yet seen used.
func (e *Endpoint) Credit(stream uint32) (conn, str int64) {
	e.mu.Lock()
	defer e.mu.Unlock()
	return e.recvConn, e.recvInit + e.recvGrant[stream] - e.recvUsed[stream]
}

// AdvertisedMaxFrame is the MAX_FRAME_SIZE this endpoint announced.
func (e *Endpoint) AdvertisedMaxFrame() uint32 {
	e.mu.Lock()
	defer e.mu.Unlock()
	return e.advMaxFrame
}

// SetAdvertisedMaxFrame records a maximum frame size this endpoint enforces from now on
// (WriteSettings only ever raises it: a lowered value binds the peer once it has
// acknowledged it, which the caller has to observe).
func (e *Endpoint) SetAdvertisedMaxFrame(v uint32) {
	e.mu.Lock()
	e.advMaxFrame = v
	e.mu.Unlock()
}

// LowerMaxFrameOnNextAck makes the endpoint enforce v as its maximum frame size for every
// frame that arrives after the next SETTINGS acknowledgement.
func (e *Endpoint) LowerMaxFrameOnNextAck(v uint32) {
	e.mu.Lock()
	e.maxOnAck = v
	e.mu.Unlock()
}

// AdvertisedMaxFrameLocked is AdvertisedMaxFrame for use inside With/Wait
// callbacks (the endpoint's lock is already held there).
func (e *Endpoint) AdvertisedMaxFrameLocked() uint32 { return e.advMaxFrame }

// PeerSetting returns a setting of the peer that this endpoint has
// acknowledged (and therefore must honour), or def.
func (e *Endpoint) PeerSetting(id uint16, def uint32) uint32 {
	e.mu.Lock()
	defer e.mu.Unlock()
	if v, ok := e.peerSettings[id]; ok {
		return v
	}
	return def
}

// ---------------------------------------------------------------- reading

type pendingBlock struct {
	kind     string
	stream   uint32
	end      bool
	prio     *Prio
	promised uint32
	buf      []byte
	frames   int
}

func (e *Endpoint) readLoop() {
	defer close(e.done)
	finish := func(err error) {
		e.mu.Lock()
		e.rec.ReadErr = err
		e.rec.Done = true
		e.notifyLocked()
		e.mu.Unlock()
	}
	if !e.client {
		buf := make([]byte, len(Preface))
		if _, err := io.ReadFull(e.rw, buf); err != nil {
			finish(fmt.Errorf("reading preface: %w", err))
			return
		}
		if string(buf) != Preface {
			finish(fmt.Errorf("bad preface %q", buf))
			return
		}
		e.mu.Lock()
		e.rec.PrefaceOK = true
		e.notifyLocked()
		e.mu.Unlock()
	}
	var pend *pendingBlock
	for {
		e.mu.Lock()
		gate := e.resume
		held := e.paused
		e.mu.Unlock()
		if held {
			<-gate
		}
		f, bare, err := e.readFrame()
		if bare != nil {
			e.mu.Lock()
			e.rec.Frames++
			if pend != nil {
				e.rec.Foreign = append(e.rec.Foreign, fmt.Sprintf("HEADERS on stream %d inside the header block of stream %d", bare.stream, pend.stream))
			}
			if bare.frames == 1 {
				e.completeBlock(bare)
			} else {
				bare.frames = 1
				pend = bare
			}
			e.notifyLocked()
			e.mu.Unlock()
			continue
		}
		if err != nil {
			if se, ok := err.(http2.StreamError); ok {
				e.mu.Lock()
				e.rec.StreamErr = append(e.rec.StreamErr, se.Error())
				e.notifyLocked()
				e.mu.Unlock()
				continue
			}
			finish(err)
			return
		}
		var ackNow bool
		var credit *DataObs
		e.mu.Lock()
		e.rec.Frames++
		if f.Header().Length > e.advMaxFrame {
			e.rec.Violations = append(e.rec.Violations, Violation{Kind: "frame-size", Stream: f.Header().StreamID,
				Detail: fmt.Sprintf("%v frame of %d octets, advertised maximum %d", f.Header().Type, f.Header().Length, e.advMaxFrame)})
		}
		if pend != nil {
			if cf, ok := f.(*http2.ContinuationFrame); !ok || cf.StreamID != pend.stream {
				e.rec.Foreign = append(e.rec.Foreign, fmt.Sprintf("%v on stream %d inside the header block of stream %d (after %d of its frames)", f.Header().Type, f.Header().StreamID, pend.stream, pend.frames))
			}
		}
		if _, isSettings := f.(*http2.SettingsFrame); !isSettings && len(e.rec.Settings) == 0 && e.rec.Acks == 0 {
			e.rec.FramesBeforeSettings++
		}
		switch f := f.(type) {
		case *http2.DataFrame:
			obs := DataObs{Stream: f.StreamID, FlowLen: int(f.Length), DataLen: len(f.Data()), End: f.StreamEnded()}
			e.rec.Data = append(e.rec.Data, obs)
			e.rec.DataBytes[f.StreamID] += len(f.Data())
			e.recvUsed[f.StreamID] += int64(f.Length)
			e.recvConn -= int64(f.Length)
			if left := e.recvInit + e.recvGrant[f.StreamID] - e.recvUsed[f.StreamID]; left < 0 && f.Length > 0 {
				e.rec.Violations = append(e.rec.Violations, Violation{Kind: "stream-window", Stream: f.StreamID,
					Detail: fmt.Sprintf("DATA of %d flow-controlled octets on stream %d overran the stream window by %d", f.Length, f.StreamID, -left)})
			}
			if e.recvConn < 0 && f.Length > 0 {
				e.rec.Violations = append(e.rec.Violations, Violation{Kind: "conn-window", Stream: f.StreamID,
					Detail: fmt.Sprintf("DATA of %d flow-controlled octets on stream %d overran the connection window by %d", f.Length, f.StreamID, -e.recvConn)})
			}
			e.addEvent(f.StreamID, Event{Kind: "D", Data: append([]byte(nil), f.Data()...), End: f.StreamEnded(), Frames: 1})
			if e.autoWU && f.Length > 0 {
				credit = &obs
			}
		case *http2.HeadersFrame:
			pb := &pendingBlock{kind: "H", stream: f.StreamID, end: f.StreamEnded(), buf: append([]byte(nil), f.HeaderBlockFragment()...), frames: 1}
			if f.HasPriority() {
				pb.prio = &Prio{Dep: f.Priority.StreamDep, Excl: f.Priority.Exclusive, Weight: f.Priority.Weight}
			}
			if f.HeadersEnded() {
				e.completeBlock(pb)
			} else {
				pend = pb
			}
		case *http2.PushPromiseFrame:
			pb := &pendingBlock{kind: "PP", stream: f.StreamID, promised: f.PromiseID, buf: append([]byte(nil), f.HeaderBlockFragment()...), frames: 1}
			if f.HeadersEnded() {
				e.completeBlock(pb)
			} else {
				pend = pb
			}
		case *http2.ContinuationFrame:
			if pend == nil {
				e.rec.StreamErr = append(e.rec.StreamErr, "CONTINUATION without an open header block")
			} else {
				pend.buf = append(pend.buf, f.HeaderBlockFragment()...)
				pend.frames++
				if f.HeadersEnded() {
					e.completeBlock(pend)
					pend = nil
				}
			}
		case *http2.PriorityFrame:
			e.addEvent(f.StreamID, Event{Kind: "P", Prio: &Prio{Dep: f.StreamDep, Excl: f.Exclusive, Weight: f.Weight}, Frames: 1})
		case *http2.RSTStreamFrame:
			e.addEvent(f.StreamID, Event{Kind: "R", Code: uint32(f.ErrCode), Frames: 1})
		case *http2.SettingsFrame:
			if f.IsAck() {
				e.rec.Acks++
				if e.maxOnAck != 0 {
					e.advMaxFrame, e.maxOnAck = e.maxOnAck, 0
				}
			} else {
				var list []Setting
				f.ForeachSetting(func(s http2.Setting) error {
					list = append(list, Setting{ID: uint16(s.ID), Val: s.Val})
					return nil
				})
				e.rec.Settings = append(e.rec.Settings, list)
				e.heldSettings = append(e.heldSettings, list)
				e.pendingAcks++
				ackNow = e.autoAck
			}
		case *http2.PingFrame:
			e.rec.Pings = append(e.rec.Pings, Ping{Ack: f.IsAck(), Data: f.Data})
		case *http2.GoAwayFrame:
			e.rec.GoAways = append(e.rec.GoAways, GoAway{Last: f.LastStreamID, Code: uint32(f.ErrCode), Debug: append([]byte(nil), f.DebugData()...)})
		case *http2.WindowUpdateFrame:
			e.rec.WU[f.StreamID] += uint64(f.Increment)
			e.rec.WUFrames++
		default:
			e.rec.Unknown++
		}
		e.notifyLocked()
		e.mu.Unlock()
		if ackNow {
			e.AckSettings()
		}
		if credit != nil {
			e.WriteWindowUpdate(0, uint32(credit.FlowLen))
			e.WriteWindowUpdate(credit.Stream, uint32(credit.FlowLen))
		}
	}
}

// readFrame reads one frame. A HEADERS frame that carries no header block
// fragment octets (legal; what a relay writes for a block without fields) is
// returned as a pendingBlock, frames = 1 if END_HEADERS is set and 0 otherwise:
// the x/net Framer refuses such a frame as a matter of policy. Everything
// else is parsed by x/net.
func (e *Endpoint) readFrame() (http2.Frame, *pendingBlock, error) {
	var hdr [9]byte
	if _, err := io.ReadFull(e.rw, hdr[:]); err != nil {
		return nil, nil, err
	}
	length := int(hdr[0])<<16 | int(hdr[1])<<8 | int(hdr[2])
	payload := make([]byte, length)
	if _, err := io.ReadFull(e.rw, payload); err != nil {
		if err == io.EOF {
			err = io.ErrUnexpectedEOF
		}
		return nil, nil, err
	}
	if http2.FrameType(hdr[3]) == http2.FrameHeaders {
		flags := http2.Flags(hdr[4])
		p, padLen, ok := payload, 0, true
		if flags.Has(http2.FlagHeadersPadded) {
			if len(p) < 1 {
				ok = false
			} else {
				padLen, p = int(p[0]), p[1:]
			}
		}
		var prio *Prio
		if ok && flags.Has(http2.FlagHeadersPriority) {
			if len(p) < 5 {
				ok = false
			} else {
				dep := binary.BigEndian.Uint32(p[:4])
				prio = &Prio{Dep: dep &^ (1 << 31), Excl: dep&(1<<31) != 0, Weight: p[4]}
				p = p[5:]
			}
		}
		if ok && len(p)-padLen == 0 {
			pb := &pendingBlock{kind: "H", stream: binary.BigEndian.Uint32(hdr[5:]) &^ (1 << 31), end: flags.Has(http2.FlagHeadersEndStream), prio: prio}
			if flags.Has(http2.FlagHeadersEndHeaders) {
				pb.frames = 1
			}
			return nil, pb, nil
		}
	}
	e.rbuf.Reset()
	e.rbuf.Write(hdr[:])
	e.rbuf.Write(payload)
	f, err := e.rd.ReadFrame()
	return f, nil, err
}

// caller holds e.mu
func (e *Endpoint) addEvent(stream uint32, ev Event) {
	ev.Seq = len(e.rec.Order)
	e.rec.Order = append(e.rec.Order, stream)
	e.rec.Streams[stream] = append(e.rec.Streams[stream], ev)
}

// caller holds e.mu
func (e *Endpoint) completeBlock(pb *pendingBlock) {
	ev := Event{Kind: pb.kind, End: pb.end, Prio: pb.prio, Promised: pb.promised, Frames: pb.frames}
	hf, err := e.dec.DecodeFull(pb.buf)
	if err != nil {
		ev.DecodeErr = err.Error()
	}
	for _, h := range hf {
		ev.Fields = append(ev.Fields, Field{N: h.Name, V: h.Value, S: h.Sensitive})
	}
	e.addEvent(pb.stream, ev)
}

// ---------------------------------------------------------------- writing

// WritePreface sends the client connection preface.
func (e *Endpoint) WritePreface() error {
	e.wmu.Lock()
	defer e.wmu.Unlock()
	_, err := e.rw.Write([]byte(Preface))
	return err
}

// WriteSettings sends SETTINGS and records what this endpoint now advertises.
// A lowered INITIAL_WINDOW_SIZE takes effect in the ledger at once: callers
// lower it only while nothing can be in flight toward this endpoint.
func (e *Endpoint) WriteSettings(list ...Setting) error {
	ss := make([]http2.Setting, len(list))
	e.mu.Lock()
	for i, s := range list {
		ss[i] = http2.Setting{ID: http2.SettingID(s.ID), Val: s.Val}
		switch http2.SettingID(s.ID) {
		case http2.SettingInitialWindowSize:
			e.recvInit = int64(s.Val)
		case http2.SettingMaxFrameSize:
			if s.Val > e.advMaxFrame {
				e.advMaxFrame = s.Val
			}
		case http2.SettingHeaderTableSize:
			e.dec.SetAllowedMaxDynamicTableSize(s.Val)
		}
	}
	e.mu.Unlock()
	e.wmu.Lock()
	defer e.wmu.Unlock()
	return e.fr.WriteSettings(ss...)
}

// AckSettings acknowledges every SETTINGS frame received so far and from now
// on honours their values.
func (e *Endpoint) AckSettings() error {
	e.mu.Lock()
	n := e.pendingAcks
	e.pendingAcks = 0
	for _, list := range e.heldSettings {
		for _, s := range list {
			e.peerSettings[s.ID] = s.Val
		}
	}
	e.heldSettings = nil
	table, hasTable := e.peerSettings[uint16(http2.SettingHeaderTableSize)]
	e.mu.Unlock()
	e.wmu.Lock()
	defer e.wmu.Unlock()
	if hasTable {
		// the peer's decoder accepts a dynamic table of up to this size from now on
		// (a smaller value than the encoder uses is signalled in its next block)
		e.enc.SetMaxDynamicTableSizeLimit(table)
	}
	for i := 0; i < n; i++ {
		if err := e.fr.WriteSettingsAck(); err != nil {
			return err
		}
	}
	return nil
}

// AckSettingsAuto acknowledges what is pending and switches to acknowledging
// on receipt.
func (e *Endpoint) AckSettingsAuto() error {
	e.mu.Lock()
	e.autoAck = true
	e.mu.Unlock()
	return e.AckSettings()
}

// WriteSettingsAck writes one bare acknowledgement.
func (e *Endpoint) WriteSettingsAck() error {
	e.wmu.Lock()
	defer e.wmu.Unlock()
	return e.fr.WriteSettingsAck()
}

// SetEncoderTableSize makes this endpoint's encoder use a smaller (or the
// default) dynamic table; the change is signalled in its next header block.
func (e *Endpoint) SetEncoderTableSize(v uint32) {
	e.wmu.Lock()
	e.enc.SetMaxDynamicTableSize(v)
	e.wmu.Unlock()
}

func (e *Endpoint) encode(fields []Field) []byte {
	e.ebuf.Reset()
	for _, f := range fields {
		e.enc.WriteField(hpack.HeaderField{Name: f.N, Value: f.V, Sensitive: f.S})
	}
	return append([]byte(nil), e.ebuf.Bytes()...)
}

// splitAt cuts block at the given offsets (taken modulo the block length,
// sorted, deduplicated): len(result) >= 1.
func split(block []byte, cuts []int, maxFrag int) [][]byte {
	var out [][]byte
	for _, part := range splitAt(block, cuts) {
		// a sender stays below the default maximum frame size (room is left for
		// the pad length octet, padding and the priority section)
		for len(part) > maxFrag {
			out = append(out, part[:maxFrag])
			part = part[maxFrag:]
		}
		out = append(out, part)
	}
	return out
}

// MaxFragment is the largest header block fragment an endpoint puts in one frame
// unless SetMaxFragment says otherwise.
const MaxFragment = 16000

func splitAt(block []byte, cuts []int) [][]byte {
	if len(cuts) == 0 {
		return [][]byte{block}
	}
	pos := map[int]bool{}
	for _, c := range cuts {
		if c < 0 {
			c = -c
		}
		if len(block) == 0 {
			continue
		}
		// never an empty first fragment: x/net (which the relay reads with)
		// refuses a HEADERS frame without fragment octets as a matter of policy
		if c = c % (len(block) + 1); c == 0 {
			c = 1
		}
		pos[c] = true
	}
	if len(pos) == 0 {
		return [][]byte{block}
	}
	var out [][]byte
	last := 0
	// every requested cut produces a frame boundary, also at 0 and at the end
	// (empty first fragment / empty CONTINUATION are legal)
	for i := 0; i <= len(block); i++ {
		if pos[i] {
			out = append(out, block[last:i])
			last = i
		}
	}
	out = append(out, block[last:])
	return out
}

func pad(payload []byte, padLen int) []byte {
	out := make([]byte, 0, len(payload)+1+padLen)
	out = append(out, byte(padLen))
	out = append(out, payload...)
	return append(out, make([]byte, padLen)...)
}

// HeadersSpec describes a HEADERS frame plus its CONTINUATIONs.
type HeadersSpec struct {
	Stream    uint32
	Fields    []Field
	EndStream bool
	Prio      *Prio // nil = no priority section
	Pad       int   // <0 no PADDED flag; 0..255 pad length
	Cuts      []int // block offsets where a CONTINUATION starts
	// Raw, if not nil, is sent as the header block instead of encoding Fields (which
	// must then describe what Raw decodes to, e.g. nothing for a bare table size update).
	Raw []byte
}

// SetMaxFragment changes the largest header block fragment this endpoint puts in
// one frame (a peer that announced a larger SETTINGS_MAX_FRAME_SIZE allows more).
func (e *Endpoint) SetMaxFragment(n int) {
	e.wmu.Lock()
	if n > 0 {
		e.maxFrag = n
	}
	e.wmu.Unlock()
}

// TableSizeUpdate4096 is a header block that consists of nothing but the HPACK
// instruction "dynamic table size update: 4096". It carries no field.
var TableSizeUpdate4096 = []byte{0x3f, 0xe1, 0x1f}

// WriteHeaders encodes the fields with this endpoint's encoder and writes
// HEADERS (+ CONTINUATION) contiguously. It returns the number of frames.
func (e *Endpoint) WriteHeaders(h HeadersSpec) (int, error) {
	e.wmu.Lock()
	defer e.wmu.Unlock()
	block := h.Raw
	if block == nil {
		block = e.encode(h.Fields)
	}
	parts := split(block, h.Cuts, e.maxFrag)
	var payload []byte
	var flags http2.Flags
	if h.Prio != nil {
		flags |= http2.FlagHeadersPriority
		var p [5]byte
		dep := h.Prio.Dep
		if h.Prio.Excl {
			dep |= 1 << 31
		}
		binary.BigEndian.PutUint32(p[:4], dep)
		p[4] = h.Prio.Weight
		payload = append(payload, p[:]...)
	}
	payload = append(payload, parts[0]...)
	if h.Pad >= 0 {
		flags |= http2.FlagHeadersPadded
		payload = pad(payload, h.Pad)
	}
	if h.EndStream {
		flags |= http2.FlagHeadersEndStream
	}
	if len(parts) == 1 {
		flags |= http2.FlagHeadersEndHeaders
	}
	if err := e.fr.WriteRawFrame(http2.FrameHeaders, flags, h.Stream, payload); err != nil {
		return 0, err
	}
	return 1 + len(parts[1:]), e.continuations(h.Stream, parts[1:])
}

func (e *Endpoint) continuations(stream uint32, parts [][]byte) error {
	for i, p := range parts {
		if err := e.fr.WriteContinuation(stream, i == len(parts)-1, p); err != nil {
			return err
		}
	}
	return nil
}

// WritePushPromise writes PUSH_PROMISE (+ CONTINUATION).
func (e *Endpoint) WritePushPromise(stream, promised uint32, fields []Field, padLen int, cuts []int) (int, error) {
	e.wmu.Lock()
	defer e.wmu.Unlock()
	parts := split(e.encode(fields), cuts, e.maxFrag)
	var p [4]byte
	binary.BigEndian.PutUint32(p[:], promised)
	payload := append(p[:], parts[0]...)
	var flags http2.Flags
	if padLen >= 0 {
		flags |= http2.FlagPushPromisePadded
		payload = pad(payload, padLen)
	}
	if len(parts) == 1 {
		flags |= http2.FlagPushPromiseEndHeaders
	}
	if err := e.fr.WriteRawFrame(http2.FramePushPromise, flags, stream, payload); err != nil {
		return 0, err
	}
	return len(parts), e.continuations(stream, parts[1:])
}

// WriteData writes one DATA frame; padLen < 0 means no PADDED flag. It returns
// the flow-controlled length of the frame.
func (e *Endpoint) WriteData(stream uint32, data []byte, padLen int, end bool) (int, error) {
	e.wmu.Lock()
	defer e.wmu.Unlock()
	var flags http2.Flags
	payload := data
	if padLen >= 0 {
		flags |= http2.FlagDataPadded
		payload = pad(data, padLen)
	}
	if end {
		flags |= http2.FlagDataEndStream
	}
	return len(payload), e.fr.WriteRawFrame(http2.FrameData, flags, stream, payload)
}

func (e *Endpoint) WritePriority(stream uint32, p Prio) error {
	e.wmu.Lock()
	defer e.wmu.Unlock()
	return e.fr.WritePriority(stream, http2.PriorityParam{StreamDep: p.Dep, Exclusive: p.Excl, Weight: p.Weight})
}

func (e *Endpoint) WriteRST(stream uint32, code uint32) error {
	e.wmu.Lock()
	defer e.wmu.Unlock()
	return e.fr.WriteRSTStream(stream, http2.ErrCode(code))
}

func (e *Endpoint) WritePing(ack bool, data [8]byte) error {
	e.wmu.Lock()
	defer e.wmu.Unlock()
	return e.fr.WritePing(ack, data)
}

func (e *Endpoint) WriteGoAway(last uint32, code uint32, debug []byte) error {
	e.wmu.Lock()
	defer e.wmu.Unlock()
	return e.fr.WriteGoAway(last, http2.ErrCode(code), debug)
}

// WriteWindowUpdate grants credit (recorded in the ledger before it is sent).
func (e *Endpoint) WriteWindowUpdate(stream uint32, inc uint32) error {
	e.mu.Lock()
	if stream == 0 {
		e.recvConn += int64(inc)
	} else {
		e.recvGrant[stream] += int64(inc)
	}
	e.mu.Unlock()
	e.wmu.Lock()
	defer e.wmu.Unlock()
	return e.fr.WriteWindowUpdate(stream, inc)
}

// WriteRaw writes an arbitrary frame (protocol-error injection).
func (e *Endpoint) WriteRaw(t uint8, flags uint8, stream uint32, payload []byte) error {
	e.wmu.Lock()
	defer e.wmu.Unlock()
	return e.fr.WriteRawFrame(http2.FrameType(t), http2.Flags(flags), stream, payload)
}

// WriteBytes writes raw bytes to the connection (oversized frame headers etc).
func (e *Endpoint) WriteBytes(b []byte) error {
	e.wmu.Lock()
	defer e.wmu.Unlock()
	_, err := e.rw.Write(b)
	return err
}

// MarkerPing is the payload of harness barrier pings; index distinguishes them.
func MarkerPing(index uint32) [8]byte {
	var d [8]byte
	copy(d[:4], "\xffVRF")
	binary.BigEndian.PutUint32(d[4:], index)
	return d
}

// IsMarker reports whether a ping payload is a harness barrier.
func IsMarker(d [8]byte) (uint32, bool) {
	if string(d[:4]) != "\xffVRF" {
		return 0, false
	}
	return binary.BigEndian.Uint32(d[4:]), true
}

// HasMarker reports whether barrier ping index has been received.
func (r *Rec) HasMarker(index uint32) bool {
	for i := len(r.Pings) - 1; i >= 0; i-- {
		if n, ok := IsMarker(r.Pings[i].Data); ok && n == index && !r.Pings[i].Ack {
			return true
		}
	}
	return false
}

// SendBulk writes DATA frames of frame octets on a stream for as long as the
// peer returns credit, up to total octets. It honours the 65 535-octet
// connection and stream windows plus the WINDOW_UPDATEs received. It stops
// when no credit arrives for stall and reports how much was written.
func (e *Endpoint) SendBulk(stream uint32, frame, total int, stall time.Duration) (sent int, stalled bool) {
	payload := make([]byte, frame)
	var base0, baseS uint64
	e.With(func(r *Rec) { base0, baseS = r.WU[0], r.WU[stream] })
	for sent < total {
		need := int64(sent + frame)
		ok := e.Wait(stall, func(r *Rec) bool {
			return r.Done || (65535+int64(r.WU[0]-base0) >= need && 65535+int64(r.WU[stream]-baseS) >= need)
		})
		var done bool
		e.With(func(r *Rec) { done = r.Done })
		if !ok || done {
			return sent, true
		}
		if _, err := e.WriteData(stream, payload, -1, false); err != nil {
			return sent, true
		}
		sent += frame
	}
	return sent, false
}
