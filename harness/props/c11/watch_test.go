package c11

import (
	"encoding/json"
	"fmt"
	"os"
	"path/filepath"
	"regexp"
	"sync"
	"sync/atomic"
	"time"

	"verifharness/internal/kit"
)

// Liveness of the calls into the adapter. Every Header/Data/RSTStream call the
// harness makes is announced in a slot (one per direction, two goroutines may be
// calling) and cleared when it returns; a watchdog goroutine looks at the slots.
// A call that has not returned after kit.T() is looked at again for another
// 3*kit.T(); if it came back meanwhile that is counted as inconclusive, if not
// it never will for the harness's purposes: a goroutine that spins cannot be
// cancelled, so the watchdog writes the case to the crash journal of the process
// (the driver turns that into a replay file and a VIOLATION) and ends the process.

type watched struct {
	check string      // a check whose Prop can replay the case
	c     interface{} // the case (Case or Conn)
}

var (
	watchOnce  sync.Once
	watchCase  atomic.Pointer[watched]
	watchStart [2]atomic.Int64 // coarse clock reading (UnixNano) when the call in progress began, 0 = none
	watchOp    [2]atomic.Pointer[op]
	watchIdx   [2]atomic.Int64
	// coarse is a clock the watchdog advances every 50 ms: millions of calls read it, none asks the OS
	coarse atomic.Int64
)

func watchBegin(check string, c interface{}) {
	watchOnce.Do(func() {
		coarse.Store(time.Now().UnixNano())
		go watchdog()
	})
	watchCase.Store(&watched{check: check, c: c})
}

// enter announces a call into the adapter, leave its return.
func enter(dir int, o *op, index int) {
	watchOp[dir].Store(o)
	watchIdx[dir].Store(int64(index))
	watchStart[dir].Store(coarse.Load())
}

func leave(dir int) { watchStart[dir].Store(0) }

var adapterStackRE = regexp.MustCompile(`h2/grpc\.\(\*(adapter|emitter)\)`)

func watchdog() {
	var suspect [2]int64
	for {
		time.Sleep(50 * time.Millisecond)
		now := time.Now().UnixNano()
		coarse.Store(now)
		for dir := 0; dir < 2; dir++ {
			st := watchStart[dir].Load()
			if suspect[dir] != 0 && st != suspect[dir] {
				// it did return, late: a stall of the machine, not of the adapter
				kit.Inconclusive("adapter-call-liveness")
				suspect[dir] = 0
			}
			if st == 0 {
				continue
			}
			age := time.Duration(now - st)
			if age > kit.T() {
				suspect[dir] = st
			}
			if age > 4*kit.T() {
				callDoesNotReturn(dir, age)
			}
		}
	}
}

func callDoesNotReturn(dir int, age time.Duration) {
	w, o, index := watchCase.Load(), watchOp[dir].Load(), int(watchIdx[dir].Load())
	where := []string{"client-to-server", "server-to-client"}[dir]
	shape, what := "header-call", "Header"
	switch o.kind {
	case 'D':
		shape, what = "data-call", fmt.Sprintf("Data(%d bytes, streamEnded=%v)", len(o.data), o.end)
	case 'R':
		shape, what = "rst-stream-call", "RSTStream"
	}
	sig := "C11/" + w.check + "/" + shape + "/call-does-not-return"
	stack := kit.GoroutineDump(adapterStackRE)
	if len(stack) > 1800 {
		stack = stack[:1800] + " ..."
	}
	msg := fmt.Sprintf("%s: call %d of the direction, %s, into the adapter has not returned after %v (bound %v, looked at again for 3 times the bound): the goroutine is still inside\n%s", where, index+1, what, age.Round(time.Millisecond), kit.T(), stack)
	raw, _ := json.Marshal(w.c)
	doc, _ := json.MarshalIndent(map[string]interface{}{"property": "C11", "check": w.check, "sig": sig, "msg": msg, "case": json.RawMessage(raw)}, "", " ")
	os.WriteFile(filepath.Join(kit.OutDir(), fmt.Sprintf("current-%d.json", kit.Shard())), doc, 0o644)
	if rp := os.Getenv("VERIF_REPLAY"); rp != "" {
		if !kit.Known(sig) {
			fmt.Printf("VIOLATION property=C11 replay=%s\n", rp)
		}
	}
	if kit.Known(sig) {
		// even a known hang ends the process: the goroutine cannot be stopped
		fmt.Printf("KNOWN-FINDING: property=C11 %s :: (a call into the adapter that does not return; the process stops here)\n", sig)
		os.Exit(0)
	}
	panic(sig + ": " + msg)
}
