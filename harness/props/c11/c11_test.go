// Package c11 decides property C11: the gRPC adapter of h2/grpc shows a stream
// processor exactly the message sequence that is on the wire and, with a
// pass-through processor, reproduces it at the destination - for every way the
// length-prefixed byte stream is cut into DATA frames, every encoding and every
// placement of END_STREAM; non-gRPC streams pass untouched.
//
// The adapter is driven in-process: h2.VerifNewProcessors hands it two
// recording sinks, a recording pass-through grpc.Processor sits in the middle.
// The oracle never uses martian code: an independent length-prefix parser and
// compress/gzip, compress/flate and golang/snappy readers re-read what reached
// the sink.
package c11

import (
	"bytes"
	"compress/flate"
	"compress/gzip"
	"compress/zlib"
	"encoding/hex"
	"encoding/json"
	"fmt"
	"io"
	"net/url"
	"runtime/debug"
	"sort"
	"strings"
	"sync"
	"testing"

	"github.com/golang/snappy"
	"github.com/google/martian/v3/h2"
	mgrpc "github.com/google/martian/v3/h2/grpc"
	"golang.org/x/net/http2"
	"golang.org/x/net/http2/hpack"
	"pgregory.net/rapid"

	"verifharness/internal/kit"
)

func TestMain(m *testing.M) {
	debug.SetGCPercent(400) // millions of tiny cases: the collector is most of the cost otherwise
	kit.Main(m, "C11")
}

// ---------------------------------------------------------------- case data

// Msg is one gRPC message. The plaintext is kit.Bytes/Text(Seed,N) unless P
// (explicit plaintext, hex) or W (explicit wire payload, hex; the plaintext is
// then whatever the independent decoder makes of it) is given.
type Msg struct {
	N    int    `json:"n,omitempty"`
	Z    bool   `json:"z,omitempty"` // compressed flag on the wire
	Seed uint64 `json:"s,omitempty"`
	Kind string `json:"k,omitempty"` // "" random bytes, "t" text, "0" zeros, "r" a repeated 61-byte pattern
	Lvl  int    `json:"l,omitempty"` // compression level selector of the generator's encoder
	// Var selects a legal variant of the container. gzip: "2"/"3" members (RFC 1952 concatenation, each
	// member at its own level), "e" an additional empty last member, "h" FEXTRA/FNAME/FCOMMENT fields in
	// the first member, combinable ("2eh"). deflate: "zlib" = RFC 1950 wrapper, what grpc-core sends.
	Var string `json:"var,omitempty"`
	P   string `json:"p,omitempty"`
	W   string `json:"w,omitempty"`
}

// Dir is what travels in one direction of the stream.
type Dir struct {
	Enc   string `json:"enc,omitempty"` // grpc-encoding: "", identity, gzip, deflate, snappy
	Msgs  []Msg  `json:"msgs,omitempty"`
	Raw   string `json:"raw,omitempty"`   // instead of Msgs: raw wire bytes (hex), identity only
	Cuts  []int  `json:"cuts,omitempty"`  // cut offsets into the byte stream
	Empty []int  `json:"empty,omitempty"` // indices of data frames preceded by an empty DATA frame
	End   string `json:"end"`             // last | separate | absent | trailers
	// AbortAt > 0: the stream is torn down after that many bytes of it were sent - "rst": RST_STREAM
	// in this direction, "end": END_STREAM on the truncated stream. Only what was complete by then
	// is asserted for such a direction; it exists to be FOLLOWED by ordinary streams.
	AbortAt  int    `json:"abort_at,omitempty"`
	AbortHow string `json:"abort_how,omitempty"`
	Plain    bool   `json:"plain,omitempty"` // non-gRPC streams only: the body is the plaintexts without length prefixes
}

// Case is one bidirectional stream through the adapter.
type Case struct {
	CT    string `json:"ct"`              // content-type of request and response
	Procs string `json:"procs,omitempty"` // "" both directions have a processor, "c", "s"
	C     Dir    `json:"c"`
	S     Dir    `json:"s"`
	Sched string `json:"sched,omitempty"` // interleaving of the two directions' frames
	Conc  bool   `json:"conc,omitempty"`  // drive the two directions from two goroutines
	// HOrd > 0 adds grpc-accept-encoding and grpc-timeout / user-agent fields and permutes the
	// regular header fields (HTTP/2 does not order them): permutation number HOrd-1.
	HOrd int `json:"hord,omitempty"`
	// SCT, if set, is the content-type of the RESPONSE when it differs from the request's ("-" = none):
	// the error page of a gateway answering a gRPC request.
	SCT string `json:"sct,omitempty"`
	// Info: number of informational (1xx) HEADERS the server sends before the response HEADERS
	// (100 Continue, 103 Early Hints). Needs the request direction's adapter (it announces gRPC).
	Info int `json:"info,omitempty"`
	// Copy: the pass-through processor forwards a copy of every message (append([]byte(nil), data...))
	// instead of the slice it was given - nil for an empty message.
	Copy bool `json:"copy,omitempty"`
	// Late (relay-end-to-end only): the receiving endpoints return flow-control credit only once the
	// relay has used up the initial window.
	Late bool `json:"late,omitempty"`
	// Neighbour (relay-end-to-end only): while the request of the judged call is half sent the client
	// opens a second gRPC stream on the connection whose grpc-encoding is this value (a custom codec
	// such as zstd, or a known one as control). Only the judged call is judged.
	Neighbour string `json:"neighbour,omitempty"`
}

// ctFor is the content-type announced in one direction.
func ctFor(c Case, dir string) string {
	if dir == "s" && c.SCT != "" {
		if c.SCT == "-" {
			return ""
		}
		return c.SCT
	}
	return c.CT
}

func isGRPC(ct string) bool {
	return ct == "application/grpc" || strings.HasPrefix(ct, "application/grpc+")
}

func normEnc(e string) string {
	switch e {
	case "identity", "gzip", "deflate", "snappy":
		return e
	}
	return ""
}

func compresses(enc string) bool { return enc == "gzip" || enc == "deflate" || enc == "snappy" }

func normEnd(e string) string {
	switch e {
	case "last", "separate", "trailers":
		return e
	}
	return "absent"
}

// ---------------------------------------------------------------- independent codecs

var levels = []int{flate.DefaultCompression, flate.BestSpeed, flate.NoCompression, flate.HuffmanOnly}

func level(lvl int) int { return levels[((lvl%len(levels))+len(levels))%len(levels)] }

func compress(enc string, lvl int, variant string, p []byte) []byte {
	var buf bytes.Buffer
	l := level(lvl)
	switch enc {
	case "gzip":
		members := 1
		if strings.Contains(variant, "2") {
			members = 2
		} else if strings.Contains(variant, "3") {
			members = 3
		}
		for i := 0; i < members; i++ {
			w, _ := gzip.NewWriterLevel(&buf, level(lvl+i))
			if i == 0 && strings.Contains(variant, "h") {
				w.Name, w.Comment, w.Extra = "part-0.bin", "verif", []byte{'v', 'f', 2, 0, 1, 2}
			}
			w.Write(p[len(p)*i/members : len(p)*(i+1)/members])
			w.Close()
		}
		if strings.Contains(variant, "e") {
			w, _ := gzip.NewWriterLevel(&buf, l)
			w.Close()
		}
	case "deflate":
		if variant == "zlib" {
			w, _ := zlib.NewWriterLevel(&buf, l)
			w.Write(p)
			w.Close()
			break
		}
		w, _ := flate.NewWriter(&buf, l)
		w.Write(p)
		w.Close()
	case "snappy":
		w := snappy.NewBufferedWriter(&buf)
		w.Write(p)
		w.Close()
	default:
		return p
	}
	return buf.Bytes()
}

var snappyStreamID = []byte("\xff\x06\x00\x00sNaPpY")

// decode re-reads one compressed payload with decoders that share no code
// with martian, and insists on the container format of the encoding.
func decode(enc string, w []byte) ([]byte, error) {
	switch enc {
	case "gzip":
		if len(w) < 3 || w[0] != 0x1f || w[1] != 0x8b || w[2] != 8 {
			return nil, fmt.Errorf("no gzip magic")
		}
		br := bytes.NewReader(w)
		zr, err := gzip.NewReader(br)
		if err != nil {
			return nil, err
		}
		p, err := io.ReadAll(zr) // all members: RFC 1952 allows a concatenation
		if err != nil {
			return nil, err
		}
		if br.Len() != 0 {
			return nil, fmt.Errorf("%d bytes after the gzip stream", br.Len())
		}
		return p, nil
	case "zlib":
		br := bytes.NewReader(w)
		zr, err := zlib.NewReader(br)
		if err != nil {
			return nil, err
		}
		p, err := io.ReadAll(zr)
		if err != nil {
			return nil, err
		}
		if br.Len() != 0 {
			return nil, fmt.Errorf("%d bytes after the zlib stream", br.Len())
		}
		return p, nil
	case "deflate":
		br := bytes.NewReader(w)
		fr := flate.NewReader(br)
		p, err := io.ReadAll(fr)
		if err != nil {
			return nil, err
		}
		if br.Len() != 0 {
			return nil, fmt.Errorf("%d bytes after the deflate stream", br.Len())
		}
		return p, nil
	case "snappy":
		if len(w) == 0 {
			return []byte{}, nil // a framed stream without chunks
		}
		if !bytes.HasPrefix(w, snappyStreamID) {
			return nil, fmt.Errorf("no snappy stream identifier")
		}
		return io.ReadAll(snappy.NewReader(bytes.NewReader(w)))
	}
	return w, nil
}

type wireMsg struct {
	flag    byte
	payload []byte
}

// parseLP is the independent length-prefix parser: complete messages and the
// bytes left over.
func parseLP(b []byte) (msgs []wireMsg, rest []byte) {
	for len(b) >= 5 {
		n := uint64(b[1])<<24 | uint64(b[2])<<16 | uint64(b[3])<<8 | uint64(b[4])
		if uint64(len(b)-5) < n {
			break
		}
		msgs = append(msgs, wireMsg{flag: b[0], payload: b[5 : 5+n]})
		b = b[5+n:]
	}
	return msgs, b
}

// ---------------------------------------------------------------- building the stream

type wmsg struct {
	zlib  bool // deflate payload in the RFC 1950 wrapper
	z     bool
	plain []byte
	wire  []byte
}

type built struct {
	enc     string
	end     string
	stream  []byte
	want    []wmsg
	offs    []int  // start offset of every complete message
	tail    int    // bytes of an incomplete trailing message (raw mode with end absent, or aborted stream)
	abort   string // "", "rst", "end"
	hasZlib bool   // a deflate message in the zlib wrapper is on the stream
	cuts    []int  // sanitised
	frames  [][]byte
}

func (m Msg) plain() []byte {
	if m.P != "" {
		b, _ := hex.DecodeString(m.P)
		return b
	}
	switch m.Kind {
	case "t":
		return kit.Text(m.Seed, m.N)
	case "0":
		return make([]byte, max(m.N, 0))
	case "r": // a 61-byte pattern over and over: compresses to next to nothing, yet every offset is checkable
		pat := kit.Text(m.Seed, 61)
		out := make([]byte, max(m.N, 0))
		for i := 0; i < len(out); i += copy(out[i:], pat) {
		}
		return out
	}
	return kit.Bytes(m.Seed, m.N)
}

var (
	buildMu    sync.Mutex
	buildCache = map[string]*built{}
	buildOrder []string
)

func build(d Dir) *built {
	key := string(mustJSON(d))
	buildMu.Lock()
	if b := buildCache[key]; b != nil {
		buildMu.Unlock()
		return b
	}
	buildMu.Unlock()
	b := buildUncached(d)
	buildMu.Lock()
	buildCache[key] = b
	buildOrder = append(buildOrder, key)
	if len(buildOrder) > 8 {
		delete(buildCache, buildOrder[0])
		buildOrder = buildOrder[1:]
	}
	buildMu.Unlock()
	return b
}

func mustJSON(v interface{}) []byte {
	b, err := json.Marshal(v)
	if err != nil {
		panic(err)
	}
	return b
}

func buildUncached(d Dir) *built {
	b := &built{enc: normEnc(d.Enc), end: normEnd(d.End)}
	if d.Plain {
		for _, m := range d.Msgs {
			b.stream = append(b.stream, m.plain()...)
		}
	} else if d.Raw != "" {
		if compresses(b.enc) {
			b.enc = ""
		}
		raw, _ := hex.DecodeString(d.Raw)
		// the valid prefix: complete messages whose flag byte is 0 or 1
		off := 0
		for {
			rest := raw[off:]
			if len(rest) < 1 || rest[0] > 1 {
				break
			}
			ms, _ := parseLP(rest)
			if len(ms) == 0 {
				if b.end == "absent" {
					b.tail = len(rest) // an incomplete message of a stream that is still open
				}
				break
			}
			b.offs = append(b.offs, off)
			b.want = append(b.want, wmsg{z: ms[0].flag == 1, plain: ms[0].payload, wire: ms[0].payload})
			off += 5 + len(ms[0].payload)
		}
		b.stream = raw[:off+b.tail]
	} else {
		for _, m := range d.Msgs {
			var w wmsg
			w.z = m.Z
			switch {
			case m.W != "":
				w.wire, _ = hex.DecodeString(m.W)
				w.plain = w.wire
				if m.Z && compresses(b.enc) {
					p, err := decode(b.enc, w.wire)
					if err != nil {
						panic(fmt.Sprintf("c11: case carries an invalid %s payload %s: %v", b.enc, m.W, err))
					}
					w.plain = p
				}
			case m.Z && compresses(b.enc):
				w.plain = m.plain()
				w.wire = compress(b.enc, m.Lvl, m.Var, w.plain)
				w.zlib = b.enc == "deflate" && m.Var == "zlib"
				b.hasZlib = b.hasZlib || w.zlib
			default:
				w.plain = m.plain()
				w.wire = w.plain
			}
			b.offs = append(b.offs, len(b.stream))
			var flag byte
			if w.z {
				flag = 1
			}
			n := len(w.wire)
			b.stream = append(b.stream, flag, byte(n>>24), byte(n>>16), byte(n>>8), byte(n))
			b.stream = append(b.stream, w.wire...)
			b.want = append(b.want, w)
		}
	}
	if d.AbortAt > 0 && d.AbortAt < len(b.stream) && (d.AbortHow == "rst" || d.AbortHow == "end") {
		keep, endOfKept := 0, 0
		for i, o := range b.offs {
			if e := o + 5 + len(b.want[i].wire); e <= d.AbortAt {
				keep, endOfKept = i+1, e
			}
		}
		b.want, b.offs = b.want[:keep], b.offs[:keep]
		b.stream = b.stream[:d.AbortAt]
		b.tail = d.AbortAt - endOfKept
		b.abort, b.end = d.AbortHow, "absent"
		if len(b.offs) == 0 && d.Plain {
			b.tail = 0
		}
		if b.tail == 0 && b.abort == "end" && !d.Plain {
			b.abort, b.end = "", "last" // ends on a message boundary: an ordinary stream
		}
	}
	// cuts: strictly inside the stream, sorted, distinct
	seen := map[int]bool{}
	for _, c := range d.Cuts {
		if c > 0 && c < len(b.stream) && !seen[c] {
			seen[c] = true
			b.cuts = append(b.cuts, c)
		}
	}
	sort.Ints(b.cuts)
	if len(b.stream) > 0 {
		prev := 0
		for _, c := range b.cuts {
			b.frames = append(b.frames, b.stream[prev:c])
			prev = c
		}
		b.frames = append(b.frames, b.stream[prev:])
	}
	return b
}

// zeroLast: the last message occupies no payload bytes and END_STREAM is not
// on a frame of its own - so its 5-byte prefix is the end of the last DATA frame.
func (b *built) zeroLast() bool {
	return len(b.want) > 0 && len(b.want[len(b.want)-1].wire) == 0 && b.tail == 0 && b.end != "separate"
}

// bareEnd: END_STREAM arrives on an empty DATA frame of its own. (On the
// unrepaired tree a zero-length last message is still pending then and is
// delivered with that frame, so no message is fabricated in that sub-case.)
func (b *built) bareEnd() bool { return b.end == "separate" }

func (b *built) cutKinds() (inPrefix, inPayload, atBoundary bool) {
	for _, c := range b.cuts {
		i := sort.SearchInts(b.offs, c+1) - 1 // message containing offset c
		rel := c
		if i >= 0 {
			rel = c - b.offs[i]
			if end := 5 + len(b.want[i].wire); rel >= end {
				rel -= end // inside the incomplete tail
				i = len(b.want)
			}
		}
		switch {
		case rel == 0:
			atBoundary = true
		case rel < 5:
			inPrefix = true
		case rel == 5:
			atBoundary = true // between prefix and payload: a state boundary of the parser, not inside either
		default:
			inPayload = true
		}
	}
	return
}

// ---------------------------------------------------------------- recorders

type event struct {
	kind byte // H D P R U
	hdr  []hpack.HeaderField
	data []byte
	nil_ bool
	end  bool
	prio http2.PriorityParam
}

func (e event) String() string {
	switch e.kind {
	case 'H':
		return fmt.Sprintf("HEADERS(%d fields,end=%v)", len(e.hdr), e.end)
	case 'D':
		return fmt.Sprintf("DATA(%d,end=%v)", len(e.data), e.end)
	case 'M':
		return fmt.Sprintf("Message(%d,nil=%v,end=%v)", len(e.data), e.nil_, e.end)
	}
	return string(e.kind)
}

func summary(es []event) string {
	var sb strings.Builder
	for i, e := range es {
		if i == 12 {
			fmt.Fprintf(&sb, " ...(%d more)", len(es)-i)
			break
		}
		sb.WriteString(" " + e.String())
	}
	return sb.String()
}

type sinkRec struct{ ev []event }

func (s *sinkRec) Data(data []byte, end bool) error {
	s.ev = append(s.ev, event{kind: 'D', data: append([]byte{}, data...), end: end})
	return nil
}
func (s *sinkRec) Header(h []hpack.HeaderField, end bool, p http2.PriorityParam) error {
	s.ev = append(s.ev, event{kind: 'H', hdr: append([]hpack.HeaderField{}, h...), end: end, prio: p})
	return nil
}
func (s *sinkRec) Priority(p http2.PriorityParam) error {
	s.ev = append(s.ev, event{kind: 'P', prio: p})
	return nil
}
func (s *sinkRec) RSTStream(http2.ErrCode) error {
	s.ev = append(s.ev, event{kind: 'R'})
	return nil
}
func (s *sinkRec) PushPromise(uint32, []hpack.HeaderField) error {
	s.ev = append(s.ev, event{kind: 'U'})
	return nil
}

// procRec is the stream processor: it records what it is shown and passes it on.
type procRec struct {
	copy bool
	next mgrpc.Processor
	ev   []event
}

func (p *procRec) Header(h []hpack.HeaderField, end bool, prio http2.PriorityParam) error {
	p.ev = append(p.ev, event{kind: 'H', hdr: append([]hpack.HeaderField{}, h...), end: end, prio: prio})
	return p.next.Header(h, end, prio)
}
func (p *procRec) Message(data []byte, end bool) error {
	p.ev = append(p.ev, event{kind: 'M', data: append([]byte{}, data...), nil_: data == nil, end: end})
	if p.copy {
		data = append([]byte(nil), data...)
	}
	return p.next.Message(data, end)
}

// ---------------------------------------------------------------- driving

type op struct {
	kind byte
	hdr  []hpack.HeaderField
	data []byte
	end  bool
}

func headersFor(c Case, dir string, d *built) []hpack.HeaderField {
	var h, reg []hpack.HeaderField
	if dir == "c" {
		h = append(h, hpack.HeaderField{Name: ":method", Value: "POST"}, hpack.HeaderField{Name: ":scheme", Value: "https"},
			hpack.HeaderField{Name: ":path", Value: "/verif.Svc/Call"}, hpack.HeaderField{Name: ":authority", Value: "verif.example"})
		reg = append(reg, hpack.HeaderField{Name: "te", Value: "trailers"})
	} else {
		h = append(h, hpack.HeaderField{Name: ":status", Value: "200"})
	}
	if ct := ctFor(c, dir); ct != "" {
		reg = append(reg, hpack.HeaderField{Name: "content-type", Value: ct})
	}
	if d.enc != "" {
		reg = append(reg, hpack.HeaderField{Name: "grpc-encoding", Value: d.enc})
	}
	if c.HOrd > 0 {
		reg = append(reg, hpack.HeaderField{Name: "grpc-accept-encoding", Value: "identity,deflate,gzip,snappy"})
		if dir == "c" {
			reg = append(reg, hpack.HeaderField{Name: "grpc-timeout", Value: "20S"}, hpack.HeaderField{Name: "user-agent", Value: "verif/1"})
		}
		// permutation number HOrd-1 (+ a fixed offset for the response so the two blocks differ), factorial number system
		k := c.HOrd - 1
		if dir == "s" {
			k += 3
		}
		rest := append([]hpack.HeaderField{}, reg...)
		reg = reg[:0]
		for n := len(rest); n > 0; n-- {
			i := k % n
			k /= n
			reg = append(reg, rest[i])
			rest = append(rest[:i], rest[i+1:]...)
		}
	}
	return append(h, reg...)
}

// encodingFirst: grpc-encoding is listed before content-type in the block that enables gRPC handling.
func encodingFirst(h []hpack.HeaderField) bool {
	ct, enc := -1, -1
	for i, f := range h {
		switch f.Name {
		case "content-type":
			ct = i
		case "grpc-encoding":
			enc = i
		}
	}
	return enc >= 0 && ct >= 0 && enc < ct
}

var trailerFields = []hpack.HeaderField{{Name: "grpc-status", Value: "0"}, {Name: "grpc-message", Value: ""}}

func opsFor(c Case, dir string, d Dir, b *built) []op {
	var ops []op
	if dir == "s" && c.Procs != "s" {
		for i := 0; i < c.Info && i < 3; i++ {
			if i%2 == 0 {
				ops = append(ops, op{kind: 'H', hdr: []hpack.HeaderField{{Name: ":status", Value: "100"}}})
			} else {
				ops = append(ops, op{kind: 'H', hdr: []hpack.HeaderField{{Name: ":status", Value: "103"}, {Name: "link", Value: "</style.css>; rel=preload"}}})
			}
		}
	}
	first := op{kind: 'H', hdr: headersFor(c, dir, b)}
	if b.end == "last" && len(b.frames) == 0 {
		first.end = true // END_STREAM on HEADERS: a stream without any DATA
	}
	ops = append(ops, first)
	empty := map[int]bool{}
	for _, i := range d.Empty {
		empty[i] = true
	}
	for i, f := range b.frames {
		if empty[i] {
			ops = append(ops, op{kind: 'D', data: []byte{}})
		}
		ops = append(ops, op{kind: 'D', data: f, end: (b.end == "last" || b.abort == "end") && i == len(b.frames)-1})
	}
	if b.abort == "rst" {
		ops = append(ops, op{kind: 'R'})
	}
	switch b.end {
	case "separate":
		ops = append(ops, op{kind: 'D', data: []byte{}, end: true})
	case "trailers":
		ops = append(ops, op{kind: 'H', hdr: trailerFields, end: true})
	}
	return ops
}

func apply(p h2.Processor, o op) error {
	switch o.kind {
	case 'H':
		return p.Header(o.hdr, o.end, http2.PriorityParam{})
	case 'R':
		return p.RSTStream(http2.ErrCodeCancel)
	}
	return p.Data(o.data, o.end)
}

var target, _ = url.Parse("https://verif.example/verif.Svc/Call")

// streamRun is one stream being played through the two adapters a factory
// returned for it.
type streamRun struct {
	c            Case
	sinkC, sinkS *sinkRec
	recC, recS   *procRec
	hc, hs       h2.Processor
	bc, bs       *built
	opsC, opsS   []op
	errC, errS   error
	atC, atS, i  int
	bad          kit.Verdict
}

// newFactory builds ONE StreamProcessorFactory (what h2.Config holds for the
// life of the proxy); every stream it is asked to process is wired to the
// streamRun that *cur points to at that moment.
func newFactory(cur **streamRun) h2.StreamProcessorFactory {
	return mgrpc.AsStreamProcessorFactory(func(_ *url.URL, server, client mgrpc.Processor) (mgrpc.Processor, mgrpc.Processor) {
		s := *cur
		var pc, ps mgrpc.Processor
		if s.c.Procs != "s" {
			s.recC = &procRec{next: server, copy: s.c.Copy}
			pc = s.recC
		}
		if s.c.Procs != "c" {
			s.recS = &procRec{next: client, copy: s.c.Copy}
			ps = s.recS
		}
		return pc, ps
	})
}

func openStream(f h2.StreamProcessorFactory, cur **streamRun, c Case) *streamRun {
	if isGRPC(ctFor(c, "c")) {
		c.C.Plain = false // gRPC is always length-prefixed
	}
	if isGRPC(ctFor(c, "s")) {
		c.S.Plain = false
	}
	s := &streamRun{c: c, sinkC: &sinkRec{}, sinkS: &sinkRec{}}
	*cur = s
	s.hc, s.hs = f(target, h2.VerifNewProcessors(s.sinkC, s.sinkS))
	if (s.hc == nil) != (s.recC == nil) || (s.hs == nil) != (s.recS == nil) {
		s.bad.Addf("C11/setup/processor-presence/adapter-missing-or-unexpected", "factory returned cToS=%v sToC=%v for procs=%q", s.hc != nil, s.hs != nil, c.Procs)
		return s
	}
	s.bc, s.bs = build(c.C), build(c.S)
	if s.hc != nil {
		s.opsC = opsFor(c, "c", c.C, s.bc)
	}
	if s.hs != nil {
		s.opsS = opsFor(c, "s", c.S, s.bs)
	}
	return s
}

func (s *streamRun) stepC() {
	if s.errC == nil {
		o := s.opsC[s.atC]
		enter(0, &s.opsC[s.atC], s.atC)
		s.errC = apply(s.hc, o)
		leave(0)
		if s.errC != nil {
			s.errC = fmt.Errorf("op %d %c(%d bytes,end=%v): %w", s.atC, o.kind, len(o.data), o.end, s.errC)
		}
	}
	s.atC++
}

func (s *streamRun) stepS() {
	if s.errS == nil {
		o := s.opsS[s.atS]
		enter(1, &s.opsS[s.atS], s.atS)
		s.errS = apply(s.hs, o)
		leave(1)
		if s.errS != nil {
			s.errS = fmt.Errorf("op %d %c(%d bytes,end=%v): %w", s.atS, o.kind, len(o.data), o.end, s.errS)
		}
	}
	s.atS++
}

func (s *streamRun) done() bool {
	return s.bad != nil || (s.atC >= len(s.opsC) && s.atS >= len(s.opsS))
}

// step plays the next frame of the stream: the request headers first, then
// whichever direction the case's schedule names.
func (s *streamRun) step() {
	if s.done() {
		return
	}
	if s.atC == 0 && len(s.opsC) > 0 {
		s.stepC() // the request headers open the stream
		return
	}
	pickS := s.atC >= len(s.opsC)
	if !pickS && s.atS < len(s.opsS) && s.i < len(s.c.Sched) {
		pickS = s.c.Sched[s.i] == 's'
	}
	s.i++
	if pickS {
		s.stepS()
	} else {
		s.stepC()
	}
}

func (s *streamRun) verdict() kit.Verdict {
	if s.bad != nil {
		return s.bad
	}
	var v kit.Verdict
	if s.hc != nil {
		v = append(v, judge(s.c, "c", s.bc, s.opsC, s.errC, s.sinkC, s.recC)...)
	} else if len(s.sinkC.ev) > 0 {
		v.Addf("C11/isolation/no-processor-direction/sink-received-frames", "client-to-server sink got%s though that direction was never driven", summary(s.sinkC.ev))
	}
	if s.hs != nil {
		v = append(v, judge(s.c, "s", s.bs, s.opsS, s.errS, s.sinkS, s.recS)...)
	} else if len(s.sinkS.ev) > 0 {
		v.Addf("C11/isolation/no-processor-direction/sink-received-frames", "server-to-client sink got%s though that direction was never driven", summary(s.sinkS.ev))
	}
	return v
}

func runCase(c Case) kit.Verdict {
	watchBegin("reframe", c)
	var cur *streamRun
	s := openStream(newFactory(&cur), &cur, c)
	if s.bad != nil {
		return s.bad
	}
	if c.Conc {
		if len(s.opsC) > 0 {
			s.stepC() // the request headers open the stream
		}
		var wg sync.WaitGroup
		wg.Add(2)
		go func() {
			defer wg.Done()
			for s.atC < len(s.opsC) {
				s.stepC()
			}
		}()
		go func() {
			defer wg.Done()
			for s.atS < len(s.opsS) {
				s.stepS()
			}
		}()
		wg.Wait()
	} else {
		for !s.done() {
			s.step()
		}
	}
	return s.verdict()
}

// ---------------------------------------------------------------- oracle

func sameFields(a, b []hpack.HeaderField) bool {
	if len(a) != len(b) {
		return false
	}
	for i := range a {
		if a[i] != b[i] {
			return false
		}
	}
	return true
}

func judge(c Case, dir string, b *built, ops []op, err error, sink *sinkRec, proc *procRec) kit.Verdict {
	var v kit.Verdict
	g := b.enc
	if g == "" {
		g = "no-encoding"
	}
	g += "-end-" + b.end
	where := map[string]string{"c": "client-to-server", "s": "server-to-client"}[dir]

	if b.hasZlib {
		g = "deflate-zlib-wrapped-message"
	}
	if ct := ctFor(c, dir); !isGRPC(ct) {
		// untouched, one for one; nothing is shown to the gRPC processor
		shape := "any"
		if isGRPC(c.CT) {
			shape = "response-of-grpc-request-is-not-grpc"
		}
		c.CT = ct
		if err != nil {
			v.Addf("C11/non-grpc/"+shape+"/adapter-returned-error", "%s content-type %q: the adapter failed on frames it has no business parsing: %v", where, c.CT, err)
			return v
		}
		// (a non-gRPC response to a gRPC request: whether the RPC's processor may see its header blocks
		// is not for the statement to say - only the destination is judged there)
		if len(proc.ev) > 0 && shape == "any" {
			v.Addf("C11/non-grpc/"+shape+"/processor-shown-non-grpc-traffic", "%s content-type %q: the gRPC processor was shown%s", where, c.CT, summary(proc.ev))
		}
		ok := len(sink.ev) == len(ops)
		for i := 0; ok && i < len(ops); i++ {
			e := sink.ev[i]
			ok = e.kind == ops[i].kind && e.end == ops[i].end && bytes.Equal(e.data, ops[i].data) && sameFields(e.hdr, ops[i].hdr)
		}
		if !ok {
			v.Addf("C11/non-grpc/"+shape+"/frames-altered", "%s content-type %q: %d frames went in, the sink got%s", where, c.CT, len(ops), summary(sink.ev))
		}
		return v
	}

	if err != nil {
		// the runner stops feeding a direction whose adapter failed: everything else would be a consequence
		v.Addf("C11/error/"+g+"/adapter-returned-error", "%s: a well-formed stream made the adapter fail: %v", where, err)
		return v
	}

	// --- what the processor was shown
	var pHdr, pMsg []event
	lastHdrBeforeMsg := true
	for _, e := range proc.ev {
		if e.kind == 'H' {
			pHdr = append(pHdr, e)
			if len(pMsg) > 0 && !e.end {
				lastHdrBeforeMsg = false
			}
		} else {
			pMsg = append(pMsg, e)
		}
	}
	_ = lastHdrBeforeMsg
	var wantHdr []op
	for _, o := range ops {
		if o.kind == 'H' {
			wantHdr = append(wantHdr, o)
		}
	}
	undetected := false
	if c.CT != "application/grpc" && len(proc.ev) == 0 {
		// a content-type with a message-format suffix is gRPC (PROTOCOL-HTTP2: "application/grpc" [("+proto" / "+json" / {custom})])
		undetected = true
		v.Addf("C11/detect/grpc-content-type-with-format-suffix/stream-not-processed-as-grpc", "%s content-type %q is a gRPC stream with %d messages but the processor was shown nothing", where, c.CT, len(b.want))
	}
	if !undetected {
		okH := len(pHdr) == len(wantHdr)
		for i := 0; okH && i < len(wantHdr); i++ {
			okH = pHdr[i].end == wantHdr[i].end && sameFields(pHdr[i].hdr, wantHdr[i].hdr)
		}
		if !okH {
			v.Addf("C11/headers/"+g+"/processor-header-calls-differ", "%s: %d header blocks went in, the processor was shown%s", where, len(wantHdr), summary(pHdr))
		}
		for i, e := range pMsg {
			if e.end && i != len(pMsg)-1 {
				v.Addf("C11/processor/"+g+"/stream-ended-before-last-message", "%s: Message call %d of %d carries streamEnded=true", where, i+1, len(pMsg))
				break
			}
		}
		// Message(nil, true) after the last message is the API's only way to say "the stream ended
		// without a further message"; it is not counted as a message. An empty non-nil slice is.
		got := pMsg
		if n := len(got); n > 0 && got[n-1].nil_ && got[n-1].end && (b.end == "last" || b.end == "separate") {
			got = got[:n-1]
		}
		same := len(got) == len(b.want)
		diffAt := -1
		for i := 0; i < len(got) && i < len(b.want); i++ {
			if !bytes.Equal(got[i].data, b.want[i].plain) {
				same = false
				diffAt = i
				break
			}
		}
		switch {
		case same:
		case diffAt < 0 && b.zeroLast() && len(got) == len(b.want)-1:
			v.Addf("C11/processor/zero-length-last-message-ends-data-frame/last-message-withheld", "%s: %d messages on the wire, the last one without payload bytes (end=%s); the processor was shown only %d", where, len(b.want), b.end, len(got))
		case diffAt >= 0:
			v.Addf("C11/processor/"+g+"/message-bytes-differ", "%s: message %d of %d shown to the processor differs: %s", where, diffAt+1, len(b.want), kit.Diff(b.want[diffAt].plain, got[diffAt].data))
		default:
			v.Addf("C11/processor/"+g+"/message-count-differs", "%s: %d messages on the wire, the processor was shown %d:%s", where, len(b.want), len(got), summary(pMsg))
		}
	}

	// --- what reached the destination
	var sHdr []event
	var cat []byte
	ends, endAt := 0, -1
	lastDataAt := -1
	rsts := 0
	for i, e := range sink.ev {
		switch e.kind {
		case 'H':
			sHdr = append(sHdr, e)
		case 'D':
			cat = append(cat, e.data...)
			if len(e.data) > 0 {
				lastDataAt = i
			}
		case 'R':
			rsts++
			if b.abort != "rst" || i != len(sink.ev)-1 {
				v.Addf("C11/passthrough/"+g+"/unexpected-frame-type-at-sink", "%s: sink got RST_STREAM as frame %d of %d", where, i+1, len(sink.ev))
			}
		default:
			v.Addf("C11/passthrough/"+g+"/unexpected-frame-type-at-sink", "%s: sink got a %c frame", where, e.kind)
		}
		if e.end {
			ends++
			if endAt < 0 {
				endAt = i
			}
		}
	}
	if b.abort == "rst" && rsts != 1 {
		v.Addf("C11/abort/"+g+"/rst-stream-not-forwarded-exactly-once", "%s: one RST_STREAM went in, the sink got %d:%s", where, rsts, summary(sink.ev))
	}
	okH := len(sHdr) == len(wantHdr)
	for i := 0; okH && i < len(wantHdr); i++ {
		okH = sHdr[i].end == wantHdr[i].end && sameFields(sHdr[i].hdr, wantHdr[i].hdr)
	}
	if !okH {
		v.Addf("C11/headers/"+g+"/sink-header-blocks-differ", "%s: %d header blocks went in, the sink got%s", where, len(wantHdr), summary(sHdr))
	} else if len(sink.ev) > 0 && sink.ev[0].kind != 'H' {
		v.Addf("C11/headers/"+g+"/data-before-headers-at-sink", "%s: sink got%s", where, summary(sink.ev))
	}

	gotMsgs, rest := parseLP(cat)
	if len(rest) != 0 && b.tail == 0 {
		v.Addf("C11/passthrough/"+g+"/partial-message-at-sink", "%s: after %d whole messages the sink's DATA bytes continue with %d bytes that are not a whole message", where, len(gotMsgs), len(rest))
	}
	if b.tail > 0 && len(rest) != 0 {
		v.Addf("C11/passthrough/"+g+"/incomplete-message-forwarded", "%s: %d bytes of a message that is still incomplete reached the sink", where, len(rest))
	}
	n := len(b.want)
	cmp := min(n, len(gotMsgs))
	firstBad := ""
	for i := 0; i < cmp && firstBad == ""; i++ {
		w, gm := b.want[i], gotMsgs[i]
		var wf byte
		if w.z {
			wf = 1
		}
		switch {
		case gm.flag != wf:
			firstBad = "x"
			v.Addf("C11/passthrough/"+g+"/compressed-flag-differs", "%s: message %d went in with flag %d and reached the sink with flag %d", where, i+1, wf, gm.flag)
		case !w.z || !compresses(b.enc):
			if !bytes.Equal(gm.payload, w.wire) {
				firstBad = "x"
				v.Addf("C11/passthrough/"+g+"/message-bytes-differ", "%s: message %d (flag %d) reached the sink altered: %s", where, i+1, wf, kit.Diff(w.wire, gm.payload))
			}
		default:
			container := b.enc
			if w.zlib {
				container = "zlib"
			}
			p, derr := decode(container, gm.payload)
			if derr != nil {
				firstBad = "x"
				if b.enc == "snappy" {
					if blk, e2 := snappy.Decode(nil, gm.payload); e2 == nil && bytes.Equal(blk, w.plain) {
						v.Addf("C11/passthrough/snappy-compressed-message/reencoded-in-block-format", "%s: message %d went in as a snappy framed stream (%d bytes) and reached the sink in snappy block format (%d bytes: %v) - a gRPC peer's snappy reader rejects it", where, i+1, len(w.wire), len(gm.payload), derr)
						break
					}
				}
				v.Addf("C11/passthrough/"+g+"/compressed-payload-unreadable-at-sink", "%s: message %d reached the sink flagged compressed but is not a %s payload: %v", where, i+1, container, derr)
			} else if !bytes.Equal(p, w.plain) {
				firstBad = "x"
				v.Addf("C11/passthrough/"+g+"/decompressed-bytes-differ", "%s: message %d decompresses to something else at the sink: %s", where, i+1, kit.Diff(w.plain, p))
			}
		}
	}
	switch {
	case len(gotMsgs) == n:
	case len(gotMsgs) == n+1 && b.bareEnd():
		x := gotMsgs[n]
		v.Addf("C11/passthrough/end-stream-on-empty-data-frame/fabricated-extra-message", "%s: %d messages went in and END_STREAM came on an empty DATA frame; the sink got %d messages, the extra one has flag %d and %d payload bytes", where, n, len(gotMsgs), x.flag, len(x.payload))
	case len(gotMsgs) == n-1 && c.Copy && n > 0 && len(b.want[n-1].plain) == 0 && b.end == "last":
		v.Addf("C11/passthrough/copying-processor-empty-last-message-with-end-stream/last-message-lost", "%s: %d messages went in, the last one empty and on the frame with END_STREAM; the pass-through processor forwards a copy of each message (nil for an empty one); only %d reached the sink", where, n, len(gotMsgs))
	case len(gotMsgs) == n-1 && b.zeroLast():
		v.Addf("C11/passthrough/zero-length-last-message-ends-data-frame/last-message-never-forwarded", "%s: %d messages went in, the last without payload bytes (end=%s); only %d reached the sink", where, n, b.end, len(gotMsgs))
	default:
		v.Addf("C11/passthrough/"+g+"/message-count-differs", "%s: %d messages went in, %d reached the sink:%s", where, n, len(gotMsgs), summary(sink.ev))
	}

	// --- end of stream
	switch b.end {
	case "absent":
		if ends > 0 && b.abort != "end" { // END_STREAM on a truncated message: outside the statement, not asserted
			v.Addf("C11/end-stream/"+g+"/fabricated-end-stream", "%s: no END_STREAM went in, the sink got %d:%s", where, ends, summary(sink.ev))
		}
	default:
		switch {
		case ends == 0 && b.zeroLast() && b.end == "last":
			v.Addf("C11/end-stream/zero-length-last-message-ends-data-frame/end-stream-never-delivered", "%s: END_STREAM was on the DATA frame that ends with the prefix of a zero-length message; the sink never got END_STREAM:%s", where, summary(sink.ev))
		case ends == 0:
			v.Addf("C11/end-stream/"+g+"/end-stream-never-delivered", "%s: sink got%s", where, summary(sink.ev))
		case ends > 1:
			v.Addf("C11/end-stream/"+g+"/end-stream-delivered-more-than-once", "%s: sink got %d END_STREAM flags:%s", where, ends, summary(sink.ev))
		case endAt != len(sink.ev)-1 || endAt < lastDataAt:
			v.Addf("C11/end-stream/"+g+"/end-stream-before-last-message", "%s: END_STREAM is on sink frame %d of %d:%s", where, endAt+1, len(sink.ev), summary(sink.ev))
		case b.end == "trailers" && sink.ev[endAt].kind != 'H', b.end == "last" && len(b.frames) == 0 && sink.ev[endAt].kind != 'H':
			v.Addf("C11/end-stream/"+g+"/end-stream-moved-off-headers", "%s: END_STREAM went in on HEADERS, the sink got%s", where, summary(sink.ev))
		}
	}
	return v
}

// ---------------------------------------------------------------- classification

func dirClasses(c Case, name string, d Dir, add func(string)) (nontrivial bool) {
	b := build(d)
	if !isGRPC(ctFor(c, name)) {
		if isGRPC(c.CT) {
			add("response-of-grpc-request-is-not-grpc")
		}
		return false
	}
	add("end-" + b.end)
	if b.end == "last" && len(b.frames) == 0 {
		add("end-on-headers")
	}
	if b.enc == "" {
		add("enc-absent")
	} else {
		add("enc-" + b.enc)
	}
	if len(b.want) == 0 {
		add("no-messages")
	}
	if len(b.want) > 1 {
		add("multi-message")
	}
	for i, w := range b.want {
		if w.zlib {
			add("deflate-zlib-wrapped")
		}
		if w.z && b.enc == "gzip" && i < len(d.Msgs) && d.Msgs[i].Var != "" && d.Raw == "" {
			add("gzip-variant")
			if strings.ContainsAny(d.Msgs[i].Var, "23e") {
				add("gzip-multi-member")
			}
		}
		if w.z && compresses(b.enc) {
			add("compressed-" + b.enc)
			add("compressed")
			nontrivial = true
		}
		if w.z && !compresses(b.enc) {
			add("flag-with-identity")
		}
		if len(w.wire) == 0 {
			add("zero-length-message")
		}
		if len(w.plain) > 65536 {
			add("message-over-64k")
		}
		if len(w.plain) >= 1<<20 {
			add("decoded-message-of-1MiB-or-more")
		}
		if len(w.plain) > 4<<20 {
			add("decoded-message-over-4MiB")
		}
	}
	inPrefix, inPayload, atBoundary := b.cutKinds()
	if inPrefix {
		add("cut-in-prefix")
		nontrivial = true
	}
	if inPayload {
		add("cut-in-payload")
		nontrivial = true
	}
	if atBoundary && !inPrefix && !inPayload {
		add("cuts-at-boundaries-only")
	}
	if len(b.cuts) == 0 && len(b.stream) > 0 {
		add("single-frame")
	}
	if b.end == "separate" {
		nontrivial = true
	}
	if b.zeroLast() {
		add("shape-zero-length-last")
	}
	if b.tail > 0 {
		add("incomplete-tail")
	}
	if b.abort != "" {
		add("aborted-" + b.abort)
		if b.tail > 0 {
			add("aborted-with-partial-message-buffered")
		}
	}
	if encodingFirst(headersFor(c, name, b)) {
		add("grpc-encoding-before-content-type")
		for _, w := range b.want {
			if w.z && compresses(b.enc) {
				add("grpc-encoding-before-content-type-with-compressed-message")
			}
		}
	}
	if len(d.Empty) > 0 && len(b.frames) > 0 {
		add("empty-frames-inserted")
	}
	return nontrivial
}

func classes(c Case) []string {
	set := map[string]bool{}
	add := func(s string) { set[s] = true }
	switch {
	case c.CT == "application/grpc":
		add("grpc")
	case isGRPC(c.CT):
		add("grpc-with-format-suffix")
	default:
		add("non-grpc")
	}
	if c.Procs != "s" {
		dirClasses(c, "c", c.C, add)
	}
	if c.Procs != "c" {
		dirClasses(c, "s", c.S, add)
	}
	if c.Copy {
		add("copying-processor")
		for _, d := range []Dir{c.C, c.S} {
			if b := build(d); len(b.want) > 0 && len(b.want[len(b.want)-1].plain) == 0 && b.end == "last" {
				add("copying-processor-empty-last-message-with-end-stream")
			}
		}
	}
	if c.Info > 0 && c.Procs != "s" {
		add("informational-response-headers")
	}
	if c.Procs != "" {
		add("one-sided-processor")
	} else {
		if normEnc(c.C.Enc) != normEnc(c.S.Enc) {
			add("encodings-differ-by-direction")
		}
		if c.Conc {
			add("concurrent-directions")
		} else if strings.Contains(c.Sched, "s") {
			add("interleaved-directions")
		}
	}
	out := make([]string, 0, len(set))
	for k := range set {
		out = append(out, k)
	}
	sort.Strings(out)
	return out
}

func nontrivial(c Case) bool {
	nt := false
	add := func(string) {}
	if c.Procs != "s" && dirClasses(c, "c", c.C, add) {
		nt = true
	}
	if c.Procs != "c" && dirClasses(c, "s", c.S, add) {
		nt = true
	}
	return nt
}

// ---------------------------------------------------------------- generator

var contentTypes = []string{
	"application/grpc", "application/grpc", "application/grpc", "application/grpc", "application/grpc",
	"application/grpc", "application/grpc", "application/grpc", "application/grpc", "application/grpc",
	"application/grpc", "application/grpc", "application/grpc", "application/grpc", "application/grpc",
	"application/grpc+proto", "application/grpc+json",
	"application/json", "text/plain", "", "application/grpc-web", "application/grpc-web+proto", "application/grpcx",
}

// hugeSizes: decoded sizes on and around the limits an implementation might be tempted to put on
// what one compressed message expands to (1, 2, 4, 8, 16 MiB).
var hugeSizes = []int{1 << 20, 1<<20 + 1, 2 << 20, 2<<20 + 1, 4<<20 - 1, 4 << 20, 4<<20 + 1, 5 << 20, 8 << 20, 8<<20 + 1, 16 << 20, 16<<20 + 1}

func genMsg(t *rapid.T, i int, enc string) Msg {
	var m Msg
	// now and then a message that is tiny on the wire and huge once decoded
	if compresses(enc) && rapid.IntRange(0, 299).Draw(t, "huge") == 171 { // (rapid favours the ends of a range: a value in the middle is a rare one)
		if rapid.Bool().Draw(t, "huge_exact") {
			m.N = rapid.SampledFrom(hugeSizes).Draw(t, "n")
		} else {
			m.N = rapid.IntRange(1<<20, 6<<20).Draw(t, "n")
		}
		m.Z = true
		m.Seed = uint64(rapid.IntRange(1, 1000).Draw(t, "seed"))
		m.Kind = rapid.SampledFrom([]string{"0", "r"}).Draw(t, "kind")
		m.Lvl = rapid.IntRange(0, 1).Draw(t, "lvl")
		if enc == "deflate" && rapid.Bool().Draw(t, "zlib") {
			m.Var = "zlib"
		}
		return m
	}
	switch rapid.IntRange(0, 19).Draw(t, "sizeclass") {
	case 0, 1, 2, 3:
		m.N = 0
	case 4, 5, 6, 7, 8:
		m.N = rapid.IntRange(1, 10).Draw(t, "n")
	case 9, 10, 11, 12, 13, 14:
		m.N = rapid.IntRange(11, 300).Draw(t, "n")
	case 15, 16, 17:
		m.N = rapid.IntRange(301, 20000).Draw(t, "n")
	case 18:
		m.N = rapid.SampledFrom([]int{16379, 16384, 32768, 65530, 65531, 65535, 65536, 65537, 70000}).Draw(t, "n")
	default:
		m.N = rapid.IntRange(60000, 70000).Draw(t, "n")
	}
	m.Z = rapid.IntRange(0, 9).Draw(t, "z") < 6
	m.Seed = uint64(rapid.IntRange(1, 1000).Draw(t, "seed"))
	m.Kind = rapid.SampledFrom([]string{"", "t", "t", "0"}).Draw(t, "kind")
	m.Lvl = rapid.IntRange(0, 3).Draw(t, "lvl")
	// container variants; each only means something under its encoding
	m.Var = rapid.SampledFrom([]string{"", "", "", "", "", "", "2", "3", "2e", "e", "h", "3eh", "zlib", "zlib", "zlib"}).Draw(t, "var")
	return m
}

func genDir(t *rapid.T, label string) Dir {
	var d Dir
	d.Enc = rapid.SampledFrom([]string{"", "identity", "gzip", "gzip", "deflate", "deflate", "snappy", "snappy"}).Draw(t, label+"_enc")
	n := rapid.SampledFrom([]int{0, 1, 1, 1, 2, 2, 3, 4, 5, 6}).Draw(t, label+"_nmsgs")
	for i := 0; i < n; i++ {
		d.Msgs = append(d.Msgs, genMsg(t, i, d.Enc))
	}
	d.End = rapid.SampledFrom([]string{"last", "separate", "absent", "trailers"}).Draw(t, label+"_end")
	b := build(d) // deterministic in d: only used to place cuts where they matter
	L := len(b.stream)
	if L > 1 {
		cut := map[int]bool{}
		mode := rapid.SampledFrom([]string{"none", "boundaries", "prefix", "prefix", "fixed", "random", "random", "mixed", "mixed", "every"}).Draw(t, label+"_cutmode")
		if mode == "every" && L > 600 {
			mode = "mixed"
		}
		switch mode {
		case "boundaries":
			for _, o := range b.offs {
				if rapid.Bool().Draw(t, "atb") {
					cut[o] = true
				}
				if rapid.Bool().Draw(t, "atp") {
					cut[o+5] = true
				}
			}
		case "fixed":
			f := rapid.SampledFrom([]int{1, 2, 3, 4, 5, 6, 7, 9, 16, 100, 1024, 16384}).Draw(t, "framesize")
			for f*2500 < L {
				f *= 4
			}
			for o := f; o < L; o += f {
				cut[o] = true
			}
		case "every":
			for o := 1; o < L; o++ {
				cut[o] = true
			}
		}
		if mode == "prefix" || mode == "mixed" {
			for _, o := range b.offs {
				k := rapid.IntRange(0, 2).Draw(t, "k")
				for j := 0; j < k; j++ {
					cut[o+rapid.IntRange(1, 4).Draw(t, "rel")] = true
				}
			}
		}
		if mode == "random" || mode == "mixed" {
			k := rapid.IntRange(1, 12).Draw(t, "ncuts")
			for j := 0; j < k; j++ {
				cut[rapid.IntRange(1, L-1).Draw(t, "at")] = true
			}
		}
		for o := range cut {
			if o > 0 && o < L {
				d.Cuts = append(d.Cuts, o)
			}
		}
		sort.Ints(d.Cuts)
	}
	if rapid.IntRange(0, 6).Draw(t, label+"_empties") == 0 {
		k := rapid.IntRange(1, 3).Draw(t, "nempty")
		for j := 0; j < k; j++ {
			d.Empty = append(d.Empty, rapid.IntRange(0, len(d.Cuts)).Draw(t, "emptyat"))
		}
	}
	return d
}

func genCase(t *rapid.T) Case {
	var c Case
	c.CT = rapid.SampledFrom(contentTypes).Draw(t, "ct")
	c.Procs = rapid.SampledFrom([]string{"", "", "", "", "", "", "", "c", "s"}).Draw(t, "procs")
	if rapid.IntRange(0, 3).Draw(t, "permute_headers") > 0 {
		c.HOrd = rapid.IntRange(1, 720).Draw(t, "hord")
	}
	c.C = genDir(t, "c")
	c.S = genDir(t, "s")
	c.Copy = rapid.IntRange(0, 2).Draw(t, "copying_processor") == 0
	if rapid.IntRange(0, 3).Draw(t, "informational") == 0 {
		c.Info = rapid.IntRange(1, 2).Draw(t, "ninfo")
	}
	if isGRPC(c.CT) && rapid.IntRange(0, 7).Draw(t, "foreign_response") == 0 {
		c.SCT = rapid.SampledFrom([]string{"text/html", "application/json", "text/plain", "-"}).Draw(t, "sct")
		c.S.Plain = rapid.Bool().Draw(t, "sct_plain")
	}
	switch rapid.IntRange(0, 3).Draw(t, "order") {
	case 0: // one direction after the other
	case 1:
		c.Conc = true
	default:
		n := rapid.IntRange(1, 24).Draw(t, "schedlen")
		var sb strings.Builder
		for i := 0; i < n; i++ {
			if rapid.Bool().Draw(t, "pick") {
				sb.WriteByte('s')
			} else {
				sb.WriteByte('c')
			}
		}
		c.Sched = sb.String()
	}
	return c
}

const ruleGen = "rapid draws per direction an encoding (absent/identity/gzip/deflate/snappy), 0..6 messages (sizes 0..70000, edge-biased; about 1 case in 150 carries a compressed message that expands to 1..16 MiB - zeros or a repeated pattern, a few KiB on the wire; compressed flag; random/text/zero payloads; compressed by compress/gzip (1..3 members, optional empty last member, optional FEXTRA/FNAME/FCOMMENT), compress/flate at 4 levels or compress/zlib (the RFC 1950 wrapper grpc-core uses for deflate), snappy framing writer), a cut set of the length-prefixed byte stream (none, message boundaries, inside 5-byte prefixes, fixed frame size, random offsets, every byte), optional empty DATA frames, END_STREAM on the last DATA frame / a separate empty frame / trailers / absent; content-type application/grpc (mostly), +proto/+json, or non-gRPC; 1 in 8 gRPC requests is answered by a non-gRPC response (text/html etc., plain or framing-like body); in 3 of 4 cases extra regular header fields (grpc-accept-encoding, grpc-timeout, user-agent) and a drawn permutation of all regular fields (grpc-encoding before or after content-type); both directions interleaved, sequential or on two goroutines; processors on both or one direction, forwarding the slice they were given or (1 in 3) a copy of it; 1 in 4 responses is preceded by one or two 1xx HEADERS (100, 103). Non-trivial = gRPC stream with a cut inside a 5-byte prefix or inside a payload, or a compressed message, or a separate END_STREAM frame."

var propReframe = &kit.Prop[Case]{
	ID: "C11", Name: "reframe", Rule: ruleGen,
	Gen: genCase, Run: runCase, NonTrivial: nontrivial, Classes: classes,
	Gates: map[string]float64{
		"nontrivial": 0.5, "cut-in-prefix": 0.2, "cut-in-payload": 0.2, "compressed": 0.2,
		"compressed-gzip": 0.05, "compressed-deflate": 0.05, "compressed-snappy": 0.05,
		"end-separate": 0.15, "end-last": 0.15, "end-trailers": 0.15, "end-absent": 0.15,
		"non-grpc": 0.05, "zero-length-message": 0.1, "encodings-differ-by-direction": 0.2,
		"interleaved-directions":                                    0.15,
		"grpc-encoding-before-content-type-with-compressed-message": 0.1,
		"copying-processor":                                         0.2, "copying-processor-empty-last-message-with-end-stream": 0.02, "informational-response-headers": 0.1,
		"gzip-multi-member": 0.03, "deflate-zlib-wrapped": 0.02, "response-of-grpc-request-is-not-grpc": 0.04,
	},
}

func TestReframe(t *testing.T) {
	n := kit.N(3000, 20000)
	if kit.Race() {
		n = kit.N(400, 3000)
	}
	propReframe.Check(t, n)
}

// ---------------------------------------------------------------- exhaustive sub-space

// Valid raw-DEFLATE payloads short enough for streams of at most 13 bytes;
// each is verified with compress/flate before use.
func tinyDeflates() map[int]string {
	cands := []string{
		"0300",             // empty, fixed-Huffman final block
		"4b0400",           // "a"
		"4b4c0400",         // "aa"
		"010000ffff",       // empty, stored final block
		"010100feff41",     // stored "A"
		"010200fdff4142",   // stored "AB"
		"010300fcff414243", // stored "ABC"
	}
	out := map[int]string{}
	for _, h := range cands {
		w, _ := hex.DecodeString(h)
		if _, err := decode("deflate", w); err == nil {
			out[len(w)] = h
		}
	}
	return out
}

type template struct {
	enc  string
	msgs []Msg
	n    int // stream length
}

// templates lists every message sequence whose byte stream has at most
// maxLen bytes: all payload-length combinations, all compressed-flag
// combinations, under every encoding for which such a payload exists.
func templates(maxLen int) []template {
	tiny := tinyDeflates()
	var out []template
	var lens [][]int
	lens = append(lens, []int{})
	for a := 0; 5+a <= maxLen; a++ {
		lens = append(lens, []int{a})
		for b := 0; 10+a+b <= maxLen; b++ {
			lens = append(lens, []int{a, b})
		}
	}
	for _, enc := range []string{"", "identity", "gzip", "deflate", "snappy"} {
		for _, ls := range lens {
			for flags := 0; flags < 1<<len(ls); flags++ {
				var msgs []Msg
				ok := true
				total := 0
				for i, l := range ls {
					m := Msg{N: l, Seed: uint64(7 + i + l), Z: flags>>i&1 == 1}
					if m.Z && compresses(enc) {
						switch {
						case enc == "deflate" && tiny[l] != "":
							m = Msg{Z: true, W: tiny[l]}
						case enc == "snappy" && l == 0:
							m = Msg{Z: true, W: ""} // a framed stream without chunks; W empty means plain() of N=0
						default:
							ok = false // no valid compressed payload of that length exists
						}
					}
					msgs = append(msgs, m)
					total += 5 + l
				}
				if ok {
					out = append(out, template{enc: enc, msgs: msgs, n: total})
				}
			}
		}
	}
	sort.SliceStable(out, func(i, j int) bool { return out[i].n < out[j].n })
	return out
}

const maxEnumLen = 13

func enumCases(yield func(Case) bool) {
	ts := templates(maxEnumLen)
	within := map[int]int{}
	for _, tp := range ts {
		k := within[tp.n]
		within[tp.n]++
		if !kit.Thorough() {
			// quick tier: every template up to 10 bytes and a fixed sample of the longer ones
			if step := map[int]int{11: 8, 12: 15, 13: 29}[tp.n]; step > 0 && k%step != 0 {
				continue
			}
		}
		sets := 1
		if tp.n > 1 {
			sets = 1 << (tp.n - 1)
		}
		for _, end := range []string{"last", "separate", "absent", "trailers"} {
			for mask := 0; mask < sets; mask++ {
				var cuts []int
				for o := 1; o < tp.n; o++ {
					if mask>>(o-1)&1 == 1 {
						cuts = append(cuts, o)
					}
				}
				d := Dir{Enc: tp.enc, Msgs: tp.msgs, Cuts: cuts, End: end}
				if !yield(Case{CT: "application/grpc", C: d, S: d}) {
					return
				}
			}
		}
	}
}

var propCuts = &kit.Prop[Case]{
	ID: "C11", Name: "all-cut-sets-of-short-streams",
	Rule: "exhaustive: every message sequence whose length-prefixed byte stream has at most 13 bytes (0, 1 or 2 messages, every payload-length combination, every compressed-flag combination, every encoding for which a valid payload of that length exists: identity/absent always, hand-assembled raw DEFLATE payloads, the chunk-less snappy stream) x all 2^(n-1) cut sets x END_STREAM on the last frame / separate empty frame / trailers / absent, the same stream in both directions (quick tier: all 66 templates up to 10 bytes and a fixed sample of 9 longer ones; thorough: all 201). Non-trivial as for reframe.",
	Run:  runCase, NonTrivial: nontrivial, Classes: classes,
}

func TestAllCutSets(t *testing.T) {
	if kit.Race() {
		t.Skip("sequential enumeration: nothing for the race detector")
	}
	propCuts.Enumerate(t, enumCases)
}

// enumVariants: every container variant the generator knows, at every level, for a few payload sizes.
func enumVariants(yield func(Case) bool) {
	type ev struct{ enc, v string }
	var vs []ev
	for _, v := range []string{"", "2", "3", "e", "2e", "3e", "h", "2h", "3eh"} {
		vs = append(vs, ev{"gzip", v})
	}
	vs = append(vs, ev{"deflate", ""}, ev{"deflate", "zlib"}, ev{"snappy", ""})
	// a few KiB on the wire, megabytes once decoded: sizes on and around plausible decode limits
	for _, x := range []ev{{"gzip", ""}, {"gzip", "2"}, {"deflate", ""}, {"deflate", "zlib"}, {"snappy", ""}} {
		for k, n := range []int{1 << 20, 1<<20 + 1, 4<<20 - 1, 4 << 20, 4<<20 + 1, 16 << 20, 16<<20 + 1} {
			kind := []string{"0", "r"}[k%2]
			m := []Msg{{N: 3, Seed: 1}, {N: n, Z: true, Seed: uint64(k + 1), Kind: kind, Var: x.v}}
			c := Case{CT: "application/grpc", C: Dir{Enc: x.enc, Msgs: m, Cuts: []int{9, 500}, End: "last"}, S: Dir{End: "trailers"}}
			if k%2 == 1 {
				c.C, c.S = Dir{End: "last"}, Dir{Enc: x.enc, Msgs: m, Cuts: []int{2}, End: "trailers"}
			}
			if !yield(c) {
				return
			}
		}
	}
	for _, x := range vs {
		for _, n := range []int{0, 1, 2, 3, 10, 1000, 70000} {
			for lvl := 0; lvl < 4; lvl++ {
				m := []Msg{{N: n, Z: true, Seed: uint64(n + lvl), Kind: "t", Lvl: lvl, Var: x.v}, {N: 4, Seed: 9}}
				c := Case{CT: "application/grpc",
					C: Dir{Enc: x.enc, Msgs: m, Cuts: []int{3, 9}, End: "last"},
					S: Dir{Enc: x.enc, Msgs: m[:1], End: "trailers"}}
				if !yield(c) {
					return
				}
			}
		}
	}
}

var propVariants = &kit.Prop[Case]{
	ID: "C11", Name: "container-variants",
	Rule: "exhaustive over a fixed matrix: compressed message in every container variant the generator knows (gzip with 1, 2 or 3 members, with and without an empty last member, with FEXTRA/FNAME/FCOMMENT; raw and zlib-wrapped deflate; snappy framing) x payload sizes 0,1,2,3,10,1000,70000 x 4 compression levels, in both directions (336 cases); plus highly compressible messages (zeros, a repeated 61-byte pattern) of 1 MiB, 1 MiB+1, 4 MiB-1, 4 MiB, 4 MiB+1, 16 MiB, 16 MiB+1 decoded size under gzip (1 and 2 members), raw and zlib deflate, snappy (35 cases). Non-trivial as for reframe.",
	Run:  runCase, NonTrivial: nontrivial, Classes: classes,
}

func TestContainerVariants(t *testing.T) {
	if kit.Race() {
		t.Skip("sequential enumeration: nothing for the race detector")
	}
	propVariants.Enumerate(t, enumVariants)
}

func TestReplay(t *testing.T) {
	kit.Replay(t, propReframe, propCuts, propStreams, propStreamKinds, propRelay, propRelayEdges, propVariants)
}
