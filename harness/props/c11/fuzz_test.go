package c11

import (
	"encoding/hex"
	"testing"

	"verifharness/internal/kit"
)

// FuzzReframe lets the native fuzzer pick the bytes and the cut set.
//
//	cfg   bits 0-2 encoding, 3-4 END_STREAM placement, 5 direction carrying the
//	      stream, 6 raw mode, 7 empty DATA frames inserted, 8-15 header field permutation
//	body  structured mode: records [ctl][payload...]: ctl bit0 = compressed flag,
//	      ctl>>1 = payload length (0..127, clipped to what is left); the harness
//	      compresses flagged payloads with the independent encoders.
//	      raw mode: the bytes are the wire stream itself (identity/absent
//	      encoding); the oracle's own parser decides which whole messages it
//	      contains, an incomplete tail is fed only while the stream stays open.
//	cuts  bit i set = DATA frame boundary after stream byte i+1 (pattern repeats)
const ruleFuzz = "native fuzzing over (cfg, body, cuts): body bytes become message payloads and flags (structured mode) or the raw identity wire stream (raw mode, valid prefix + incomplete tail while the stream is open); cuts is a bitmap of DATA frame boundaries; cfg picks encoding, END_STREAM placement, direction. Same oracle as reframe. Non-trivial as for reframe."

func fuzzCase(cfg uint16, body, cuts []byte) (Case, bool) {
	if len(body) > 2048 || len(cuts) > 512 {
		return Case{}, false
	}
	var d Dir
	d.Enc = []string{"", "identity", "gzip", "deflate", "snappy"}[int(cfg&7)%5]
	d.End = []string{"last", "separate", "absent", "trailers"}[cfg>>3&3]
	if cfg>>6&1 == 1 {
		if len(body) == 0 {
			return Case{}, false
		}
		d.Raw = hex.EncodeToString(body)
	} else {
		for i := 0; i < len(body) && len(d.Msgs) < 16; {
			ctl := body[i]
			i++
			n := int(ctl >> 1)
			if n > len(body)-i {
				n = len(body) - i
			}
			m := Msg{Z: ctl&1 == 1, P: hex.EncodeToString(body[i : i+n])}
			i += n
			d.Msgs = append(d.Msgs, m)
		}
	}
	b := build(d)
	if len(cuts) > 0 {
		for o := 1; o < len(b.stream); o++ {
			k := (o - 1) % (8 * len(cuts))
			if cuts[k/8]>>(uint(k)%8)&1 == 1 {
				d.Cuts = append(d.Cuts, o)
			}
		}
	}
	if cfg>>7&1 == 1 {
		d.Empty = []int{0, len(d.Cuts) / 2, len(d.Cuts)}
	}
	c := Case{CT: "application/grpc", HOrd: int(cfg >> 8)} // bits 8-15: header field permutation
	other := Dir{End: "absent"}
	if cfg>>5&1 == 1 {
		c.C, c.S = other, d
	} else {
		c.C, c.S = d, other
	}
	return c, true
}

func FuzzReframe(f *testing.F) {
	f.Add(uint16(0), []byte{}, []byte{})
	f.Add(uint16(0), []byte{0}, []byte{0xff})
	f.Add(uint16(8), []byte{6, 'a', 'b', 'c'}, []byte{0xff})
	f.Add(uint16(2|8), []byte{7, 'a', 'b', 'c', 0, 1, 4, 'x', 'y'}, []byte{0x55, 0xaa})
	f.Add(uint16(3|16), []byte{9, 'd', 'e', 'f', 'l', 0}, []byte{0x10})
	f.Add(uint16(4|24|32), []byte{21, 1, 2, 3, 4, 5, 6, 7, 8, 9, 10, 1}, []byte{0xff, 0x00, 0xff})
	f.Add(uint16(64), []byte{0, 0, 0, 0, 3, 'a', 'b', 'c', 1, 0, 0, 0, 0}, []byte{0xff, 0xff})
	f.Add(uint16(64|16), []byte{0, 0, 0, 0, 1, 'a', 0, 0, 0, 1}, []byte{0xff, 0xff})
	f.Add(uint16(64|16|32), []byte{0, 0xff, 0xff, 0xff, 0xff, 'a'}, []byte{0x01})
	f.Add(uint16(64|8|128), []byte{0, 0, 0, 0, 0, 0, 0, 0, 0, 0}, []byte{0x10})
	f.Add(uint16(1|128), []byte{255, 254, 253}, []byte{0xaa})
	f.Add(uint16(2|8|5<<8), []byte{9, 'a', 'b', 'c', 'd'}, []byte{0x04})
	f.Add(uint16(4|16|32|77<<8), []byte{9, 'a', 'b', 'c', 'd', 3, 'x'}, []byte{0xff})
	f.Fuzz(func(t *testing.T, cfg uint16, body, cuts []byte) {
		c, ok := fuzzCase(cfg, body, cuts)
		if !ok {
			return
		}
		v := runCase(c)
		kit.FuzzAccount("fuzz-reframe", ruleFuzz, append([]byte{byte(cfg), byte(cfg >> 8)}, body...), nontrivial(c), classes(c)...)
		if len(v) > 0 {
			kit.FuzzFail(t, "C11", "fuzz-reframe", "FuzzReframe", v, cfg, body, cuts)
		}
	})
}
