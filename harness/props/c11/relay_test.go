package c11

import (
	"bytes"
	"fmt"
	"sort"
	"testing"
	"time"

	"github.com/google/martian/v3/h2"
	"golang.org/x/net/http2/hpack"
	"pgregory.net/rapid"

	"verifharness/internal/kit"
	"verifharness/props/h2kit"
)

// The end-to-end variant: the same cases, but the adapter's sinks are the real
// ones - h2.Config.Proxy between a frame-level client and a frame-level TLS
// server (h2kit), with AsStreamProcessorFactory(recording pass-through) as
// the only stream processor factory. What the two endpoints receive on the
// stream is judged by the same oracle as the recording sinks. This is where
// "end-of-stream delivered exactly once and after the last message" is
// observed on the wire, including the relay's own splitting of a re-prefixed
// message into DATA frames of at most SETTINGS_MAX_FRAME_SIZE.

const maxFrame = 16384

// fitFrames adds cuts so that no DATA frame the harness writes exceeds the
// default SETTINGS_MAX_FRAME_SIZE.
func fitFrames(d Dir) Dir {
	b := build(d)
	cuts := append([]int{}, b.cuts...)
	prev := 0
	for _, c := range append(append([]int{}, b.cuts...), len(b.stream)) {
		for c-prev > maxFrame {
			prev += maxFrame
			cuts = append(cuts, prev)
		}
		prev = c
	}
	sort.Ints(cuts)
	d.Cuts = cuts
	d.Empty = nil
	return d
}

func fields(h []hpack.HeaderField) []h2kit.Field {
	out := make([]h2kit.Field, len(h))
	for i, f := range h {
		out[i] = h2kit.Field{N: f.Name, V: f.Value}
	}
	return out
}

// playOps writes the frames of one direction on stream 1. A DATA frame is written only when the
// credit the relay has granted this sender (initial 65535 + WINDOW_UPDATEs, stream and connection)
// covers it; the relay returns credit as it receives, so this never waits for the far side.
func playOps(e *h2kit.Endpoint, ops []op, bound time.Duration) error {
	sent := 0
	for _, o := range ops {
		var err error
		if n := len(o.data); o.kind == 'D' && n > 0 {
			if !e.Wait(bound, func(r *h2kit.Rec) bool {
				return r.Done || (65535+int(r.WU[0])-sent >= n && 65535+int(r.WU[1])-sent >= n)
			}) {
				return fmt.Errorf("the relay did not grant credit for a %d-byte DATA frame after %d bytes within %v", n, sent, bound)
			}
			sent += n
		}
		if o.kind == 'H' {
			_, err = e.WriteHeaders(h2kit.HeadersSpec{Stream: 1, Fields: fields(o.hdr), EndStream: o.end, Pad: -1})
		} else {
			_, err = e.WriteData(1, o.data, -1, o.end)
		}
		if err != nil {
			return err
		}
	}
	return nil
}

// received converts what an endpoint saw on stream 1 into sink events.
func received(e *h2kit.Endpoint) (*sinkRec, bool) {
	s := &sinkRec{}
	ended := false
	e.With(func(r *h2kit.Rec) {
		for _, ev := range r.Streams[1] {
			switch ev.Kind {
			case "H":
				var h []hpack.HeaderField
				for _, f := range ev.Fields {
					h = append(h, hpack.HeaderField{Name: f.N, Value: f.V})
				}
				s.ev = append(s.ev, event{kind: 'H', hdr: h, end: ev.End})
			case "D":
				s.ev = append(s.ev, event{kind: 'D', data: append([]byte{}, ev.Data...), end: ev.End})
			case "R":
				s.ev = append(s.ev, event{kind: 'R'})
			case "P":
				s.ev = append(s.ev, event{kind: 'P'})
			default:
				s.ev = append(s.ev, event{kind: 'U'})
			}
			if ev.End || ev.Kind == "R" {
				ended = true
			}
		}
		if r.Done {
			ended = true // nothing more can arrive
		}
	})
	return s, ended
}

func streamOver(e *h2kit.Endpoint) func(r *h2kit.Rec) bool {
	return func(r *h2kit.Rec) bool {
		if r.Done {
			return true
		}
		for _, ev := range r.Streams[1] {
			if ev.End || ev.Kind == "R" {
				return true
			}
		}
		return false
	}
}

// judgePlain is the non-gRPC clause at wire level: the relay may re-split
// DATA, so bytes and END_STREAM are compared, not frame boundaries.
func judgePlain(c Case, where string, ops []op, sink *sinkRec, proc *procRec) kit.Verdict {
	var v kit.Verdict
	if proc != nil && len(proc.ev) > 0 {
		v.Addf("C11/non-grpc/relay/processor-shown-non-grpc-traffic", "%s content-type %q: the gRPC processor was shown%s", where, c.CT, summary(proc.ev))
	}
	var want, got []byte
	wantEnd, ends, endAt := false, 0, -1
	for _, o := range ops {
		want = append(want, o.data...)
		wantEnd = wantEnd || o.end
	}
	for i, e := range sink.ev {
		got = append(got, e.data...)
		if e.end {
			ends++
			endAt = i
		}
	}
	if !bytes.Equal(want, got) {
		v.Addf("C11/non-grpc/relay/body-bytes-differ", "%s content-type %q: %s; destination got%s", where, c.CT, kit.Diff(want, got), summary(sink.ev))
	}
	if wantEnd && (ends != 1 || endAt != len(sink.ev)-1) {
		v.Addf("C11/non-grpc/relay/end-stream-not-exactly-once-at-the-end", "%s content-type %q: %d END_STREAM flags among%s", where, c.CT, ends, summary(sink.ev))
	}
	return v
}

var patience h2kit.Patience

// runRelay: a wait that expired is believed only after the case was run once
// more, alone, with three times the bound.
func runRelay(c Case) kit.Verdict {
	h2kit.ShortShrink()
	bound, revalidate := patience.Bound()
	v, slow := runRelayOnce(c, bound)
	if !slow {
		return v
	}
	if !revalidate {
		patience.Spent(bound)
		return v
	}
	v2, slow2 := runRelayOnce(c, 3*bound)
	if !slow2 {
		kit.Inconclusive("relay-end-to-end")
	} else if len(v2) > 0 {
		patience.Confirm()
	}
	return v2
}

func runRelayOnce(c Case, bound time.Duration) (v kit.Verdict, slow bool) {
	c.Procs, c.Conc, c.Sched = "", false, ""
	if isGRPC(c.CT) {
		c.C.Plain, c.S.Plain = false, false
	}
	c.C.AbortAt, c.S.AbortAt, c.SCT, c.Info = 0, 0, "", 0
	c.C, c.S = fitFrames(c.C), fitFrames(c.S)
	if normEnd(c.C.End) == "absent" {
		c.C.End = "last"
	}
	if normEnd(c.S.End) == "absent" {
		c.S.End = "trailers"
	}
	run := &streamRun{c: c}
	cur := run
	sess, err := h2kit.Open(h2kit.Options{Factories: []h2.StreamProcessorFactory{newFactory(&cur)}, Bound: bound})
	if err != nil {
		return kit.Failf("C11/relay/setup/session-did-not-start", "%v", err), false
	}
	defer sess.Teardown(bound)
	cl, sv := sess.Client, sess.Server
	cl.SetAutoWU(!c.Late)
	sv.SetAutoWU(!c.Late)
	// Late: a receiver returns credit only when the relay has used up the initial window (or has
	// nothing more to send): what the relay still holds then has to be cut at the window.
	grantLate := func(e *h2kit.Endpoint, total int) {
		if !c.Late {
			return
		}
		want := min(total, 65535)
		if !e.Wait(bound, func(r *h2kit.Rec) bool { return r.Done || r.DataBytes[1] >= want || streamOver(e)(r) }) {
			slow = true
		}
		e.WriteWindowUpdate(0, 1<<20)
		e.WriteWindowUpdate(1, 1<<20)
		e.SetAutoWU(true)
	}
	cl.WritePreface()
	cl.WriteSettings()
	sv.WriteSettings()
	settled := func(r *h2kit.Rec) bool { return (len(r.Settings) >= 1 && r.Acks >= 1) || r.Done }
	if !cl.Wait(bound, settled) || !sv.Wait(bound, settled) {
		return kit.Failf("C11/relay/setup/settings-exchange-incomplete", "SETTINGS exchange did not complete within %v", bound), true
	}
	bc, bs := build(c.C), build(c.S)
	opsC, opsS := opsFor(c, "c", c.C, bc), opsFor(c, "s", c.S, bs)

	if c.Neighbour != "" && !c.Late {
		half := (len(opsC) + 1) / 2
		if err := playOps(cl, opsC[:half], bound); err != nil {
			return kit.Failf("C11/relay/setup/client-write-failed", "%v", err), true
		}
		// the factory is asked per stream: once the server has seen the judged call's HEADERS its
		// processors exist, and the neighbour's are pointed at a recorder nobody reads
		sv.Wait(bound, func(r *h2kit.Rec) bool { return len(r.Streams[1]) > 0 || r.Done })
		cur = &streamRun{c: c}
		cl.WriteHeaders(h2kit.HeadersSpec{Stream: 3, Pad: -1, Fields: []h2kit.Field{{N: ":method", V: "POST"}, {N: ":scheme", V: "https"},
			{N: ":path", V: "/verif.Svc/Other"}, {N: ":authority", V: "verif.example"}, {N: "content-type", V: "application/grpc"},
			{N: "te", V: "trailers"}, {N: "grpc-encoding", V: c.Neighbour}}})
		if c.Neighbour == "gzip" {
			z := compress("gzip", 0, "", []byte("neighbour"))
			cl.WriteData(3, append([]byte{1, 0, 0, 0, byte(len(z))}, z...), -1, true)
		} else {
			cl.WriteData(3, []byte{1, 0, 0, 0, 4, 0x28, 0xb5, 0x2f, 0xfd}, -1, true)
		}
		opsRest := opsC[half:]
		if err := playOps(cl, opsRest, bound); err != nil {
			// the write side of the in-memory connection fails once the relay has closed it
			v.Addf("C11/relay/"+neighbourShape(c)+"/call-in-progress-cut-off", "through h2.Config.Proxy: after a second stream with grpc-encoding %q was opened the client could not finish the request of the call in progress: %v", c.Neighbour, err)
			return v, false
		}
	} else if err := playOps(cl, opsC, bound); err != nil {
		return kit.Failf("C11/relay/setup/client-write-failed", "%v", err), true
	}
	gotHeaders := func(r *h2kit.Rec) bool { return len(r.Streams[1]) > 0 || r.Done }
	if !sv.Wait(bound, gotHeaders) {
		if ret, _ := sess.ProxyReturned(0); ret && c.Neighbour != "" && !c.Late {
			return kit.Failf("C11/relay/"+neighbourShape(c)+"/call-in-progress-cut-off", "through h2.Config.Proxy: a second stream with grpc-encoding %q was opened while the call was in progress; the session ended before the request reached the server", c.Neighbour), false
		}
		v.Addf("C11/relay/request/request-headers-never-reached-the-server", "nothing of stream 1 reached the server within %v", bound)
		return v, true
	}
	grantLate(sv, len(bc.stream))
	if err := playOps(sv, opsS, bound); err != nil {
		if c.Neighbour != "" && !c.Late {
			return kit.Failf("C11/relay/"+neighbourShape(c)+"/call-in-progress-cut-off", "through h2.Config.Proxy: a second stream with grpc-encoding %q was opened while the call was in progress; the server could not answer the call any more: %v", c.Neighbour, err), false
		}
		return kit.Failf("C11/relay/setup/server-write-failed", "%v", err), true
	}
	grantLate(cl, len(bs.stream))
	for _, e := range []*h2kit.Endpoint{sv, cl} {
		if !e.Wait(bound, streamOver(e)) {
			slow = true
		}
	}
	time.Sleep(2 * time.Millisecond) // frames behind END_STREAM (there must be none) get a chance to show
	sinkC, _ := received(sv)
	sinkS, _ := received(cl)
	if isGRPC(c.CT) {
		v = append(v, judge(c, "c", bc, opsC, nil, sinkC, run.recC)...)
		v = append(v, judge(c, "s", bs, opsS, nil, sinkS, run.recS)...)
	} else {
		v = append(v, judgePlain(c, "client-to-server", opsC, sinkC, run.recC)...)
		v = append(v, judgePlain(c, "server-to-client", opsS, sinkS, run.recS)...)
	}
	for i := range v {
		v[i].Msg = "through h2.Config.Proxy: " + v[i].Msg
	}
	if c.Neighbour != "" && !c.Late && len(v) > 0 {
		over := false
		cl.With(func(r *h2kit.Rec) { over = r.Done })
		if ret, _ := sess.ProxyReturned(0); ret || over {
			// the whole session ended: one failure, named after what provoked it
			return kit.Failf("C11/relay/"+neighbourShape(c)+"/call-in-progress-cut-off", "through h2.Config.Proxy: a second stream with grpc-encoding %q was opened while the call was in progress; the session ended and the call lost: %s (and %d more)", c.Neighbour, v[0].Msg, len(v)-1), false
		}
	}
	return v, slow
}

func neighbourShape(c Case) string {
	if normEnc(c.Neighbour) == "" {
		return "neighbour-stream-with-unknown-grpc-encoding"
	}
	return "neighbour-stream-with-known-grpc-encoding"
}

// ---------------------------------------------------------------- cases

// relaySizes: payload sizes whose length-prefixed form sits on and around
// multiples of the default SETTINGS_MAX_FRAME_SIZE, where the relay's own
// splitting of a re-prefixed message has its edges.
var relaySizes = []int{16378, 16379, 16380, 32762, 32763, 32764, 8187, 16384, 11}

func genRelayDir(t *rapid.T, label string, ends []string, plain bool, late bool) Dir {
	sizes, limit := relaySizes, 50000 // not late: stay inside the initial flow-control windows
	if late {
		sizes, limit = append(append([]int{}, relaySizes...), 65530, 65531, 65532, 49147, 20000, 20000, 60000), 150000
	}
	var d Dir
	d.Enc = rapid.SampledFrom([]string{"", "identity", "gzip", "deflate", "snappy"}).Draw(t, label+"_enc")
	n := rapid.IntRange(0, 3).Draw(t, label+"_nmsgs")
	if late {
		n = rapid.IntRange(1, 5).Draw(t, label+"_nmsgs_late")
	}
	total := 0
	for i := 0; i < n; i++ {
		var m Msg
		switch rapid.IntRange(0, 9).Draw(t, "sizeclass") {
		case 0, 1, 2:
			m.N = rapid.IntRange(0, 300).Draw(t, "n")
		case 3:
			m.N = rapid.IntRange(301, 5000).Draw(t, "n")
		default:
			m.N = rapid.SampledFrom(sizes).Draw(t, "n")
		}
		if plain && m.N >= 16378 {
			m.N = rapid.SampledFrom([]int{16383, 16384, 16385, 32768}).Draw(t, "plain_n")
		}
		if total+m.N+5 > limit {
			break
		}
		total += m.N + 5
		m.Z = rapid.IntRange(0, 3).Draw(t, "z") == 0
		m.Seed = uint64(rapid.IntRange(1, 1000).Draw(t, "seed"))
		m.Kind = rapid.SampledFrom([]string{"", "t", "0"}).Draw(t, "kind")
		d.Msgs = append(d.Msgs, m)
	}
	d.End = rapid.SampledFrom(ends).Draw(t, label+"_end")
	d.Plain = plain
	if L := len(build(d).stream); L > 1 && rapid.Bool().Draw(t, label+"_cut") {
		k := rapid.IntRange(1, 4).Draw(t, "ncuts")
		for j := 0; j < k; j++ {
			d.Cuts = append(d.Cuts, rapid.IntRange(1, L-1).Draw(t, "at"))
		}
		sort.Ints(d.Cuts)
	}
	return d
}

func genRelay(t *rapid.T) Case {
	var c Case
	c.CT = rapid.SampledFrom([]string{"application/grpc", "application/grpc", "application/grpc", "application/grpc+proto", "application/json"}).Draw(t, "ct")
	plain := !isGRPC(c.CT)
	c.Late = rapid.IntRange(0, 2).Draw(t, "late") == 0
	c.Copy = rapid.IntRange(0, 3).Draw(t, "copy") == 0
	if !c.Late && isGRPC(c.CT) && rapid.IntRange(0, 3).Draw(t, "neighbour") == 0 {
		c.Neighbour = rapid.SampledFrom([]string{"zstd", "br", "GZIP", "lz4", "gzip"}).Draw(t, "neighbour_enc")
	}
	c.C = genRelayDir(t, "c", []string{"last", "last", "separate"}, plain, c.Late)
	c.S = genRelayDir(t, "s", []string{"trailers", "trailers", "last", "separate"}, plain, c.Late)
	return c
}

func relayClasses(c Case) []string {
	out := classes(c)
	exact := false
	for _, d := range []Dir{c.C, c.S} {
		b := build(d)
		for i, w := range b.want {
			if !w.z || !compresses(b.enc) {
				if n := 5 + len(w.wire); n%maxFrame == 0 {
					out = append(out, "prefixed-message-is-multiple-of-max-frame-size")
					if i == len(b.want)-1 && b.end == "last" {
						exact = true
					}
				}
			}
		}
		if d.Plain && len(b.stream) > 0 && len(b.stream)%maxFrame == 0 {
			out = append(out, "plain-body-is-multiple-of-max-frame-size")
		}
	}
	if exact {
		out = append(out, "end-stream-on-message-filling-its-frames-exactly")
	}
	if c.Neighbour != "" && !c.Late {
		out = append(out, neighbourShape(c))
	}
	if c.Late {
		out = append(out, "receiver-returns-credit-late")
		for _, d := range []Dir{c.C, c.S} {
			if b := build(d); len(b.stream) > 65535 {
				out = append(out, "stream-exceeds-initial-window-of-late-receiver")
				if b.end == "last" {
					out = append(out, "end-stream-on-data-beyond-initial-window-of-late-receiver")
				}
			}
		}
	}
	sort.Strings(out)
	return out
}

var propRelay = &kit.Prop[Case]{
	ID: "C11", Name: "relay-end-to-end",
	Rule: "one stream through h2.Config.Proxy (in-memory frame-level client, frame-level TLS server, AsStreamProcessorFactory(recording pass-through) as the only factory): request and response each 0..3 messages (payload 0..5000 or on/around k*16384-5 so that the re-prefixed message fills the relay's DATA frames exactly; at most 50000 bytes per direction), five encodings, drawn cuts (frames <= 16384), END_STREAM on the last DATA frame / a separate empty frame / trailers; 1 in 5 a JSON stream with plain body. The frames the two endpoints receive are judged by the reframe oracle (non-gRPC: bytes and END_STREAM, since the relay may re-split DATA). Non-trivial as for reframe.",
	Gen:  genRelay, Run: runRelay, NonTrivial: nontrivial, Classes: relayClasses,
	Gates: map[string]float64{"prefixed-message-is-multiple-of-max-frame-size": 0.1, "end-stream-on-data-beyond-initial-window-of-late-receiver": 0.08},
}

func TestRelayEndToEnd(t *testing.T) {
	if kit.Race() {
		t.Skip("socket timing under the race detector belongs to C08")
	}
	propRelay.Check(t, kit.N(120, 400))
}

// relayEdges: one uncompressed message whose length-prefixed form is L bytes,
// END_STREAM in every placement, in both directions at once; and plain bodies
// of the same lengths.
func relayEdges(yield func(Case) bool) {
	for _, L := range []int{maxFrame - 1, maxFrame, maxFrame + 1, 2 * maxFrame, 3*maxFrame - 1} {
		for _, ends := range [][2]string{{"last", "last"}, {"separate", "trailers"}, {"last", "separate"}} {
			m := []Msg{{N: L - 5, Seed: uint64(L), Kind: "t"}}
			if !yield(Case{CT: "application/grpc", C: Dir{Msgs: m, End: ends[0]}, S: Dir{Msgs: m, End: ends[1]}}) {
				return
			}
			two := []Msg{{N: 7, Seed: 1}, {N: L - 5, Seed: uint64(L), Kind: "t"}}
			if !yield(Case{CT: "application/grpc", C: Dir{Enc: "gzip", Msgs: two, Cuts: []int{3, 100}, End: ends[0]}, S: Dir{Msgs: two, Cuts: []int{12}, End: ends[1]}}) {
				return
			}
		}
		p := []Msg{{N: L, Seed: uint64(L), Kind: "t"}}
		if !yield(Case{CT: "application/json", C: Dir{Msgs: p, End: "last", Plain: true}, S: Dir{Msgs: p, End: "last", Plain: true}}) {
			return
		}
	}
	// the frame with END_STREAM straddles the initial window of a receiver that returns credit late
	for _, L := range []int{65535, 65536, 65537, 65535 + maxFrame, 100000} {
		m := []Msg{{N: L - 5, Seed: uint64(L), Kind: "t"}}
		for _, ends := range [][2]string{{"last", "last"}, {"separate", "trailers"}} {
			if !yield(Case{CT: "application/grpc", Late: true, C: Dir{Msgs: m, End: ends[0]}, S: Dir{Msgs: m, End: ends[1]}}) {
				return
			}
		}
		p := []Msg{{N: L, Seed: uint64(L), Kind: "t"}}
		if !yield(Case{CT: "application/json", Late: true, C: Dir{Msgs: p, End: "last", Plain: true}, S: Dir{Msgs: p, End: "last", Plain: true}}) {
			return
		}
	}
	for _, enc := range []string{"zstd", "GZIP", "gzip"} {
		m := []Msg{{N: 30, Seed: 3, Kind: "t"}, {N: 300, Seed: 4, Kind: "t"}}
		if !yield(Case{CT: "application/grpc", Neighbour: enc, C: Dir{Msgs: m, Cuts: []int{7, 50, 100}, End: "last"}, S: Dir{Msgs: m, End: "trailers"}}) {
			return
		}
	}
	four := []Msg{{N: 20000, Seed: 1, Kind: "t"}, {N: 20000, Seed: 2, Kind: "t"}, {N: 20000, Seed: 3, Kind: "t"}, {N: 10000, Seed: 4, Kind: "t"}}
	yield(Case{CT: "application/grpc", Late: true, C: Dir{Msgs: four, Cuts: []int{20005, 40010, 60015}, End: "last"}, S: Dir{Enc: "gzip", Msgs: four, End: "last"}})
}

var propRelayEdges = &kit.Prop[Case]{
	ID: "C11", Name: "relay-frame-size-edges",
	Rule: "exhaustive over a fixed matrix: length-prefixed message of 16383, 16384, 16385, 32768, 49151 bytes (alone and behind a small message) x END_STREAM placements (last/last, separate/trailers, last/separate) in both directions through h2.Config.Proxy, plus JSON streams with plain bodies of those lengths (54 sessions). Non-trivial as for reframe.",
	Run:  runRelay, NonTrivial: nontrivial, Classes: relayClasses,
}

func TestRelayFrameSizeEdges(t *testing.T) {
	if kit.Race() {
		t.Skip("socket timing under the race detector belongs to C08")
	}
	propRelayEdges.Enumerate(t, relayEdges)
}

var _ = fmt.Sprintf
