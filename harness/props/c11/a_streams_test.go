// (The file name sorts first on purpose: these histories call runtime.GC, which is cheap only while the
// process heap is still small - before the large enumerations have run.)
package c11

import (
	"fmt"
	"runtime"
	"sort"
	"strings"
	"testing"

	"pgregory.net/rapid"

	"verifharness/internal/kit"
)

// Conn is a history of several streams that all go through ONE
// StreamProcessorFactory value - what happens on a proxied connection (and on
// every later connection of the same h2.Config). "gRPC or not" is a property
// of each stream: whatever an earlier or concurrent stream announced must not
// leak into another one.
type Conn struct {
	Streams []Case `json:"streams"`
	// Order names the stream whose next frame is played; streams are opened
	// (the factory is called) at their first frame. What is left afterwards is
	// played stream by stream.
	Order []int `json:"order,omitempty"`
}

func runConn(h Conn) kit.Verdict {
	watchBegin("streams-of-one-factory", h)
	var cur *streamRun
	f := newFactory(&cur)
	n := len(h.Streams)
	runs := make([]*streamRun, n)
	play := func(k int) {
		if runs[k] == nil {
			c := h.Streams[k]
			c.Conc = false
			runs[k] = openStream(f, &cur, c)
		}
		runs[k].step()
	}
	for _, k := range h.Order {
		if k >= 0 && k < n {
			play(k)
		}
	}
	for k := 0; k < n; k++ {
		for runs[k] == nil || !runs[k].done() {
			play(k)
		}
	}
	// A stream that was torn down mid-message may leave process-wide state behind in the code under
	// test (pooled buffers). Two collections empty every sync.Pool, so that whatever this history
	// provoked is seen by ITS later streams only and a replay of the case stands on its own.
	for _, r := range runs {
		if (r.bc != nil && r.bc.abort != "") || (r.bs != nil && r.bs.abort != "") {
			runtime.GC()
			runtime.GC()
			break
		}
	}
	var kinds []string
	anyGRPC := false
	for _, c := range h.Streams {
		if isGRPC(c.CT) {
			anyGRPC = true
		}
		kinds = append(kinds, fmt.Sprintf("%q", c.CT))
	}
	var v kit.Verdict
	for k, r := range runs {
		for _, fl := range r.verdict() {
			sig := fl.Sig
			if anyGRPC && strings.HasPrefix(sig, "C11/non-grpc/any/") {
				sig = "C11/non-grpc/shares-factory-with-grpc-stream/" + strings.TrimPrefix(sig, "C11/non-grpc/any/")
			}
			v.Addf(sig, "stream %d of %d through one factory (content-types in opening order of the case: %s): %s", k+1, n, strings.Join(kinds, ", "), fl.Msg)
		}
	}
	return v
}

func connClasses(h Conn) []string {
	set := map[string]bool{}
	seenG, seenN := false, false
	encs := map[string]bool{}
	dirty := false // an earlier gRPC stream was torn down with a partial message buffered
	for _, c := range h.Streams {
		if isGRPC(c.CT) {
			if dirty {
				set["grpc-stream-after-stream-aborted-mid-message"] = true
			}
			for _, d := range []Dir{c.C, c.S} {
				if b := build(d); b.abort != "" {
					set["aborted-"+b.abort] = true
					if b.tail > 0 {
						dirty = true
					}
				}
			}
			if seenN {
				set["grpc-after-non-grpc"] = true
			}
			seenG = true
			encs[normEnc(c.C.Enc)+"/"+normEnc(c.S.Enc)] = true
		} else {
			if seenG {
				set["non-grpc-after-grpc"] = true
			}
			seenN = true
			if c.C.Plain || c.S.Plain {
				set["plain-body"] = true
			} else {
				set["non-grpc-body-looks-like-grpc-framing"] = true
			}
		}
	}
	switch {
	case seenG && seenN:
		set["mixed"] = true
	case seenG:
		set["all-grpc"] = true
	default:
		set["all-non-grpc"] = true
	}
	if len(encs) > 1 {
		set["grpc-streams-with-different-encodings"] = true
	}
	if len(h.Order) > 0 {
		set["interleaved-streams"] = true
	} else {
		set["streams-one-after-the-other"] = true
	}
	set[fmt.Sprintf("streams-%d", len(h.Streams))] = true
	out := make([]string, 0, len(set))
	for k := range set {
		out = append(out, k)
	}
	sort.Strings(out)
	return out
}

func connNonTrivial(h Conn) bool {
	for _, c := range connClasses(h) {
		if c == "mixed" || c == "grpc-streams-with-different-encodings" || c == "grpc-stream-after-stream-aborted-mid-message" {
			return true
		}
	}
	return false
}

var nonGRPCTypes = []string{"application/json", "text/plain", "", "application/grpc-web", "application/grpc-web+proto", "application/grpcx"}

func genConn(t *rapid.T) Conn {
	var h Conn
	n := rapid.IntRange(2, 4).Draw(t, "nstreams")
	for k := 0; k < n; k++ {
		c := genCase(t)
		c.Conc = false
		g := rapid.IntRange(0, 9).Draw(t, "kind")
		switch {
		case k == 0 && g < 7, k > 0 && g < 4:
			c.CT = "application/grpc"
			if g == 3 {
				c.CT = "application/grpc+proto"
			}
		default:
			c.CT = rapid.SampledFrom(nonGRPCTypes).Draw(t, "ct")
			if rapid.Bool().Draw(t, "plain") {
				c.C.Plain, c.S.Plain = true, true
			}
		}
		// every third stream or so is torn down in the middle: RST_STREAM in the direction of a
		// partially sent message, or END_STREAM on a truncated one
		if k < n-1 || rapid.Bool().Draw(t, "abort_last") {
			for _, d := range []*Dir{&c.C, &c.S} {
				if rapid.IntRange(0, 4).Draw(t, "abort") != 0 {
					continue
				}
				probe := *d
				probe.AbortAt = 0
				b := build(probe)
				if len(b.stream) < 2 {
					continue
				}
				at := rapid.IntRange(1, len(b.stream)-1).Draw(t, "abort_at")
				if len(b.offs) > 0 && rapid.Bool().Draw(t, "abort_in_prefix") {
					o := b.offs[rapid.IntRange(0, len(b.offs)-1).Draw(t, "abort_msg")]
					if a := o + rapid.IntRange(1, 4).Draw(t, "abort_rel"); a < len(b.stream) {
						at = a
					}
				}
				d.AbortAt = at
				d.AbortHow = rapid.SampledFrom([]string{"rst", "rst", "end"}).Draw(t, "abort_how")
				var cuts []int
				for _, x := range d.Cuts {
					if x < at {
						cuts = append(cuts, x)
					}
				}
				d.Cuts = cuts
			}
		}
		h.Streams = append(h.Streams, c)
	}
	if rapid.Bool().Draw(t, "interleave") {
		m := rapid.IntRange(1, 40).Draw(t, "orderlen")
		for i := 0; i < m; i++ {
			h.Order = append(h.Order, rapid.IntRange(0, n-1).Draw(t, "next"))
		}
	}
	return h
}

const ruleStreams = "2..4 streams played through ONE AsStreamProcessorFactory result (fresh sinks and a fresh recording processor per stream, as the relay does per stream): each stream is a reframe case (see there) with content-type application/grpc(+proto) or a non-gRPC type; non-gRPC bodies are either plain bytes (JSON-like text, zeros, random) or bytes that look like gRPC framing incl. frames that end inside a 5-byte prefix; streams one after the other or interleaved frame by frame (drawn order); about every third stream is torn down in the middle (RST_STREAM in the direction of a partially sent message - cut inside a prefix or a payload - or END_STREAM on a truncated message) and followed by ordinary streams. Every stream is judged on its own with the reframe oracle. Non-trivial = gRPC and non-gRPC streams share the factory, or gRPC streams with different encodings do, or a gRPC stream follows one that was aborted in the middle of a message."

var propStreams = &kit.Prop[Conn]{
	ID: "C11", Name: "streams-of-one-factory", Rule: ruleStreams,
	Gen: genConn, Run: runConn, NonTrivial: connNonTrivial, Classes: connClasses,
	Gates: map[string]float64{"grpc-stream-after-stream-aborted-mid-message": 0.15, "non-grpc-after-grpc": 0.3, "grpc-after-non-grpc": 0.1, "interleaved-streams": 0.3, "plain-body": 0.15, "non-grpc-body-looks-like-grpc-framing": 0.15},
}

func TestStreamsOfOneFactory(t *testing.T) {
	n := kit.N(1200, 3000)
	if kit.Race() {
		t.Skip("single goroutine")
	}
	propStreams.Check(t, n)
}

// streamKind: six fixed streams - two whole gRPC ones, two that are not gRPC, two gRPC ones torn down mid-message.
func streamKind(k byte) Case {
	two := []Msg{{N: 9, Seed: 3, Kind: "t"}, {N: 40, Seed: 4, Kind: "t", Z: true}}
	switch k {
	case 'G': // gRPC, identity, cut inside the second prefix
		d := Dir{Msgs: two, Cuts: []int{3, 16}, End: "last"}
		return Case{CT: "application/grpc", C: d, S: Dir{Msgs: two, Cuts: []int{5}, End: "trailers"}}
	case 'Z': // gRPC, gzip, compressed message
		return Case{CT: "application/grpc", C: Dir{Enc: "gzip", Msgs: two, Cuts: []int{17, 30}, End: "separate"}, S: Dir{Enc: "gzip", Msgs: two, End: "trailers"}}
	case 'J': // JSON-like text body
		d := Dir{Msgs: []Msg{{N: 60, Seed: 5, Kind: "t"}}, Cuts: []int{2, 31}, End: "last", Plain: true}
		return Case{CT: "application/json", C: d, S: d}
	case 'A': // gRPC, reset in the middle: request inside a payload, response inside a prefix
		return Case{CT: "application/grpc", C: Dir{Msgs: two, Cuts: []int{3, 16}, End: "last", AbortAt: 30, AbortHow: "rst"}, S: Dir{Msgs: two, End: "trailers", AbortAt: 16, AbortHow: "rst"}}
	case 'E': // gRPC, END_STREAM on a truncated request message; the response is whole
		return Case{CT: "application/grpc", HOrd: 2, C: Dir{Enc: "gzip", Msgs: two, Cuts: []int{9}, End: "last", AbortAt: 25, AbortHow: "end"}, S: Dir{Enc: "deflate", Msgs: two, End: "trailers"}}
	default: // 'W': not gRPC, but the body looks like gRPC framing and a frame ends inside a prefix
		d := Dir{Msgs: two, Cuts: []int{2, 16}, End: "last"}
		return Case{CT: "application/grpc-web", C: d, S: d}
	}
}

func enumStreamKinds(yield func(Conn) bool) {
	var rec func(prefix string, left int) bool
	rec = func(prefix string, left int) bool {
		if len(prefix) >= 2 {
			var h Conn
			for i := 0; i < len(prefix); i++ {
				h.Streams = append(h.Streams, streamKind(prefix[i]))
			}
			if !yield(h) {
				return false
			}
			h.Order = nil
			for i := 0; i < 12*len(prefix); i++ {
				h.Order = append(h.Order, i%len(prefix)) // round robin, frame by frame
			}
			if !yield(h) {
				return false
			}
		}
		if left == 0 {
			return true
		}
		for _, k := range []byte("GZJWAE") {
			if !rec(prefix+string(k), left-1) {
				return false
			}
		}
		return true
	}
	rec("", 3)
}

var propStreamKinds = &kit.Prop[Conn]{
	ID: "C11", Name: "stream-kind-sequences",
	Rule: "exhaustive: every sequence of 2 or 3 streams over six fixed kinds (gRPC identity, gRPC gzip, JSON text body, non-gRPC body that looks like gRPC framing, gRPC reset in the middle of a message in both directions, gRPC with END_STREAM on a truncated message) through one factory, one after the other and round-robin interleaved (504 histories). Non-trivial as for streams-of-one-factory.",
	Run:  runConn, NonTrivial: connNonTrivial, Classes: connClasses,
}

func TestStreamKindSequences(t *testing.T) {
	if kit.Race() {
		t.Skip("single goroutine")
	}
	propStreamKinds.Enumerate(t, enumStreamKinds)
}
