package c14

import (
	"fmt"
	"net"
	"net/http"
	"net/url"
	"strings"
	"sync/atomic"
	"testing"
	"time"

	"github.com/google/martian/v3"
	"github.com/google/martian/v3/fifo"
	"github.com/google/martian/v3/httpspec"
	"github.com/google/martian/v3/proxyutil"
	"pgregory.net/rapid"

	"verifharness/internal/kit"
)

// ChainCase sends one request through several spec stacks that were all
// created with the same name in one process ("a request whose Via already
// names this proxy INSTANCE"): an instance must stamp its own entry after the
// entries of the other instances and must report a loop only when the request
// already passed through itself.
type ChainCase struct {
	Name   string   `json:"name"`
	Proto  string   `json:"proto"`
	Stacks int      `json:"stacks"` // instances created with Name
	Hops   []int    `json:"hops"`   // order in which the request visits them
	Via    []string `json:"via"`    // pre-existing Via lines; {pre} = pseudonym of instance Pre
	Pre    int      `json:"pre"`    // -1, or the instance already named in Via
	Wire   bool     `json:"wire,omitempty"`
}

// probeStack learns the pseudonym of one stack instance.
func probeStack(stack *fifo.Group, name string) (string, error) {
	probe, _ := http.NewRequest("GET", "http://probe.test/", nil)
	probe.RemoteAddr = "192.0.2.1:1"
	_, rm, err := martian.TestContext(probe, nil, nil)
	if err != nil {
		panic(err)
	}
	defer rm()
	perr := stack.ModifyRequest(probe)
	pv := probe.Header["Via"]
	if perr != nil || len(pv) != 1 || !strings.HasPrefix(pv[0], "1.1 "+name+"-") || len(pv[0]) <= len("1.1 "+name+"-") || strings.ContainsAny(pv[0][4:], " \t,") {
		return "", fmt.Errorf("probe request without Via: error %v, Via lines %q, want one entry \"1.1 %s-<boundary>\"", perr, pv, name)
	}
	return pv[0][4:], nil
}

func distinctPseudonyms(ps []string, v *kit.Verdict) {
	for i := range ps {
		for j := i + 1; j < len(ps); j++ {
			if ps[i] == ps[j] {
				v.Addf("C14/via/instances-same-name/same-pseudonym", "instances %d and %d created with the same name stamp the same Via pseudonym %q: they cannot tell their own entries from each other's", i, j, ps[i])
				return
			}
		}
	}
}

func (c ChainCase) viaLines(ps []string) []string {
	pre := ""
	if c.Pre >= 0 {
		pre = ps[c.Pre]
	}
	var out []string
	for _, l := range c.Via {
		out = append(out, strings.ReplaceAll(l, "{pre}", pre))
	}
	return out
}

func runChain(c ChainCase) (v kit.Verdict) {
	if c.Wire {
		return runChainWire(c)
	}
	stacks := make([]*fifo.Group, c.Stacks)
	ps := make([]string, c.Stacks)
	for i := range stacks {
		stacks[i], _ = httpspec.NewStack(c.Name)
		p, err := probeStack(stacks[i], c.Name)
		if err != nil {
			return kit.Failf("C14/via/none/wrong-members", "instance %d: %v", i, err)
		}
		ps[i] = p
	}
	// reported after the behavioural failures it causes
	defer func() { distinctPseudonyms(ps, &v) }()

	_, maj, min := protoOf(Case{Proto: c.Proto})
	visited := map[int]bool{}
	if c.Pre >= 0 {
		visited[c.Pre] = true
	}
	cur := http.Header{}
	for _, l := range c.viaLines(ps) {
		cur.Add("Via", l)
	}
	want := flatten(cur["Via"])
	for step, s := range c.Hops {
		req := &http.Request{
			Method: "GET", URL: &url.URL{Scheme: "http", Host: "example.com", Path: "/"},
			Proto: "HTTP/" + c.Proto, ProtoMajor: maj, ProtoMinor: min,
			Header: cur.Clone(), Host: "example.com", RemoteAddr: fmt.Sprintf("10.0.0.%d:5000", step+1), Body: http.NoBody,
		}
		ctx, remove, err := martian.TestContext(req, nil, nil)
		if err != nil {
			panic(err)
		}
		rerr := stacks[s].ModifyRequest(req)
		skip := ctx.SkippingRoundTrip()
		if visited[s] {
			if rerr == nil || !skip {
				v.Addf("C14/loop/revisited-instance/not-detected", "hop %d: the request already passed through instance %d (%s), Via %q, but ModifyRequest returned %v, skip-round-trip=%v", step, s, ps[s], cur["Via"], rerr, skip)
			} else {
				res := proxyutil.NewResponse(200, nil, req)
				if err := stacks[s].ModifyResponse(res); res.StatusCode != 400 || err == nil {
					v.Addf("C14/loop/revisited-instance/not-answered-400", "hop %d: looping request: status %d, ModifyResponse error %v", step, res.StatusCode, err)
				}
			}
			remove()
			return v
		}
		if rerr != nil || skip {
			v.Addf("C14/loop/other-instance-same-name/false-loop", "hop %d: the request never passed through instance %d (%s); its Via %q names only other instances of the same name, but ModifyRequest returned %v, skip-round-trip=%v", step, s, ps[s], cur["Via"], rerr, skip)
			remove()
			return v
		}
		remove()
		want = append(want, fmt.Sprintf("%d.%d %s", maj, min, ps[s]))
		if got := flatten(req.Header["Via"]); !equalStrings(got, want) {
			v.Addf("C14/via/chain-of-instances/wrong-members", "hop %d through instance %d: Via members %q, want %q", step, s, got, want)
			return v
		}
		visited[s] = true
		cur = req.Header
	}
	return v
}

// ---------------------------------------------------------------- two chained proxies

type wireProxy struct {
	p    *martian.Proxy
	ln   net.Listener
	wait time.Duration
}

func startProxy(name string, dialTo string, downstream *url.URL, wait time.Duration) (*wireProxy, error) {
	ln, err := listenLoopback()
	if err != nil {
		return nil, err
	}
	p := martian.NewProxy()
	stack, _ := httpspec.NewStack(name)
	p.SetRequestModifier(stack)
	p.SetResponseModifier(stack)
	p.SetTimeout(60 * time.Second)
	p.SetDial(func(network, addr string) (net.Conn, error) {
		if dialTo != "" {
			addr = dialTo
		}
		return dialLoopback(addr, wait)
	})
	if downstream != nil {
		p.SetDownstreamProxy(downstream)
	}
	go p.Serve(ln)
	return &wireProxy{p: p, ln: ln, wait: wait}, nil
}

func (w *wireProxy) close() {
	w.ln.Close()
	done := make(chan struct{})
	go func() { w.p.Close(); close(done) }()
	select {
	case <-done:
	case <-time.After(w.wait):
		kit.Note("chain", "Proxy.Close did not return within the bound after a case (not part of C14)")
	}
	if tr, ok := w.p.GetRoundTripper().(*http.Transport); ok {
		tr.CloseIdleConnections()
	}
}

// runChainWire: client -> proxy A -> (downstream proxy) B -> raw origin, both
// proxies carrying a spec stack of the same name.
func runChainWire(c ChainCase) kit.Verdict {
	wait := 3 * kit.T()
	incomplete := func(what string) kit.Verdict {
		atomic.AddInt64(&wireIncomplete, 1)
		kit.Inconclusive("chain")
		kit.Note("chain", "a case could not be judged ("+what+"); counted inconclusive")
		return nil
	}
	o, err := newOrigin(wait, []byte("HTTP/1.1 200 OK\r\nContent-Length: 0\r\n\r\n"))
	if err != nil {
		return incomplete("no port")
	}
	defer o.close()
	b, err := startProxy(c.Name, o.ln.Addr().String(), nil, wait)
	if err != nil {
		return incomplete("no port")
	}
	defer b.close()
	a, err := startProxy(c.Name, "", &url.URL{Scheme: "http", Host: b.ln.Addr().String()}, wait)
	if err != nil {
		return incomplete("no port")
	}
	defer a.close()
	addrA := a.ln.Addr().String()

	var v kit.Verdict
	head, err := exchange(addrA, []byte("GET http://probe.test/ HTTP/1.1\r\nHost: probe.test\r\nConnection: close\r\n\r\n"), wait)
	if err != nil {
		if isTimeout(err) {
			return incomplete("probe wait expired")
		}
		return kit.Failf("C14/wire/probe/no-answer", "probe through two chained proxies failed: %v", err)
	}
	start, _ := parseHead(head)
	got := o.received()
	if len(got) == 0 {
		return kit.Failf("C14/loop/other-instance-same-name/false-loop", "a request without Via sent through proxy A and then proxy B (two instances named %q) never reached the origin; the client got %q", c.Name, start)
	}
	_, ph := parseHead(got[0])
	pv := flatten(ph["Via"])
	if len(pv) != 2 || !strings.HasPrefix(pv[0], "1.1 "+c.Name+"-") || !strings.HasPrefix(pv[1], "1.1 "+c.Name+"-") {
		return kit.Failf("C14/via/chain-of-instances/wrong-members", "probe through A then B reached the origin with Via members %q, want one entry of each instance", pv)
	}
	ps := []string{pv[0][4:], pv[1][4:]}
	distinctPseudonyms(ps, &v)

	var sb strings.Builder
	fmt.Fprintf(&sb, "GET http://origin.test/x HTTP/%s\r\nHost: origin.test\r\n", c.Proto)
	lines := c.viaLines(ps)
	for _, l := range lines {
		fmt.Fprintf(&sb, "Via: %s\r\n", l)
	}
	sb.WriteString("\r\n")
	head, err = exchange(addrA, []byte(sb.String()), wait)
	if err != nil {
		if isTimeout(err) {
			return incomplete("request wait expired")
		}
		return kit.Failf("C14/wire/request/no-answer", "no response head from proxy A: %v", err)
	}
	start, _ = parseHead(head)
	status := statusOf(start)
	got = o.received()
	if c.Pre >= 0 {
		if len(got) > 1 {
			v.Addf("C14/loop/revisited-instance/not-detected", "Via lines %q name instance %d (%s) of the chain but the request reached the origin", lines, c.Pre, ps[c.Pre])
		} else if status != 400 {
			v.Addf("C14/loop/revisited-instance/not-answered-400", "looping request stopped but answered %q", start)
		}
		return v
	}
	if len(got) != 2 {
		v.Addf("C14/loop/other-instance-same-name/false-loop", "Via lines %q name neither instance, yet the request did not reach the origin; client got %q", lines, start)
		return v
	}
	_, oh := parseHead(got[1])
	_, maj, min := protoOf(Case{Proto: c.Proto})
	want := append(flatten(lines), fmt.Sprintf("%d.%d %s", maj, min, ps[0]), "1.1 "+ps[1])
	if g := flatten(oh["Via"]); !equalStrings(g, want) {
		v.Addf("C14/via/chain-of-instances/wrong-members", "Via at the origin behind A and B: %q, want %q", g, want)
	}
	if status != 200 {
		v.Addf("C14/stack/clean-response/unexpected-error", "origin answered 200, client got %q", start)
	}
	return v
}

// ---------------------------------------------------------------- generator

func genChain(wire bool) func(t *rapid.T) ChainCase {
	return func(t *rapid.T) ChainCase {
		c := ChainCase{
			Name:  rapid.SampledFrom([]string{"martian", "martian", "edge-proxy"}).Draw(t, "name"),
			Proto: rapid.SampledFrom([]string{"1.1", "1.1", "1.0"}).Draw(t, "proto"),
			Pre:   -1, Wire: wire,
		}
		if wire {
			c.Stacks, c.Hops = 2, []int{0, 1}
		} else {
			c.Stacks = rapid.IntRange(2, 3).Draw(t, "stacks")
			for i, n := 0, rapid.IntRange(1, 5).Draw(t, "hops"); i < n; i++ {
				c.Hops = append(c.Hops, rapid.IntRange(0, c.Stacks-1).Draw(t, "hop"))
			}
		}
		lines := make([][]string, rapid.IntRange(0, 2).Draw(t, "via_lines"))
		for i := range lines {
			for j, k := 0, rapid.IntRange(1, 2).Draw(t, "via_members"); j < k; j++ {
				lines[i] = append(lines[i], viaEntry(t, rapid.SampledFrom(pseudonym).Draw(t, "via_who")))
			}
		}
		if rapid.IntRange(0, 3).Draw(t, "pre") == 0 {
			c.Pre = rapid.IntRange(0, c.Stacks-1).Draw(t, "pre_instance")
			if len(lines) == 0 {
				lines = append(lines, nil)
			}
			li := rapid.IntRange(0, len(lines)-1).Draw(t, "pre_line")
			pos := rapid.IntRange(0, len(lines[li])).Draw(t, "pre_pos")
			l := append([]string{}, lines[li][:pos]...)
			l = append(l, "1.1 {pre}")
			lines[li] = append(l, lines[li][pos:]...)
		}
		for _, l := range lines {
			c.Via = append(c.Via, strings.Join(l, ", "))
		}
		return c
	}
}

func chainClasses(c ChainCase) []string {
	var cl []string
	seen := map[int]bool{}
	if c.Pre >= 0 {
		seen[c.Pre] = true
		cl = append(cl, "pre-named-instance")
	}
	other, revisit := false, false
	for _, s := range c.Hops {
		if seen[s] {
			revisit = true
			break
		}
		if len(seen) > 0 {
			other = true
		}
		seen[s] = true
	}
	if other {
		cl = append(cl, "passes-second-instance")
	}
	if revisit {
		cl = append(cl, "revisits-instance")
	}
	if len(c.Via) > 1 {
		cl = append(cl, "via-multi-line")
	}
	return cl
}

func chainNontrivial(c ChainCase) bool {
	for _, k := range chainClasses(c) {
		if k == "passes-second-instance" || k == "revisits-instance" {
			return true
		}
	}
	return false
}

var propChain = &kit.Prop[ChainCase]{
	ID: "C14", Name: "chain",
	Rule: "2..3 httpspec.NewStack instances with the SAME name in one process, each probed for its pseudonym (must be pairwise distinct); one request with 0..2 foreign Via lines (optionally already naming one of the instances) visits 1..5 drawn instances in order, the output headers of one hop being the input of the next: an instance not yet visited must not report a loop and must append its own entry after all others, a revisited one must report the loop and answer 400; non-trivial = the request enters a second instance after another one stamped it, or revisits one",
	Gen:  genChain(false), Run: runChain, NonTrivial: chainNontrivial, Classes: chainClasses,
	Gates: map[string]float64{"nontrivial": 0.6, "passes-second-instance": 0.4, "revisits-instance": 0.3, "pre-named-instance": 0.15},
}

var propChainWire = &kit.Prop[ChainCase]{
	ID: "C14", Name: "chain-wire",
	Rule: "raw TCP client -> martian.Proxy A -> (SetDownstreamProxy) martian.Proxy B -> raw TCP origin, both proxies carrying a spec stack of the same name: the origin must see A's then B's Via entry after the received ones; a Via already naming A or B must be answered 400 without reaching the origin; non-trivial = all (every request enters B after A stamped it, or loops)",
	Gen:  genChain(true), Run: runChain, NonTrivial: func(ChainCase) bool { return true }, Classes: chainClasses,
	Gates:   map[string]float64{"pre-named-instance": 0.1},
	Journal: true,
}

func TestChain(t *testing.T) {
	if kit.Race() {
		t.Skip()
	}
	propChain.Check(t, kit.N(1000, 5000))
}

func TestChainWire(t *testing.T) {
	n := kit.N(100, 300)
	before := atomic.LoadInt64(&wireIncomplete)
	propChainWire.Check(t, n)
	if inc := atomic.LoadInt64(&wireIncomplete) - before; inc*10 > int64(n) {
		t.Fatalf("infrastructure: %d of %d chained-proxy cases could not be judged; inconclusive, not a violation", inc, n)
	}
}
