package c14

import (
	"fmt"
	"net/http"
	"net/url"
	"strings"
	"sync/atomic"
	"testing"

	"pgregory.net/rapid"

	"verifharness/internal/kit"
)

// ConnectCase: a client CONNECT through a martian.Proxy (spec stack as request
// and response modifier, no MITM) whose downstream proxy refuses the tunnel
// with a non-2xx answer carrying hop-by-hop headers. The refusal is a response
// passing through the stack: none of them may reach the client.
type ConnectCase struct {
	Status int  `json:"status"`
	Res    []HL `json:"res"`
	Body   int  `json:"body"`
}

func runConnectRefused(c ConnectCase) kit.Verdict {
	wait := 3 * kit.T()
	incomplete := func(what string) kit.Verdict {
		atomic.AddInt64(&wireIncomplete, 1)
		kit.Inconclusive("connect-refused")
		kit.Note("connect-refused", "a case could not be judged ("+what+"); counted inconclusive")
		return nil
	}
	id := func(s string) string { return s }
	wc := Case{Status: c.Status, Res: c.Res, Body: c.Body}
	down, err := newOrigin(wait, wireResponse(wc, id)) // plays the downstream proxy
	if err != nil {
		return incomplete("no port")
	}
	defer down.close()
	p, err := startProxy("martian", "", &url.URL{Scheme: "http", Host: down.ln.Addr().String()}, wait)
	if err != nil {
		return incomplete("no port")
	}
	defer p.close()

	head, err := exchange(p.ln.Addr().String(), []byte("CONNECT example.com:443 HTTP/1.1\r\nHost: example.com:443\r\n\r\n"), wait)
	if err != nil {
		if isTimeout(err) {
			return incomplete("wait expired")
		}
		return kit.Failf("C14/wire/connect-refused/no-answer", "no response head for a CONNECT refused downstream with %d: %v", c.Status, err)
	}
	var v kit.Verdict
	start, rh := parseHead(head)
	if got := down.received(); len(got) != 1 || !strings.HasPrefix(got[0], "CONNECT ") {
		v.Addf("C14/wire/connect-refused/not-forwarded", "the downstream proxy received %d header blocks", len(got))
		return v
	}
	if statusOf(start) != c.Status {
		v.Addf("C14/stack/clean-response/unexpected-error", "downstream proxy refused CONNECT with %d, client got %q (Warning %q)", c.Status, start, rh["Warning"])
	}
	rin := collect(c.Res, id)
	checkHeaders("connect-refusal", rin, rh, hopSet(rin), nil, mergeSets(notAssertedOnWire, map[string]bool{"Content-Length": true, "Warning": true}), &v)
	return v
}

var propConnectRefused = &kit.Prop[ConnectCase]{
	ID: "C14", Name: "connect-refused",
	Rule: "raw client CONNECT -> martian.Proxy (stack, SetDownstreamProxy, no MITM) -> raw downstream proxy answering 403/407/500/502 with generated hop-by-hop headers (fixed names, Connection-nominated extension names in drawn case and spacing; a 407 always carries Proxy-Authenticate) and end-to-end headers: the client must see the status, every end-to-end header and no hop-by-hop header; non-trivial = all",
	Gen: func(t *rapid.T) ConnectCase {
		c := ConnectCase{
			Status: rapid.SampledFrom([]int{407, 407, 403, 502, 500}).Draw(t, "status"),
			Body:   rapid.IntRange(0, 100).Draw(t, "body"),
			Res:    genHeaders(t, genOpts{wire: true}),
		}
		if c.Status == 407 && len(collect(c.Res, func(s string) string { return s })["Proxy-Authenticate"]) == 0 {
			c.Res = append(c.Res, HL{N: "Proxy-Authenticate", P: " ", V: "Basic realm=\"downstream\""})
		}
		return c
	},
	Run: runConnectRefused, NonTrivial: func(ConnectCase) bool { return true },
	Classes: func(c ConnectCase) []string {
		cl := []string{fmt.Sprintf("status-%d", c.Status)}
		h := collect(c.Res, func(s string) string { return s })
		for _, n := range fixedHop[1:] {
			if len(h[n]) > 0 {
				cl = append(cl, "fixed-hop-header-present")
				break
			}
		}
		if _, _, _, nom := noncanonicalTokens(c.Res); nom {
			cl = append(cl, "res-conn-nominates-present-ext")
		}
		return cl
	},
	Gates:   map[string]float64{"fixed-hop-header-present": 0.5},
	Journal: true,
}

func TestConnectRefused(t *testing.T) {
	n := kit.N(24, 60)
	before := atomic.LoadInt64(&wireIncomplete)
	propConnectRefused.Check(t, n)
	if inc := atomic.LoadInt64(&wireIncomplete) - before; inc*10 > int64(n) {
		t.Fatalf("infrastructure: %d of %d refused-CONNECT cases could not be judged; inconclusive, not a violation", inc, n)
	}
}

var _ = http.StatusOK
