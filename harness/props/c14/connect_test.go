package c14

import (
	"fmt"
	"net/http"
	"net/url"
	"strings"
	"sync/atomic"
	"testing"

	"pgregory.net/rapid"

	"verifharness/internal/kit"
)

// ConnectCase: a client CONNECT through a martian.Proxy (spec stack as request
// and response modifier, no MITM) whose downstream proxy refuses the tunnel
// with a non-2xx answer carrying hop-by-hop headers. The refusal is a response
// passing through the stack: none of them may reach the client.
type ConnectCase struct {
	Status int  `json:"status"`
	Res    []HL `json:"res"`
	Body   int  `json:"body"`
}

func runConnectRefused(c ConnectCase) kit.Verdict {
	wait := 3 * kit.T()
	incomplete := func(what string) kit.Verdict {
		atomic.AddInt64(&wireIncomplete, 1)
		kit.Inconclusive("connect-downstream")
		kit.Note("connect-downstream", "a case could not be judged ("+what+"); counted inconclusive")
		return nil
	}
	id := func(s string) string { return s }
	wc := Case{Status: c.Status, Res: c.Res, Body: c.Body}
	answer := wireResponse(wc, id)
	if c.Status/100 == 2 {
		// an accepted CONNECT has no body and announces no framing: what follows
		// the header block is tunnel data
		var sb strings.Builder
		fmt.Fprintf(&sb, "HTTP/1.1 %d %s\r\n", c.Status, http.StatusText(c.Status))
		for _, l := range c.Res {
			fmt.Fprintf(&sb, "%s:%s%s\r\n", l.N, l.P, l.V)
		}
		sb.WriteString("\r\n")
		answer = []byte(sb.String())
	}
	down, err := newOrigin(wait, answer) // plays the downstream proxy
	if err != nil {
		return incomplete("no port")
	}
	defer down.close()
	p, err := startProxy("martian", "", &url.URL{Scheme: "http", Host: down.ln.Addr().String()}, wait)
	if err != nil {
		return incomplete("no port")
	}
	defer p.close()

	head, err := exchange(p.ln.Addr().String(), []byte("CONNECT example.com:443 HTTP/1.1\r\nHost: example.com:443\r\n\r\n"), wait)
	if err != nil {
		if isTimeout(err) {
			return incomplete("wait expired")
		}
		return kit.Failf("C14/wire/connect-refused/no-answer", "no response head for a CONNECT refused downstream with %d: %v", c.Status, err)
	}
	var v kit.Verdict
	start, rh := parseHead(head)
	if got := down.received(); len(got) != 1 || !strings.HasPrefix(got[0], "CONNECT ") {
		v.Addf("C14/wire/connect-refused/not-forwarded", "the downstream proxy received %d header blocks", len(got))
		return v
	}
	if statusOf(start) != c.Status {
		v.Addf("C14/stack/clean-response/unexpected-error", "downstream proxy answered CONNECT with %d, client got %q (Warning %q)", c.Status, start, rh["Warning"])
	}
	rin := collect(c.Res, id)
	checkHeaders("connect-answer", rin, rh, hopSet(rin), nil, mergeSets(notAssertedOnWire, map[string]bool{"Content-Length": true, "Warning": true}), &v)
	return v
}

var propConnectRefused = &kit.Prop[ConnectCase]{
	ID: "C14", Name: "connect-downstream",
	Rule: "raw client CONNECT -> martian.Proxy (stack, SetDownstreamProxy, no MITM) -> raw downstream proxy accepting (200/201/204, no body, tunnel follows) or refusing (403/407/500/502) with generated hop-by-hop headers (fixed names, Connection-nominated extension names in drawn case and spacing; a 407 always carries Proxy-Authenticate) and end-to-end headers: the client must see the status, every end-to-end header and no hop-by-hop header; non-trivial = all",
	Gen: func(t *rapid.T) ConnectCase {
		c := ConnectCase{
			Status: rapid.SampledFrom([]int{200, 200, 200, 201, 204, 407, 407, 403, 502, 500}).Draw(t, "status"),
			Body:   rapid.IntRange(0, 100).Draw(t, "body"),
			Res:    genHeaders(t, genOpts{wire: true}),
		}
		// what a proxy's answer typically carries besides: its own Via chain
		// (several lines, comments), an agent and an id header
		for _, x := range []HL{{N: "Via", P: " ", V: "1.1 downstream-a"}, {N: "via", V: "1.0 cache-b (x, y)"}, {N: "Proxy-Agent", P: " ", V: "down/1.0"}, {N: "X-Request-Id", P: "\t", V: "r-17"}, {N: "x-request-id", P: " ", V: "r-18"}} {
			if rapid.Bool().Draw(t, "proxy_header") {
				c.Res = append(c.Res, x)
			}
		}
		if !valid(Case{Res: c.Res}) {
			t.Fatalf("generator produced a case outside the domain")
		}
		if c.Status == 407 && len(collect(c.Res, func(s string) string { return s })["Proxy-Authenticate"]) == 0 {
			c.Res = append(c.Res, HL{N: "Proxy-Authenticate", P: " ", V: "Basic realm=\"downstream\""})
		}
		return c
	},
	Run: runConnectRefused, NonTrivial: func(ConnectCase) bool { return true },
	Classes: func(c ConnectCase) []string {
		cl := []string{fmt.Sprintf("status-%d", c.Status)}
		if c.Status/100 == 2 {
			cl = append(cl, "accepted")
		} else {
			cl = append(cl, "refused")
		}
		h := collect(c.Res, func(s string) string { return s })
		for _, n := range fixedHop[1:] {
			if len(h[n]) > 0 {
				cl = append(cl, "fixed-hop-header-present")
				break
			}
		}
		if _, _, _, nom := noncanonicalTokens(c.Res); nom {
			cl = append(cl, "res-conn-nominates-present-ext")
		}
		return cl
	},
	Gates:   map[string]float64{"fixed-hop-header-present": 0.5, "accepted": 0.3, "refused": 0.3},
	Journal: true,
}

func TestConnectRefused(t *testing.T) {
	n := kit.N(60, 100)
	before := atomic.LoadInt64(&wireIncomplete)
	propConnectRefused.Check(t, n)
	if inc := atomic.LoadInt64(&wireIncomplete) - before; inc*10 > int64(n) {
		t.Fatalf("infrastructure: %d of %d refused-CONNECT cases could not be judged; inconclusive, not a violation", inc, n)
	}
}

// ConnectLoopCase: a blind (non-MITM) CONNECT whose Via does or does not name
// this proxy instance. "A request whose Via already names this proxy instance
// is never sent upstream and is answered 400": no connection to the target may
// be opened for it.
type ConnectLoopCase struct {
	Via  []string `json:"via"` // Via lines, {self} = this instance's pseudonym
	Self bool     `json:"self"`
}

func runConnectLoop(c ConnectLoopCase) kit.Verdict {
	wait := 3 * kit.T()
	incomplete := func(what string) kit.Verdict {
		atomic.AddInt64(&wireIncomplete, 1)
		kit.Inconclusive("connect-loop")
		kit.Note("connect-loop", "a case could not be judged ("+what+"); counted inconclusive")
		return nil
	}
	o, err := newOrigin(wait, []byte("HTTP/1.1 200 OK\r\nContent-Length: 0\r\n\r\n"))
	if err != nil {
		return incomplete("no port")
	}
	defer o.close()
	p, err := startProxy("martian", o.ln.Addr().String(), nil, wait)
	if err != nil {
		return incomplete("no port")
	}
	defer p.close()
	addr := p.ln.Addr().String()
	if _, err := exchange(addr, []byte("GET http://probe.test/ HTTP/1.1\r\nHost: probe.test\r\nConnection: close\r\n\r\n"), wait); err != nil {
		if isTimeout(err) {
			return incomplete("probe wait expired")
		}
		return kit.Failf("C14/wire/probe/no-answer", "probe request through the proxy failed: %v", err)
	}
	got := o.received()
	if len(got) != 1 {
		return kit.Failf("C14/wire/probe/not-forwarded", "origin received %d requests for the probe", len(got))
	}
	_, ph := parseHead(got[0])
	pv := ph["Via"]
	if len(pv) != 1 || !strings.HasPrefix(pv[0], "1.1 martian-") {
		return kit.Failf("C14/via/none/wrong-members", "probe reached the origin with Via lines %q", pv)
	}
	self := pv[0][4:]
	before := o.accepted()

	var sb strings.Builder
	sb.WriteString("CONNECT example.com:443 HTTP/1.1\r\nHost: example.com:443\r\n")
	var lines []string
	for _, l := range c.Via {
		l = strings.ReplaceAll(l, "{self}", self)
		lines = append(lines, l)
		fmt.Fprintf(&sb, "Via: %s\r\n", l)
	}
	sb.WriteString("\r\n")
	head, err := exchange(addr, []byte(sb.String()), wait)
	if err != nil {
		if isTimeout(err) {
			return incomplete("CONNECT wait expired")
		}
		return kit.Failf("C14/wire/connect/no-answer", "no response head for CONNECT: %v", err)
	}
	start, _ := parseHead(head)
	status := statusOf(start)
	var v kit.Verdict
	if c.Self {
		if n := o.accepted() - before; n != 0 {
			v.Addf("C14/loop/connect-self-in-via/upstream-contacted", "CONNECT with Via lines %q naming this instance (%s) was answered %q, but %d connection(s) to the target were opened", lines, self, start, n)
		}
		if status != 400 {
			v.Addf("C14/loop/connect-self-in-via/not-answered-400", "CONNECT with Via lines %q naming this instance (%s) was answered %q, want 400", lines, self, start)
		}
		return v
	}
	if status != 200 || !kit.Eventually(kit.T(), func() bool { return o.accepted() == before+1 }) {
		v.Addf("C14/loop/connect-no-self-entry/false-loop", "CONNECT with Via lines %q (not naming %s) was answered %q and %d connection(s) to the target were opened; want 200 and one", lines, self, start, o.accepted()-before)
	}
	return v
}

var propConnectLoop = &kit.Prop[ConnectLoopCase]{
	ID: "C14", Name: "connect-loop",
	Rule: "raw client CONNECT (blind tunnel, no MITM) through martian.Proxy with the stack to a raw TCP target that counts accepted connections; Via of 0..2 lines of foreign members, in about half of the cases with this instance's entry (learnt by a probe) at a drawn position: with it the answer is 400 and no connection to the target is opened, without it 200 and exactly one; non-trivial = all",
	Gen: func(t *rapid.T) ConnectLoopCase {
		var c ConnectLoopCase
		lines := make([][]string, rapid.IntRange(0, 2).Draw(t, "via_lines"))
		for i := range lines {
			for j, k := 0, rapid.IntRange(1, 2).Draw(t, "via_members"); j < k; j++ {
				lines[i] = append(lines[i], viaEntry(t, rapid.SampledFrom(pseudonym).Draw(t, "via_who")))
			}
		}
		if c.Self = rapid.Bool().Draw(t, "self"); c.Self {
			if len(lines) == 0 {
				lines = append(lines, nil)
			}
			li := rapid.IntRange(0, len(lines)-1).Draw(t, "self_line")
			pos := rapid.IntRange(0, len(lines[li])).Draw(t, "self_pos")
			l := append([]string{}, lines[li][:pos]...)
			l = append(l, viaEntry(t, "{self}"))
			lines[li] = append(l, lines[li][pos:]...)
		}
		for _, l := range lines {
			c.Via = append(c.Via, strings.Join(l, ", "))
		}
		return c
	},
	Run: runConnectLoop, NonTrivial: func(ConnectLoopCase) bool { return true },
	Classes: func(c ConnectLoopCase) []string {
		if c.Self {
			return []string{"via-self"}
		}
		return []string{"no-self-entry"}
	},
	Journal: true,
}

func TestConnectLoop(t *testing.T) {
	n := kit.N(16, 60)
	before := atomic.LoadInt64(&wireIncomplete)
	propConnectLoop.Check(t, n)
	if inc := atomic.LoadInt64(&wireIncomplete) - before; inc*10 > int64(n) {
		t.Fatalf("infrastructure: %d of %d CONNECT-loop cases could not be judged; inconclusive, not a violation", inc, n)
	}
}

var _ = http.StatusOK
