package c14

import (
	"net/http"
	"net/url"
	"strings"
	"testing"

	"github.com/google/martian/v3/header"
	"pgregory.net/rapid"

	"verifharness/internal/kit"
)

// FramingCase feeds header lines to header.NewBadFramingModifier on its own:
// inside the spec stack hop-by-hop removal deletes Transfer-Encoding before
// the framing check (open finding te-not-chunked/unflagged-by-stack), so the
// Transfer-Encoding half of "a request with conflicting Content-Length values
// or a Transfer-Encoding not ending in chunked is flagged as an error" can only
// be decided on the member the stack installs.
type FramingCase struct {
	Req []HL `json:"req"`
}

type framingModel struct {
	in         http.Header
	clConflict bool
	clValue    string
	tePresent  bool
	teBad      bool
	teShape    string
	teCase     string // "-odd-case" when the final coding is chunked in another spelling
}

// codingsOf flattens Transfer-Encoding lines into the ordered list of codings.
func modelFraming(c FramingCase) framingModel {
	id := func(s string) string { return s }
	m := framingModel{in: collect(c.Req, id)}
	for i, v := range flatten(m.in["Content-Length"]) {
		if i == 0 {
			m.clValue = v
		} else if v != m.clValue {
			m.clConflict = true
		}
	}
	te := m.in["Transfer-Encoding"]
	m.tePresent = len(te) > 0
	if m.tePresent {
		all := flatten(te)
		// transfer-coding names are case-insensitive (RFC 7230 section 4)
		m.teBad = len(all) == 0 || !strings.EqualFold(all[len(all)-1], "chunked")
		m.teShape = "single-line"
		if len(te) > 1 {
			m.teShape = "multi-line"
		}
		if !m.teBad && all[len(all)-1] != "chunked" {
			m.teCase = "-odd-case"
		}
	}
	return m
}

func runFraming(c FramingCase) kit.Verdict {
	var v kit.Verdict
	m := modelFraming(c)
	req := &http.Request{
		Method: "POST", URL: &url.URL{Scheme: "http", Host: "example.com", Path: "/"},
		Proto: "HTTP/1.1", ProtoMajor: 1, ProtoMinor: 1,
		Header: http.Header{}, Host: "example.com", RemoteAddr: "10.0.0.1:5000", Body: http.NoBody,
	}
	for _, l := range c.Req {
		req.Header.Add(l.N, l.V)
	}
	err := header.NewBadFramingModifier().ModifyRequest(req)

	switch {
	case m.clConflict:
		if err == nil {
			v.Addf("C14/framing-modifier/content-length-conflict/unflagged", "Content-Length lines %q conflict but the framing modifier returned nil", m.in["Content-Length"])
		}
		return v
	case m.teBad:
		if err == nil {
			v.Addf("C14/framing-modifier/te-"+m.teShape+"-not-ending-in-chunked/unflagged", "Transfer-Encoding lines %q: the final coding of the message is not chunked, but the framing modifier returned nil; forwarded headers: Transfer-Encoding %q, Content-Length %q", m.in["Transfer-Encoding"], req.Header["Transfer-Encoding"], req.Header["Content-Length"])
		}
		return v
	}
	if err != nil {
		shape := "no-transfer-encoding"
		if m.tePresent {
			shape = "te-" + m.teShape + "-ending-in-chunked" + m.teCase
		}
		v.Addf("C14/framing-modifier/"+shape+"/false-error", "Transfer-Encoding lines %q (final coding chunked), Content-Length lines %q (no conflict): the framing modifier returned %v", m.in["Transfer-Encoding"], m.in["Content-Length"], err)
		return v
	}
	// accepted: what is forwarded must be unambiguous - never both framings
	cl := req.Header["Content-Length"]
	switch {
	case m.tePresent:
		if len(cl) > 0 {
			v.Addf("C14/framing-modifier/te-"+m.teShape+"-ending-in-chunked"+m.teCase+"/content-length-kept", "accepted request carries both Transfer-Encoding %q and Content-Length %q", req.Header["Transfer-Encoding"], cl)
		}
		if !equalStrings(req.Header["Transfer-Encoding"], m.in["Transfer-Encoding"]) {
			v.Addf("C14/framing-modifier/te-"+m.teShape+"-ending-in-chunked/transfer-encoding-changed", "Transfer-Encoding %q became %q", m.in["Transfer-Encoding"], req.Header["Transfer-Encoding"])
		}
	case len(m.in["Content-Length"]) > 0:
		if !equalStrings(cl, m.in["Content-Length"]) && !equalStrings(cl, []string{m.clValue}) {
			v.Addf("C14/framing-modifier/content-length-equal/changed", "Content-Length lines %q (all equal) became %q", m.in["Content-Length"], cl)
		}
	case len(cl) > 0:
		v.Addf("C14/framing-modifier/no-framing-headers/header-added", "Content-Length %q appeared", cl)
	}
	managed := map[string]bool{"Content-Length": true, "Transfer-Encoding": true}
	checkHeaders("framing-modifier-request", m.in, req.Header, map[string]bool{}, managed, nil, &v)
	return v
}

func endsChunked(line string) bool {
	f := flatten([]string{line})
	return len(f) > 0 && strings.EqualFold(f[len(f)-1], "chunked")
}

func framingClasses(c FramingCase) []string {
	m := modelFraming(c)
	var cl []string
	add := func(cond bool, s string) {
		if cond {
			cl = append(cl, s)
		}
	}
	te := m.in["Transfer-Encoding"]
	all := flatten(te)
	n := 0
	for i, x := range all {
		if strings.EqualFold(x, "chunked") {
			n++
			add(i == 0 && len(all) > 1 && !strings.EqualFold(all[len(all)-1], "chunked"), "te-chunked-first-not-last")
			add(i > 0 && i < len(all)-1, "te-chunked-middle")
		}
	}
	add(m.tePresent, "te-present")
	add(len(te) > 1, "te-multi-line")
	add(n > 1, "te-chunked-repeated")
	add(m.tePresent && n == 0, "te-without-chunked")
	add(m.tePresent && !m.teBad, "te-ending-in-chunked")
	add(m.teBad, "te-not-ending-in-chunked")
	add(m.teCase != "", "te-ending-in-chunked-odd-case")
	add(len(te) > 1 && endsChunked(te[0]) != endsChunked(te[len(te)-1]), "te-first-and-last-line-disagree")
	add(len(m.in["Content-Length"]) > 0, "cl-present")
	add(len(m.in["Content-Length"]) > 1, "cl-multi-line")
	add(m.clConflict, "cl-conflict")
	add(m.tePresent && len(m.in["Content-Length"]) > 0, "both-framings")
	return cl
}

func framingNontrivial(c FramingCase) bool {
	m := modelFraming(c)
	return len(m.in["Transfer-Encoding"]) > 1 || len(flatten(m.in["Transfer-Encoding"])) > 1 || m.clConflict || (m.tePresent && len(m.in["Content-Length"]) > 0)
}

func genFramingCase(t *rapid.T) FramingCase {
	var c FramingCase
	add := func(n, v string) {
		n, _ = recase(t, n)
		c.Req = append(c.Req, HL{N: n, V: v})
	}
	a := rapid.SampledFrom([]string{"0", "5", "42", "1024"}).Draw(t, "cl")
	for i, k := 0, rapid.IntRange(0, 2).Draw(t, "cl_lines"); i < k; i++ {
		v := a
		switch rapid.IntRange(0, 5).Draw(t, "cl_variant") {
		case 0:
			v = a + "0" // conflicting
		case 1:
			v = a + rapid.SampledFrom([]string{", ", ",", " , "}).Draw(t, "cl_sep") + a
		case 2:
			v = a + ", " + a + "1" // conflicting inside a list
		}
		add("Content-Length", v)
	}
	if rapid.IntRange(0, 5).Draw(t, "te_present") > 0 {
		c.Req = append(c.Req, genTE(t)...)
	}
	for i, k := 0, rapid.IntRange(0, 3).Draw(t, "e2e"); i < k; i++ {
		add(rapid.SampledFrom(e2eReq).Draw(t, "e2e_name"), value(t))
	}
	return c
}

var propFraming = &kit.Prop[FramingCase]{
	ID: "C14", Name: "framing-modifier",
	Rule: "header.NewBadFramingModifier on its own (the stack's framing member; inside the stack Transfer-Encoding is stripped first): 0..2 Content-Length lines (single, comma lists, conflicting) x Transfer-Encoding as 1..3 lines of 1..3 codings with chunked first-not-last / in the middle / last / repeated / absent, plus end-to-end headers; error iff lengths conflict or the final coding of the last line is not chunked; an accepted request never carries both framings; non-trivial = several Transfer-Encoding lines or codings, or conflicting lengths, or both framings present",
	Gen:  genFramingCase, Run: runFraming, NonTrivial: framingNontrivial, Classes: framingClasses,
	Gates: map[string]float64{
		"nontrivial": 0.5, "te-multi-line": 0.3, "te-first-and-last-line-disagree": 0.1, "te-chunked-first-not-last": 0.05,
		"te-chunked-middle": 0.05, "te-chunked-repeated": 0.1, "te-ending-in-chunked": 0.25, "te-not-ending-in-chunked": 0.1,
		"cl-conflict": 0.1, "both-framings": 0.3, "te-ending-in-chunked-odd-case": 0.08,
	},
}

var propFramingEnum = &kit.Prop[FramingCase]{
	ID: "C14", Name: "framing-modifier-enumerated",
	Rule: "ALL Transfer-Encoding shapes of 1..3 lines x 1..2 codings over {chunked, gzip} (258) x Content-Length in {absent, one line, two equal lines, two conflicting lines}, on the framing modifier alone; non-trivial = all",
	Run:  runFraming, NonTrivial: func(FramingCase) bool { return true }, Classes: framingClasses,
}

func TestFramingModifier(t *testing.T) {
	if kit.Race() {
		t.Skip()
	}
	propFraming.Check(t, kit.N(2000, 10000))
}

func TestFramingModifierEnumerated(t *testing.T) {
	if kit.Race() {
		t.Skip()
	}
	var lineOpts []string
	for _, a := range []string{"chunked", "gzip"} {
		lineOpts = append(lineOpts, a)
		for _, b := range []string{"chunked", "gzip"} {
			lineOpts = append(lineOpts, a+", "+b)
		}
	}
	cls := [][]string{nil, {"5"}, {"5", "5"}, {"5", "50"}}
	propFramingEnum.Enumerate(t, func(yield func(FramingCase) bool) {
		var rec func(prefix []string, depth int) bool
		emit := func(te []string) bool {
			for _, cl := range cls {
				var c FramingCase
				for _, v := range cl {
					c.Req = append(c.Req, HL{N: "Content-Length", V: v})
				}
				for _, v := range te {
					c.Req = append(c.Req, HL{N: "Transfer-Encoding", V: v})
				}
				c.Req = append(c.Req, HL{N: "X-Keep", V: strings.Join(te, "|")})
				if !yield(c) {
					return false
				}
			}
			return true
		}
		rec = func(prefix []string, depth int) bool {
			if len(prefix) > 0 && !emit(prefix) {
				return false
			}
			if depth == 3 {
				return true
			}
			for _, o := range lineOpts {
				if !rec(append(append([]string{}, prefix...), o), depth+1) {
					return false
				}
			}
			return true
		}
		rec(nil, 0)
	})
}
