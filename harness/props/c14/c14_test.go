// Package c14 decides property C14: the spec-compliance stack
// (httpspec.NewStack) strips hop-by-hop headers, stamps Via, sets
// X-Forwarded-*, stops loops and flags bad framing.
//
// A Case is a list of header lines for a request and for a response plus the
// request's addressing. The oracle is a reference model written from the
// property statement and DESIGN Appendix A.3; it is evaluated on the same
// lines that are fed to the stack (in-process) or written to a socket
// (through a real martian.Proxy, see wire_test.go).
package c14

import (
	"errors"
	"fmt"
	"net"
	"net/http"
	"net/textproto"
	"net/url"
	"os"
	"sort"
	"strings"
	"testing"

	"github.com/google/martian/v3"
	"github.com/google/martian/v3/httpspec"
	mlog "github.com/google/martian/v3/log"
	"github.com/google/martian/v3/proxyutil"
	"pgregory.net/rapid"

	"verifharness/internal/kit"
)

func TestMain(m *testing.M) {
	for _, k := range []string{"HTTP_PROXY", "HTTPS_PROXY", "NO_PROXY", "http_proxy", "https_proxy", "no_proxy", "ALL_PROXY", "all_proxy"} {
		os.Unsetenv(k)
	}
	mlog.SetLevel(mlog.Silent)
	kit.Main(m, "C14")
}

// ---------------------------------------------------------------- case

// HL is one header line: name as written, padding between the colon and the
// value (used on the wire only) and the value. The placeholders {self} and
// {name} in a value stand for this proxy instance's Via pseudonym
// ("<name>-<boundary>", random per stack, learnt with a probe request) and for
// the bare name.
type HL struct {
	N string `json:"n"`
	P string `json:"p,omitempty"`
	V string `json:"v"`
}

// Case is one request/response pair for the stack.
type Case struct {
	Name    string `json:"name"`   // requestedBy given to NewStack
	Proto   string `json:"proto"`  // "1.0" | "1.1" | "2.0"
	Remote  string `json:"remote"` // RemoteAddr of the client
	Scheme  string `json:"scheme"`
	Host    string `json:"host"`     // req.Host
	URLHost string `json:"url_host"` // req.URL.Host
	Path    string `json:"path"`
	Query   string `json:"query,omitempty"`
	// ForceQuery: the request-target ends in a bare "?" (Query empty).
	ForceQuery bool `json:"force_query,omitempty"`
	// UserInfo: credentials in the authority of the request URL ("user:pw").
	UserInfo string `json:"userinfo,omitempty"`
	// UserFail: a modifier of the user group (the stack's inner fifo.Group)
	// returns an error on the request ("req"), the response ("res") or "both".
	UserFail string `json:"user_fail,omitempty"`
	Req      []HL   `json:"req"`
	Res      []HL   `json:"res"`
	Status   int    `json:"status"`
	Body     int    `json:"body,omitempty"` // response body size (wire only)
}

var fixedHop = []string{
	"Connection", "Keep-Alive", "Proxy-Authenticate", "Proxy-Authorization",
	"Proxy-Connection", "Te", "Trailer", "Transfer-Encoding", "Upgrade",
}

// managedReq are the request headers the stack itself maintains; they have
// their own clauses and are excluded from "every other header is untouched".
var managedReq = map[string]bool{
	"Via": true, "X-Forwarded-For": true, "X-Forwarded-Proto": true,
	"X-Forwarded-Host": true, "X-Forwarded-Url": true, "Content-Length": true,
}

// target is the request-target (path and query) exactly as the client sends it.
func (c Case) target() string {
	t := c.Path
	if c.Query != "" || c.ForceQuery {
		t += "?" + c.Query
	}
	return t
}

// originalURL is the URL the client asked for, as it wrote it.
func (c Case) originalURL(scheme string) string {
	u := scheme + "://"
	if c.UserInfo != "" {
		u += c.UserInfo + "@"
	}
	return u + c.URLHost + c.target()
}

func canon(n string) string { return textproto.CanonicalMIMEHeaderKey(n) }

func trimOWS(s string) string { return strings.Trim(s, " \t") }

func isFixed(n string) bool {
	for _, f := range fixedHop {
		if f == n {
			return true
		}
	}
	return false
}

// collect builds the header map a parser hands to the proxy: canonical names,
// values in line order.
func collect(lines []HL, subst func(string) string) http.Header {
	h := http.Header{}
	for _, l := range lines {
		h[canon(l.N)] = append(h[canon(l.N)], subst(l.V))
	}
	return h
}

// hopSet is the reference: the fixed names plus every comma-separated,
// OWS-trimmed, case-insensitive token of every Connection line.
func hopSet(h http.Header) map[string]bool {
	s := map[string]bool{}
	for _, n := range fixedHop {
		s[n] = true
	}
	for _, line := range h["Connection"] {
		for _, tok := range strings.Split(line, ",") {
			if tok = trimOWS(tok); tok != "" {
				s[canon(tok)] = true
			}
		}
	}
	return s
}

// splitList splits one header line into its list elements following the
// grammar of RFC 7230 3.2.6: a comma separates elements only outside a
// comment; comments nest; inside a comment a backslash quotes the next octet
// (so "\(" and "\)" neither open nor close anything). Only Via values carry
// comments here.
func splitList(line string) []string {
	var out []string
	depth, start := 0, 0
	for i := 0; i < len(line); i++ {
		switch c := line[i]; {
		case c == '\\' && depth > 0:
			i++
		case c == '(':
			depth++
		case c == ')' && depth > 0:
			depth--
		case c == ',' && depth == 0:
			out = append(out, line[start:i])
			start = i + 1
		}
	}
	return append(out, line[start:])
}

// stripComments removes the comments of one list element (for looking at its
// protocol and received-by fields).
func stripComments(e string) string {
	var sb strings.Builder
	depth := 0
	for i := 0; i < len(e); i++ {
		switch c := e[i]; {
		case c == '\\' && depth > 0:
			i++
		case c == '(':
			depth++
		case c == ')' && depth > 0:
			depth--
		case depth == 0:
			sb.WriteByte(c)
		}
	}
	return sb.String()
}

// flatten splits header lines into their list members.
func flatten(lines []string) []string {
	var out []string
	for _, l := range lines {
		for _, e := range splitList(l) {
			if e = trimOWS(e); e != "" {
				out = append(out, e)
			}
		}
	}
	return out
}

func equalStrings(a, b []string) bool {
	if len(a) != len(b) {
		return false
	}
	for i := range a {
		if a[i] != b[i] {
			return false
		}
	}
	return true
}

// namesSelf: a Via member whose received-by field (second
// whitespace-separated field) is this instance's pseudonym.
func namesSelf(entry, self string) bool {
	f := strings.FieldsFunc(stripComments(entry), func(r rune) bool { return r == ' ' || r == '\t' })
	return len(f) >= 2 && f[1] == self
}

// valid: a Connection token nominating Content-Length is outside the domain
// (the length must be untouched / checked for conflicts and must go).
// Nominating X-Forwarded-* is inside: the received header is hop-by-hop by
// nomination and must not survive, and the forwarded request still carries
// this proxy's own X-Forwarded-* for the hop. Nominating Via is inside as far
// as the clauses agree: a request whose received Via names this instance is
// stopped whatever its Connection header says (stopping it satisfies every
// clause), and a forwarded one ends with exactly one entry for this proxy;
// whether the received members are kept ("appended after any existing ones")
// or dropped ("named in Connection") is left open - both are accepted.
func valid(c Case) bool {
	id := func(s string) string { return s }
	for _, lines := range [][]HL{c.Req, c.Res} {
		for n := range hopSet(collect(lines, id)) {
			if n == "Content-Length" || n == "Host" {
				return false
			}
		}
	}
	return true
}

// reqModel is what the statement demands for the request of a case.
type reqModel struct {
	in         http.Header
	hop        map[string]bool
	viaPrev    []string // flattened pre-existing Via members
	viaLines   int
	loop       bool // some member names this instance
	loopFirst  bool // ... in the first Via line
	xffPrev    []string
	xffLines   int
	clConflict bool
	clValue    string
	teBad      bool
	// selfInComment: no member names this instance as received-by, but some
	// member's comment carries its pseudonym. The statement only says when a
	// request MUST be refused; whether such a mention "names this instance" is
	// open, so refusing (400, not forwarded) and forwarding are both accepted.
	selfInComment bool
	noHost        bool // the request has no Host (HTTP/1.0 read from a tunnel): the host is the URL's
}

func modelRequest(c Case, subst func(string) string, self string) reqModel {
	m := reqModel{in: collect(c.Req, subst)}
	m.hop = hopSet(m.in)
	m.viaLines = len(m.in["Via"])
	m.viaPrev = flatten(m.in["Via"])
	for i, l := range m.in["Via"] {
		for _, e := range flatten([]string{l}) {
			if !namesSelf(e, self) && strings.Contains(e, self) && !strings.Contains(stripComments(e), self) {
				m.selfInComment = true
			}
			if namesSelf(e, self) {
				m.loop = true
				if i == 0 {
					m.loopFirst = true
				}
			}
		}
	}
	if xff, _ := m.received("X-Forwarded-For"); true {
		m.xffLines = len(xff)
		m.xffPrev = flatten(xff)
	}
	for i, v := range flatten(m.in["Content-Length"]) {
		if i == 0 {
			m.clValue = v
		} else if v != m.clValue {
			m.clConflict = true
		}
	}
	if te := m.in["Transfer-Encoding"]; len(te) > 0 {
		last := strings.Split(te[len(te)-1], ",")
		m.teBad = !strings.EqualFold(trimOWS(last[len(last)-1]), "chunked") // coding names are case-insensitive
	}
	return m
}

// received returns the lines of an X-Forwarded-* header that count as received
// from the previous hop: none when a Connection token nominates the header.
func (m reqModel) received(name string) (lines []string, nominated bool) {
	if m.hop[name] {
		return nil, true
	}
	return m.in[name], false
}

// checkForwarded: X-Forwarded-For = received members + client IP;
// -Proto/-Host/-Url = received lines if any, else derived from the request.
func checkForwarded(m reqModel, out http.Header, where, ip, proto, host, u string, v *kit.Verdict) {
	xff, nominated := m.received("X-Forwarded-For")
	if nominated {
		if got := flatten(out["X-Forwarded-For"]); !equalStrings(got, []string{ip}) {
			v.Addf("C14/x-forwarded-for/connection-nominated/wrong-members", "X-Forwarded-For%s: nominated by Connection lines %q (received %q), want exactly this hop's entry [%q], got %q", where, m.in["Connection"], m.in["X-Forwarded-For"], ip, out["X-Forwarded-For"])
		}
	} else {
		checkChain("x-forwarded-for", "X-Forwarded-For"+where, xff, out["X-Forwarded-For"], ip, v)
	}
	for _, x := range []struct{ name, def string }{{"X-Forwarded-Proto", proto}, {"X-Forwarded-Host", host}, {"X-Forwarded-Url", u}} {
		want, nominated := m.received(x.name)
		shape := "preexisting"
		switch {
		case nominated:
			want, shape = []string{x.def}, "connection-nominated"
		case len(want) == 0:
			want, shape = []string{x.def}, "absent"
		}
		if x.name == "X-Forwarded-Host" && m.noHost && shape != "preexisting" {
			shape += "-request-without-host"
		}
		if !equalStrings(want, out[x.name]) {
			v.Addf("C14/forwarded/"+strings.ToLower(x.name)+"-"+shape+"/wrong-value", "%s%s: input %q (Connection lines %q), want %q, got %q", x.name, where, m.in[x.name], m.in["Connection"], want, out[x.name])
		}
	}
}

func clientIP(remote string) string {
	if h, _, err := net.SplitHostPort(remote); err == nil {
		return h
	}
	return remote
}

// checkHeaders: no hop-by-hop name survives, every other (unmanaged) header is
// untouched, nothing is invented.
func checkHeaders(side string, in, out http.Header, hop, managed, tolerated map[string]bool, v *kit.Verdict) {
	names := make([]string, 0, len(in))
	for n := range in {
		names = append(names, n)
	}
	sort.Strings(names)
	for _, n := range names {
		switch {
		case hop[n] && managed[n]:
			// nominated X-Forwarded-*: the received value must go and this hop's own
			// value must be there - decided by checkForwarded
		case hop[n]:
			if tolerated[n] {
				continue
			}
			if _, ok := out[n]; ok {
				kind := "connection-nominated"
				if isFixed(n) {
					kind = "fixed-name"
				}
				v.Addf("C14/hop-by-hop/"+side+"-"+kind+"/survived", "%s: hop-by-hop header %q (Connection lines %q) is still present with %q", side, n, in["Connection"], out[n])
			}
		case managed[n]:
		default:
			if !equalStrings(in[n], out[n]) {
				v.Addf("C14/end-to-end/"+side+"/header-changed", "%s: end-to-end header %q was %q, now %q (Connection lines %q)", side, n, in[n], out[n], in["Connection"])
			}
		}
	}
	var extra []string
	for n := range out {
		if _, ok := in[n]; !ok && !managed[n] && !tolerated[n] {
			extra = append(extra, n)
		}
	}
	sort.Strings(extra)
	for _, n := range extra {
		v.Addf("C14/end-to-end/"+side+"/header-added", "%s: header %q = %q appeared, the input does not have it", side, n, out[n])
	}
}

// checkChain compares a flattened list header (Via, X-Forwarded-For) with
// previous members + one appended member. The known "only the first line is
// read" defect is recognised by its exact outcome and gets its own signature.
func checkChain(clause, what string, inLines, out []string, appended string, v *kit.Verdict) {
	want := append(flatten(inLines), appended)
	got := flatten(out)
	if equalStrings(want, got) {
		return
	}
	shape := "none"
	switch {
	case len(inLines) == 1:
		shape = "single-line"
	case len(inLines) > 1:
		shape = "multi-line"
	}
	class := "wrong-members"
	if len(inLines) > 1 && equalStrings(got, append(flatten(inLines[:1]), appended)) {
		class = "later-lines-dropped"
	}
	v.Addf("C14/"+clause+"/"+shape+"/"+class, "%s: input lines %q, want members %q, got %q", what, inLines, want, got)
}

// checkVia: the forwarded request's Via = received members + exactly one entry
// for this proxy. When a Connection token nominates Via the received members
// may also be gone (see valid).
func checkVia(m reqModel, out []string, stamp, self, where string, v *kit.Verdict) {
	if !m.hop["Via"] {
		checkChain("via", "Via"+where, m.in["Via"], out, stamp, v)
		return
	}
	got := flatten(out)
	own := 0
	for _, e := range got {
		if namesSelf(e, self) {
			own++
		}
	}
	ok := len(got) > 0 && got[len(got)-1] == stamp && own == 1 &&
		(len(got) == 1 || equalStrings(got[:len(got)-1], m.viaPrev))
	if !ok {
		v.Addf("C14/via/connection-nominated/wrong-members", "Via%s nominated by Connection lines %q: received members %q, got %q; want exactly one entry %q for this proxy, last, after all received members or alone", where, m.in["Connection"], m.viaPrev, got, stamp)
	}
}

func loopShape(m reqModel) string {
	switch {
	case m.hop["Via"]:
		return "via-nominated-by-connection"
	case m.clConflict && !m.loopFirst:
		return "framing-error-and-self-in-later-via-line"
	case m.clConflict:
		return "framing-error"
	case !m.loopFirst:
		return "self-in-later-via-line"
	}
	return "self-in-first-via-line"
}

// ---------------------------------------------------------------- in-process run

func protoOf(c Case) (string, int, int) {
	var maj, min int
	fmt.Sscanf(c.Proto, "%d.%d", &maj, &min)
	return "HTTP/" + c.Proto, maj, min
}

func newReq(c Case, lines []HL, subst func(string) string) *http.Request {
	proto, maj, min := protoOf(c)
	// the URL as a parser hands it over (http.ReadRequest uses ParseRequestURI)
	u, err := url.ParseRequestURI(c.originalURL(c.Scheme))
	if err != nil {
		panic(fmt.Sprintf("case URL %q does not parse: %v", c.originalURL(c.Scheme), err))
	}
	req := &http.Request{
		Method: "GET",
		URL:    u,
		Proto:  proto, ProtoMajor: maj, ProtoMinor: min,
		Header: http.Header{}, Host: c.Host, RemoteAddr: c.Remote, Body: http.NoBody,
	}
	for _, l := range lines {
		req.Header.Add(l.N, subst(l.V)) // canonicalises the name like the parser does
	}
	return req
}

func substFor(name, self string) func(string) string {
	r := strings.NewReplacer("{self}", self, "{name}", name)
	return r.Replace
}

func runInproc(c Case) kit.Verdict {
	if !valid(c) {
		return nil // outside the domain (replay of a hand-edited file)
	}
	var v kit.Verdict
	stack, inner := httpspec.NewStack(c.Name)
	userReqFails := c.UserFail == "req" || c.UserFail == "both"
	userResFails := c.UserFail == "res" || c.UserFail == "both"
	armed := false // the probe must pass undisturbed
	if userReqFails {
		inner.AddRequestModifier(martian.RequestModifierFunc(func(*http.Request) error {
			if armed {
				return errors.New("user request modifier failed")
			}
			return nil
		}))
	}
	if userResFails {
		inner.AddResponseModifier(martian.ResponseModifierFunc(func(*http.Response) error { return errors.New("user response modifier failed") }))
	}

	// learn this instance's pseudonym
	probe, _ := http.NewRequest("GET", "http://probe.test/", nil)
	probe.RemoteAddr = "192.0.2.1:1"
	_, rmProbe, err := martian.TestContext(probe, nil, nil)
	if err != nil {
		panic(err)
	}
	perr := stack.ModifyRequest(probe)
	rmProbe()
	pv := probe.Header["Via"]
	if perr != nil || len(pv) != 1 || !strings.HasPrefix(pv[0], "1.1 "+c.Name+"-") || len(pv[0]) <= len("1.1 "+c.Name+"-") || strings.ContainsAny(pv[0][4:], " \t,") {
		return kit.Failf("C14/via/none/wrong-members", "probe request without Via: error %v, Via lines %q, want one entry \"1.1 %s-<boundary>\"", perr, pv, c.Name)
	}
	self := pv[0][4:]
	subst := substFor(c.Name, self)

	// another instance of the same name must be told apart ("this proxy instance")
	other, _ := httpspec.NewStack(c.Name)
	if peer, err := probeStack(other, c.Name); err == nil {
		distinctPseudonyms([]string{self, peer}, &v)
	}

	m := modelRequest(c, subst, self)
	m.noHost = c.Host == ""
	req := newReq(c, c.Req, subst)
	ctx, remove, err := martian.TestContext(req, nil, nil)
	if err != nil {
		panic(err)
	}
	defer remove()

	armed = true
	rerr := stack.ModifyRequest(req)
	skip := ctx.SkippingRoundTrip()
	if !m.loop && m.selfInComment && rerr != nil && skip {
		// don't-care: the stack chose to treat the mention as a loop; from here on
		// the exchange is judged as a refused one (it must then be answered 400)
		m.loop, m.loopFirst = true, true
	}
	loopDetected := m.loop && rerr != nil && skip

	// --- error / loop clauses
	if m.loop && !loopDetected {
		v.Addf("C14/loop/"+loopShape(m)+"/not-detected", "Via lines %q name this instance (%s) but ModifyRequest returned %v, skip-round-trip=%v", m.in["Via"], self, rerr, skip)
	}
	if !m.loop && skip {
		v.Addf("C14/loop/no-self-entry/false-loop", "Via lines %q do not name this instance (%s) but the round trip is skipped (error %v)", m.in["Via"], self, rerr)
		return v // everything else on this request is a consequence
	}
	if m.clConflict && rerr == nil {
		v.Addf("C14/framing/content-length-conflict/unflagged", "Content-Length lines %q conflict but ModifyRequest returned nil", m.in["Content-Length"])
	}
	if m.teBad && !m.clConflict && !loopDetected && !userReqFails && rerr == nil {
		v.Addf("C14/framing/te-not-chunked/unflagged-by-stack", "Transfer-Encoding lines %q do not end in chunked but ModifyRequest returned nil", m.in["Transfer-Encoding"])
	}
	if !m.loop && !m.clConflict && !m.teBad && !userReqFails && rerr != nil {
		v.Addf("C14/stack/clean-request/unexpected-error", "no loop, no framing problem, but ModifyRequest returned %v (Via %q, Content-Length %q, Transfer-Encoding %q)", rerr, m.in["Via"], m.in["Content-Length"], m.in["Transfer-Encoding"])
	}

	// --- header clauses: for every request that is (to be) forwarded
	if !m.loop {
		checkHeaders("request", m.in, req.Header, m.hop, managedReq, nil, &v)

		_, maj, min := protoOf(c)
		stamp := fmt.Sprintf("%d.%d %s", maj, min, self)
		if m.clConflict && equalStrings(flatten(req.Header["Via"]), m.viaPrev) {
			v.Addf("C14/via/framing-error/not-stamped", "request flagged for conflicting Content-Length %q is not marked to skip the round trip, yet carries no Via entry for this proxy: %q", m.in["Content-Length"], req.Header["Via"])
		} else {
			checkVia(m, req.Header["Via"], stamp, self, "", &v)
		}
		host := c.Host
		if host == "" {
			host = c.URLHost // "reflect the original URL"
		}
		checkForwarded(m, req.Header, "", clientIP(c.Remote), c.Scheme, host, c.originalURL(c.Scheme), &v)
		// Content-Length: untouched, or reduced to the one common value
		if cl := m.in["Content-Length"]; len(cl) > 0 && !m.clConflict {
			got := req.Header["Content-Length"]
			// with a Transfer-Encoding present the length is void (RFC 7230 3.3.3) and may be removed
			teVoids := len(m.in["Transfer-Encoding"]) > 0 && len(got) == 0
			if !equalStrings(got, cl) && !equalStrings(got, []string{m.clValue}) && !teVoids {
				v.Addf("C14/end-to-end/request/content-length-changed", "Content-Length lines %q (all equal) became %q", cl, got)
			}
		} else if m.clConflict {
			// flagged; the value is whatever it was
		} else if got, ok := req.Header["Content-Length"]; ok {
			v.Addf("C14/end-to-end/request/header-added", "Content-Length %q appeared", got)
		}
	}

	// --- response
	if m.loop {
		if loopDetected {
			// what martian.Proxy hands to the response modifier after a skipped round trip
			res := proxyutil.NewResponse(200, nil, req)
			err := stack.ModifyResponse(res)
			if userResFails && res.StatusCode != 400 {
				v.Addf("C14/loop/user-response-modifier-error/not-answered-400", "looping request, user group's response modifier returns an error: response status %d (ModifyResponse error %v), want 400", res.StatusCode, err)
			} else if res.StatusCode != 400 || err == nil {
				v.Addf("C14/loop/"+loopShape(m)+"/not-answered-400", "looping request: response status %d, ModifyResponse error %v, want 400 and an error", res.StatusCode, err)
			}
		}
		return v
	}
	rin := collect(c.Res, subst)
	res := &http.Response{
		StatusCode: c.Status, Status: fmt.Sprintf("%d %s", c.Status, http.StatusText(c.Status)),
		Proto: "HTTP/1.1", ProtoMajor: 1, ProtoMinor: 1,
		Header: http.Header{}, Body: http.NoBody, Request: req,
	}
	for _, l := range c.Res {
		res.Header.Add(l.N, subst(l.V))
	}
	err = stack.ModifyResponse(res)
	side := "response"
	if userResFails {
		// the error is the user modifier's own; the response is still sent on
		// (martian.Proxy adds a Warning header) and must be a proper hop
		side = "response-after-user-modifier-error"
		if res.StatusCode != c.Status {
			v.Addf("C14/stack/response-after-user-modifier-error/status-changed", "status %d became %d", c.Status, res.StatusCode)
		}
	} else if err != nil || res.StatusCode != c.Status {
		v.Addf("C14/stack/clean-response/unexpected-error", "response to a non-looping request: ModifyResponse returned %v, status %d (was %d)", err, res.StatusCode, c.Status)
	}
	checkHeaders(side, rin, res.Header, hopSet(rin), nil, nil, &v)
	return v
}

// ---------------------------------------------------------------- generator

var xfNames = []string{"X-Forwarded-For", "X-Forwarded-Proto", "X-Forwarded-Host", "X-Forwarded-Url"}

// nomManaged: stack-maintained headers a Connection token may nominate.
var nomManaged = append(append([]string{}, xfNames...), "Via", "Via")

var (
	extPool   = []string{"X-Ext-A", "Foo", "X-Custom-Hop", "Bar-Baz"}
	e2eReq    = []string{"User-Agent", "Accept", "X-Trace-Id", "Cache-Control", "Cookie", "Authorization", "Content-Type", "Accept-Language", "X-Ext-A", "Foo"}
	e2eRes    = []string{"Content-Type", "Etag", "Set-Cookie", "X-Trace-Id", "Cache-Control", "Vary", "Server", "Location", "X-Ext-A", "Foo"}
	absentTok = []string{"close", "keep-alive", "x-not-there", "upgrade"}
	owsPool   = []string{"", "", " ", " ", "  ", "\t", " \t "}
	pseudonym = []string{"fred", "p.example.net", "proxy:8080", "nowhere.com", "1.2.3.4:3128"}
	viaProto  = []string{"1.0", "1.1", "HTTP/1.1", "2.0", "2", "HTTP/2"}
	fixedVals = map[string][]string{
		"Keep-Alive":          {"timeout=5, max=100", "300"},
		"Proxy-Authenticate":  {"Basic realm=\"x\""},
		"Proxy-Authorization": {"Basic dXNlcjpwdw=="},
		"Proxy-Connection":    {"keep-alive", "close"},
		"Te":                  {"trailers", "trailers, deflate;q=0.5"},
		"Trailer":             {"X-Checksum", "Expires"},
		"Transfer-Encoding":   {"chunked"},
		"Upgrade":             {"websocket", "h2c, HTTP/2.0"},
	}
)

// recase draws a spelling of a header name or token.
func recase(t *rapid.T, s string) (string, bool) {
	switch rapid.IntRange(0, 4).Draw(t, "case") {
	case 0:
		return strings.ToLower(s), strings.ToLower(s) != canon(s)
	case 1:
		return strings.ToUpper(s), strings.ToUpper(s) != canon(s)
	case 2:
		b := []byte(strings.ToLower(s))
		for i := 0; i < len(b); i += 2 {
			if b[i] >= 'a' && b[i] <= 'z' {
				b[i] -= 32
			}
		}
		return string(b), string(b) != canon(s)
	}
	return canon(s), false
}

func ows(t *rapid.T) string { return rapid.SampledFrom(owsPool).Draw(t, "ows") }

func value(t *rapid.T) string {
	s := rapid.StringMatching(`[a-zA-Z0-9][a-zA-Z0-9;=/_.-]{0,11}`).Draw(t, "val")
	if rapid.IntRange(0, 5).Draw(t, "val_list") == 0 {
		s += ", " + rapid.StringMatching(`[a-z0-9]{1,6}`).Draw(t, "val2")
	}
	return s
}

type genOpts struct {
	wire    bool // through a real proxy: keep the message framing valid
	request bool
}

// genHeaders draws hop-by-hop names, Connection lists, extension and
// end-to-end headers for one message.
func genHeaders(t *rapid.T, o genOpts) []HL {
	var out []HL
	add := func(n, v string) {
		n, _ = recase(t, n)
		out = append(out, HL{N: n, P: ows(t), V: v})
	}
	for _, n := range fixedHop[1:] {
		if o.request && n == "Transfer-Encoding" {
			continue // drawn with the framing combinations
		}
		if o.wire && (n == "Transfer-Encoding" || n == "Trailer") {
			continue // would change the framing on the wire; not asserted there
		}
		if rapid.IntRange(0, 2).Draw(t, "fixed_present") == 0 {
			add(n, rapid.SampledFrom(fixedVals[n]).Draw(t, "fixed_val"))
		}
	}
	for i, n := 0, rapid.IntRange(0, 3).Draw(t, "conn_lines"); i < n; i++ {
		var toks []string
		for j, k := 0, rapid.IntRange(0, 4).Draw(t, "conn_tokens"); j < k; j++ {
			var tok string
			switch rapid.IntRange(0, 11).Draw(t, "tok_kind") {
			case 0, 1, 2:
				tok = rapid.SampledFrom(fixedHop[1:]).Draw(t, "tok_fixed")
				if o.wire && (tok == "Transfer-Encoding" || tok == "Trailer") {
					tok = "Keep-Alive"
				}
			case 3, 4, 5, 6:
				tok = rapid.SampledFrom(extPool).Draw(t, "tok_ext")
			case 7, 8:
				tok = rapid.SampledFrom(absentTok).Draw(t, "tok_absent")
				if o.wire && !o.request && tok == "close" {
					// net/http's response reader deletes the whole Connection header when it
					// holds "close": the stack never sees the other tokens of such a response
					tok = "keep-alive"
				}
			case 9, 10:
				tok = rapid.SampledFrom(nomManaged).Draw(t, "tok_xf")
			default:
				tok = ""
			}
			tok, _ = recase(t, tok)
			toks = append(toks, ows(t)+tok+ows(t))
		}
		add("Connection", trimOWS(strings.Join(toks, ",")))
	}
	for _, n := range extPool {
		for i, k := 0, rapid.IntRange(0, 3).Draw(t, "ext_lines"); i < k && i < 2; i++ {
			add(n, value(t))
		}
	}
	pool := e2eRes
	if o.request {
		pool = e2eReq
		if o.wire {
			pool = e2eReq[1:] // net/http's transport writes only the first User-Agent line: not the stack's doing
		}
	}
	for i, k := 0, rapid.IntRange(0, 6).Draw(t, "e2e"); i < k; i++ {
		add(rapid.SampledFrom(pool).Draw(t, "e2e_name"), value(t))
	}
	return out
}

func viaEntry(t *rapid.T, who string) string {
	e := rapid.SampledFrom(viaProto).Draw(t, "via_proto") + rapid.SampledFrom([]string{" ", " ", "  ", "\t"}).Draw(t, "via_sp") + who
	if rapid.IntRange(0, 2).Draw(t, "via_comment") == 0 {
		e += " " + genComment(t, 0)
	}
	return e
}

// genComment draws a comment of the RFC 7230 3.2.6 grammar: ctext words,
// commas, quoted-pairs of parentheses and backslash, nested comments.
// Parentheses are always balanced unless quoted.
func genComment(t *rapid.T, depth int) string {
	var parts []string
	for i, n := 0, rapid.IntRange(1, 3).Draw(t, "comment_parts"); i < n; i++ {
		switch k := rapid.IntRange(0, 9).Draw(t, "comment_part"); {
		case k <= 3:
			parts = append(parts, rapid.SampledFrom([]string{"squid/3.5", "Apache/1.1", "pool a", "x y", "cache-7"}).Draw(t, "comment_word"))
		case k <= 6:
			parts = append(parts, rapid.SampledFrom([]string{`\(`, `\(`, `\)`, `\\`, `a\(b`, `\(x\)`}).Draw(t, "comment_quoted"))
		case k <= 8 && depth < 2:
			parts = append(parts, genComment(t, depth+1))
		default:
			parts = append(parts, "n")
		}
	}
	sep := rapid.SampledFrom([]string{" ", ", ", ","}).Draw(t, "comment_sep")
	return "(" + strings.Join(parts, sep) + ")"
}

// genVia draws 0..3 Via lines of 0..3 members; optionally places this
// instance ({self}) or a near miss at a drawn position.
func genVia(t *rapid.T) []HL {
	lines := make([][]string, rapid.IntRange(0, 3).Draw(t, "via_lines"))
	for i := range lines {
		k := rapid.IntRange(1, 3).Draw(t, "via_members")
		if rapid.IntRange(0, 11).Draw(t, "via_empty_line") == 0 {
			k = 0
		}
		for j := 0; j < k; j++ {
			lines[i] = append(lines[i], viaEntry(t, rapid.SampledFrom(pseudonym).Draw(t, "via_who")))
		}
	}
	special := ""
	switch rapid.IntRange(0, 9).Draw(t, "via_special") {
	case 0, 1, 2:
		special = viaEntry(t, "{self}")
	case 3, 4:
		switch rapid.IntRange(0, 6).Draw(t, "near_miss") {
		case 6:
			// this proxy mentioned inside a comment, after a comma: not a list element
			special = "1.1 fred (seen, 1.1 {self} earlier)"
		case 0:
			special = viaEntry(t, "{name}-0123456789abcdef0123")
		case 1:
			special = viaEntry(t, "{self}0")
		case 2:
			special = viaEntry(t, "x{self}")
		case 3:
			special = viaEntry(t, "{name}")
		case 4:
			special = "1.1 fred ({self})"
		default:
			special = viaEntry(t, "{name}-")
		}
	}
	if special != "" {
		if len(lines) == 0 {
			lines = append(lines, nil)
		}
		li := rapid.IntRange(0, len(lines)-1).Draw(t, "special_line")
		pos := rapid.IntRange(0, len(lines[li])).Draw(t, "special_pos")
		l := append([]string{}, lines[li][:pos]...)
		l = append(l, special)
		lines[li] = append(l, lines[li][pos:]...)
	}
	var out []HL
	for _, l := range lines {
		sep := rapid.SampledFrom([]string{", ", ",", " , ", ",\t"}).Draw(t, "via_sep")
		n, _ := recase(t, "Via")
		out = append(out, HL{N: n, P: ows(t), V: strings.Join(l, sep)})
	}
	return out
}

func genForwarded(t *rapid.T) []HL {
	var out []HL
	add := func(n, v string) {
		n, _ = recase(t, n)
		out = append(out, HL{N: n, P: ows(t), V: v})
	}
	ips := []string{"10.0.0.1", "192.168.7.9", "2001:db8::7", "203.0.113.5", "unknown"}
	for i, k := 0, rapid.IntRange(0, 3).Draw(t, "xff_lines"); i < k && i < 2; i++ {
		if rapid.IntRange(0, 11).Draw(t, "xff_empty_line") == 0 {
			add("X-Forwarded-For", "")
			continue
		}
		v := rapid.SampledFrom(ips).Draw(t, "xff_ip")
		if rapid.Bool().Draw(t, "xff_two") {
			v += rapid.SampledFrom([]string{", ", ",", " , "}).Draw(t, "xff_sep") + rapid.SampledFrom(ips).Draw(t, "xff_ip2")
		}
		add("X-Forwarded-For", v)
	}
	for _, x := range []struct {
		n    string
		vals []string
	}{
		{"X-Forwarded-Proto", []string{"http", "https", "wss"}},
		{"X-Forwarded-Host", []string{"front.example", "cdn.example:8443"}},
		{"X-Forwarded-Url", []string{"https://front.example/a?b=c", "http://cdn.example:8443/"}},
	} {
		for i, k := 0, rapid.IntRange(0, 4).Draw(t, "xf_lines"); i < k-2; i++ {
			add(x.n, rapid.SampledFrom(x.vals).Draw(t, "xf_val"))
		}
	}
	return out
}

func genFraming(t *rapid.T) []HL {
	var out []HL
	add := func(n, v string) {
		n, _ = recase(t, n)
		out = append(out, HL{N: n, V: v})
	}
	a := fmt.Sprint(rapid.SampledFrom([]int{0, 5, 42, 1024}).Draw(t, "cl"))
	b := a + "0"
	switch rapid.IntRange(0, 11).Draw(t, "cl_mode") {
	case 0, 1:
		add("Content-Length", a)
	case 2:
		add("Content-Length", a)
		add("Content-Length", a)
	case 3:
		add("Content-Length", a+", "+a)
	case 4:
		add("Content-Length", a+" ,"+a)
		add("Content-Length", a)
	case 5:
		add("Content-Length", a)
		add("Content-Length", b)
	case 6:
		add("Content-Length", a+", "+b)
	case 7:
		add("Content-Length", a+","+a)
		add("Content-Length", a+" , "+b)
	}
	if rapid.Bool().Draw(t, "te_present") {
		out = append(out, genTE(t)...)
	}
	return out
}

// genTE draws Transfer-Encoding as 1..3 lines of 1..3 codings each, with
// "chunked" at any position (first-not-last, middle, last, repeated, absent);
// in half of the draws the final coding is forced to "chunked".
func genTE(t *rapid.T) []HL {
	codings := []string{"chunked", "chunked", "chunked", "Chunked", "CHUNKED", "gzip", "gzip", "deflate", "identity", "GZip"}
	lines := make([][]string, rapid.IntRange(1, 3).Draw(t, "te_lines"))
	for i := range lines {
		for j, k := 0, rapid.IntRange(1, 3).Draw(t, "te_codings"); j < k; j++ {
			lines[i] = append(lines[i], rapid.SampledFrom(codings).Draw(t, "te_coding"))
		}
	}
	if rapid.Bool().Draw(t, "te_end_chunked") {
		l := lines[len(lines)-1]
		l[len(l)-1] = rapid.SampledFrom([]string{"chunked", "chunked", "chunked", "Chunked", "CHUNKED"}).Draw(t, "te_final")
	}
	var out []HL
	for _, l := range lines {
		sep := rapid.SampledFrom([]string{", ", ",", " , ", ",  "}).Draw(t, "te_sep")
		n, _ := recase(t, "Transfer-Encoding")
		out = append(out, HL{N: n, V: strings.Join(l, sep)})
	}
	return out
}

// pathPool: plain paths, escapes Go keeps verbatim in RawPath (encoded slash,
// unneeded escapes, lower-case hex), ordinary escapes, sub-delims.
var pathPool = []string{
	"/", "/a/b", "/p/abc.html", "/files/a%2Fb.txt", "/files/a%2fb.txt", "/q/%41bc", "/q/%7Euser", "/x%2D1/y",
	"/sp/a%20b", "/u/%C3%A4", "/u/%c3%a4", "/pkg/@scope%2Fname", "/semi;v=1/a,b", "/a//b/./c", "/star/*'()!",
}

// genTarget draws the request-target and the authority's credentials.
func genTarget(t *rapid.T, c *Case) {
	c.Path = rapid.SampledFrom(pathPool).Draw(t, "path")
	c.Query = rapid.SampledFrom([]string{"", "", "x=1", "a=b&c=d", "q=a%2Fb&r=%41", "k"}).Draw(t, "query")
	c.ForceQuery = c.Query == "" && rapid.IntRange(0, 3).Draw(t, "force_query") == 0
	if rapid.IntRange(0, 4).Draw(t, "userinfo") == 0 {
		c.UserInfo = rapid.SampledFrom([]string{"user:pw", "user", "u%40x:p"}).Draw(t, "userinfo_val")
	}
}

func genAddressing(t *rapid.T, c *Case) {
	c.Name = rapid.SampledFrom([]string{"martian", "martian", "m", "edge-proxy"}).Draw(t, "name")
	c.Proto = rapid.SampledFrom([]string{"1.1", "1.1", "1.0", "2.0"}).Draw(t, "proto")
	c.Remote = rapid.SampledFrom([]string{"10.0.0.1:5000", "127.0.0.1:41234", "[2001:db8::1]:443", "[::1]:8080", "198.51.100.77:1"}).Draw(t, "remote")
	c.Scheme = rapid.SampledFrom([]string{"http", "https"}).Draw(t, "scheme")
	c.URLHost = rapid.SampledFrom([]string{"example.com", "origin.test:8080", "[2001:db8::2]:81"}).Draw(t, "url_host")
	c.Host = c.URLHost
	if rapid.IntRange(0, 2).Draw(t, "host_differs") == 0 {
		c.Host = "virtual.example"
	}
	genTarget(t, c)
	if rapid.IntRange(0, 9).Draw(t, "no_host") == 0 {
		c.Host = "" // an HTTP/1.0 request without Host, addressed by the proxy to the tunnel's host
	}
	c.Status = rapid.SampledFrom([]int{200, 204, 301, 404, 500}).Draw(t, "status")
}

func genCase(t *rapid.T) Case {
	var c Case
	genAddressing(t, &c)
	c.Req = append(c.Req, genHeaders(t, genOpts{request: true})...)
	c.Req = append(c.Req, genVia(t)...)
	c.Req = append(c.Req, genForwarded(t)...)
	c.Req = append(c.Req, genFraming(t)...)
	c.Res = genHeaders(t, genOpts{})
	if rapid.IntRange(0, 3).Draw(t, "res_via") == 0 {
		// a response's own Via / X-Forwarded-For are ordinary end-to-end headers here
		c.Res = append(c.Res, HL{N: "Via", V: "1.1 upstream-cache"}, HL{N: "X-Forwarded-For", V: "10.9.9.9"})
	}
	c.UserFail = rapid.SampledFrom([]string{"", "", "", "", "", "", "res", "res", "req", "both"}).Draw(t, "user_fail")
	if !valid(c) {
		t.Fatalf("generator produced a case outside the domain") // cannot happen: pools do not contain managed names
	}
	return c
}

// ---------------------------------------------------------------- classes

func noncanonicalTokens(lines []HL) (tokens, odd, connLines int, nominatesPresent bool) {
	present := map[string]bool{}
	for _, l := range lines {
		present[canon(l.N)] = true
	}
	for _, l := range lines {
		if canon(l.N) != "Connection" {
			continue
		}
		connLines++
		for _, raw := range strings.Split(l.V, ",") {
			tok := trimOWS(raw)
			if tok == "" {
				continue
			}
			tokens++
			if tok != canon(tok) || raw != tok {
				odd++
			}
			if present[canon(tok)] && !isFixed(canon(tok)) {
				nominatesPresent = true
			}
		}
	}
	return
}

func classes(c Case) []string {
	id := func(s string) string { return strings.NewReplacer("{self}", "\x00SELF", "{name}", c.Name).Replace(s) }
	m := modelRequest(c, id, "\x00SELF")
	var cl []string
	add := func(cond bool, s string) {
		if cond {
			cl = append(cl, s)
		}
	}
	tokens, odd, connLines, nom := noncanonicalTokens(c.Req)
	add(connLines > 1, "conn-multi-line")
	add(tokens >= 2 && odd >= 2, "conn-noncanonical")
	add(nom, "conn-nominates-present-ext")
	_, _, rLines, rNom := noncanonicalTokens(c.Res)
	add(rLines > 0, "res-conn")
	add(rNom, "res-conn-nominates-present-ext")
	add(len(m.viaPrev) > 0, "via-preexisting")
	add(m.viaLines > 1, "via-multi-line")
	add(m.loop, "via-self")
	add(m.loop && !m.loopFirst, "via-self-later-line")
	commentComplex, quotedOpenBeforeSelf, seenQuotedOpen := false, false, false
	for _, e := range m.viaPrev {
		if namesSelf(e, "\x00SELF") && seenQuotedOpen {
			quotedOpenBeforeSelf = true
		}
		if i := strings.IndexByte(e, '('); i >= 0 {
			c := e[i:]
			commentComplex = commentComplex || strings.ContainsAny(c[1:], ",(\\")
			seenQuotedOpen = seenQuotedOpen || strings.Contains(c, `\(`)
		}
	}
	add(!m.loop && m.selfInComment, "via-self-mentioned-in-comment")
	add(commentComplex, "via-comment-with-comma-nesting-or-quoted-pair")
	add(quotedOpenBeforeSelf, "via-quoted-open-paren-before-self")
	nearMiss := false
	for _, e := range m.viaPrev {
		if !namesSelf(e, "\x00SELF") && (strings.Contains(e, "\x00SELF") || strings.Contains(e, " "+c.Name)) {
			nearMiss = true
		}
	}
	add(nearMiss && !m.loop, "via-near-miss")
	nomXF, nomXFPresent := false, false
	for _, n := range xfNames {
		if m.hop[n] {
			nomXF = true
			nomXFPresent = nomXFPresent || len(m.in[n]) > 0
		}
	}
	add(nomXF, "conn-nominates-x-forwarded")
	add(nomXFPresent, "conn-nominates-x-forwarded-present")
	add(len(m.xffPrev) > 0, "xff-preexisting")
	add(m.xffLines > 1, "xff-multi-line")
	add(len(m.in["X-Forwarded-Proto"])+len(m.in["X-Forwarded-Host"])+len(m.in["X-Forwarded-Url"]) > 0, "xf-proto-host-url-present")
	add(len(m.in["X-Forwarded-Proto"]) > 1 || len(m.in["X-Forwarded-Host"]) > 1 || len(m.in["X-Forwarded-Url"]) > 1, "xf-proto-host-url-multi-line")
	add(m.clConflict, "framing-cl-conflict")
	add(!m.clConflict && len(flatten(m.in["Content-Length"])) > 1, "framing-cl-equal-multi")
	add(m.teBad, "framing-te-bad")
	add(len(m.in["Transfer-Encoding"]) > 0 && !m.teBad, "framing-te-ok")
	add(m.loop && m.clConflict, "loop-and-cl-conflict")
	if u, err := url.ParseRequestURI(c.originalURL("http")); err == nil {
		add(u.RawPath != "", "url-raw-path-kept")
	}
	add(c.UserFail == "res" || c.UserFail == "both", "user-response-modifier-fails")
	add(c.UserFail == "req" || c.UserFail == "both", "user-request-modifier-fails")
	add(c.ForceQuery, "url-bare-question-mark")
	add(c.UserInfo != "", "url-userinfo")
	add(strings.HasPrefix(c.Remote, "["), "remote-v6")
	add(c.Host != c.URLHost && c.Host != "", "host-differs-from-url")
	add(c.Host == "", "request-without-host")
	add(m.hop["Via"], "conn-nominates-via")
	add(m.hop["Via"] && m.loop, "conn-nominates-via-with-self")
	add(c.Proto != "1.1", "proto-not-1.1")
	return cl
}

func nontrivial(c Case) bool {
	id := func(s string) string { return s }
	m := modelRequest(c, id, "{self}")
	tokens, odd, _, _ := noncanonicalTokens(c.Req)
	multiFwd := m.xffLines > 1 || len(m.in["X-Forwarded-Proto"]) > 1 || len(m.in["X-Forwarded-Host"]) > 1 || len(m.in["X-Forwarded-Url"]) > 1
	return (tokens >= 2 && odd >= 2) || len(m.viaPrev) > 0 || multiFwd || m.clConflict || m.teBad
}

const ruleText = "header lines for a request and a response: the fixed hop-by-hop names present/absent, 0..3 Connection lines of 0..4 tokens in drawn case and spacing (fixed names, extension names present as headers, X-Forwarded-For/-Proto/-Host/-Url with or without such a header present, absent names, empty tokens), 0..6 end-to-end headers, 0..3 Via lines of 0..3 members with this instance or a near miss at a drawn position, pre-existing X-Forwarded-For/-Proto/-Host/-Url (0..2 lines), v4/v6 RemoteAddr, Content-Length lists (equal/conflicting, comma-joined) and Transfer-Encoding values; compared with a reference model of DESIGN A.3; non-trivial = at least 2 Connection tokens in non-canonical case or spacing, or a pre-existing Via, or multi-line forwarded headers, or a framing conflict"

var propStack = &kit.Prop[Case]{
	ID: "C14", Name: "stack", Rule: "in-process httpspec.NewStack with martian.TestContext; " + ruleText,
	Gen: genCase, Run: runInproc, NonTrivial: nontrivial, Classes: classes,
	Gates: map[string]float64{
		"nontrivial": 0.5, "conn-noncanonical": 0.15, "conn-nominates-present-ext": 0.15, "via-preexisting": 0.4,
		"via-multi-line": 0.2, "via-self": 0.15, "via-self-later-line": 0.03, "via-near-miss": 0.08,
		"xff-multi-line": 0.1, "framing-cl-conflict": 0.1, "framing-te-bad": 0.1, "res-conn-nominates-present-ext": 0.15,
		"remote-v6": 0.2, "host-differs-from-url": 0.2, "request-without-host": 0.05,
		"conn-nominates-via": 0.05, "conn-nominates-via-with-self": 0.015,
		"via-comment-with-comma-nesting-or-quoted-pair": 0.2, "via-quoted-open-paren-before-self": 0.03,
		"conn-nominates-x-forwarded": 0.1, "conn-nominates-x-forwarded-present": 0.05,
		"user-response-modifier-fails": 0.15, "user-request-modifier-fails": 0.1, "url-raw-path-kept": 0.25, "url-bare-question-mark": 0.05, "url-userinfo": 0.1,
	},
}

func TestStack(t *testing.T) {
	if kit.Race() {
		t.Skip("sequential in-process check adds nothing under the race detector")
	}
	propStack.Check(t, kit.N(3000, 20000))
}

// ---------------------------------------------------------------- bounded exhaustive sub-spaces

var propEnum = &kit.Prop[Case]{
	ID: "C14", Name: "enumerated",
	Rule: "ALL of: (a) each fixed, extension or X-Forwarded-* name and Via nominated by a Connection token in 4 spellings x 5x5 surrounding whitespace x 4 positions (alone, first of two, second of two, on a second Connection line), on the request and on the response; (b) Via chains of 1..3 lines x 1..2 foreign members with this instance at every position or absent, x 3 protocol versions x Connection in {absent, Via, keep-alive+vIA}; (c) X-Forwarded-For of 0..3 lines x 1..2 members; non-trivial = all",
	Run:  runInproc, NonTrivial: func(Case) bool { return true }, Classes: classes,
}

func baseCase() Case {
	return Case{Name: "martian", Proto: "1.1", Remote: "10.0.0.1:5000", Scheme: "http", Host: "example.com", URLHost: "example.com", Path: "/", Status: 200}
}

func TestEnumerated(t *testing.T) {
	if kit.Race() {
		t.Skip()
	}
	spell := func(s string, k int) string {
		switch k {
		case 0:
			return strings.ToLower(s)
		case 1:
			return strings.ToUpper(s)
		case 2:
			b := []byte(strings.ToLower(s))
			for i := 1; i < len(b); i += 2 {
				if b[i] >= 'a' && b[i] <= 'z' {
					b[i] -= 32
				}
			}
			return string(b)
		}
		return canon(s)
	}
	ws := []string{"", " ", "  ", "\t", " \t "}
	propEnum.Enumerate(t, func(yield func(Case) bool) {
		// (a) Connection nominations
		names := append(append(append(append([]string{}, fixedHop[1:]...), "X-Ext-A", "Foo"), xfNames...), "Via")
		for _, n := range names {
			for k := 0; k < 4; k++ {
				for _, pre := range ws {
					for _, post := range ws {
						for pos := 0; pos < 4; pos++ {
							tok := pre + spell(n, k) + post
							var conn []HL
							switch pos {
							case 0:
								conn = []HL{{N: "Connection", V: trimOWS(tok)}}
							case 1:
								conn = []HL{{N: "Connection", V: trimOWS(tok + ",close")}}
							case 2:
								conn = []HL{{N: "Connection", V: trimOWS("keep-alive," + tok)}}
							case 3:
								conn = []HL{{N: "Connection", V: "close"}, {N: "connection", V: trimOWS(tok)}}
							}
							val := "v1"
							if n == "Transfer-Encoding" {
								val = "chunked"
							}
							lines := append(conn, HL{N: n, V: val}, HL{N: "X-Keep", V: "k"}, HL{N: "Bar-Baz", V: "stay"})
							c := baseCase()
							c.Req, c.Res = lines, lines
							if !yield(c) {
								return
							}
						}
					}
				}
			}
		}
		// (b) Via chains
		who := []string{"fred", "p.example.net", "proxy:8080", "nowhere.com", "a", "b"}
		for _, proto := range []string{"1.0", "1.1", "2.0"} {
			for nl := 1; nl <= 3; nl++ {
				for shape := 0; shape < 1<<uint(nl); shape++ { // bit i: line i has 2 members
					var lines [][]string
					w := 0
					for i := 0; i < nl; i++ {
						k := 1 + (shape>>uint(i))&1
						var l []string
						for j := 0; j < k; j++ {
							l = append(l, "1.1 "+who[w])
							w++
						}
						lines = append(lines, l)
					}
					for sl := -1; sl < nl; sl++ {
						maxPos := 0
						if sl >= 0 {
							maxPos = len(lines[sl])
						}
						for sp := 0; sp <= maxPos; sp++ {
							for _, conn := range []string{"", "Via", "keep-alive , vIA"} {
								c := baseCase()
								c.Proto = proto
								if conn != "" {
									c.Req = append(c.Req, HL{N: "Connection", V: conn})
								}
								for i, l := range lines {
									m := append([]string{}, l...)
									if i == sl {
										m = append(append(append([]string{}, l[:sp]...), "1.0 {self}"), l[sp:]...)
									}
									c.Req = append(c.Req, HL{N: "Via", V: strings.Join(m, ", ")})
								}
								if !yield(c) {
									return
								}
							}
						}
					}
				}
			}
		}
		// (c) X-Forwarded-For lines
		for nl := 0; nl <= 3; nl++ {
			for shape := 0; shape < 1<<uint(nl); shape++ {
				for _, remote := range []string{"10.0.0.1:5000", "[2001:db8::1]:443"} {
					c := baseCase()
					c.Remote = remote
					for i := 0; i < nl; i++ {
						v := fmt.Sprintf("10.1.%d.1", i)
						if (shape>>uint(i))&1 == 1 {
							v += fmt.Sprintf(", 10.1.%d.2", i)
						}
						c.Req = append(c.Req, HL{N: "X-Forwarded-For", V: v})
					}
					if !yield(c) {
						return
					}
				}
			}
		}
	})
}

func TestReplay(t *testing.T) {
	kit.Replay(t, propStack, propEnum, propWire, propChain, propChainWire, propFraming, propFramingEnum, propMITM, propViaHist, propConnectRefused, propConnectLoop)
}
