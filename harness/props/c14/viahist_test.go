package c14

import (
	"fmt"
	"net/http"
	"net/url"
	"strings"
	"testing"

	"github.com/google/martian/v3"
	"github.com/google/martian/v3/header"
	"github.com/google/martian/v3/proxyutil"
	"pgregory.net/rapid"

	"verifharness/internal/kit"
)

// ViaOp is one step of a history on ONE header.ViaModifier: a request
// (K="Q") of protocol version Proto whose Via is nothing, foreign entries,
// the output of the previous forwarded request ("last", only while it carries
// the current pseudonym) or a synthesised entry naming the current pseudonym
// ("current"); or SetBoundary (K="B"). SetBoundary is an unsynchronised write
// on the unchanged tree, so it is only called between requests.
type ViaOp struct {
	K        string `json:"k"`
	Proto    string `json:"proto,omitempty"`
	Feed     string `json:"feed,omitempty"`
	Boundary string `json:"boundary,omitempty"`
}

type ViaHistCase struct {
	Name string  `json:"name"`
	Ops  []ViaOp `json:"ops"`
}

func runViaHist(c ViaHistCase) kit.Verdict {
	var v kit.Verdict
	vm := header.NewViaModifier(c.Name)
	cur := "" // current pseudonym; learnt from the first stamp, exact after SetBoundary
	era := "initial-boundary"
	var lastVia []string
	lastPseud := "\x00"
	for step, op := range c.Ops {
		if op.K == "B" {
			vm.SetBoundary(op.Boundary)
			cur = c.Name + "-" + op.Boundary
			era = "after-set-boundary"
			continue
		}
		_, maj, min := protoOf(Case{Proto: op.Proto})
		var fed []string
		switch {
		case op.Feed == "foreign":
			fed = []string{"1.1 fred, 1.0 " + c.Name + "-other0000"}
		case op.Feed == "last" && cur != "" && lastPseud == cur:
			fed = append([]string{}, lastVia...)
		case op.Feed == "current" && cur != "":
			fed = []string{"1.0 fred", fmt.Sprintf("%s %s", op.Proto, cur)}
		}
		req := &http.Request{
			Method: "GET", URL: &url.URL{Scheme: "http", Host: "example.com", Path: "/"},
			Proto: "HTTP/" + op.Proto, ProtoMajor: maj, ProtoMinor: min,
			Header: http.Header{}, Host: "example.com", RemoteAddr: "10.0.0.1:5000", Body: http.NoBody,
		}
		for _, l := range fed {
			req.Header.Add("Via", l)
		}
		loop := false
		for _, e := range flatten(fed) {
			loop = loop || (cur != "" && namesSelf(e, cur))
		}
		ctx, remove, err := martian.TestContext(req, nil, nil)
		if err != nil {
			panic(err)
		}
		rerr := vm.ModifyRequest(req)
		skip := ctx.SkippingRoundTrip()
		if loop {
			if rerr == nil || !skip {
				v.Addf("C14/loop/"+era+"-own-entry-fed-back/not-detected", "step %d: Via %q carries this modifier's current entry (%s) but ModifyRequest returned %v, skip-round-trip=%v; Via now %q", step, fed, cur, rerr, skip, req.Header["Via"])
			} else {
				res := proxyutil.NewResponse(200, nil, req)
				if err := vm.ModifyResponse(res); res.StatusCode != 400 || err == nil {
					v.Addf("C14/loop/"+era+"-own-entry-fed-back/not-answered-400", "step %d: looping request: status %d, ModifyResponse error %v", step, res.StatusCode, err)
				}
			}
			remove()
			if len(v) > 0 {
				return v
			}
			continue
		}
		remove()
		if rerr != nil || skip {
			v.Addf("C14/loop/"+era+"-no-current-entry/false-loop", "step %d: Via %q does not carry this modifier's current entry (%q) but ModifyRequest returned %v, skip-round-trip=%v", step, fed, cur, rerr, skip)
			return v
		}
		got := flatten(req.Header["Via"])
		prev := flatten(fed)
		okShape := len(got) == len(prev)+1 && equalStrings(got[:len(prev)], prev)
		stamp := ""
		if okShape {
			stamp = got[len(got)-1]
		}
		if cur == "" {
			pfx := fmt.Sprintf("%d.%d %s-", maj, min, c.Name)
			if !okShape || !strings.HasPrefix(stamp, pfx) || len(stamp) == len(pfx) || strings.ContainsAny(stamp[len(pfx):], " \t,") {
				v.Addf("C14/via/"+era+"-history/wrong-members", "step %d: Via %q became %q, want the previous members plus one entry %q<boundary>", step, fed, req.Header["Via"], pfx)
				return v
			}
			cur = stamp[strings.Index(stamp, " ")+1:]
		} else if want := fmt.Sprintf("%d.%d %s", maj, min, cur); !okShape || stamp != want {
			v.Addf("C14/via/"+era+"-history/wrong-members", "step %d: Via %q became %q, want the previous members plus exactly %q (the modifier's current boundary)", step, fed, req.Header["Via"], want)
			return v
		}
		lastVia, lastPseud = req.Header["Via"], cur
	}
	return v
}

func viaHistClasses(c ViaHistCase) []string {
	var cl []string
	seenProto := map[string]bool{}
	pending := map[string]bool{} // versions seen before the latest SetBoundary
	hasB, stale, fedBack, fedBackAfterB := false, false, false, false
	stamped := false
	for _, op := range c.Ops {
		if op.K == "B" {
			hasB = true
			for p := range seenProto {
				pending[p] = true
			}
			stamped = false
			continue
		}
		own := (op.Feed == "current" && (stamped || hasB)) || (op.Feed == "last" && stamped)
		if own {
			fedBack = true
			fedBackAfterB = fedBackAfterB || hasB
			continue
		}
		if hasB && pending[op.Proto] {
			stale = true
		}
		seenProto[op.Proto] = true
		stamped = true
	}
	if hasB {
		cl = append(cl, "set-boundary")
	}
	if stale {
		cl = append(cl, "same-version-before-and-after-set-boundary")
	}
	if fedBack {
		cl = append(cl, "own-entry-fed-back")
	}
	if fedBackAfterB {
		cl = append(cl, "own-entry-fed-back-after-set-boundary")
	}
	return cl
}

var propViaHist = &kit.Prop[ViaHistCase]{
	ID: "C14", Name: "via-history",
	Rule: "histories of 2..10 steps on ONE header.ViaModifier: requests of version 1.0/1.1/2.0 carrying no Via, foreign entries (incl. same name with another boundary), the Via of the previously forwarded request, or a synthesised entry with the modifier's current pseudonym; interleaved with SetBoundary (sequentially, never concurrently); every forwarded request gains exactly one entry with the CURRENT boundary, a request carrying the current entry is refused (error, skipped round trip, 400); non-trivial = a version forwarded both before and after a SetBoundary, or the modifier's own entry fed back",
	Gen: func(t *rapid.T) ViaHistCase {
		c := ViaHistCase{Name: rapid.SampledFrom([]string{"martian", "edge-proxy"}).Draw(t, "name")}
		for i, n := 0, rapid.IntRange(2, 10).Draw(t, "ops"); i < n; i++ {
			if rapid.IntRange(0, 3).Draw(t, "kind") == 0 {
				c.Ops = append(c.Ops, ViaOp{K: "B", Boundary: rapid.SampledFrom([]string{"b1", "b2", "0123456789abcdef0123", "x"}).Draw(t, "boundary")})
				continue
			}
			c.Ops = append(c.Ops, ViaOp{
				K:     "Q",
				Proto: rapid.SampledFrom([]string{"1.1", "1.1", "1.0", "2.0"}).Draw(t, "proto"),
				Feed:  rapid.SampledFrom([]string{"none", "none", "foreign", "last", "current"}).Draw(t, "feed"),
			})
		}
		return c
	},
	Run: runViaHist, Classes: viaHistClasses,
	NonTrivial: func(c ViaHistCase) bool {
		for _, k := range viaHistClasses(c) {
			if k == "same-version-before-and-after-set-boundary" || k == "own-entry-fed-back" {
				return true
			}
		}
		return false
	},
	Gates: map[string]float64{"set-boundary": 0.5, "same-version-before-and-after-set-boundary": 0.2, "own-entry-fed-back": 0.3, "own-entry-fed-back-after-set-boundary": 0.15},
}

func TestViaHistory(t *testing.T) {
	if kit.Race() {
		t.Skip()
	}
	propViaHist.Check(t, kit.N(1500, 8000))
}
