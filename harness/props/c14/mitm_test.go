package c14

import (
	"bufio"
	"crypto/tls"
	"crypto/x509"
	"fmt"
	"io"
	"net"
	"net/http"
	"strconv"
	"sync"
	"sync/atomic"
	"testing"
	"time"

	"github.com/google/martian/v3"
	"github.com/google/martian/v3/httpspec"
	"github.com/google/martian/v3/mitm"
	"github.com/google/martian/v3/proxyutil"
	"github.com/google/martian/v3/trafficshape"
	"pgregory.net/rapid"

	"verifharness/internal/kit"
)

// MITMCase: requests sent inside a MITM'd CONNECT tunnel of a proxy carrying
// the spec stack, on a plain or a traffic-shaped listener. "X-Forwarded-...
// reflect the client address and original URL": the original URL is https.
type MITMCase struct {
	Shaped bool     `json:"shaped"`
	Host   string   `json:"host"`
	Paths  []string `json:"paths"` // request targets (path?query), one request each on the same tunnel
	// Hostless: the last request is HTTP/1.0 in origin form without a Host header
	// (legal; the proxy addresses it to the tunnel's host).
	Hostless bool `json:"hostless,omitempty"`
}

// The authority and the leaf key are key material, not case state: generating
// an RSA key per case would dominate the run.
var (
	mitmOnce sync.Once
	mitmCA   *x509.Certificate
	mitmCfg  *mitm.Config
	mitmErr  error
)

func sharedMITM() (*x509.Certificate, *mitm.Config, error) {
	mitmOnce.Do(func() {
		ca, priv, err := mitm.NewAuthority("verif.proxy", "Verif Authority", time.Hour)
		if err != nil {
			mitmErr = err
			return
		}
		mitmCA = ca
		mitmCfg, mitmErr = mitm.NewConfig(ca, priv)
	})
	return mitmCA, mitmCfg, mitmErr
}

type seenReq struct {
	url string
	h   http.Header
}

type recorder struct {
	mu   sync.Mutex
	seen []seenReq
}

func (r *recorder) RoundTrip(req *http.Request) (*http.Response, error) {
	r.mu.Lock()
	r.seen = append(r.seen, seenReq{url: req.URL.String(), h: req.Header.Clone()})
	r.mu.Unlock()
	return proxyutil.NewResponse(200, nil, req), nil
}

func runMITM(c MITMCase) kit.Verdict {
	wait := 3 * kit.T()
	incomplete := func(what string, err error) kit.Verdict {
		atomic.AddInt64(&wireIncomplete, 1)
		kit.Inconclusive("mitm")
		kit.Note("mitm", fmt.Sprintf("a case could not be judged (%s: %v); counted inconclusive", what, err))
		return nil
	}
	ca, cfg, err := sharedMITM()
	if err != nil {
		panic(err)
	}
	l, err := listenLoopback()
	if err != nil {
		return incomplete("no port", err)
	}
	var pl net.Listener = l
	listener := "plain"
	if c.Shaped {
		pl = trafficshape.NewListener(l)
		listener = "shaped"
	}
	p := martian.NewProxy()
	p.SetTimeout(60 * time.Second)
	rec := &recorder{}
	p.SetRoundTripper(rec)
	p.SetMITM(cfg)
	stack, _ := httpspec.NewStack("martian")
	p.SetRequestModifier(stack)
	p.SetResponseModifier(stack)
	go p.Serve(pl)

	conn, err := dialLoopback(l.Addr().String(), wait)
	defer func() {
		if conn != nil {
			conn.Close()
		}
		pl.Close()
		done := make(chan struct{})
		go func() { p.Close(); close(done) }()
		select {
		case <-done:
		case <-time.After(wait):
			kit.Note("mitm", "Proxy.Close did not return within the bound after a case (not part of C14)")
		}
	}()
	if err != nil {
		return incomplete("dial", err)
	}
	conn.SetDeadline(time.Now().Add(wait))
	fmt.Fprintf(conn, "CONNECT %s:443 HTTP/1.1\r\nHost: %s:443\r\n\r\n", c.Host, c.Host)
	head, err := readHead(bufio.NewReaderSize(io.LimitReader(conn, maxHead), 1)) // must not read ahead into the TLS bytes
	if err != nil {
		if isTimeout(err) {
			return incomplete("CONNECT", err)
		}
		return kit.Failf("C14/wire/mitm-connect/no-answer", "CONNECT on a %s listener: %v", listener, err)
	}
	if start, _ := parseHead(head); statusOf(start) != 200 {
		return kit.Failf("C14/wire/mitm-connect/refused", "CONNECT on a %s listener answered %q", listener, start)
	}
	roots := x509.NewCertPool()
	roots.AddCert(ca)
	tc := tls.Client(conn, &tls.Config{ServerName: c.Host, RootCAs: roots})
	if err := tc.Handshake(); err != nil {
		if isTimeout(err) {
			return incomplete("handshake", err)
		}
		return kit.Failf("C14/wire/mitm-handshake/failed", "TLS handshake inside the tunnel on a %s listener: %v", listener, err)
	}
	br := bufio.NewReader(io.LimitReader(tc, 4*maxHead))

	var v kit.Verdict
	for i, target := range c.Paths {
		hostless := c.Hostless && i == len(c.Paths)-1
		if hostless {
			fmt.Fprintf(tc, "GET %s HTTP/1.0\r\n\r\n", target)
		} else {
			fmt.Fprintf(tc, "GET %s HTTP/1.1\r\nHost: %s\r\n\r\n", target, c.Host)
		}
		head, err := readHead(br)
		if err != nil {
			if isTimeout(err) {
				return incomplete("tunnelled request", err)
			}
			return kit.Failf("C14/wire/mitm-request/no-answer", "request %d inside the tunnel on a %s listener: %v", i, listener, err)
		}
		_, rh := parseHead(head)
		if n, _ := strconv.Atoi(rh.Get("Content-Length")); n > 0 {
			io.CopyN(io.Discard, br, int64(n))
		}
		rec.mu.Lock()
		seen := append([]seenReq{}, rec.seen...)
		rec.mu.Unlock()
		if len(seen) != i+1 {
			v.Addf("C14/wire/mitm-request/not-forwarded", "request %d inside the tunnel: the round tripper saw %d requests", i, len(seen))
			return v
		}
		s := seen[i]
		wantURL := "https://" + c.Host + target
		wantHost := c.Host
		if hostless && len(s.h["X-Forwarded-Url"]) == 1 && s.h["X-Forwarded-Url"][0] == "https://"+c.Host+":443"+target {
			// without a Host header the request is addressed to the tunnel's
			// authority as given in CONNECT (host:443); host alone is accepted too
			wantURL, wantHost = "https://"+c.Host+":443"+target, c.Host+":443"
		}
		if got := s.h["X-Forwarded-Proto"]; !equalStrings(got, []string{"https"}) || !equalStrings(s.h["X-Forwarded-Url"], []string{wantURL}) || s.url != wantURL {
			v.Addf("C14/forwarded/mitm-tunnel-"+listener+"-listener/wrong-original-url", "request %d (%s) inside a MITM'd tunnel on a %s listener: X-Forwarded-Proto %q, X-Forwarded-Url %q, URL handed upstream %q; want https, %q", i, target, listener, got, s.h["X-Forwarded-Url"], s.url, wantURL)
		}
		if hostless && !equalStrings(s.h["X-Forwarded-Host"], []string{wantHost}) {
			v.Addf("C14/forwarded/x-forwarded-host-absent-request-without-host/wrong-value", "HTTP/1.0 request %d without Host inside a MITM'd tunnel to %s: X-Forwarded-Host %q, X-Forwarded-Url %q; want the tunnel's host", i, c.Host, s.h["X-Forwarded-Host"], s.h["X-Forwarded-Url"])
		} else if !equalStrings(s.h["X-Forwarded-Host"], []string{wantHost}) || !equalStrings(s.h["X-Forwarded-For"], []string{"127.0.0.1"}) {
			v.Addf("C14/forwarded/mitm-tunnel-"+listener+"-listener/wrong-client-or-host", "request %d inside a MITM'd tunnel on a %s listener: X-Forwarded-Host %q (want %q), X-Forwarded-For %q (want 127.0.0.1)", i, listener, s.h["X-Forwarded-Host"], c.Host, s.h["X-Forwarded-For"])
		}
		if via := flatten(s.h["Via"]); len(via) != 1 {
			v.Addf("C14/via/none/wrong-members", "request %d inside a MITM'd tunnel: Via members %q, want exactly this proxy's entry", i, via)
		}
	}
	return v
}

var propMITM = &kit.Prop[MITMCase]{
	ID: "C14", Name: "mitm-forwarded",
	Rule: "1..3 requests inside a MITM'd CONNECT tunnel (TLS client, shared test authority) of a martian.Proxy carrying the stack, on a plain or a trafficshape listener, recorded by a RoundTripper: X-Forwarded-Proto/-Url (and the URL handed upstream) must be https://host/target, X-Forwarded-Host the host, X-Forwarded-For 127.0.0.1, one Via entry; non-trivial = shaped listener or more than one request on the tunnel",
	Gen: func(t *rapid.T) MITMCase {
		c := MITMCase{
			Shaped: rapid.Bool().Draw(t, "shaped"),
			Host:   rapid.SampledFrom([]string{"example.com", "origin.test", "a.b.example"}).Draw(t, "host"),
		}
		for i, n := 0, rapid.IntRange(1, 3).Draw(t, "requests"); i < n; i++ {
			c.Paths = append(c.Paths, rapid.SampledFrom([]string{"/", "/first?a=b", "/second", "/p/abc.html?x=1&y=2"}).Draw(t, "target"))
		}
		c.Hostless = rapid.IntRange(0, 3).Draw(t, "hostless") == 0
		return c
	},
	Run:        runMITM,
	NonTrivial: func(c MITMCase) bool { return c.Shaped || len(c.Paths) > 1 },
	Classes: func(c MITMCase) []string {
		var cl []string
		if c.Shaped {
			cl = append(cl, "shaped-listener")
		} else {
			cl = append(cl, "plain-listener")
		}
		if len(c.Paths) > 1 {
			cl = append(cl, "several-requests-on-tunnel")
		}
		if c.Hostless {
			cl = append(cl, "last-request-http10-without-host")
		}
		return cl
	},
	Gates:   map[string]float64{"shaped-listener": 0.25, "plain-listener": 0.25},
	Journal: true,
}

func TestMITMForwarded(t *testing.T) {
	n := kit.N(60, 100)
	before := atomic.LoadInt64(&wireIncomplete)
	propMITM.Check(t, n)
	if inc := atomic.LoadInt64(&wireIncomplete) - before; inc*10 > int64(n) {
		t.Fatalf("infrastructure: %d of %d MITM cases could not be judged; inconclusive, not a violation", inc, n)
	}
}
