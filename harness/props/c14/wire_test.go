package c14

import (
	"bufio"
	"errors"
	"fmt"
	"io"
	"net"
	"net/http"
	"strconv"
	"strings"
	"sync"
	"sync/atomic"
	"testing"
	"time"

	"github.com/google/martian/v3"
	"github.com/google/martian/v3/httpspec"
	"pgregory.net/rapid"

	"verifharness/internal/kit"
)

// ---------------------------------------------------------------- sockets

// wireIncomplete counts through-proxy cases that could not be judged
// (expired bounded wait, no free loopback port); TestWire refuses to pass when
// they are frequent.
var wireIncomplete int64

// listenLoopback retries: under 16 parallel shards the ephemeral port range can
// be momentarily exhausted by sockets in TIME_WAIT - infrastructure, not martian.
func listenLoopback() (net.Listener, error) { return listenOn("127.0.0.1:0") }

func listenOn(addr string) (net.Listener, error) {
	var err error
	for i := 0; i < 40; i++ {
		var ln net.Listener
		if ln, err = net.Listen("tcp", addr); err == nil {
			return ln, nil
		}
		time.Sleep(50 * time.Millisecond)
	}
	return nil, err
}

// noTimeWait makes Close send a reset, so that the thousands of short-lived
// connections of a run do not pile up in TIME_WAIT.
func noTimeWait(c net.Conn) {
	if tc, ok := c.(*net.TCPConn); ok {
		tc.SetLinger(0)
	}
}

func dialLoopback(addr string, wait time.Duration) (net.Conn, error) {
	var c net.Conn
	var err error
	for i := 0; i < 40; i++ {
		if c, err = net.DialTimeout("tcp", addr, wait); err == nil {
			noTimeWait(c)
			return c, nil
		}
		if !strings.Contains(err.Error(), "cannot assign requested address") && !strings.Contains(err.Error(), "address already in use") {
			return nil, err
		}
		time.Sleep(50 * time.Millisecond)
	}
	return nil, err
}

// ---------------------------------------------------------------- raw origin

const maxHead = 64 << 10

// readHead reads one header block (through the blank line) from br.
func readHead(br *bufio.Reader) (string, error) {
	var sb strings.Builder
	for {
		line, err := br.ReadString('\n')
		sb.WriteString(line)
		if err != nil {
			return sb.String(), err
		}
		if sb.Len() > maxHead {
			return sb.String(), errors.New("header block too large")
		}
		if line == "\r\n" || line == "\n" {
			return sb.String(), nil
		}
	}
}

// parseHead splits a header block into its start line and a canonical-name
// header map (values OWS-trimmed, in line order).
func parseHead(head string) (string, http.Header) {
	lines := strings.Split(strings.ReplaceAll(head, "\r\n", "\n"), "\n")
	h := http.Header{}
	for _, l := range lines[1:] {
		i := strings.IndexByte(l, ':')
		if i <= 0 {
			continue
		}
		n := canon(l[:i])
		h[n] = append(h[n], trimOWS(l[i+1:]))
	}
	return lines[0], h
}

// origin is a raw TCP server that logs every header block it receives and
// answers with a prepared response.
type origin struct {
	ln   net.Listener
	wait time.Duration

	mu    sync.Mutex
	resp  []byte
	heads []string
	conns []net.Conn
	wg    sync.WaitGroup
}

func newOrigin(wait time.Duration, resp []byte) (*origin, error) {
	ln, err := listenLoopback()
	if err != nil {
		return nil, err
	}
	o := &origin{ln: ln, wait: wait, resp: resp}
	o.wg.Add(1)
	go o.serve()
	return o, nil
}

func (o *origin) serve() {
	defer o.wg.Done()
	for {
		c, err := o.ln.Accept()
		if err != nil {
			return
		}
		o.mu.Lock()
		noTimeWait(c)
		o.conns = append(o.conns, c)
		o.mu.Unlock()
		o.wg.Add(1)
		go o.handle(c)
	}
}

func (o *origin) handle(c net.Conn) {
	defer o.wg.Done()
	defer c.Close()
	br := bufio.NewReader(io.LimitReader(c, 4*maxHead))
	for {
		c.SetDeadline(time.Now().Add(o.wait))
		head, err := readHead(br)
		if err != nil {
			return
		}
		o.mu.Lock()
		o.heads = append(o.heads, head)
		resp := o.resp
		o.mu.Unlock()
		if _, err := c.Write(resp); err != nil {
			return
		}
	}
}

func (o *origin) setResponse(b []byte) {
	o.mu.Lock()
	o.resp = b
	o.mu.Unlock()
}

func (o *origin) accepted() int {
	o.mu.Lock()
	defer o.mu.Unlock()
	return len(o.conns)
}

func (o *origin) received() []string {
	o.mu.Lock()
	defer o.mu.Unlock()
	return append([]string{}, o.heads...)
}

func (o *origin) close() {
	o.ln.Close()
	o.mu.Lock()
	for _, c := range o.conns {
		c.Close()
	}
	o.mu.Unlock()
	done := make(chan struct{})
	go func() { o.wg.Wait(); close(done) }()
	select {
	case <-done:
	case <-time.After(o.wait):
	}
}

// ---------------------------------------------------------------- raw client

// exchange opens a connection to the proxy, writes raw and reads one response
// header block.
func exchange(addr string, raw []byte, wait time.Duration) (string, error) {
	conn, err := dialLoopback(addr, wait)
	if err != nil {
		return "", err
	}
	defer conn.Close()
	conn.SetDeadline(time.Now().Add(wait))
	if _, err := conn.Write(raw); err != nil {
		return "", err
	}
	return readHead(bufio.NewReader(io.LimitReader(conn, maxHead+1024)))
}

func statusOf(startLine string) int {
	f := strings.Fields(startLine)
	if len(f) < 2 {
		return -1
	}
	n, err := strconv.Atoi(f[1])
	if err != nil {
		return -1
	}
	return n
}

// ---------------------------------------------------------------- through a real proxy

// notAssertedOnWire: regenerated per hop by net/http (DESIGN C14).
var notAssertedOnWire = map[string]bool{"Connection": true, "Transfer-Encoding": true, "Trailer": true}

// addedByTransport: net/http's client side adds these when absent.
// (martian's transport has DisableCompression, so no Accept-Encoding; a
// default User-Agent has its own clause below.)
var addedByTransport = map[string]bool{"Host": true, "Content-Length": true}

func wireRequest(c Case, subst func(string) string) []byte {
	var sb strings.Builder
	fmt.Fprintf(&sb, "GET %s HTTP/%s\r\nHost: %s\r\n", c.originalURL("http"), c.Proto, c.URLHost)
	for _, l := range c.Req {
		fmt.Fprintf(&sb, "%s:%s%s\r\n", l.N, l.P, subst(l.V))
	}
	sb.WriteString("\r\n")
	return []byte(sb.String())
}

func wireResponse(c Case, subst func(string) string) []byte {
	var sb strings.Builder
	fmt.Fprintf(&sb, "HTTP/1.1 %d %s\r\n", c.Status, http.StatusText(c.Status))
	for _, l := range c.Res {
		fmt.Fprintf(&sb, "%s:%s%s\r\n", l.N, l.P, subst(l.V))
	}
	body := kit.Text(uint64(c.Body)+1, c.Body)
	fmt.Fprintf(&sb, "Content-Length: %d\r\n\r\n%s", len(body), body)
	return []byte(sb.String())
}

func isTimeout(err error) bool {
	var ne net.Error
	return errors.As(err, &ne) && ne.Timeout()
}

func runWire(c Case) kit.Verdict {
	if !valid(c) {
		return nil
	}
	kit.Assume("through-proxy variant: origin responses do not carry the token 'close' in Connection (net/http's response reader deletes the whole Connection header then, so the stack never sees the nominations), and Connection/Transfer-Encoding/Trailer are not compared (regenerated per hop by net/http)")
	wait := 3 * kit.T() // liveness is not this property: an expired wait is inconclusive, never a failure
	noPort := func(err error) kit.Verdict {
		atomic.AddInt64(&wireIncomplete, 1)
		kit.Inconclusive("wire")
		kit.Note("wire", "no free loopback port for a case (infrastructure); counted inconclusive: "+err.Error())
		return nil
	}
	var self string
	substNow := func(s string) string { return substFor(c.Name, self)(s) }

	o, err := newOrigin(wait, []byte("HTTP/1.1 200 OK\r\nContent-Length: 0\r\n\r\n"))
	if err != nil {
		return noPort(err)
	}
	defer o.close()

	p := martian.NewProxy()
	stack, _ := httpspec.NewStack(c.Name)
	p.SetRequestModifier(stack)
	p.SetResponseModifier(stack)
	p.SetTimeout(60 * time.Second)
	originAddr := o.ln.Addr().String()
	p.SetDial(func(network, addr string) (net.Conn, error) { return dialLoopback(originAddr, wait) })
	// the client reaches the proxy over IPv6 when the case says so and the
	// machine has ::1 (else over IPv4; the expectation follows what is used)
	clientIP := "127.0.0.1"
	var pl net.Listener
	if strings.HasPrefix(c.Remote, "[") {
		if l6, err6 := net.Listen("tcp", "[::1]:0"); err6 == nil {
			pl, clientIP = l6, "::1"
		}
	}
	if pl == nil {
		if pl, err = listenLoopback(); err != nil {
			return noPort(err)
		}
	}
	go p.Serve(pl)
	defer func() {
		pl.Close()
		done := make(chan struct{})
		go func() { p.Close(); close(done) }()
		select {
		case <-done:
		case <-time.After(wait):
			kit.Note("wire", "Proxy.Close did not return within the bound after a case (not part of C14)")
		}
		if tr, ok := p.GetRoundTripper().(*http.Transport); ok {
			tr.CloseIdleConnections()
		}
	}()
	proxyAddr := pl.Addr().String()

	inconclusive := func(what string, err error) kit.Verdict {
		atomic.AddInt64(&wireIncomplete, 1)
		kit.Inconclusive("wire")
		kit.Note("wire", "a bounded wait expired ("+what+"); counted inconclusive")
		_ = err
		return nil
	}

	// probe: learn this instance's pseudonym from what the origin receives
	if _, err := exchange(proxyAddr, []byte("GET http://probe.test/ HTTP/1.1\r\nHost: probe.test\r\nConnection: close\r\n\r\n"), wait); err != nil {
		if isTimeout(err) {
			return inconclusive("probe", err)
		}
		return kit.Failf("C14/wire/probe/no-answer", "probe request through the proxy failed: %v", err)
	}
	got := o.received()
	if len(got) != 1 {
		return kit.Failf("C14/wire/probe/not-forwarded", "origin received %d requests for the probe", len(got))
	}
	_, ph := parseHead(got[0])
	pv := ph["Via"]
	if len(pv) != 1 || !strings.HasPrefix(pv[0], "1.1 "+c.Name+"-") || strings.ContainsAny(pv[0][4:], " \t,") {
		return kit.Failf("C14/via/none/wrong-members", "probe request without Via reached the origin with Via lines %q, want one entry \"1.1 %s-<boundary>\"", pv, c.Name)
	}
	self = pv[0][4:]
	o.setResponse(wireResponse(c, substNow))

	m := modelRequest(c, substNow, self)
	head, err := exchange(proxyAddr, wireRequest(c, substNow), wait)
	if err != nil {
		if isTimeout(err) {
			return inconclusive("request", err)
		}
		return kit.Failf("C14/wire/request/no-answer", "no response head from the proxy: %v (got %q)", err, head)
	}
	start, rh := parseHead(head)
	status := statusOf(start)
	got = o.received()

	var v kit.Verdict
	if !m.loop && m.selfInComment && len(got) == 1 && status == 400 {
		m.loop = true // don't-care: a self-mention inside a comment may be refused or forwarded
	}
	if m.loop {
		if len(got) > 1 {
			v.Addf("C14/loop/"+loopShape(m)+"/not-detected", "Via lines %q name this instance (%s) but the request reached the origin (answered %d)", m.in["Via"], self, status)
		} else if status != 400 {
			v.Addf("C14/loop/"+loopShape(m)+"/not-answered-400", "looping request was not sent upstream but answered %q, want 400", start)
		}
		return v
	}
	if len(got) != 2 {
		return kit.Failf("C14/loop/no-self-entry/false-loop", "Via lines %q do not name this instance (%s) but the origin received %d requests after the probe; client got %q", m.in["Via"], self, len(got)-1, start)
	}
	_, oh := parseHead(got[1])

	// request side, as seen by the origin
	tolerated := mergeSets(notAssertedOnWire, addedByTransport)
	if c.UserInfo != "" {
		tolerated["Authorization"] = true // net/http's client derives it from the URL's credentials when absent
	}
	if _, sent := m.in["User-Agent"]; !sent {
		// "every other header is untouched": the origin must not receive a
		// User-Agent the client never sent (the proxy installs the transport that
		// would add "Go-http-client/1.1")
		tolerated["User-Agent"] = true
		if ua, ok := oh["User-Agent"]; ok {
			v.Addf("C14/end-to-end/request-without-user-agent/user-agent-added", "the client sent no User-Agent, the origin received %q", ua)
		}
	}
	checkHeaders("request", m.in, oh, m.hop, managedReq, tolerated, &v)
	_, maj, min := protoOf(c)
	checkVia(m, oh["Via"], fmt.Sprintf("%d.%d %s", maj, min, self), self, " at origin", &v)
	u := c.originalURL("http")
	checkForwarded(m, oh, " at origin", clientIP, "http", c.URLHost, u, &v)

	// response side, as seen by the client
	if status != c.Status {
		v.Addf("C14/stack/clean-response/unexpected-error", "origin answered %d, client got %q (Warning %q)", c.Status, start, rh["Warning"])
	}
	rin := collect(c.Res, substNow)
	checkHeaders("response", rin, rh, hopSet(rin), nil, mergeSets(notAssertedOnWire, map[string]bool{"Content-Length": true, "Warning": true}), &v)
	if w := rh["Warning"]; len(w) > 0 {
		v.Addf("C14/stack/clean-request/unexpected-error", "the proxy reported a modifier error for a clean exchange: Warning %q", w)
	}
	return v
}

func mergeSets(a, b map[string]bool) map[string]bool {
	out := map[string]bool{}
	for k := range a {
		out[k] = true
	}
	for k := range b {
		out[k] = true
	}
	return out
}

func genWire(t *rapid.T) Case {
	var c Case
	c.Name = "martian"
	c.Proto = rapid.SampledFrom([]string{"1.1", "1.1", "1.1", "1.0"}).Draw(t, "proto")
	c.Scheme = "http"
	c.URLHost = rapid.SampledFrom([]string{"origin.test", "origin.test:8080", "example.com"}).Draw(t, "url_host")
	c.Host = c.URLHost
	c.Remote = rapid.SampledFrom([]string{"127.0.0.1:0", "127.0.0.1:0", "[::1]:0"}).Draw(t, "remote")
	genTarget(t, &c)
	c.Status = rapid.SampledFrom([]int{200, 200, 404, 500}).Draw(t, "status")
	c.Body = rapid.IntRange(0, 300).Draw(t, "body")
	c.Req = append(c.Req, genHeaders(t, genOpts{request: true, wire: true})...)
	c.Req = append(c.Req, genVia(t)...)
	c.Req = append(c.Req, genForwarded(t)...)
	c.Res = genHeaders(t, genOpts{wire: true})
	if !valid(c) {
		t.Fatalf("generator produced a case outside the domain")
	}
	return c
}

var propWire = &kit.Prop[Case]{
	ID: "C14", Name: "wire",
	Rule: "the same header shapes written as raw bytes (names in drawn case, drawn padding) by a TCP client through martian.NewProxy carrying the stack to a raw TCP origin that logs the header block it receives; origin-side and client-side header blocks compared with the model (Connection, Transfer-Encoding, Trailer not asserted: net/http regenerates them per hop; no framing conflicts: net/http rejects them before the stack); non-trivial as for the in-process check",
	Gen:  genWire, Run: runWire, NonTrivial: nontrivial, Classes: classes,
	Gates:   map[string]float64{"nontrivial": 0.5, "via-self": 0.1, "via-multi-line": 0.15, "conn-nominates-present-ext": 0.1, "conn-nominates-x-forwarded": 0.1, "remote-v6": 0.15},
	Journal: true,
}

func TestWire(t *testing.T) {
	n := kit.N(400, 1500)
	if kit.Race() {
		n = kit.N(150, 600)
	}
	before := atomic.LoadInt64(&wireIncomplete)
	propWire.Check(t, n)
	if inc := atomic.LoadInt64(&wireIncomplete) - before; inc*10 > int64(n) {
		// no VIOLATION line: the driver reports infrastructure trouble (exit 2)
		t.Fatalf("infrastructure: %d of %d through-proxy cases could not be judged (expired waits / no free ports); inconclusive, not a violation", inc, n)
	}
}
