// Package treeref is the reference semantics of martian JSON configuration
// trees, written from the statements of properties C12/C13 and Appendix A.1 of
// DESIGN.md - not from the implementation. It contains
//
//   - Node: a plain-data configuration tree (groups, filters, leaves) with its
//     JSON rendering (optionally with one deliberate fault);
//   - Req/Res: a plain-data model of a request and a response;
//   - Interp: the depth-first reference evaluation (scope projection at every
//     node, FIFO order, priority order with later-listed first among equals,
//     condition on the message as it is at that moment, error policy);
//   - Verifiers: the structural walk a verification query / reset must cover.
//
// The package imports nothing from martian.
package treeref

import (
	"encoding/json"
	"net/http"
	"net/url"
	"regexp"
	"sort"
	"strconv"
	"strings"
)

// Side is a message kind.
type Side string

const (
	Request  Side = "request"
	Response Side = "response"
)

// Registered names used by the generators.
const (
	Fifo     = "fifo.Group"
	Priority = "priority.Group"

	URLFilter      = "url.Filter"
	HeaderFilter   = "header.Filter"
	QueryFilter    = "querystring.Filter"
	MethodFilter   = "method.Filter"
	CookieFilter   = "cookie.Filter"
	PortFilter     = "port.Filter"        // N = port
	URLRegexFilter = "url.RegexFilter"    // P: regex, matched against the whole request URL on both sides
	RegexFilter    = "header.RegexFilter" // P: header, regex; tests the request's header on both sides

	HeaderAppend    = "header.Append"
	HeaderModifier  = "header.Modifier"
	HeaderBlacklist = "header.Blacklist"
	QueryModifier   = "querystring.Modifier"
	URLModifier     = "url.Modifier"
	StatusModifier  = "status.Modifier"
	CookieModifier  = "cookie.Modifier"
	Noop            = "noop.Modifier"
	PortModifier    = "port.Modifier"
	Inert           = "verif.Inert" // a harness-defined node type the embedding program registers with parse.Register; does nothing
	SkipRoundTrip   = "skip.RoundTrip"

	StatusVerifier   = "status.Verifier"
	HeaderVerifier   = "header.Verifier"
	MethodVerifier   = "method.Verifier"
	URLVerifier      = "url.Verifier"
	QueryVerifier    = "querystring.Verifier"
	FailureVerifier  = "failure.Verifier"
	PingbackVerifier = "pingback.Verifier"
)

// Faults a node can carry when rendered (the configuration must then be
// rejected as a whole).
const (
	FaultUnknownName      = "unknown-name"      // the node names an unregistered modifier
	FaultScopeUnsupported = "scope-unsupported" // single-sided leaf whose scope lists its other side; FaultAt picks the position (ScopeUnsupportedVariants)
	FaultScopeInvalid     = "scope-invalid"     // a scope string that is neither request nor response
	FaultTwoKeys          = "two-keys"          // the node's object has two keys
	FaultNoModifier       = "no-modifier"       // a filter without "modifier", or a priority entry (index FaultAt) without "modifier": names nothing to apply
)

// ScopeUnsupportedVariants: where a scope list names the kind a one-sided
// type does not support (o = the supported kind, x = the unsupported one).
var ScopeUnsupportedVariants = []string{"x", "ox", "xo", "xx", "oox", "oxo"}

// Node is one node of a configuration tree.
type Node struct {
	T        string            `json:"t"`                   // registered name
	ID       int               `json:"id,omitempty"`        // unique within the tree
	HasScope bool              `json:"has_scope,omitempty"` // false: no scope key at all
	Scope    []string          `json:"scope,omitempty"`     // with HasScope: the listed kinds ([] = acts on nothing)
	Agg      bool              `json:"agg,omitempty"`       // fifo: aggregateErrors
	Kids     []*Node           `json:"kids,omitempty"`      // groups: children in listed order
	Prio     []int             `json:"prio,omitempty"`      // priority group: priority per child
	NoPrio   []bool            `json:"no_prio,omitempty"`   // priority group: the entry omits the "priority" key (legal, means 0)
	FaultAt  int               `json:"fault_at,omitempty"`  // FaultNoModifier on a priority group: index of the entry; FaultScopeUnsupported: variant
	P        map[string]string `json:"p,omitempty"`         // string parameters (name, value, method, scheme, ...)
	N        int               `json:"n,omitempty"`         // statusCode
	Names    []string          `json:"names,omitempty"`     // header.Blacklist
	Then     *Node             `json:"then,omitempty"`      // filters: modifier
	Else     *Node             `json:"else,omitempty"`      // filters: else
	Fault    string            `json:"fault,omitempty"`
}

// IsGroup, IsFilter, IsVerifier classify registered names.
func IsGroup(t string) bool { return t == Fifo || t == Priority }
func IsFilter(t string) bool {
	switch t {
	case URLFilter, HeaderFilter, QueryFilter, MethodFilter, CookieFilter, PortFilter, RegexFilter, URLRegexFilter:
		return true
	}
	return false
}
func IsVerifier(t string) bool { return strings.HasSuffix(t, ".Verifier") }

// Supports reports whether the registered type t can act on side s
// (Appendix A.1: request-only and response-only types).
func Supports(t string, s Side) bool {
	switch t {
	case QueryModifier, URLModifier, SkipRoundTrip, PortModifier,
		MethodVerifier, URLVerifier, QueryVerifier, FailureVerifier, PingbackVerifier:
		return s == Request
	case StatusModifier, StatusVerifier:
		return s == Response
	}
	return true
}

// Acts reports whether the node itself acts on side s: its type supports the
// side and its scope (absent = everything the type supports) names it.
func (n *Node) Acts(s Side) bool {
	if n == nil || !Supports(n.T, s) {
		return false
	}
	if !n.HasScope {
		return true
	}
	for _, x := range n.Scope {
		if x == string(s) {
			return true
		}
	}
	return false
}

func (n *Node) omitsPrio(i int) bool { return i < len(n.NoPrio) && n.NoPrio[i] }

// PrioOf is the effective priority of child i of a priority group: an entry
// without a "priority" key has priority 0.
func (n *Node) PrioOf(i int) int {
	if n.omitsPrio(i) {
		return 0
	}
	return n.Prio[i]
}

// Walk visits every node depth-first (children, then, else).
func (n *Node) Walk(f func(n *Node, depth int)) { n.walk(f, 1) }

func (n *Node) walk(f func(n *Node, depth int), d int) {
	if n == nil {
		return
	}
	f(n, d)
	for _, k := range n.Kids {
		k.walk(f, d+1)
	}
	n.Then.walk(f, d+1)
	n.Else.walk(f, d+1)
}

// Depth is the number of nodes on the longest root-to-leaf path.
func (n *Node) Depth() int {
	max := 0
	n.Walk(func(_ *Node, d int) {
		if d > max {
			max = d
		}
	})
	return max
}

// Faulty reports whether any node carries a fault.
func (n *Node) Faulty() bool {
	f := false
	n.Walk(func(x *Node, _ int) { f = f || x.Fault != "" })
	return f
}

// ---------------------------------------------------------------- rendering

// Config renders the tree as the JSON value martian's parser expects.
func (n *Node) Config() interface{} {
	body := map[string]interface{}{}
	for k, v := range n.P {
		body[k] = v
	}
	switch {
	case n.T == Fifo:
		kids := []interface{}{}
		for _, k := range n.Kids {
			kids = append(kids, k.Config())
		}
		body["modifiers"] = kids
		if n.Agg {
			body["aggregateErrors"] = true
		}
	case n.T == Priority:
		kids := []interface{}{}
		for i, k := range n.Kids {
			e := map[string]interface{}{"modifier": k.Config()}
			if !n.omitsPrio(i) {
				e["priority"] = n.Prio[i]
			}
			if n.Fault == FaultNoModifier && i == n.FaultAt {
				delete(e, "modifier")
			}
			kids = append(kids, e)
		}
		body["modifiers"] = kids
	case IsFilter(n.T):
		if n.Fault != FaultNoModifier {
			body["modifier"] = n.Then.Config()
		}
		if n.Else != nil {
			body["else"] = n.Else.Config()
		}
	case n.T == HeaderBlacklist:
		body["names"] = append([]string{}, n.Names...)
	case n.T == StatusModifier || n.T == StatusVerifier:
		body["statusCode"] = n.N
	case n.T == PortModifier:
		body["port"] = n.N
	}
	if n.T == PortFilter {
		body["port"] = n.N
	}
	if n.HasScope {
		body["scope"] = append([]string{}, n.Scope...)
	}
	name := n.T
	switch n.Fault {
	case FaultUnknownName:
		name = n.T + "Nope"
	case FaultScopeInvalid:
		// the string that is no kind alone, before and after a supported kind
		own := "request"
		if !Supports(n.T, Request) {
			own = "response"
		}
		body["scope"] = [][]string{{"reqest"}, {"result", own}, {own, "reqest"}}[n.FaultAt%3]
	case FaultScopeUnsupported:
		own, other := "request", "response"
		if !Supports(n.T, Request) {
			own, other = other, own
		}
		var sc []string
		for _, c := range ScopeUnsupportedVariants[n.FaultAt%len(ScopeUnsupportedVariants)] {
			if c == 'o' {
				sc = append(sc, own)
			} else {
				sc = append(sc, other)
			}
		}
		body["scope"] = sc
	}
	out := map[string]interface{}{name: body}
	if n.Fault == FaultTwoKeys {
		extra := Noop
		if name == Noop {
			extra = SkipRoundTrip
		}
		out[extra] = map[string]interface{}{}
	}
	return out
}

// JSON renders the configuration text.
func (n *Node) JSON() []byte {
	b, err := json.Marshal(n.Config())
	if err != nil {
		panic(err)
	}
	return b
}

// ---------------------------------------------------------------- messages

// Req models a request: the parts configuration nodes read or write.
type Req struct {
	Method string              `json:"method"`
	Scheme string              `json:"scheme"`
	Host   string              `json:"host"`                // URL host
	Path   string              `json:"path"`                // decoded path (what conditions and modifiers see)
	Wire   string              `json:"wire_path,omitempty"` // the path as spelled on the request line when that is not Go's canonical escaping of Path
	Query  string              `json:"query,omitempty"`     // raw query
	HostH  string              `json:"host_header,omitempty"`
	Header map[string][]string `json:"header,omitempty"`
	CL     int64               `json:"cl,omitempty"`
	Skip   bool                `json:"skip,omitempty"` // round trip marked to be skipped
}

// Res models a response together with the request it answers.
type Res struct {
	Status int                 `json:"status"`
	Header map[string][]string `json:"header,omitempty"`
	CL     int64               `json:"cl,omitempty"`
	Req    *Req                `json:"-"`
}

func cloneHeader(h map[string][]string) map[string][]string {
	out := map[string][]string{}
	for k, v := range h {
		if len(v) > 0 {
			out[k] = append([]string{}, v...)
		}
	}
	return out
}

// Clone copies a request model.
func (r *Req) Clone() *Req {
	c := *r
	c.Header = cloneHeader(r.Header)
	return &c
}

// Clone copies a response model (sharing nothing; Req is re-pointed by the caller).
func (r *Res) Clone() *Res {
	c := *r
	c.Header = cloneHeader(r.Header)
	return &c
}

// URLString renders the request URL the way net/url does.
func (r *Req) URLString() string {
	return (&url.URL{Scheme: r.Scheme, Host: r.Host, Path: r.Path, RawPath: r.Wire, RawQuery: r.Query}).String()
}

// view is the header view of a message: Host and Content-Length live in
// message fields (Appendix A.1), everything else in the canonicalised map.
type view struct {
	h    map[string][]string
	host *string // nil on responses
	cl   *int64
}

func reqView(r *Req) view { return view{h: r.Header, host: &r.HostH, cl: &r.CL} }
func resView(r *Res) view { return view{h: r.Header, cl: &r.CL} }

func (v view) all(name string) ([]string, bool) {
	switch k := http.CanonicalHeaderKey(name); k {
	case "Host":
		if v.host == nil || *v.host == "" {
			return nil, false
		}
		return []string{*v.host}, true
	case "Content-Length":
		// A response says -1 when it carries no Content-Length, so its 0 is a
		// header that is really there; a bodiless request has 0 either way.
		if *v.cl < 0 || (*v.cl == 0 && v.host != nil) {
			return nil, false
		}
		return []string{strconv.FormatInt(*v.cl, 10)}, true
	default:
		vs, ok := v.h[k]
		return vs, ok
	}
}

// set replaces all values; returns an error key when the value is unusable.
func (v view) set(name, value string) string {
	switch k := http.CanonicalHeaderKey(name); k {
	case "Host":
		if v.host != nil {
			*v.host = value
		}
	case "Content-Length":
		n, err := strconv.ParseInt(value, 10, 64)
		if err != nil {
			return ErrKeyOf(err.Error())
		}
		*v.cl = n
	default:
		v.h[k] = []string{value}
	}
	return ""
}

func (v view) add(name, value string) string {
	switch k := http.CanonicalHeaderKey(name); k {
	case "Host":
		if v.host != nil && *v.host != "" {
			return "multiple:Host"
		}
		return v.set(name, value)
	case "Content-Length":
		if *v.cl > 0 {
			return "multiple:Content-Length"
		}
		return v.set(name, value)
	default:
		v.h[k] = append(v.h[k], value)
	}
	return ""
}

func (v view) del(name string) {
	switch k := http.CanonicalHeaderKey(name); k {
	case "Host":
		if v.host != nil {
			*v.host = ""
		}
	case "Content-Length":
		*v.cl = -1
	default:
		delete(v.h, k)
	}
}

// ---------------------------------------------------------------- errors

var tokenRE = regexp.MustCompile(`e[0-9]+x`)

// ErrKeyOf maps an error message to a format-independent key: the unique
// token of the error leaf that produced it when there is one, else the header
// the message complains about.
func ErrKeyOf(msg string) string {
	if t := tokenRE.FindString(msg); t != "" {
		return t
	}
	switch {
	case strings.Contains(msg, "Content-Length"):
		return "multiple:Content-Length"
	case strings.Contains(msg, "Host"):
		return "multiple:Host"
	}
	return "other:" + msg
}

// SortedKeys returns a sorted copy (multiset comparison).
func SortedKeys(k []string) []string {
	out := append([]string{}, k...)
	sort.Strings(out)
	return out
}

// ---------------------------------------------------------------- evaluation

// Interp is the reference evaluation. OnVerifier, when set, is called for
// every verifier leaf the evaluation reaches (res is nil on the request side).
type Interp struct {
	OnVerifier func(leaf *Node, side Side, req *Req, res *Res)
	// Branches records, per filter node ID, which branches were taken
	// ("T"/"F"), for generator-health statistics.
	Branches map[int]string
}

// Request evaluates the tree on a request; the returned list holds the keys
// of the errors the evaluation must report (nil = no error).
func (in *Interp) Request(n *Node, r *Req) []string { return in.eval(n, Request, r, nil) }

// Response evaluates the tree on a response.
func (in *Interp) Response(n *Node, r *Res) []string { return in.eval(n, Response, r.Req, r) }

func (in *Interp) eval(n *Node, s Side, req *Req, res *Res) []string {
	if !n.Acts(s) {
		return nil
	}
	switch {
	case n.T == Fifo:
		var errs []string
		for _, k := range n.Kids {
			if e := in.eval(k, s, req, res); len(e) > 0 {
				if !n.Agg {
					return e
				}
				errs = append(errs, e...)
			}
		}
		return errs
	case n.T == Priority:
		type pk struct {
			p, i int
			k    *Node
		}
		var order []pk
		for i, k := range n.Kids {
			if k.Acts(s) {
				order = append(order, pk{n.PrioOf(i), i, k})
			}
		}
		// descending priority; among equals the later-listed first
		sort.SliceStable(order, func(a, b int) bool {
			if order[a].p != order[b].p {
				return order[a].p > order[b].p
			}
			return order[a].i > order[b].i
		})
		for _, o := range order {
			if e := in.eval(o.k, s, req, res); len(e) > 0 {
				return e
			}
		}
		return nil
	case IsFilter(n.T):
		hold := Cond(n, s, req, res)
		if in.Branches != nil {
			if hold {
				in.Branches[n.ID] += "T"
			} else {
				in.Branches[n.ID] += "F"
			}
		}
		if hold {
			return in.eval(n.Then, s, req, res)
		}
		if n.Else != nil {
			return in.eval(n.Else, s, req, res)
		}
		return nil
	case IsVerifier(n.T):
		if in.OnVerifier != nil {
			in.OnVerifier(n, s, req, res)
		}
		return nil
	}
	return leaf(n, s, req, res)
}

// Cond evaluates a filter's condition on the message as it is now.
func Cond(n *Node, s Side, req *Req, res *Res) bool {
	p := n.P
	switch n.T {
	case URLFilter: // on responses the request's URL is used
		switch {
		case p["scheme"] != "" && p["scheme"] != req.Scheme:
			return false
		case p["host"] != "" && !HostMatch(req.Host, p["host"]):
			return false
		case p["path"] != "" && p["path"] != req.Path:
			return false
		case p["query"] != "" && p["query"] != req.Query:
			return false
		}
		return true
	case HeaderFilter: // the message's own headers
		v := reqView(req)
		if s == Response {
			v = resView(res)
		}
		vs, _ := v.all(p["name"])
		for _, x := range vs {
			if x == p["value"] {
				return true
			}
		}
		return false
	case QueryFilter:
		q, _ := url.ParseQuery(req.Query)
		vs, ok := q[p["name"]]
		if !ok {
			return false
		}
		if p["value"] == "" {
			return true
		}
		for _, x := range vs {
			if x == p["value"] {
				return true
			}
		}
		return false
	case MethodFilter:
		return strings.EqualFold(req.Method, p["method"])
	case URLRegexFilter:
		return regexp.MustCompile(p["regex"]).MatchString(req.URLString())
	case PortFilter: // the explicit port of the request URL, else the default of its scheme
		port := URLPort(req.Host)
		if port == "" {
			switch req.Scheme {
			case "http":
				port = "80"
			case "https":
				port = "443"
			}
		}
		return port == strconv.Itoa(n.N)
	case RegexFilter: // "iff the value of request header matches regex" - on both sides
		re := regexp.MustCompile(p["regex"])
		vs, _ := reqView(req).all(p["header"])
		for _, x := range vs {
			if re.MatchString(x) {
				return true
			}
		}
		return false
	case CookieFilter:
		var cs []*http.Cookie
		if s == Request {
			cs = (&http.Request{Header: http.Header(req.Header)}).Cookies()
		} else {
			cs = (&http.Response{Header: http.Header(res.Header)}).Cookies()
		}
		for _, c := range cs {
			if c.Name == p["name"] && (p["value"] == "" || p["value"] == c.Value) {
				return true
			}
		}
		return false
	}
	panic("treeref: not a filter: " + n.T)
}

// URLPort is the explicit port of a URL authority ("" if none); an IPv6
// literal is bracketed.
func URLPort(host string) string {
	if strings.HasPrefix(host, "[") {
		if i := strings.Index(host, "]"); i >= 0 && strings.HasPrefix(host[i+1:], ":") {
			return host[i+2:]
		}
		return ""
	}
	if i := strings.LastIndex(host, ":"); i >= 0 {
		return host[i+1:]
	}
	return ""
}

// HostMatch: equality, where a "*" label of the pattern matches exactly one
// label of the host.
func HostMatch(host, pattern string) bool {
	if host == "" {
		return false
	}
	if host == pattern {
		return true
	}
	hl, pl := strings.Split(host, "."), strings.Split(pattern, ".")
	if len(hl) != len(pl) {
		return false
	}
	for i := range hl {
		if pl[i] != "*" && pl[i] != hl[i] {
			return false
		}
	}
	return true
}

func one(key string) []string {
	if key == "" {
		return nil
	}
	return []string{key}
}

// leaf applies a non-verifier leaf.
func leaf(n *Node, s Side, req *Req, res *Res) []string {
	v := reqView(req)
	if s == Response {
		v = resView(res)
	}
	p := n.P
	switch n.T {
	case HeaderAppend:
		return one(v.add(p["name"], p["value"]))
	case HeaderModifier:
		return one(v.set(p["name"], p["value"]))
	case HeaderBlacklist:
		for _, name := range n.Names {
			v.del(name)
		}
	case QueryModifier:
		q, _ := url.ParseQuery(req.Query)
		q.Set(p["name"], p["value"])
		req.Query = q.Encode()
	case URLModifier:
		if p["scheme"] != "" {
			req.Scheme = p["scheme"]
		}
		if p["host"] != "" {
			req.Host = p["host"]
		}
		if p["path"] != "" {
			req.Path = p["path"]
		}
		if p["query"] != "" {
			req.Query = p["query"]
		}
	case StatusModifier:
		res.Status = n.N
	case CookieModifier:
		c := &http.Cookie{Name: p["name"], Value: p["value"]}
		if s == Request {
			line := c.Name + "=" + c.Value
			if old := http.Header(req.Header).Get("Cookie"); old != "" {
				req.Header["Cookie"] = []string{old + "; " + line}
			} else {
				req.Header["Cookie"] = []string{line}
			}
		} else {
			res.Header["Set-Cookie"] = append(res.Header["Set-Cookie"], c.String())
		}
	case SkipRoundTrip:
		req.Skip = true
	case PortModifier:
		// "alters the request URL and Host header to use the provided port";
		// the Host header is written into the header map.
		host := req.Host
		if i := strings.LastIndex(host, ":"); i >= 0 {
			host = host[:i]
		}
		hp := host + ":" + strconv.Itoa(n.N)
		req.Host = hp
		req.Header["Host"] = []string{hp}
	case Noop, Inert:
	default:
		panic("treeref: unknown leaf " + n.T)
	}
	return nil
}

// ---------------------------------------------------------------- verification walk

// Verifiers lists the verifier leaves whose side s a verification query or a
// reset of that side must cover: everything under FIFO groups and under both
// branches of filters, through the scope projection of every node on the
// path. Priority groups are not walked (outside the statement of C13).
func Verifiers(n *Node, s Side) []*Node {
	var out []*Node
	var rec func(n *Node)
	rec = func(n *Node) {
		if n == nil || !n.Acts(s) {
			return
		}
		switch {
		case n.T == Fifo:
			for _, k := range n.Kids {
				rec(k)
			}
		case IsFilter(n.T):
			rec(n.Then)
			rec(n.Else)
		case IsVerifier(n.T):
			out = append(out, n)
		}
	}
	rec(n)
	return out
}

// InElse reports, for every node ID, whether the node lies in the else-branch
// of some filter on its path from the root.
func InElse(root *Node) map[int]bool {
	out := map[int]bool{}
	var rec func(n *Node, in bool)
	rec = func(n *Node, in bool) {
		if n == nil {
			return
		}
		out[n.ID] = in
		for _, k := range n.Kids {
			rec(k, in)
		}
		rec(n.Then, in)
		rec(n.Else, true)
	}
	rec(root, false)
	return out
}

// VerifierUnmet decides, from the documented expectation (Appendix A.2),
// whether a verifier's expectation is unmet by the message. Pingback is not
// decided here (it is a standing expectation; see PingbackMatches).
func VerifierUnmet(n *Node, s Side, req *Req, res *Res) bool {
	p := n.P
	switch n.T {
	case StatusVerifier:
		return res.Status != n.N
	case HeaderVerifier:
		v := reqView(req)
		if s == Response {
			v = resView(res)
		}
		vs, ok := v.all(p["name"])
		if !ok {
			return true
		}
		if p["value"] == "" {
			return false
		}
		for _, x := range vs {
			if x == p["value"] {
				return false
			}
		}
		return true
	case MethodVerifier:
		return req.Method != p["method"]
	case URLVerifier:
		return (p["scheme"] != "" && p["scheme"] != req.Scheme) ||
			(p["host"] != "" && !HostMatch(req.Host, p["host"])) ||
			(p["path"] != "" && p["path"] != req.Path) ||
			(p["query"] != "" && p["query"] != req.Query)
	case QueryVerifier:
		q, err := url.ParseQuery(req.Query)
		if err != nil {
			return true
		}
		vs, ok := q[p["name"]]
		if !ok {
			return true
		}
		if p["value"] == "" {
			return false
		}
		for _, x := range vs {
			if x == p["value"] {
				return false
			}
		}
		return true
	case FailureVerifier:
		return true
	}
	panic("treeref: VerifierUnmet on " + n.T)
}

// PingbackMatches: every non-empty part equals the request URL's part.
func PingbackMatches(n *Node, req *Req) bool {
	p := n.P
	return !((p["scheme"] != "" && p["scheme"] != req.Scheme) ||
		(p["host"] != "" && p["host"] != req.Host) ||
		(p["path"] != "" && p["path"] != req.Path) ||
		(p["query"] != "" && p["query"] != req.Query))
}
