package treeref

// Generator pieces and net/http plumbing shared by the checks of C12 and C13.

import (
	"net/http"
	"net/url"
	"strings"

	"pgregory.net/rapid"
)

var (
	HdrNames     = []string{"X-A", "X-B", "x-a"}
	Vals         = []string{"1", "2"}
	QNames       = []string{"p", "q"}
	Methods      = []string{"GET", "POST", "get"}
	CookieNames  = []string{"c", "d"}
	Hosts        = []string{"example.com", "a.example.com", "b.example.com", "a.b.example.com", "other.org"}
	HostPatterns = []string{"example.com", "a.example.com", "*.example.com", "*.*.example.com", "*.org", "a.*.com", "b.example.com", "example.com:8080", "*.example.com:8080", "[::1]:8080"}
	Paths        = []string{"/", "/x", "/y", "/", "/x", "/y", "/~user", "/wiki/Foo_(bar)", "/v1/items/*", "/a b"}
	Schemes      = []string{"http", "https"}
)

func Pick(t *rapid.T, label string, xs []string) string { return xs[Uni(t, label, len(xs))] }

// uni draws an (almost) uniform integer in [0,n). rapid's integer generators
// favour small values, which would starve the later alternatives of every
// weighted choice below; single bits are unbiased.
func Uni(t *rapid.T, label string, n int) int {
	v := 0
	for i := 0; i < 10; i++ {
		v <<= 1
		if rapid.Bool().Draw(t, label) {
			v |= 1
		}
	}
	return v % n
}

// genScope draws one of: absent, [request], [response], both, [] - restricted
// to what the type supports (an unsupported scope is a fault, injected separately).
func GenScope(t *rapid.T, n *Node) {
	k := Uni(t, "scope", 18)
	var sc []string
	switch {
	case k < 8:
		return // absent
	case k < 10:
		sc = []string{"request"}
	case k < 12:
		sc = []string{"response"}
	case k < 15:
		sc = []string{"request", "response"}
		if k == 14 {
			sc = []string{"response", "request"}
		}
	case k == 15:
		sc = []string{}
	case k == 16: // a kind named twice is still just that kind
		sc = []string{"request", "request"}
	default:
		sc = []string{"response", "request", "response"}
	}
	var ok []string
	for _, s := range sc {
		if Supports(n.T, Side(s)) {
			ok = append(ok, s)
		}
	}
	if len(ok) != len(sc) && len(ok) == 0 {
		return // would be unsupported: leave absent
	}
	n.HasScope = true
	n.Scope = append([]string{}, ok...)
}

// GenFilterCond draws the kind and the condition of a filter node.
func GenFilterCond(t *rapid.T, n *Node) {
	switch Uni(t, "fkind", 5) {
	case 0:
		n.T = URLFilter
		if rapid.Bool().Draw(t, "fscheme") {
			n.P["scheme"] = Pick(t, "scheme", Schemes)
		}
		if rapid.Bool().Draw(t, "fhost") {
			n.P["host"] = Pick(t, "hostpat", HostPatterns)
		}
		if Uni(t, "fpath", 3) == 0 {
			n.P["path"] = Pick(t, "path", Paths)
		}
		if Uni(t, "fquery", 4) == 0 {
			n.P["query"] = Pick(t, "qname", QNames) + "=" + Pick(t, "qval", Vals)
		}
	case 1:
		n.T = HeaderFilter
		if Uni(t, "special", 10) == 0 {
			n.P["name"], n.P["value"] = "Content-Length", Pick(t, "clv", []string{"7", "42"})
		} else {
			n.P["name"], n.P["value"] = Pick(t, "hname", HdrNames), Pick(t, "hval", HeaderVals)
		}
	case 2:
		n.T = QueryFilter
		n.P["name"] = Pick(t, "qname", QNames)
		if rapid.Bool().Draw(t, "withval") {
			n.P["value"] = Pick(t, "qval", Vals)
		}
	case 3:
		n.T = MethodFilter
		n.P["method"] = Pick(t, "method", Methods)
	case 4:
		n.T = CookieFilter
		n.P["name"] = Pick(t, "cname", CookieNames)
		if rapid.Bool().Draw(t, "withval") {
			n.P["value"] = Pick(t, "cval", Vals)
		}
	}
}

func genValues(t *rapid.T, label string) []string {
	switch Uni(t, label, 10) {
	case 0, 1:
		return nil
	case 2:
		return []string{"1"}
	case 3:
		return []string{"2"}
	case 4:
		return []string{"1", "2"}
	case 5:
		return []string{"2", "1"}
	case 6: // one value that contains a comma (a list sent on one line, a date, a product string)
		return []string{"1, 2"}
	case 7: // a superset list on one line
		return []string{"1, 2, 3"}
	case 8:
		return []string{"gzip, deflate"}
	}
	return []string{"gzip"}
}

// HeaderVals: values header filters and verifiers are configured with: plain
// ones, one that contains a comma, one that is an element of a comma list some
// messages carry.
var HeaderVals = []string{"1", "2", "1", "2", "1, 2", "gzip"}

// PortedHosts: hosts with a port and bracketed IPv6 literals (C13 pingbacks).
var PortedHosts = []string{"example.com:8080", "[::1]", "[::1]:8080", "a.example.com:80"}

// OddQueryPairs decode to values with a byte that is not valid UTF-8, control
// bytes, DEL, quote and backslash, U+2028, an astral character, NUL.
var OddQueryPairs = []string{"q=%FF", "p=a%07b", "q=%7F", "p=%22%5C", "q=%E2%80%A8", "p=%F0%9F%98%80", "q=%C3%28", "p=%00", "q=%0B%0C"}

// OddHeaderValues: the same kinds of content as header values; the first
// WireSafeOddHeaderValues of them are legal field values on the wire (no
// control bytes).
var OddHeaderValues = []string{"caf\xe9", "\"quoted\\\"", "\u2028line", "\U0001F600", "\xff\xfe", "a\x07b", "\x7f", "x\x0by"}

const WireSafeOddHeaderValues = 5

// BadQueryPairs: pairs url.ParseQuery rejects (bad escape, stray percent sign,
// semicolon separator) while it keeps decoding the pairs around them.
var BadQueryPairs = []string{"p=%zz", "x=50%", "q=1;p=2", "z=%"}

func genQuery(t *rapid.T, allowBad bool) string {
	var parts []string
	for _, q := range []string{"p=1", "p=2", "q=1", "q=2"} {
		if Uni(t, "q:"+q, 3) == 0 {
			parts = append(parts, q)
		}
	}
	if allowBad && Uni(t, "badquery", 16) == 0 {
		// unparsable pair: the query as a whole "fails to parse", the other pairs still decode
		parts = append(parts, Pick(t, "badpair", BadQueryPairs))
	}
	return strings.Join(parts, "&")
}

func GenPair(t *rapid.T) (Req, Res) { return GenPairOpt(t, true) }

// GenPairOpt is GenPair with the unparsable query pair switched on or off.
func GenPairOpt(t *rapid.T, allowBadQuery bool) (Req, Res) {
	var p struct {
		Req Req
		Res Res
	}
	p.Req = Req{
		Method: Pick(t, "method", Methods), Scheme: Pick(t, "scheme", Schemes), Host: Pick(t, "host", Hosts),
		Path: Pick(t, "path", Paths), Query: genQuery(t, allowBadQuery), Header: map[string][]string{},
		CL: []int64{0, -1, 42}[Uni(t, "cl", 3)],
	}
	if Uni(t, "hostheader", 5) > 0 {
		p.Req.HostH = p.Req.Host
	}
	for _, h := range []string{"X-A", "X-B"} {
		if v := genValues(t, "req:"+h); v != nil {
			p.Req.Header[h] = v
		}
	}
	switch Uni(t, "cookie", 5) {
	case 1:
		p.Req.Header["Cookie"] = []string{"c=1"}
	case 2:
		p.Req.Header["Cookie"] = []string{"c=2; d=1"}
	case 3:
		p.Req.Header["Cookie"] = []string{"d=2"}
	}
	p.Res = Res{Status: []int{200, 404, 500}[Uni(t, "status", 3)], Header: map[string][]string{},
		CL: []int64{0, -1, 42}[Uni(t, "rcl", 3)]}
	for _, h := range []string{"X-A", "X-B"} {
		if v := genValues(t, "res:"+h); v != nil {
			p.Res.Header[h] = v
		}
	}
	switch Uni(t, "setcookie", 5) {
	case 1:
		p.Res.Header["Set-Cookie"] = []string{"c=1"}
	case 2:
		p.Res.Header["Set-Cookie"] = []string{"c=2", "d=1"}
	case 3:
		p.Res.Header["Set-Cookie"] = []string{"d=2; Path=/"}
	}
	return p.Req, p.Res
}

func CloneHTTPHeader(h map[string][]string) http.Header {
	out := http.Header{}
	for k, v := range h {
		if len(v) > 0 {
			out[k] = append([]string{}, v...)
		}
	}
	return out
}

// WirePaths: spellings of a path on the request line that differ from Go's
// canonical escaping of the decoded path (characters sent verbatim that Go
// would escape, unnecessary and lower-case escapes), with the decoded path.
var WirePaths = [][2]string{
	{"/wiki/Foo_(bar)", "/wiki/Foo_(bar)"},
	{"/v1/items/*", "/v1/items/*"},
	{"/%7Euser", "/~user"},
	{"/%7euser", "/~user"},
	{"/it's!", "/it's!"},
	{"/%78", "/x"},
	{"/a%20b", "/a b"},
	{"/%79", "/y"},
}

func RealRequest(m *Req) *http.Request {
	u := &url.URL{Scheme: m.Scheme, Host: m.Host, Path: m.Path, RawQuery: m.Query}
	if m.Wire != "" {
		// as a server reads the request line
		p, err := url.ParseRequestURI(m.Wire)
		if err != nil {
			panic(err)
		}
		u.Path, u.RawPath = p.Path, p.RawPath
		if u.Path != m.Path {
			panic("treeref: wire path " + m.Wire + " does not decode to " + m.Path)
		}
	}
	return &http.Request{
		Method: m.Method,
		URL:    u,
		Host:   m.HostH, Header: CloneHTTPHeader(m.Header), ContentLength: m.CL,
		Proto: "HTTP/1.1", ProtoMajor: 1, ProtoMinor: 1, Body: http.NoBody,
	}
}

func RealResponse(m *Res, req *http.Request) *http.Response {
	return &http.Response{
		StatusCode: m.Status, Header: CloneHTTPHeader(m.Header), ContentLength: m.CL, Request: req,
		Proto: "HTTP/1.1", ProtoMajor: 1, ProtoMinor: 1, Body: http.NoBody,
	}
}
