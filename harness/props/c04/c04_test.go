// Package c04 decides property C04: blind CONNECT tunnels are byte-transparent
// both ways and propagate end-of-stream.
package c04

import (
	"bufio"
	"bytes"
	"crypto/tls"
	"encoding/json"
	"fmt"
	"io"
	"net"
	"net/http"
	"net/http/httptest"
	"net/url"
	"strings"
	"sync"
	"testing"
	"time"

	"github.com/google/martian/v3"
	"github.com/google/martian/v3/trafficshape"
	"pgregory.net/rapid"

	"verifharness/internal/kit"
	"verifharness/internal/netkit"
)

func TestMain(m *testing.M) { kit.Main(m, "C04") }

// Stream is the bytes one end writes and how.
type Stream struct {
	Size   int    `json:"size"`
	Seed   uint64 `json:"seed"`
	Writes []int  `json:"writes"` // write sizes, cycled
	Pause  []int  `json:"pause"`  // pause in 100us units after each write, cycled
}

// Case is one tunnel.
type Case struct {
	C2T Stream `json:"c2t"`
	T2C Stream `json:"t2c"`
	// Early: how much of the client's stream is written together with the
	// CONNECT head, before the 200 is seen.
	Early    string `json:"early"` // none | coalesced | split
	EarlyLen int    `json:"early_len,omitempty"`
	// Closer: who ends the tunnel and how.
	//  client-half-early / target-half-early: half-close right after the own
	//    stream, while the peer still holds back the second half of its stream
	//    until it has seen the end-of-stream;
	//  client-half / target-half: half-close after everything was delivered;
	//  client-full / target-full / both: full close after everything was delivered.
	Closer string `json:"closer"`
	Route  string `json:"route"` // direct | downstream
	// DownCoalesce: the downstream proxy writes its 200 and the first target
	// bytes in one segment.
	DownCoalesce bool `json:"down_coalesce,omitempty"`
	Unreachable  bool `json:"unreachable,omitempty"`
	// Twin: a second tunnel (to another target) carries traffic both ways
	// through the same proxy at the same time; nothing may cross between tunnels.
	// Shaped: the proxy is served on a trafficshape.Listener (no shapes configured).
	Shaped bool `json:"shaped,omitempty"`
	Twin   bool `json:"twin,omitempty"`
	// TwinWhileOpen: the second tunnel has to carry its traffic and finish while
	// the first one is still open and has gone quiet (otherwise it may finish
	// while the first one is being torn down).
	TwinWhileOpen bool `json:"twin_while_open,omitempty"`
	// Head: how the CONNECT itself is marked: "" (HTTP/1.1), "close" (HTTP/1.1
	// with Connection: close), "http10", "http10-keep-alive".
	Head string `json:"head,omitempty"`
	// OpaqueDial: the dial function the proxy was given returns a net.Conn that
	// has no CloseWrite (a wrapper, as metering or TLS-less custom dialers do):
	// end-of-stream from the client can then only be passed on by closing it.
	OpaqueDial bool `json:"opaque_dial,omitempty"`
	// Prelude: before the CONNECT the same client connection carries this many
	// ordinary HTTP exchanges (keep-alive), as a browser's proxy connection may.
	Prelude int `json:"prelude,omitempty"`
	// AgeMs: the tunnel is kept open (carrying a byte both ways now and then)
	// for this long before the streams are written.
	AgeMs int `json:"age_ms,omitempty"`
	// TimeoutMs: the proxy's SetTimeout value (0 = 60 s, longer than any case).
	TimeoutMs int `json:"timeout_ms,omitempty"`
	// DownHead: framing header fields the downstream proxy puts on its 200 although it must not
	// (RFC 7231 4.3.6: a client ignores them): "te-chunked" or "content-length".
	DownHead string `json:"down_head,omitempty"`
	// PreludePauseMs: pause after each ordinary exchange before the CONNECT.
	PreludePauseMs int `json:"prelude_pause_ms,omitempty"`
	// DialTimeout (with Unreachable): the dial fails with a timeout-type error instead of a refusal.
	DialTimeout bool   `json:"dial_timeout,omitempty"`
	TwinSize    int    `json:"twin_size,omitempty"`
	TwinSeed    uint64 `json:"twin_seed,omitempty"`
	// PreludeLocal: which of the ordinary exchanges before the CONNECT the proxy answers itself,
	// without a round trip (a request modifier calls Context.SkipRoundTrip, as martian's API host,
	// static file serving or an authentication refusal do; a response modifier supplies the body):
	// "" (none: all are forwarded to an origin), "all", "first", "last".
	PreludeLocal string `json:"prelude_local,omitempty"`
	// DialDelayMs: the dial function (towards the target, or towards the downstream proxy) returns
	// only after this long - longer than TimeoutMs in the generated cases: a far or slow target.
	DialDelayMs int `json:"dial_delay_ms,omitempty"`
	// DownKeepOpen (downstream route, unreachable target): after its refusal ("502", Content-Length: 0)
	// the downstream proxy keeps its connection open for a further request, as HTTP/1.1 proxies do.
	DownKeepOpen bool `json:"down_keep_open,omitempty"`
	// TargetFirst: the target speaks first (a banner protocol): it writes the first 16 bytes of
	// its stream as soon as it has accepted the connection, before the client has seen the 200.
	TargetFirst bool `json:"target_first,omitempty"`
	// IdleMs: once the tunnel is set up nothing is sent either way for this long - longer than
	// TimeoutMs in the generated cases, so the proxy may end the tunnel. Then the target sends a
	// byte and the client, if that byte reaches it, answers with one.
	IdleMs int `json:"idle_ms,omitempty"`
	// Talk (with AgeMs): who sends during the long stretch: "" (both ends in turn), "client" (the
	// target is silent: an upload), "target" (the client is silent: a download, an event stream).
	// TalkPeriodMs: the pause between the sender's bytes (0 = 500), well below TimeoutMs.
	Talk         string `json:"talk,omitempty"`
	TalkPeriodMs int    `json:"talk_period_ms,omitempty"`
	// Shape (shaped listener): the listener has a traffic shape whose url_regex matches the
	// ordinary exchanges before the CONNECT (not the CONNECT: its bytes are nobody's response).
	Shape *ShapeCfg `json:"shape,omitempty"`
	// ClientLeg / TargetLeg: the transport between client and proxy (the proxy's listener) and
	// between proxy and target (what the dial function returns; TLS on the direct route only):
	// "" plain TCP, "tls12" / "tls13" (a TLS listener / a dialled *tls.Conn: still a blind tunnel,
	// nothing is intercepted), "eof-with-data" (plain TCP behind a net.Conn whose Read returns the
	// last bytes together with io.EOF when the end follows them at once, as the io.Reader contract
	// allows and *tls.Conn does up to TLS 1.2).
	ClientLeg string `json:"client_leg,omitempty"`
	TargetLeg string `json:"target_leg,omitempty"`
	// TailC / TailT: this many of the last bytes of the client's / target's stream are written in
	// one segment with what ends that direction (FIN, close_notify): "finishes sending and closes"
	// at once. Applies where that end's close is observed by the peer (see runOnce).
	TailC int `json:"tail_c,omitempty"`
	TailT int `json:"tail_t,omitempty"`
	// AuthHost / AuthPort: the authority of the CONNECT ("" = target.test, 0 = 443; -1 = the port
	// the target really listens on): a name, an IPv4 literal or a bracketed IPv6 literal, and any
	// port - 80 and 443 included, which are some scheme's default but the port to dial all the same.
	AuthHost string `json:"auth_host,omitempty"`
	AuthPort int    `json:"auth_port,omitempty"`
	// WriteBps / ReadBps (shaped listener): the listener's write / read bitrate is lowered to this
	// many BYTES per second (SetWriteBitrate / SetReadBitrate): a throttled link. Delivery is then
	// given size/bitrate more time; what arrives must still be what was sent.
	WriteBps int `json:"write_bps,omitempty"`
	ReadBps  int `json:"read_bps,omitempty"`
}

// ShapeCfg is one action of a traffic shape for the URLs of the exchanges before the CONNECT,
// at a byte offset of a response body: beyond the end of those responses (10 bytes) in most
// cases, so that it is still pending when the CONNECT arrives on the same connection.
type ShapeCfg struct {
	Kind  string `json:"kind"`  // close | halt | throttle
	At    int    `json:"at"`    // byte offset of the action
	Count int    `json:"count"` // 1 or -1 (close, halt)
}

func (sc ShapeCfg) json() string {
	switch sc.Kind {
	case "close":
		return fmt.Sprintf(`{"trafficshape":{"shapes":[{"url_regex":"test/p[0-9]","close_connections":[{"byte":%d,"count":%d}]}]}}`, sc.At, sc.Count)
	case "halt":
		// (inside an ordinary response a short one; pending for longer than any wait of a case)
		dur := 60000
		if sc.At < 10 {
			dur = 30
		}
		return fmt.Sprintf(`{"trafficshape":{"shapes":[{"url_regex":"test/p[0-9]","halts":[{"byte":%d,"duration":%d,"count":%d}]}]}}`, sc.At, dur, sc.Count)
	}
	return fmt.Sprintf(`{"trafficshape":{"shapes":[{"url_regex":"test/p[0-9]","throttles":[{"bytes":"%d-","bandwidth":100}]}]}}`, sc.At)
}

// runTwin drives the second tunnel and reports what it saw.
func runTwin(dialProxy func() (net.Conn, error), tl net.Listener, size int, seed uint64, T time.Duration) (v kit.Verdict) {
	up, down := kit.Bytes(seed, size), kit.Bytes(seed+1, size)
	conn, err := dialProxy()
	if err != nil {
		return kit.Failf("C04/harness/dial", "%v", err)
	}
	defer conn.Close()
	conn.SetDeadline(time.Now().Add(30*time.Second + 4*T))
	fmt.Fprintf(conn, "CONNECT twin.test:443 HTTP/1.1\r\nHost: twin.test:443\r\n\r\n")
	br := bufio.NewReader(conn)
	res, err := http.ReadResponse(br, &http.Request{Method: "CONNECT"})
	if err != nil || res.StatusCode != 200 {
		return kit.Failf("C04/twin/any/timeout-no-200", "second tunnel: %v %v", res, err)
	}
	type acc struct {
		c   net.Conn
		err error
	}
	ch := make(chan acc, 1)
	go func() {
		if t, ok := tl.(*net.TCPListener); ok {
			t.SetDeadline(time.Now().Add(T))
		}
		c, err := tl.Accept()
		ch <- acc{c, err}
	}()
	a := <-ch
	if a.err != nil {
		return kit.Failf("C04/twin/any/timeout-target-not-contacted", "second tunnel: %v", a.err)
	}
	tc := a.c
	defer tc.Close()
	tc.SetDeadline(time.Now().Add(30*time.Second + 4*T))
	var wg sync.WaitGroup
	var gotUp, gotDown []byte
	// two messages each way with a gap: state that is torn away from this
	// tunnel in between (by the other tunnel's setup) shows on the second one
	wg.Add(4)
	go func() {
		defer wg.Done()
		conn.Write(up[:len(up)/2])
		time.Sleep(15 * time.Millisecond)
		conn.Write(up[len(up)/2:])
		halfClose(conn)
	}()
	go func() {
		defer wg.Done()
		tc.Write(down[:len(down)/2])
		time.Sleep(15 * time.Millisecond)
		tc.Write(down[len(down)/2:])
		halfClose(tc)
	}()
	go func() { defer wg.Done(); gotUp, _ = io.ReadAll(tc) }()
	go func() { defer wg.Done(); gotDown, _ = io.ReadAll(br) }()
	wg.Wait()
	if !bytes.Equal(gotUp, up) {
		v.Addf("C04/twin/any/client-to-target-bytes-differ", "second concurrent tunnel: %s", kit.Diff(up, gotUp))
	}
	if !bytes.Equal(gotDown, down) {
		v.Addf("C04/twin/any/target-to-client-bytes-differ", "second concurrent tunnel: %s", kit.Diff(down, gotDown))
	}
	return v
}

type dialTimeoutErr struct{}

func (dialTimeoutErr) Error() string   { return "i/o timeout (harness)" }
func (dialTimeoutErr) Timeout() bool   { return true }
func (dialTimeoutErr) Temporary() bool { return true }

// opaqueConn hides every optional method of the connection it wraps.
type opaqueConn struct{ net.Conn }

func connectHead(kind, authority string) []byte {
	switch kind {
	case "close":
		return []byte("CONNECT " + authority + " HTTP/1.1\r\nHost: " + authority + "\r\nConnection: close\r\n\r\n")
	case "http10":
		return []byte("CONNECT " + authority + " HTTP/1.0\r\nHost: " + authority + "\r\n\r\n")
	case "http10-keep-alive":
		return []byte("CONNECT " + authority + " HTTP/1.0\r\nHost: " + authority + "\r\nConnection: keep-alive\r\n\r\n")
	}
	return []byte("CONNECT " + authority + " HTTP/1.1\r\nHost: " + authority + "\r\n\r\n")
}

func minPositive(a, b int) int {
	if a <= 0 || (b > 0 && b < a) {
		return b
	}
	return a
}

// hostOf is the host of an authority, with or without a port, without brackets.
func hostOf(authority string) string {
	if h, _, err := net.SplitHostPort(authority); err == nil {
		return h
	}
	return strings.TrimSuffix(strings.TrimPrefix(authority, "["), "]")
}

func (s Stream) bytes() []byte { return kit.Bytes(s.Seed, s.Size) }

// writeStream writes b[from:to] in the stream's write sizes and pauses.
func writeStream(w io.Writer, s Stream, b []byte, from, to int) error {
	k := 0
	for i := from; i < to; {
		n := 4096
		if len(s.Writes) > 0 {
			n = s.Writes[k%len(s.Writes)]
		}
		if n < 1 {
			n = 1
		}
		if i+n > to {
			n = to - i
		}
		if _, err := w.Write(b[i : i+n]); err != nil {
			return err
		}
		i += n
		if len(s.Pause) > 0 {
			if p := s.Pause[k%len(s.Pause)]; p > 0 {
				time.Sleep(time.Duration(p) * 100 * time.Microsecond)
			}
		}
		k++
	}
	return nil
}

// collector reads everything from a connection and notes when EOF came.
type collector struct {
	mu   sync.Mutex
	buf  bytes.Buffer
	eof  bool
	err  error
	done chan struct{}
}

func collect(r io.Reader) *collector {
	c := &collector{done: make(chan struct{})}
	go func() {
		defer close(c.done)
		tmp := make([]byte, 64<<10)
		for {
			n, err := r.Read(tmp)
			c.mu.Lock()
			c.buf.Write(tmp[:n])
			if err != nil {
				c.eof = err == io.EOF
				c.err = err
				c.mu.Unlock()
				return
			}
			c.mu.Unlock()
		}
	}()
	return c
}

func (c *collector) len() int {
	c.mu.Lock()
	defer c.mu.Unlock()
	return c.buf.Len()
}

func (c *collector) bytes() []byte {
	c.mu.Lock()
	defer c.mu.Unlock()
	return append([]byte(nil), c.buf.Bytes()...)
}

func (c *collector) ended() (bool, error) {
	c.mu.Lock()
	defer c.mu.Unlock()
	return c.err != nil, c.err
}

func waitDone(c *collector, bound time.Duration) bool {
	select {
	case <-c.done:
		return true
	case <-time.After(bound):
		return false
	}
}

// downstream is a minimal well-behaved CONNECT proxy.
func downstream(l net.Listener, targetAddr string, coalesce int, extraHead string, refuse, keepOpen bool, routes ...func(host string) string) {
	for {
		c, err := l.Accept()
		if err != nil {
			return
		}
		go func() {
			defer c.Close()
			br := bufio.NewReader(c)
			req, err := http.ReadRequest(br)
			if err != nil || req.Method != "CONNECT" {
				return
			}
			to := targetAddr
			for _, r := range routes {
				if a := r(req.Host); a != "" {
					to = a
				}
			}
			co := coalesce
			if to != targetAddr {
				co = 0
			}
			if refuse && to == targetAddr {
				// the target cannot be reached from here: a complete answer, and the
				// connection stays usable for the next request if keepOpen
				c.Write([]byte("HTTP/1.1 502 Bad Gateway\r\nContent-Length: 0\r\n\r\n"))
				if keepOpen {
					io.Copy(io.Discard, br) // until the peer closes
				}
				return
			}
			t, err := net.DialTimeout("tcp", to, 5*time.Second)
			if err != nil {
				c.Write([]byte("HTTP/1.1 502 Bad Gateway\r\nContent-Length: 0\r\n\r\n"))
				return
			}
			defer t.Close()
			head := []byte("HTTP/1.1 200 Connection established\r\n" + extraHead + "\r\n")
			if co > 0 {
				// wait for the first target bytes and send them with the 200
				buf := make([]byte, co)
				t.SetReadDeadline(time.Now().Add(2 * time.Second))
				n, _ := io.ReadFull(t, buf)
				t.SetReadDeadline(time.Time{})
				head = append(head, buf[:n]...)
			}
			c.Write(head)
			var wg sync.WaitGroup
			wg.Add(2)
			go func() { defer wg.Done(); io.Copy(t, br); halfClose(t) }()
			go func() { defer wg.Done(); io.Copy(c, t); halfClose(c) }()
			wg.Wait()
		}()
	}
}

func shapeOf(c Case) string {
	s := c.Route
	if c.Shaped {
		s += "-shaped-listener"
	}
	if c.DownCoalesce {
		s += "-coalesced-200"
	}
	if c.DownHead != "" {
		s += "-200-with-" + c.DownHead
	}
	return s
}

// confirmed holds the signatures of expired waits that a re-validation with the
// threefold bound has reproduced in this process: a further occurrence of one of
// them is reported as it is (an open finding would otherwise cost 4T per case).
var confirmed = struct {
	sync.Mutex
	sig map[string]bool
}{sig: map[string]bool{}}

func run(c Case) kit.Verdict {
	v := runOnce(c, kit.T())
	for _, f := range v {
		if kit.Shrinking() {
			break
		}
		if strings.Contains(f.Sig, "timeout") || strings.Contains(f.Sig, "never") || strings.Contains(f.Sig, "not-") {
			confirmed.Lock()
			seen := confirmed.sig[f.Sig]
			confirmed.Unlock()
			if seen {
				continue
			}
			// (a stretch of periodic traffic under a short proxy timeout is repeated with
			// both spans doubled and the period kept: a sender that was held up for longer
			// than the timeout once does not make a finding)
			c2 := c
			if c.AgeMs > 0 && c.TimeoutMs > 0 {
				c2.AgeMs, c2.TimeoutMs = 2*c.AgeMs, 2*c.TimeoutMs
			}
			v2 := runOnce(c2, 3*kit.T())
			if len(v2) == 0 {
				kit.Inconclusive("tunnel")
				return nil
			}
			confirmed.Lock()
			for _, f2 := range v2 {
				confirmed.sig[f2.Sig] = true
			}
			confirmed.Unlock()
			return v2
		}
	}
	return v
}

func runOnce(c Case, T time.Duration) (v kit.Verdict) {
	c2t, t2c := c.C2T.bytes(), c.T2C.bytes()

	tl, err := netkit.Listen()
	if err != nil {
		return kit.Failf("C04/harness/listen", "%v", err)
	}
	defer tl.Close()
	accepted := make(chan net.Conn, 4)
	authHost, authPort := "target.test", "443"
	if c.AuthHost != "" {
		authHost = c.AuthHost
	}
	switch {
	case c.AuthPort > 0:
		authPort = fmt.Sprint(c.AuthPort)
	case c.AuthPort < 0:
		_, authPort, _ = net.SplitHostPort(tl.Addr().String())
	}
	authority := authHost + ":" + authPort
	// (the harness routes by host, whatever the port: an authority that arrives altered
	// is a finding of its own, not a dial that fails)
	isTarget := func(addr string) bool { return hostOf(addr) == hostOf(authority) }
	var seenMu sync.Mutex
	var downstreamSaw, targetDials []string
	targetEarly, downCoalesce := 0, 0
	if (c.DownCoalesce && c.Route == "downstream") || c.TargetFirst {
		targetEarly = 16
		if targetEarly > len(t2c) {
			targetEarly = len(t2c)
		}
		if c.DownCoalesce && c.Route == "downstream" {
			downCoalesce = targetEarly
		}
	}
	go func() {
		for {
			raw, err := tl.Accept()
			if err != nil {
				return
			}
			go func() {
				var tc net.Conn = &corkConn{Conn: raw}
				if isTLSLeg(c.TargetLeg) {
					ts := tls.Server(tc, legConfig(c.TargetLeg, ""))
					ts.SetDeadline(time.Now().Add(10 * time.Second))
					if err := ts.Handshake(); err != nil {
						raw.Close()
						return
					}
					ts.SetDeadline(time.Time{})
					tc = ts
				}
				if targetEarly > 0 {
					// a target that talks first: its first bytes can reach the
					// downstream proxy before that has answered the CONNECT
					tc.Write(t2c[:targetEarly])
				}
				accepted <- tc
			}()
		}
	}()
	dl, err := netkit.Listen()
	if err != nil {
		return kit.Failf("C04/harness/listen", "%v", err)
	}
	defer dl.Close()
	var twinL net.Listener
	if c.Twin {
		if twinL, err = netkit.Listen(); err != nil {
			return kit.Failf("C04/harness/listen", "%v", err)
		}
		defer twinL.Close()
	}
	go downstream(dl, tl.Addr().String(), downCoalesce, map[string]string{"te-chunked": "Transfer-Encoding: chunked\r\n", "content-length": "Content-Length: 7\r\n"}[c.DownHead], c.Unreachable && c.Route == "downstream", c.DownKeepOpen, func(host string) string {
		if twinL != nil && strings.HasPrefix(host, "twin.test") {
			return twinL.Addr().String()
		}
		seenMu.Lock()
		downstreamSaw = append(downstreamSaw, host)
		seenMu.Unlock()
		return ""
	})

	var preludeOrigin *netkit.Origin
	if c.Prelude > 0 && c.PreludeLocal != "all" {
		preludeOrigin = netkit.NewOrigin(func(r *netkit.ReqLog) netkit.Script {
			body := "PRELUDE-" + r.Header.Get("X-Verif-Id")
			return netkit.Script{Raw: []byte(fmt.Sprintf("HTTP/1.1 200 OK\r\nContent-Length: %d\r\n\r\n%s", len(body), body)), CutAt: -1}
		})
		defer preludeOrigin.Close()
	}
	dialer := &netkit.Dialer{Route: func(addr string) string {
		switch {
		case strings.HasPrefix(addr, "twin.test") && twinL != nil:
			return twinL.Addr().String()
		case strings.HasPrefix(addr, "downstream.test"):
			return dl.Addr().String()
		case strings.HasPrefix(addr, "origin.test") && preludeOrigin != nil:
			return preludeOrigin.Addr
		case isTarget(addr):
			if c.Unreachable {
				return ""
			}
			return tl.Addr().String()
		}
		return ""
	}}
	p := martian.NewProxy()
	p.SetTimeout(60 * time.Second)
	if c.TimeoutMs > 0 {
		p.SetTimeout(time.Duration(c.TimeoutMs) * time.Millisecond)
	}
	dial := func(network, addr string) (net.Conn, error) {
		if isTarget(addr) {
			seenMu.Lock()
			targetDials = append(targetDials, addr)
			seenMu.Unlock()
		}
		return dialer.Dial(network, addr)
	}
	if c.Unreachable && c.DialTimeout {
		inner := dial
		dial = func(network, addr string) (net.Conn, error) {
			if isTarget(addr) {
				return nil, &net.OpError{Op: "dial", Net: network, Err: dialTimeoutErr{}}
			}
			return inner(network, addr)
		}
	}
	if c.OpaqueDial {
		inner := dial
		dial = func(network, addr string) (net.Conn, error) {
			conn, err := inner(network, addr)
			if err != nil {
				return nil, err
			}
			if !isTarget(addr) {
				return conn, nil // the second tunnel half-closes both ways at once
			}
			return opaqueConn{conn}, nil
		}
	}
	if c.DialDelayMs > 0 {
		inner := dial
		dial = func(network, addr string) (net.Conn, error) {
			if isTarget(addr) || strings.HasPrefix(addr, "downstream.test") {
				time.Sleep(time.Duration(c.DialDelayMs) * time.Millisecond)
			}
			return inner(network, addr)
		}
	}
	switch {
	case isTLSLeg(c.TargetLeg):
		inner := dial
		dial = func(network, addr string) (net.Conn, error) {
			conn, err := inner(network, addr)
			if err != nil || !isTarget(addr) {
				return conn, err
			}
			tconn := tls.Client(conn, legConfig(c.TargetLeg, "target.test"))
			tconn.SetDeadline(time.Now().Add(10 * time.Second))
			if err := tconn.Handshake(); err != nil {
				conn.Close()
				return nil, err
			}
			tconn.SetDeadline(time.Time{})
			return tconn, nil
		}
	case c.TargetLeg == "eof-with-data":
		inner := dial
		dial = func(network, addr string) (net.Conn, error) {
			conn, err := inner(network, addr)
			if t, ok := conn.(*net.TCPConn); ok && err == nil && (isTarget(addr) || strings.HasPrefix(addr, "downstream.test")) {
				return &eofTailConn{TCPConn: t}, nil
			}
			return conn, err
		}
	}
	p.SetDial(dial)
	if c.PreludeLocal != "" {
		// requests for local.test are answered by the proxy itself: no round trip
		p.SetRequestModifier(martian.RequestModifierFunc(func(req *http.Request) error {
			if req.Method != "CONNECT" && req.URL.Hostname() == "local.test" {
				martian.NewContext(req).SkipRoundTrip()
			}
			return nil
		}))
		p.SetResponseModifier(martian.ResponseModifierFunc(func(res *http.Response) error {
			if req := res.Request; req != nil && req.Method != "CONNECT" && req.URL.Hostname() == "local.test" {
				body := "PRELUDE-" + req.Header.Get("X-Verif-Id")
				res.Body = io.NopCloser(strings.NewReader(body))
				res.ContentLength = int64(len(body))
				res.Header.Set("Content-Length", fmt.Sprint(len(body)))
			}
			return nil
		}))
	}
	if c.Route == "downstream" {
		p.SetDownstreamProxy(&url.URL{Scheme: "http", Host: "downstream.test:3128"})
	}
	var wrap func(net.Listener) net.Listener
	if c.Shaped {
		shapeErr := ""
		wrap = func(l net.Listener) net.Listener {
			tsl := trafficshape.NewListener(l)
			if c.Shape != nil {
				// configured, as over the API, before any client connects
				rw := httptest.NewRecorder()
				trafficshape.NewHandler(tsl).ServeHTTP(rw, httptest.NewRequest("POST", "http://martian.proxy/shape-traffic", strings.NewReader(c.Shape.json())))
				if rw.Code != 200 {
					shapeErr = fmt.Sprintf("%d %s", rw.Code, rw.Body.String())
				}
			}
			if c.WriteBps > 0 {
				tsl.SetWriteBitrate(int64(c.WriteBps) * 8)
			}
			if c.ReadBps > 0 {
				tsl.SetReadBitrate(int64(c.ReadBps) * 8)
			}
			return tsl
		}
		defer func() {
			if shapeErr != "" {
				v = kit.Failf("C04/harness/shape-config", "the shape configuration was rejected: %s", shapeErr)
			}
		}()
	}
	switch {
	case c.Shaped:
	case isTLSLeg(c.ClientLeg):
		wrap = func(l net.Listener) net.Listener { return tls.NewListener(l, legConfig(c.ClientLeg, "")) }
	case c.ClientLeg == "eof-with-data":
		wrap = func(l net.Listener) net.Listener { return eofTailListener{l} }
	}
	pr := netkit.Start(p, wrap)
	dialProxy := func() (net.Conn, error) {
		raw, err := net.DialTimeout("tcp", pr.Addr, 5*time.Second)
		if err != nil {
			return nil, err
		}
		var conn net.Conn = &corkConn{Conn: raw}
		if isTLSLeg(c.ClientLeg) && !c.Shaped {
			tconn := tls.Client(conn, legConfig(c.ClientLeg, "proxy.test"))
			tconn.SetDeadline(time.Now().Add(10 * time.Second))
			if err := tconn.Handshake(); err != nil {
				raw.Close()
				return nil, err
			}
			tconn.SetDeadline(time.Time{})
			conn = tconn
		}
		return conn, nil
	}
	stopped := false
	defer func() {
		if !stopped {
			pr.Stop(2 * time.Second)
		}
	}()

	twinDone := make(chan kit.Verdict, 1)
	twinCollected := !c.Twin
	collectTwin := func() {
		if twinCollected {
			return
		}
		twinCollected = true
		select {
		case tv := <-twinDone:
			v = append(v, tv...)
		case <-time.After(40*time.Second + 8*T):
			v.Addf("C04/twin/any/timeout-second-tunnel-stuck", "the second concurrent tunnel did not finish")
		}
	}
	startTwin := func() {
		if c.Twin {
			go func() { twinDone <- runTwin(dialProxy, twinL, c.TwinSize, c.TwinSeed, T) }()
		}
	}
	twinStarted := false
	if c.Twin {
		// on every way out the second tunnel is finished before the proxy is stopped
		defer func() {
			if twinStarted {
				collectTwin()
			}
		}()
	}
	conn, err := dialProxy()
	if err != nil {
		return kit.Failf("C04/harness/dial", "%v", err)
	}
	defer conn.Close()

	sh := shapeOf(c)
	// a throttled listener: either bucket may pace either direction (and both share it), so
	// everything the case sends may take (bytes of both streams)/(the lower bitrate), plus the
	// bucket's one-second granularity; patience grows with the bound T of this run
	var slack time.Duration
	if bps := minPositive(c.WriteBps, c.ReadBps); c.Shaped && bps > 0 {
		slack = time.Duration((len(c2t)+len(t2c))/bps+2) * time.Second * time.Duration(T/kit.T())
	}
	early := 0
	if c.Early != "none" {
		early = c.EarlyLen
		if early > len(c2t) {
			early = len(c2t)
		}
	}
	br := bufio.NewReader(conn)
	for k := 0; k < c.Prelude; k++ {
		id := fmt.Sprintf("p%d", k)
		conn.SetDeadline(time.Now().Add(T))
		host := "origin.test"
		if c.PreludeLocal == "all" || (c.PreludeLocal == "first" && k == 0) || (c.PreludeLocal == "last" && k == c.Prelude-1) {
			host = "local.test"
		}
		fmt.Fprintf(conn, "GET http://%s/%s HTTP/1.1\r\nHost: %s\r\nX-Verif-Id: %s\r\n\r\n", host, id, host, id)
		pres, err := http.ReadResponse(br, &http.Request{Method: "GET"})
		var pbody []byte
		if err == nil {
			pbody, err = io.ReadAll(pres.Body)
		}
		if (err != nil || pres.StatusCode != 200 || string(pbody) != "PRELUDE-"+id) && c.Shaped && c.Shape != nil {
			// what a traffic shape does to a response that matches it is not this
			// property's business (an action inside it may end the connection): the
			// case is over
			return nil
		}
		if err != nil || pres.StatusCode != 200 || string(pbody) != "PRELUDE-"+id {
			class := "exchange-before-connect-failed"
			if netkit.IsTimeout(err) {
				class = "timeout-exchange-before-connect"
			}
			return kit.Failf("C04/harness-prelude/"+sh+"/"+class, "ordinary exchange %d before the CONNECT: %v (body %q)", k, err, pbody)
		}
		conn.SetDeadline(time.Time{})
		time.Sleep(time.Duration(c.PreludePauseMs) * time.Millisecond)
	}
	head := connectHead(c.Head, authority)
	conn.SetWriteDeadline(time.Now().Add(10 * time.Second))
	first := early
	if c.Early == "split" {
		first = early / 2
	}
	if _, err := conn.Write(append(append([]byte{}, head...), c2t[:first]...)); err != nil {
		if c.Unreachable || (c.Shaped && c.Shape != nil) {
			// A CONNECT that is going to be refused may be answered - and its
			// connection closed - while the early bytes behind the head are still
			// being written (record by record on a TLS leg): the refused write is
			// that close, and the reset it provokes may take the 502 with it. (So may
			// a shaping action on the listener.) Nothing to judge in this case.
			kit.Inconclusive("tunnel")
			return nil
		}
		return kit.Failf("C04/harness/write", "%v", err)
	}
	if c.Early == "split" && early > first {
		time.Sleep(time.Millisecond)
		conn.Write(c2t[first:early])
	}
	conn.SetWriteDeadline(time.Time{})

	// a dial that takes longer than the proxy's timeout: the connection's deadline, set before
	// the CONNECT was read, has passed when the answer is due
	slowDial := c.DialDelayMs > 0 && c.TimeoutMs > 0 && c.DialDelayMs >= c.TimeoutMs
	connSh, unreachSh := sh, "unreachable"
	if slowDial {
		connSh, unreachSh = "dial-outlasts-timeout", "unreachable-dial-outlasts-timeout"
	}
	conn.SetReadDeadline(time.Now().Add(T + time.Duration(c.DialDelayMs)*time.Millisecond))
	res, err := http.ReadResponse(br, &http.Request{Method: "CONNECT"})
	if err != nil {
		class := "no-answer-to-connect"
		if netkit.IsTimeout(err) {
			class = "timeout-answer-to-connect"
		}
		if c.Unreachable && early > 0 && netkit.IsReset(err) {
			// The early bytes behind a CONNECT that is refused are never read by
			// anybody: closing the connection with them unread makes the kernel
			// answer with a reset, which may overtake the 502. The client asked for
			// that by sending data before it had an answer; not judged.
			kit.Inconclusive("tunnel")
			return nil
		}
		if c.Unreachable && c.Route == "direct" {
			return kit.Failf("C04/connect/"+unreachSh+"/"+class, "CONNECT (%s) to an unreachable target (dial returns after %d ms, proxy timeout %d ms; 0 = 60 s): no 502 reached the client: %v", map[string]string{"": "HTTP/1.1"}[c.Head]+c.Head, c.DialDelayMs, c.TimeoutMs, err)
		}
		if c.Unreachable {
			return kit.Failf("C04/connect/unreachable-via-downstream/"+class, "CONNECT refused by the downstream proxy with a 502: no answer reached the client: %v", err)
		}
		return kit.Failf("C04/connect/"+connSh+"/"+class, "route %s, dial returns after %d ms, proxy timeout %d ms (0 = 60 s): %v", sh, c.DialDelayMs, c.TimeoutMs, err)
	}
	conn.SetReadDeadline(time.Time{})
	// the target of the tunnel is the authority the client named: host and port as sent
	if c.Route == "direct" {
		seenMu.Lock()
		for _, a := range targetDials {
			if a != authority {
				v.Addf("C04/connect/direct/authority-differs-at-dial", "CONNECT %s (client leg %q): the dial function was asked for %q", authority, c.ClientLeg, a)
				break
			}
		}
		seenMu.Unlock()
	} else {
		seenMu.Lock()
		for _, a := range downstreamSaw {
			if a != authority {
				v.Addf("C04/connect/downstream/authority-differs-at-downstream-proxy", "CONNECT %s (client leg %q): the downstream proxy was asked for %q", authority, c.ClientLeg, a)
				break
			}
		}
		seenMu.Unlock()
	}
	if len(v) > 0 {
		return v
	}
	if c.Unreachable && c.Route == "direct" {
		if res.StatusCode != 502 || res.Header.Get("Warning") == "" {
			return kit.Failf("C04/connect/"+unreachSh+"/not-502-with-warning", "CONNECT to an unreachable target answered %d, Warning %q", res.StatusCode, res.Header["Warning"])
		}
		return nil
	}
	if c.Unreachable {
		// The downstream proxy has answered "502" with Content-Length: 0 (its own words: no Warning
		// is demanded of it here). The 502 the client gets has to be an answer with an end: read as
		// the client's HTTP library would, it must be complete within the liveness bound - not
		// delimited by an end-of-stream that only the idle timeout brings.
		ush := "unreachable-via-downstream"
		if c.DownKeepOpen {
			ush += "-that-stays-open"
		}
		if res.StatusCode != 502 {
			return kit.Failf("C04/connect/"+ush+"/not-502", "the downstream proxy refused the CONNECT with 502, the client got %d", res.StatusCode)
		}
		conn.SetReadDeadline(time.Now().Add(T))
		if _, err := io.Copy(io.Discard, res.Body); err != nil {
			class := "answer-cut"
			if netkit.IsTimeout(err) {
				class = "timeout-end-of-answer"
			}
			return kit.Failf("C04/connect/"+ush+"/"+class, "the downstream proxy refused the CONNECT with '502, Content-Length: 0'%s; the client got 502 with Content-Length %d, Connection: close %v, and reading that answer to its end: %v (within %v; proxy idle timeout 60 s)", map[bool]string{true: " and keeps its connection open", false: " and closed"}[c.DownKeepOpen], res.ContentLength, res.Close, err, T)
		}
		return nil
	}
	if res.StatusCode != 200 {
		return kit.Failf("C04/connect/"+connSh+"/status", "CONNECT answered %d", res.StatusCode)
	}
	var tc net.Conn
	select {
	case tc = <-accepted:
	case <-time.After(T):
		return kit.Failf("C04/connect/"+sh+"/timeout-target-not-contacted", "200 received but the target saw no connection within %v", T)
	}
	defer tc.Close()

	if slowDial {
		// the proxy's idle timeout is short in these cases: one byte each way shows the
		// tunnel is there, the phases below are left to the cases with a long timeout
		conn.SetDeadline(time.Now().Add(T))
		tc.SetDeadline(time.Now().Add(T))
		if _, err := conn.Write([]byte{'>'}); err != nil {
			return kit.Failf("C04/transfer/dial-outlasts-timeout/write-failed", "client write: %v", err)
		}
		// (early data, sent with the CONNECT head, comes first)
		wantT := append(append([]byte{}, c2t[:early]...), '>')
		gotT := make([]byte, len(wantT))
		if _, err := io.ReadFull(tc, gotT); err != nil || !bytes.Equal(gotT, wantT) {
			return kit.Failf("C04/transfer/dial-outlasts-timeout/timeout-client-bytes-not-delivered", "%d bytes of early data and the first byte sent by the client after the 200: %s, %v", early, kit.Diff(wantT, gotT), err)
		}
		back := append(append([]byte{}, t2c[:targetEarly]...), '<')
		if _, err := tc.Write(back[targetEarly:]); err != nil {
			return kit.Failf("C04/transfer/dial-outlasts-timeout/write-failed", "target write: %v", err)
		}
		got := make([]byte, len(back))
		if _, err := io.ReadFull(br, got); err != nil || !bytes.Equal(got, back) {
			return kit.Failf("C04/transfer/dial-outlasts-timeout/timeout-target-bytes-not-delivered", "first bytes sent by the target: client got %q, want %q, %v", got, back, err)
		}
		return nil
	}
	if c.IdleMs > 0 && c.TimeoutMs > 0 {
		// An idle tunnel may be ended by the proxy's timeout (the statement knows that timeout);
		// then neither direction carries anything any more. What may not happen is a tunnel that
		// goes on delivering the target's bytes to the client and loses the client's: so only a
		// client that has received the target's byte through the tunnel expects its own to arrive.
		time.Sleep(time.Duration(c.IdleMs) * time.Millisecond)
		conn.SetDeadline(time.Now().Add(T))
		tc.SetDeadline(time.Now().Add(T))
		if _, err := tc.Write([]byte{'<'}); err != nil {
			return nil // cut
		}
		got := make([]byte, targetEarly+1)
		if _, err := io.ReadFull(br, got); err != nil || got[targetEarly] != '<' {
			return nil // cut (or nothing delivered: no evidence of a tunnel in service)
		}
		if _, err := conn.Write([]byte{'>'}); err != nil {
			return nil
		}
		tc.SetDeadline(time.Now().Add(T))
		// (early data, sent with the CONNECT head, comes first)
		wantT := append(append([]byte{}, c2t[:early]...), '>')
		one := make([]byte, len(wantT))
		_, err := io.ReadFull(tc, one)
		switch {
		case err == nil && bytes.Equal(one, wantT):
			return nil
		case err == io.EOF || err == io.ErrUnexpectedEOF:
			return kit.Failf("C04/eos/idle-past-timeout/target-sees-eof-the-client-never-sent", "route %s, proxy timeout %d ms, tunnel idle for %d ms, then the target sent a byte, the client received it through the tunnel and answered with a byte: the target reads a clean end-of-stream instead (the client has neither finished nor closed; its byte is lost without either end being told)", sh, c.TimeoutMs, c.IdleMs)
		default:
			return kit.Failf("C04/transfer/idle-past-timeout/timeout-client-bytes-not-delivered", "route %s, proxy timeout %d ms, tunnel idle for %d ms, then the target sent a byte, the client received it through the tunnel and answered with a byte: target got %q (want %d bytes of early data and that byte), %v", sh, c.TimeoutMs, c.IdleMs, one, early, err)
		}
	}
	// the second tunnel is set up while this one is established and about to carry traffic
	startTwin()
	twinStarted = c.Twin
	if c.Twin {
		time.Sleep(2 * time.Millisecond)
	}

	if c.AgeMs > 0 {
		// an old tunnel: a byte every 500 ms (TalkPeriodMs) each way, or from one end only
		// (Talk) while the other is silent, so that the tunnel as such is never idle
		// (none of these bytes belongs to the streams compared below)
		deadline := time.Now().Add(time.Duration(c.AgeMs) * time.Millisecond)
		period := 500
		if c.TalkPeriodMs > 0 {
			period = c.TalkPeriodMs
		}
		old := "old-tunnel"
		switch c.Talk {
		case "client":
			old = "old-tunnel-only-the-client-sends"
		case "target":
			old = "old-tunnel-only-the-target-sends"
		}
		what := fmt.Sprintf("(proxy timeout %d ms, 0 = 60 s; a byte every %d ms, sender: %s)", c.TimeoutMs, period, map[string]string{"": "both ends in turn", "client": "the client only, the target is silent", "target": "the target only, the client is silent"}[c.Talk])
		one := make([]byte, 1)
		for k := 0; time.Now().Before(deadline); k++ {
			conn.SetDeadline(time.Now().Add(T))
			tc.SetDeadline(time.Now().Add(T))
			if c.Talk != "target" {
				if _, err := conn.Write([]byte{'>'}); err != nil {
					return kit.Failf("C04/transfer/"+sh+"/"+old+"/write-failed", "client write after %d ms %s: %v", k*period, what, err)
				}
				if _, err := io.ReadFull(tc, one); err != nil || one[0] != '>' {
					return kit.Failf("C04/transfer/"+sh+"/"+old+"/timeout-client-bytes-not-delivered", "byte sent by the client %d ms after the tunnel was set up %s: target got %q, %v", k*period, what, one, err)
				}
			}
			if c.Talk != "client" {
				if _, err := tc.Write([]byte{'<'}); err != nil {
					return kit.Failf("C04/transfer/"+sh+"/"+old+"/write-failed", "target write after %d ms %s: %v", k*period, what, err)
				}
				if _, err := io.ReadFull(br, one); err != nil || one[0] != '<' {
					return kit.Failf("C04/transfer/"+sh+"/"+old+"/timeout-target-bytes-not-delivered", "byte sent by the target %d ms after the tunnel was set up %s: client got %q, %v", k*period, what, one, err)
				}
			}
			time.Sleep(time.Duration(period) * time.Millisecond)
		}
		conn.SetDeadline(time.Time{})
		tc.SetDeadline(time.Time{})
	}
	clientIn := collect(br) // what the client receives
	targetIn := collect(tc) // what the target receives

	// who holds back half of its stream until it sees the peer's end-of-stream
	holdC, holdT := false, false
	switch c.Closer {
	case "client-half-early":
		holdT = true
	case "target-half-early":
		holdC = true
	}
	var wg sync.WaitGroup
	var werrC, werrT error
	// the tails: the last bytes of a stream that leave together with what ends its
	// direction - where the peer is still there to observe that end
	cEnd, tEnd := len(c2t), len(t2c)
	switch c.Closer {
	case "client-half-early", "client-half", "target-half-early", "target-half":
		cEnd, tEnd = len(c2t)-c.TailC, len(t2c)-c.TailT
	case "client-full":
		cEnd = len(c2t) - c.TailC
	case "target-full":
		tEnd = len(t2c) - c.TailT
	}
	if c.OpaqueDial && strings.HasPrefix(c.Closer, "client-half") {
		// without half-close on the target connection the end of the client's stream is
		// passed on by closing it: the target cannot send anything afterwards
		tEnd = len(t2c)
	}
	if cEnd < early {
		cEnd = early
	}
	if tEnd < targetEarly {
		tEnd = targetEarly
	}
	cFirst, tFirst := cEnd, tEnd
	if holdC {
		cFirst = early + (cEnd-early)/2
	}
	if holdT {
		tFirst = tEnd / 2
		if tFirst < targetEarly {
			tFirst = targetEarly
		}
	}
	tailFailed := func(who string, err error) {
		if err != nil {
			v.Addf("C04/transfer/"+sh+"/write-failed", "%s writing the last bytes of its stream together with its close: %v", who, err)
		}
	}
	wg.Add(2)
	go func() { defer wg.Done(); werrC = writeStream(conn, c.C2T, c2t, early, cFirst) }()
	go func() { defer wg.Done(); werrT = writeStream(tc, c.T2C, t2c, targetEarly, tFirst) }()
	writersDone := make(chan struct{})
	go func() { wg.Wait(); close(writersDone) }()
	select {
	case <-writersDone:
	case <-time.After(30*time.Second + 4*T):
		return kit.Failf("C04/transfer/"+sh+"/timeout-writers-blocked", "writers still blocked after %v: client got %d/%d, target got %d/%d", 30*time.Second+4*T, clientIn.len(), tFirst, targetIn.len(), cFirst)
	}
	if werrC != nil || werrT != nil {
		v.Addf("C04/transfer/"+sh+"/write-failed", "client write: %v, target write: %v", werrC, werrT)
		return v
	}
	// delivery while both ends are open
	okT := kit.Eventually(T+slack, func() bool { return targetIn.len() >= cFirst })
	okC := kit.Eventually(T+slack, func() bool { return clientIn.len() >= tFirst })
	earlyShape := "early-" + c.Early
	if !okT {
		v.Addf("C04/transfer/"+sh+"/"+earlyShape+"/timeout-client-bytes-not-delivered", "target received %d of the %d bytes the client wrote (early data %d, %s) within %v of the last write, both ends open", targetIn.len(), cFirst, early, c.Early, T)
	}
	if !okC {
		v.Addf("C04/transfer/"+sh+"/timeout-target-bytes-not-delivered", "client received %d of the %d bytes the target wrote within %v of the last write, both ends open", clientIn.len(), tFirst, T)
	}
	if got := targetIn.bytes(); okT && !bytes.Equal(got, c2t[:cFirst]) {
		v.Addf("C04/transfer/"+sh+"/"+earlyShape+"/client-to-target-bytes-differ", "%s", kit.Diff(c2t[:cFirst], got))
	}
	if got := clientIn.bytes(); okC && !bytes.Equal(got, t2c[:tFirst]) {
		v.Addf("C04/transfer/"+sh+"/target-to-client-bytes-differ", "%s", kit.Diff(t2c[:tFirst], got))
	}
	if len(v) > 0 {
		return v
	}

	if c.Twin && c.TwinWhileOpen {
		// this tunnel is established, has delivered everything written so far and
		// is now quiet in both directions: the other tunnel must not depend on it
		select {
		case tv := <-twinDone:
			twinCollected = true
			v = append(v, tv...)
		case <-time.After(T + 2*time.Second):
			v.Addf("C04/twin/"+sh+"/timeout-second-tunnel-stalls-while-first-is-quiet", "the second tunnel (%d bytes each way) did not finish within %v while the first tunnel was open and idle", c.TwinSize, T+2*time.Second)
		}
		if len(v) > 0 {
			return v
		}
	}

	expectEOF := func(col *collector, who, closer string) bool {
		if !waitDone(col, T+slack) {
			v.Addf("C04/eos/"+closer+"/"+who+"-never-sees-eof-timeout", "%s: the %s saw no end-of-stream within %v after the other end finished sending and closed (all earlier bytes had been delivered; proxy idle timeout is 60 s)", c.Closer, who, T)
			return false
		}
		return true
	}
	switch c.Closer {
	case "client-half-early", "client-half":
		tailFailed("client", endWithTail(conn, c2t[cEnd:], true))
		if !expectEOF(targetIn, "target", "client-half-close") {
			return v
		}
		if holdT {
			if err := writeStream(tc, c.T2C, t2c, tFirst, tEnd); err != nil {
				v.Addf("C04/transfer/"+sh+"/write-after-peer-half-close-failed", "target writing the rest of its stream after the client's half-close: %v", err)
				return v
			}
		}
		tailFailed("target", endWithTail(tc, t2c[tEnd:], false))
		if !expectEOF(clientIn, "client", "target-close") {
			return v
		}
	case "target-half-early", "target-half":
		tailFailed("target", endWithTail(tc, t2c[tEnd:], true))
		if !expectEOF(clientIn, "client", "target-half-close") {
			return v
		}
		if holdC {
			if err := writeStream(conn, c.C2T, c2t, cFirst, cEnd); err != nil {
				v.Addf("C04/transfer/"+sh+"/write-after-peer-half-close-failed", "client writing the rest of its stream after the target's half-close: %v", err)
				return v
			}
		}
		tailFailed("client", endWithTail(conn, c2t[cEnd:], false))
		if !expectEOF(targetIn, "target", "client-close") {
			return v
		}
	case "client-full":
		tailFailed("client", endWithTail(conn, c2t[cEnd:], false))
		if !expectEOF(targetIn, "target", "client-close") {
			return v
		}
		tc.Close()
	case "target-full":
		tailFailed("target", endWithTail(tc, t2c[tEnd:], false))
		if !expectEOF(clientIn, "client", "target-close") {
			return v
		}
		conn.Close()
	case "target-rst":
		// the target goes away abortively: the client must still learn that the
		// stream is over (EOF or reset), not wait for the idle timeout
		reset(tc)
		if !expectEOF(clientIn, "client", "target-reset") {
			return v
		}
		conn.Close()
	case "client-rst":
		reset(conn)
		if !expectEOF(targetIn, "target", "client-reset") {
			return v
		}
		tc.Close()
	case "both":
		tc.Close()
		conn.Close()
	}
	// final content check (after the held-back halves)
	if got := targetIn.bytes(); !bytes.Equal(got, c2t) && c.Closer != "both" && !strings.HasSuffix(c.Closer, "-rst") {
		v.Addf("C04/transfer/"+sh+"/client-to-target-bytes-differ-at-end", "%s", kit.Diff(c2t, got))
	}
	if got := clientIn.bytes(); !bytes.Equal(got, t2c) && c.Closer != "both" && !strings.HasSuffix(c.Closer, "-rst") {
		v.Addf("C04/transfer/"+sh+"/target-to-client-bytes-differ-at-end", "%s", kit.Diff(t2c, got))
	}
	// release: the handler must finish, so Close returns
	if twinStarted {
		collectTwin()
	}
	stopped = true
	if !pr.Stop(T) {
		v.Addf("C04/release/"+strings.TrimSuffix(c.Closer, "-early")+"/proxy-not-released-timeout", "both directions have ended (%s) but Proxy.Close() did not return within %v: the tunnel handler is still running", c.Closer, T)
	}
	return v
}

// ---------------------------------------------------------------- generator

func genStream(t *rapid.T, label string, max int) Stream {
	s := Stream{Seed: rapid.Uint64Range(1, 1<<20).Draw(t, label+"_seed")}
	switch rapid.IntRange(0, 9).Draw(t, label+"_sizeclass") {
	case 0:
		s.Size = 0
	case 1, 2:
		s.Size = rapid.IntRange(1, 100).Draw(t, label+"_size")
	case 3, 4, 5:
		s.Size = rapid.SampledFrom([]int{4095, 4096, 4097, 8192, 32768, 65536, 65537}).Draw(t, label+"_size")
	case 6:
		// past the limits the standard library applies to message heads (1 MiB)
		s.Size = rapid.SampledFrom([]int{1<<20 - 1, 1<<20 + 1, 1<<20 + 70000, kit.N(1<<20+4096, 3<<20)}).Draw(t, label+"_size")
	default:
		s.Size = rapid.IntRange(1, max).Draw(t, label+"_size")
	}
	s.Writes = rapid.SliceOfN(rapid.SampledFrom([]int{1, 2, 7, 100, 1000, 4096, 4097, 16384, 65536, 1 << 20}), 1, 4).Draw(t, label+"_writes")
	s.Pause = rapid.SliceOfN(rapid.SampledFrom([]int{0, 0, 0, 1, 5, 20, 50}), 1, 3).Draw(t, label+"_pause")
	// bound the time a stream takes: tiny writes with pauses only for small streams
	if s.Size > 20000 {
		for i, w := range s.Writes {
			if w < 1000 {
				s.Writes[i] = 1000
			}
		}
	}
	if s.Size > 2000 {
		for i, w := range s.Writes {
			if w < 100 {
				s.Writes[i] = 100
			}
		}
	}
	return s
}

// rare is true for about one case in 2^bits (rapid's integer ranges favour their
// small values: a drawn number is spread before it is compared).
func rare(t *rapid.T, label string, bits uint) bool {
	d := rapid.Uint64Range(0, 1<<20).Draw(t, label)
	return ((d+1)*0x9E3779B97F4A7C15)>>(64-bits) == 0
}

func genCase(t *rapid.T) Case {
	max := kit.N(256<<10, 4<<20)
	c := Case{
		C2T:    genStream(t, "c2t", max),
		T2C:    genStream(t, "t2c", max),
		Early:  rapid.SampledFrom([]string{"none", "none", "coalesced", "split"}).Draw(t, "early"),
		Closer: rapid.SampledFrom([]string{"client-half-early", "target-half-early", "client-half", "target-half", "client-full", "target-full", "both", "target-rst", "client-rst"}).Draw(t, "closer"),
		Route:  rapid.SampledFrom([]string{"direct", "direct", "downstream"}).Draw(t, "route"),
	}
	if c.Early != "none" {
		c.EarlyLen = rapid.SampledFrom([]int{1, 5, 100, 1000, 4000, 4096, 5000, 20000}).Draw(t, "early_len")
	}
	if c.Route == "downstream" {
		c.DownCoalesce = rapid.IntRange(0, 2).Draw(t, "down_coalesce") == 0
		c.DownHead = rapid.SampledFrom([]string{"", "", "", "te-chunked", "content-length"}).Draw(t, "down_head")
	}
	c.Shaped = rapid.IntRange(0, 3).Draw(t, "shaped") == 0
	if c.Shaped && rapid.IntRange(0, 2).Draw(t, "shape") != 0 {
		c.Shape = &ShapeCfg{
			Kind:  rapid.SampledFrom([]string{"close", "halt", "throttle"}).Draw(t, "shape_kind"),
			At:    rapid.SampledFrom([]int{64, 500, 3000, 40000, 4}).Draw(t, "shape_at"),
			Count: rapid.SampledFrom([]int{1, -1}).Draw(t, "shape_count"),
		}
	}
	if c.Route == "direct" && rapid.IntRange(0, 9).Draw(t, "unreachable") == 0 {
		c.Unreachable = true
		c.DialTimeout = rapid.Bool().Draw(t, "dial_timeout")
	}
	c.Head = rapid.SampledFrom([]string{"", "", "", "close", "http10", "http10-keep-alive"}).Draw(t, "head")
	if c.Route == "direct" && rapid.IntRange(0, 5).Draw(t, "opaque_dial") == 0 {
		c.OpaqueDial = true
		if c.Closer == "client-half-early" {
			// without half-close on the target connection the end of the client's
			// stream is passed on by closing it: the target cannot answer afterwards
			c.Closer = "client-half"
		}
	}
	// (the harness's downstream proxy only speaks CONNECT: on that route the exchanges
	// before the CONNECT are all answered by the proxy itself)
	// (a listener with a shape for them always sees such exchanges)
	if rapid.IntRange(0, 2).Draw(t, "prelude") == 0 || c.Shape != nil {
		c.Prelude = rapid.IntRange(1, 3).Draw(t, "prelude_n")
		c.PreludeLocal = rapid.SampledFrom([]string{"", "", "all", "first", "last"}).Draw(t, "prelude_local")
		if c.Route == "downstream" {
			c.PreludeLocal = "all"
		}
	}
	if c.Route == "downstream" && rapid.IntRange(0, 9).Draw(t, "unreachable_via_downstream") == 0 {
		c.Unreachable = true
		c.DownKeepOpen = rapid.Bool().Draw(t, "down_keep_open")
		c.DownCoalesce, c.DownHead = false, ""
	}
	if !c.Unreachable && rapid.IntRange(0, 2).Draw(t, "twin") == 0 {
		c.Twin = true
		c.TwinWhileOpen = rapid.Bool().Draw(t, "twin_while_open")
		c.TwinSize = rapid.SampledFrom([]int{1, 4096, 32768, 32769, 100000, 300000}).Draw(t, "twin_size")
		c.TwinSeed = rapid.Uint64Range(1, 1<<20).Draw(t, "twin_seed")
	}
	c.TargetFirst = !c.Unreachable && rapid.IntRange(0, 3).Draw(t, "target_first") == 0
	// the authority of the CONNECT: host form x port
	if rapid.Bool().Draw(t, "authority") {
		c.AuthHost = rapid.SampledFrom([]string{"", "192.0.2.7", "[2001:db8::7]"}).Draw(t, "auth_host")
		c.AuthPort = rapid.SampledFrom([]int{80, 443, 8080, 8443, 1, 65535, -1, 80, 443}).Draw(t, "auth_port")
	}
	// the transport of each leg, and last bytes that leave together with the close
	legs := []string{"", "", "", "tls12", "tls13", "eof-with-data"}
	if !c.Shaped {
		c.ClientLeg = rapid.SampledFrom(legs).Draw(t, "client_leg")
		if isTLSLeg(c.ClientLeg) && c.Prelude > 0 {
			// (requests on a TLS connection to the proxy are https requests: the
			// exchanges before the CONNECT are those the proxy answers itself)
			c.PreludeLocal = "all"
		}
	}
	if !c.OpaqueDial && !c.Unreachable {
		if c.Route == "direct" {
			c.TargetLeg = rapid.SampledFrom(legs).Draw(t, "target_leg")
		} else {
			c.TargetLeg = rapid.SampledFrom([]string{"", "", "eof-with-data"}).Draw(t, "target_leg")
		}
	}
	if rapid.Bool().Draw(t, "tails") {
		tails := []int{0, 1, 100, 4000, 16384, 20000}
		c.TailC = rapid.SampledFrom(tails).Draw(t, "tail_c")
		c.TailT = rapid.SampledFrom(tails).Draw(t, "tail_t")
		if c.TailC > c.C2T.Size {
			c.TailC = c.C2T.Size
		}
		if c.TailT > c.T2C.Size {
			c.TailT = c.T2C.Size
		}
	}
	if c.Shaped && !c.Unreachable && rare(t, "throttled_listener", 5) {
		// a lowered bitrate (streams kept small: a few seconds per case)
		bps := rapid.SampledFrom([]int{4096, 8192}).Draw(t, "bps")
		if rapid.Bool().Draw(t, "throttle_writes") {
			c.WriteBps = bps
		} else {
			c.ReadBps = bps
		}
		if c.C2T.Size > 8192 {
			c.C2T.Size = 8192
		}
		if c.T2C.Size > 8192 {
			c.T2C.Size = 8192
		}
		c.T2C.Writes, c.C2T.Writes = []int{65536}, []int{65536}
		c.Twin, c.TwinWhileOpen, c.TwinSize, c.TwinSeed = false, false, 0, 0
		if c.TailC > c.C2T.Size {
			c.TailC = c.C2T.Size
		}
		if c.TailT > c.T2C.Size {
			c.TailT = c.T2C.Size
		}
		return c
	}
	switch {
	case c.Unreachable:
	case rare(t, "idle_past_timeout", 6):
		// idle for longer than the proxy's timeout, then traffic (these cases end there: see runOnce)
		c.TimeoutMs = 400
		c.IdleMs = 800
		c.Twin, c.TwinWhileOpen, c.TwinSize, c.TwinSeed = false, false, 0, 0
		return c
	}
	if rare(t, "slow_dial", 5) {
		// the dial outlasts the proxy's timeout (these cases end after the first bytes
		// each way: see runOnce)
		c.TimeoutMs = rapid.SampledFrom([]int{500, 1000}).Draw(t, "slow_dial_timeout")
		c.DialDelayMs = c.TimeoutMs + 250
		c.TargetFirst = !c.Unreachable && rapid.IntRange(0, 3).Draw(t, "slow_dial_target_first") != 0
		c.Twin, c.TwinWhileOpen, c.TwinSize, c.TwinSeed = false, false, 0, 0
	}
	return c
}

func nontrivial(c Case) bool {
	return (c.C2T.Size > 0 && c.T2C.Size > 0) || c.C2T.Size > 65536 || c.T2C.Size > 65536 || c.Early != "none" || c.Closer != ""
}

func classes(c Case) []string {
	out := []string{"closer-" + c.Closer, "route-" + c.Route, "early-" + c.Early}
	if c.C2T.Size > 65536 || c.T2C.Size > 65536 {
		out = append(out, "stream>64KiB")
	}
	if c.C2T.Size > 0 && c.T2C.Size > 0 {
		out = append(out, "both-directions")
	}
	if c.Early != "none" {
		out = append(out, "early-data")
	}
	if c.DownCoalesce {
		out = append(out, "downstream-coalesced-200")
	}
	if c.DownHead != "" {
		out = append(out, "downstream-200-with-"+c.DownHead)
	}
	if c.Unreachable {
		out = append(out, "unreachable")
		if c.DialTimeout {
			out = append(out, "unreachable-dial-times-out")
		}
	}
	if c.Twin {
		out = append(out, "concurrent-second-tunnel")
	}
	if c.Shaped && c.Shape != nil && c.Prelude > 0 {
		out = append(out, "shaped-exchange-before-connect-"+c.Shape.Kind)
		if c.Shape.At > 10 {
			out = append(out, "shape-action-pending-at-connect")
		}
	}
	if c.Shaped {
		out = append(out, "traffic-shaped-listener")
		if c.Twin && c.TwinWhileOpen {
			out = append(out, "shaped+second-tunnel-while-first-quiet")
		}
	}
	if c.Twin && c.TwinWhileOpen {
		out = append(out, "second-tunnel-while-first-quiet")
	}
	if c.Head != "" {
		out = append(out, "connect-head-"+c.Head)
	}
	if c.Unreachable && (c.Head == "close" || c.Head == "http10") {
		out = append(out, "unreachable+closing-connect")
	}
	if c.OpaqueDial {
		out = append(out, "dialled-conn-without-closewrite")
	}
	if c.Prelude > 0 {
		out = append(out, "http-exchanges-before-connect")
		if c.Shaped {
			out = append(out, "shaped+http-exchanges-before-connect")
		}
	}
	if c.C2T.Size > 1<<20 || c.T2C.Size > 1<<20 {
		out = append(out, "stream>1MiB")
	}
	if c.IdleMs > 0 && c.TimeoutMs > 0 && c.IdleMs > c.TimeoutMs {
		out = append(out, "idle-past-proxy-timeout-then-traffic")
	}
	if c.Shaped && c.WriteBps > 0 {
		out = append(out, "shaped-listener-with-lowered-write-bitrate")
	}
	if c.Shaped && c.ReadBps > 0 {
		out = append(out, "shaped-listener-with-lowered-read-bitrate")
	}
	if c.AuthHost != "" || c.AuthPort != 0 {
		form := map[bool]string{true: "name", false: "ip-literal"}[c.AuthHost == ""]
		if strings.HasPrefix(c.AuthHost, "[") {
			form = "ipv6-literal"
		}
		out = append(out, "connect-authority-"+form)
	}
	if port := c.AuthPort; port == 80 || ((port == 443 || port == 0) && isTLSLeg(c.ClientLeg)) {
		out = append(out, "connect-to-the-default-port-of-the-listener-scheme")
	}
	if c.ClientLeg != "" {
		out = append(out, "client-leg-"+c.ClientLeg)
	}
	if c.TargetLeg != "" {
		out = append(out, "target-leg-"+c.TargetLeg)
	}
	if c.TailC > 0 || c.TailT > 0 {
		out = append(out, "last-bytes-leave-with-the-close")
		if c.ClientLeg == "tls12" || c.TargetLeg == "tls12" || c.ClientLeg == "eof-with-data" || c.TargetLeg == "eof-with-data" {
			out = append(out, "last-bytes-with-close+reader-may-return-data-with-eof")
		}
	}
	if c.TargetFirst {
		out = append(out, "target-speaks-first")
	}
	if c.PreludeLocal != "" {
		out = append(out, "exchange-answered-by-the-proxy-itself-before-connect")
	}
	if c.DialDelayMs > 0 && c.TimeoutMs > 0 && c.DialDelayMs >= c.TimeoutMs {
		out = append(out, "dial-outlasts-proxy-timeout")
	}
	if c.Unreachable && c.Route == "downstream" {
		out = append(out, "unreachable-via-downstream")
		if c.DownKeepOpen {
			out = append(out, "downstream-stays-open-after-refusal")
		}
	}
	if c.AgeMs > 0 && c.Talk != "" {
		out = append(out, "old-tunnel-only-the-"+c.Talk+"-sends")
	}
	if c.AgeMs > 0 {
		out = append(out, "old-tunnel")
		if c.TimeoutMs > 0 && c.AgeMs > c.TimeoutMs {
			out = append(out, "busy-tunnel-older-than-the-proxy-timeout")
		}
	}
	return out
}

var propTunnel = &kit.Prop[Case]{
	ID: "C04", Name: "tunnel",
	Rule: "a blind CONNECT tunnel (direct or via a harness downstream proxy) carrying two concurrently written byte streams (0 B..256 KiB quick / 4 MiB thorough, drawn write sizes and pauses), early data coalesced with or split across the CONNECT head, and one of nine ways of ending it (half-close before/after the peer finished, full close or reset by either end, both); round 6: ordinary exchanges before the CONNECT that the proxy answers itself (Context.SkipRoundTrip), targets that speak first, targets unreachable through the downstream proxy (which refuses with a complete 502 and closes or stays open), dials that outlast the proxy's timeout, tunnels idle for longer than the proxy's timeout before traffic resumes; non-trivial = both directions non-empty, or > 64 KiB, or early data, or an explicit closer",
	Gen:  genCase, Run: run, NonTrivial: nontrivial, Classes: classes, Journal: true,
	Gates: map[string]float64{"early-data": 0.25, "both-directions": 0.5, "route-downstream": 0.15},
}

func TestTunnel(t *testing.T) {
	kit.Assume("TCP keeps order: interleavings are write sizes and pauses; kernel buffering is covered by the multi-hundred-KiB cases")
	propTunnel.Check(t, kit.N(300, 400))
}

var propOld = &kit.Prop[Case]{
	ID: "C04", Name: "old-tunnel",
	Rule: "tunnels (direct and through the downstream proxy, plain and shaped listener) kept open and in use for longer than any set-up deadline (10.5 s quick, 31 s thorough), or for 4.5 s under a proxy timeout of 3 s (a byte each way every 500 ms: never idle), or for 5 s under a proxy timeout of 2 s with one end only sending (a byte every 350 ms, the other end silent), or on a shaped listener whose write or read bitrate is lowered to 2-4 KiB/s with a 16-32 KiB burst one way, before the two streams are written and the tunnel is ended; non-trivial = always",
	Run:  run, NonTrivial: func(Case) bool { return true }, Classes: classes, Journal: true,
}

// TestOldTunnel runs its (few, slow) cases at the same time.
func TestOldTunnel(t *testing.T) {
	age := kit.N(10500, 31000)
	var cases []Case
	for _, route := range []string{"direct", "downstream"} {
		for _, shaped := range []bool{false, true} {
			cases = append(cases, Case{
				C2T: Stream{Size: 70000, Seed: 5, Writes: []int{4096}, Pause: []int{0}}, T2C: Stream{Size: 70000, Seed: 6, Writes: []int{4096}, Pause: []int{0}},
				Early: "none", Closer: "client-half", Route: route, Shaped: shaped, AgeMs: age,
			})
		}
	}
	// in use for longer than the proxy's timeout, never idle for as long as that
	for _, route := range []string{"direct", "downstream"} {
		for _, shaped := range []bool{false, true} {
			cases = append(cases, Case{
				C2T: Stream{Size: 70000, Seed: 7, Writes: []int{4096}, Pause: []int{0}}, T2C: Stream{Size: 70000, Seed: 8, Writes: []int{4096}, Pause: []int{0}},
				Early: "none", Closer: "target-half", Route: route, Shaped: shaped, AgeMs: 4500, TimeoutMs: 3000,
			})
		}
	}
	// the same, on a client connection that has already served ordinary exchanges for a while
	cases = append(cases, Case{
		C2T: Stream{Size: 70000, Seed: 9, Writes: []int{4096}, Pause: []int{0}}, T2C: Stream{Size: 70000, Seed: 10, Writes: []int{4096}, Pause: []int{0}},
		Early: "none", Closer: "client-half", Route: "direct", Prelude: 2, PreludePauseMs: 1000, AgeMs: 2500, TimeoutMs: 3000,
	})
	// one end only sends for 2.5 times the proxy's timeout (a byte every 350 ms), the other is
	// silent: an upload, a download; every route and listener
	for _, talk := range []string{"client", "target"} {
		for _, route := range []string{"direct", "downstream"} {
			for _, shaped := range []bool{false, true} {
				c := Case{
					C2T: Stream{Size: 70000, Seed: 15, Writes: []int{4096}, Pause: []int{0}}, T2C: Stream{Size: 70000, Seed: 16, Writes: []int{4096}, Pause: []int{0}},
					Early: "none", Closer: "client-half", Route: route, Shaped: shaped, AgeMs: 5000, TimeoutMs: 2000, Talk: talk, TalkPeriodMs: 350,
				}
				if talk == "target" {
					c.Closer = "target-half"
				}
				cases = append(cases, c)
			}
		}
	}
	// a throttled shaped listener: a burst in one write that needs several one-second bucket
	// intervals, compared byte for byte; write bitrate (target to client) and read bitrate (the
	// mirror image, client to target), both routes
	for _, route := range []string{"direct", "downstream"} {
		for _, k := range []struct{ wbps, rbps, c2t, t2c int }{{2048, 0, 100, 16384}, {4096, 0, 100, 32768}, {0, 4096, 16384, 100}} {
			cases = append(cases, Case{
				C2T: Stream{Size: k.c2t, Seed: 17, Writes: []int{65536}, Pause: []int{0}}, T2C: Stream{Size: k.t2c, Seed: 18, Writes: []int{65536}, Pause: []int{0}},
				Early: "none", Closer: "client-half", Route: route, Shaped: true, WriteBps: k.wbps, ReadBps: k.rbps,
			})
		}
	}
	// the dial (of the target, of the downstream proxy) returns after the proxy's timeout
	for _, k := range []struct {
		route       string
		unreachable bool
	}{{"direct", false}, {"direct", true}, {"downstream", false}} {
		cases = append(cases, Case{
			C2T: Stream{Size: 10, Seed: 11, Writes: []int{4096}, Pause: []int{0}}, T2C: Stream{Size: 10, Seed: 12, Writes: []int{4096}, Pause: []int{0}},
			Early: "none", Closer: "client-half", Route: k.route, Unreachable: k.unreachable, TimeoutMs: 1000, DialDelayMs: 1250,
		})
	}
	// idle for longer than the proxy's timeout, then a byte from the target and the client's answer
	for _, route := range []string{"direct", "downstream"} {
		for _, shaped := range []bool{false, true} {
			cases = append(cases, Case{
				C2T: Stream{Size: 10, Seed: 13, Writes: []int{4096}, Pause: []int{0}}, T2C: Stream{Size: 10, Seed: 14, Writes: []int{4096}, Pause: []int{0}},
				Early: "none", Closer: "client-half", Route: route, Shaped: shaped, TimeoutMs: 600, IdleMs: 1200,
			})
		}
	}
	verdicts := make([]kit.Verdict, len(cases))
	var wg sync.WaitGroup
	for i := range cases {
		wg.Add(1)
		go func(i int) { defer wg.Done(); verdicts[i] = run(cases[i]) }(i)
	}
	wg.Wait()
	memo := map[string]kit.Verdict{}
	have := map[string]bool{}
	for i, c := range cases {
		memo[string(mustJSON(c))], have[string(mustJSON(c))] = verdicts[i], true
	}
	old := propOld.Run
	propOld.Run = func(c Case) kit.Verdict {
		k := string(mustJSON(c))
		if have[k] {
			have[k] = false
			return memo[k]
		}
		return old(c)
	}
	defer func() { propOld.Run = old }()
	propOld.Enumerate(t, func(yield func(Case) bool) {
		for _, c := range cases {
			if !yield(c) {
				return
			}
		}
	})
}

func mustJSON(v interface{}) []byte {
	b, err := json.Marshal(v)
	if err != nil {
		panic(err)
	}
	return b
}

func TestReplay(t *testing.T) { kit.Replay(t, propTunnel, propOld) }

var _ = fmt.Sprintf
