package c04

import (
	"crypto/tls"
	"io"
	"net"
	"sync"
	"time"

	"verifharness/internal/netkit"
)

// ---------------------------------------------------------------- cork

// corkConn passes writes through until it is corked; from then on it collects
// them and sends them with ONE Write when it is uncorked, half-closed or
// closed: the last bytes of a stream and what ends it (FIN, or a TLS
// close_notify record written by the layer above) leave together.
type corkConn struct {
	net.Conn
	mu     sync.Mutex
	corked bool
	buf    []byte
}

func (c *corkConn) Write(b []byte) (int, error) {
	c.mu.Lock()
	if c.corked {
		c.buf = append(c.buf, b...)
		c.mu.Unlock()
		return len(b), nil
	}
	c.mu.Unlock()
	return c.Conn.Write(b)
}

func (c *corkConn) cork() { c.mu.Lock(); c.corked = true; c.mu.Unlock() }

func (c *corkConn) uncork() error {
	c.mu.Lock()
	b := c.buf
	c.buf, c.corked = nil, false
	c.mu.Unlock()
	if len(b) == 0 {
		return nil
	}
	// (crypto/tls sets the write deadline to "now" once it has written its
	// close_notify - into the cork)
	c.Conn.SetWriteDeadline(time.Now().Add(10 * time.Second))
	_, err := c.Conn.Write(b)
	return err
}

func (c *corkConn) CloseWrite() error {
	c.uncork()
	if t, ok := c.Conn.(*net.TCPConn); ok {
		return t.CloseWrite()
	}
	return nil
}

func (c *corkConn) Close() error {
	c.uncork()
	return c.Conn.Close()
}

// corkOf finds the cork under a harness connection (nil if there is none).
func corkOf(c net.Conn) *corkConn {
	switch t := c.(type) {
	case *corkConn:
		return t
	case *tls.Conn:
		return corkOf(t.NetConn())
	}
	return nil
}

// tcpOf finds the TCP connection under a harness connection.
func tcpOf(c net.Conn) *net.TCPConn {
	switch t := c.(type) {
	case *net.TCPConn:
		return t
	case *corkConn:
		return tcpOf(t.Conn)
	case *tls.Conn:
		return tcpOf(t.NetConn())
	}
	return nil
}

// halfClose ends the sending direction of a harness connection: close_notify on
// a TLS leg, FIN on a plain one; what a cork holds leaves with it.
func halfClose(c net.Conn) {
	switch t := c.(type) {
	case *net.TCPConn:
		t.CloseWrite()
	case *corkConn:
		t.CloseWrite()
	case *tls.Conn:
		t.CloseWrite()
		if k := corkOf(t); k != nil {
			k.uncork()
		}
	}
}

// reset makes a harness connection go away abortively.
func reset(c net.Conn) {
	if t := tcpOf(c); t != nil {
		t.SetLinger(0)
		t.Close()
		return
	}
	c.Close()
}

// endWithTail writes the tail of a stream and ends the direction (half) or the
// connection (!half) so that both leave in one segment.
func endWithTail(c net.Conn, tail []byte, half bool) error {
	var err error
	if len(tail) > 0 {
		if k := corkOf(c); k != nil {
			k.cork()
		}
		c.SetWriteDeadline(time.Now().Add(10 * time.Second))
		_, err = c.Write(tail)
	}
	if half {
		halfClose(c)
	} else {
		c.Close()
	}
	return err
}

// ---------------------------------------------------------------- data with EOF

// eofTailConn is a connection whose Read hands out the last bytes of the stream
// TOGETHER with io.EOF when the end of the stream follows them within 2 ms -
// which the io.Reader contract allows and *tls.Conn does (TLS <= 1.2, a
// close_notify already buffered behind the data). Everything else is the
// wrapped TCP connection's.
type eofTailConn struct {
	*net.TCPConn
	mu       sync.Mutex
	deadline time.Time // the read deadline the owner has set
	looking  bool      // a look-ahead read is under way
	held     []byte
	heldErr  error
	rmu      sync.Mutex // one Read at a time
}

func (c *eofTailConn) SetDeadline(t time.Time) error {
	c.mu.Lock()
	defer c.mu.Unlock()
	c.deadline = t
	if c.looking {
		// (the read deadline is the look-ahead's until it is over)
		return c.TCPConn.SetWriteDeadline(t)
	}
	return c.TCPConn.SetDeadline(t)
}

func (c *eofTailConn) SetReadDeadline(t time.Time) error {
	c.mu.Lock()
	defer c.mu.Unlock()
	c.deadline = t
	if c.looking {
		return nil
	}
	return c.TCPConn.SetReadDeadline(t)
}

func (c *eofTailConn) Read(p []byte) (int, error) {
	c.rmu.Lock()
	defer c.rmu.Unlock()
	if len(c.held) > 0 {
		n := copy(p, c.held)
		c.held = c.held[n:]
		if len(c.held) == 0 && c.heldErr != nil {
			err := c.heldErr
			c.heldErr = nil
			return n, err
		}
		return n, nil
	}
	if c.heldErr != nil {
		return 0, c.heldErr
	}
	n, err := c.TCPConn.Read(p)
	if n == 0 || err != nil {
		return n, err
	}
	// look ahead: does the end follow at once?
	look := time.Now().Add(2 * time.Millisecond)
	c.mu.Lock()
	if own := c.deadline; !own.IsZero() && own.Before(look) {
		c.mu.Unlock()
		return n, nil
	}
	c.looking = true
	c.TCPConn.SetReadDeadline(look)
	c.mu.Unlock()
	more := make([]byte, 4096)
	m, merr := c.TCPConn.Read(more)
	c.mu.Lock()
	c.looking = false
	c.TCPConn.SetReadDeadline(c.deadline)
	c.mu.Unlock()
	switch {
	case m > 0:
		c.held = more[:m]
		if merr != nil && !netkit.IsTimeout(merr) {
			c.heldErr = merr
		}
		return n, nil
	case merr == io.EOF:
		c.heldErr = io.EOF // (sticky: further reads say EOF too)
		return n, io.EOF
	case merr != nil && !netkit.IsTimeout(merr):
		c.heldErr = merr
	}
	return n, nil
}

type eofTailListener struct{ net.Listener }

func (l eofTailListener) Accept() (net.Conn, error) {
	c, err := l.Listener.Accept()
	if t, ok := c.(*net.TCPConn); ok && err == nil {
		return &eofTailConn{TCPConn: t}, nil
	}
	return c, err
}

// ---------------------------------------------------------------- TLS legs

var legTLS struct {
	once sync.Once
	conf *tls.Config
}

// legConfig is a TLS config for one end of a leg: server side with a certificate for
// proxy.test and target.test, client side trusting it; version "tls12" or "tls13".
func legConfig(version string, serverName string) *tls.Config {
	legTLS.once.Do(func() { legTLS.conf = netkit.ServerTLS("proxy.test", "target.test") })
	conf := legTLS.conf.Clone()
	conf.RootCAs = netkit.OriginPool()
	conf.ServerName = serverName
	if version == "tls12" {
		conf.MinVersion, conf.MaxVersion = tls.VersionTLS12, tls.VersionTLS12
	} else {
		conf.MinVersion, conf.MaxVersion = tls.VersionTLS13, tls.VersionTLS13
	}
	return conf
}

func isTLSLeg(leg string) bool { return leg == "tls12" || leg == "tls13" }
