// Package c16 decides property C16: HAR entries faithfully describe the
// exchange and survive a JSON round trip.
//
// Oracle: the expected entry is built from the description of the generated
// messages (msggen), never from martian's parse: method, URL, version, status,
// header multiset, query multiset, cookies, redirect URL, post data (the body
// as the origin receives it; parameters for form bodies), response content
// (fully decoded, true size), capture according to the content-type options.
// The exported log is marshalled to JSON (directly or through the export
// handler), parsed back and compared field by field with what was exported.
package c16

import (
	"bufio"
	"bytes"
	"encoding/json"
	"errors"
	"fmt"
	"io"
	"net/http"
	"net/http/httptest"
	"net/textproto"
	"sort"
	"strings"
	"testing"
	"time"
	"unicode/utf8"

	"github.com/google/martian/v3"
	"github.com/google/martian/v3/har"
	mlog "github.com/google/martian/v3/log"
	"github.com/google/martian/v3/proxyutil"
	"pgregory.net/rapid"

	"verifharness/internal/kit"
	"verifharness/props/msggen"
)

func TestMain(m *testing.M) {
	mlog.SetLevel(mlog.Silent)
	kit.Main(m, "C16")
}

// OptCall is one SetOption call: an option of the post-data family (request
// bodies) or of the body family (response bodies).
type OptCall struct {
	Post bool          `json:"post,omitempty"`
	Opt  msggen.HarOpt `json:"opt"`
}

// effective is what a history of SetOption calls amounts to: every option
// replaces the logger's decision for its family, so the last call of a family
// counts; a family never configured logs everything (NewLogger's default).
func effective(hist []OptCall) (post, body msggen.HarOpt) {
	post, body = msggen.HarOpt{Mode: "all"}, msggen.HarOpt{Mode: "all"}
	for _, h := range hist {
		if h.Post {
			post = h.Opt
		} else {
			body = h.Opt
		}
	}
	return post, body
}

// Case is one exchange and one logger configuration.
type Case struct {
	Req     msggen.Spec   `json:"req"`
	Res     msggen.Spec   `json:"res"`
	Post    msggen.HarOpt `json:"post"`
	Body    msggen.HarOpt `json:"body"`
	Handler bool          `json:"handler,omitempty"` // JSON taken from the export handler instead of json.Marshal(Export())
	// Hist, when not empty, is the history of SetOption calls made on the
	// logger before the exchange; Post and Body are then what it amounts to.
	Hist    []OptCall `json:"hist,omitempty"`
	OneCall bool      `json:"one_call,omitempty"` // the whole history is passed to a single SetOption call
	// Stale: a modifier in front of the logger changed the message through the
	// struct fields only, so that the header MAP holds a literal that disagrees
	// with the field net/http writes the message from:
	// req-content-length | res-content-length (body replaced, ContentLength
	// updated, literal Content-Length left behind) | req-host (literal Host in
	// the map) | req-transfer-encoding | res-transfer-encoding (literal
	// "identity" in the map of a chunked message). Applied where applicable.
	Stale []string `json:"stale,omitempty"`
	// Built: the response is not read off the wire but built by the proxy with
	// proxyutil.NewResponse(code, body, req) (502, skipped round trip, ...).
	Built bool `json:"built,omitempty"`
	// FailBody: reading the request body fails after half of it (the client
	// went away in the middle of an upload): with post-data logging on the
	// request cannot be converted; the exchange then contributes no entry.
	FailBody bool `json:"fail_body,omitempty"`
	// MidExport (with Handler): the log is also fetched through the export
	// handler while the exchange is in flight - after its request, before its
	// response; the later fetch must show the completed exchange.
	MidExport bool `json:"mid_export,omitempty"`
}

// failingBody yields data and then an error instead of io.EOF.
type failingBody struct {
	data []byte
	off  int
}

func (b *failingBody) Read(p []byte) (int, error) {
	if b.off >= len(b.data) {
		return 0, errors.New("read tcp: connection reset by peer")
	}
	n := copy(p, b.data[b.off:])
	b.off += n
	return n, nil
}
func (b *failingBody) Close() error { return nil }

func failBodyApplies(c Case, mq *msggen.Message) bool { return c.FailBody && len(mq.Entity) > 0 }

const appended = "<!-- appended by a modifier -->"

func setHeader(hs []msggen.Header, name, value string) []msggen.Header {
	out := append([]msggen.Header(nil), hs...)
	for i := range out {
		if textproto.CanonicalMIMEHeaderKey(out[i].Name) == name {
			out[i].Value = value
		}
	}
	return out
}

// staleRequest applies the request-side Stale effects and returns the
// description of the request as the origin receives it now.
func staleRequest(c Case, mq *msggen.Message, req *http.Request) *msggen.Message {
	m := *mq
	for _, st := range c.Stale {
		switch {
		case st == "req-content-length" && m.Framing == "cl" && len(m.Entity) > 0 && m.FormKind == "":
			nb := append(append([]byte{}, m.Entity...), appended...)
			req.Body, req.ContentLength = io.NopCloser(bytes.NewReader(nb)), int64(len(nb))
			m.Entity, m.Plain = nb, nb
			m.Headers = setHeader(m.Headers, "Content-Length", fmt.Sprint(len(nb)))
		case st == "req-host":
			req.Header.Set("Host", "stale.invalid")
		case st == "req-transfer-encoding" && m.Framing == "chunked":
			req.Header.Set("Transfer-Encoding", "identity")
		}
	}
	return &m
}

func staleResponse(c Case, ms *msggen.Message, res *http.Response) *msggen.Message {
	m := *ms
	for _, st := range c.Stale {
		switch {
		case st == "res-content-length" && m.Framing == "cl" && m.BodyOnWire && len(m.Entity) > 0 && m.Encoding == "":
			nb := append(append([]byte{}, m.Entity...), appended...)
			res.Body, res.ContentLength = io.NopCloser(bytes.NewReader(nb)), int64(len(nb))
			m.Entity, m.Plain = nb, nb
			m.Headers = setHeader(m.Headers, "Content-Length", fmt.Sprint(len(nb)))
		case st == "res-transfer-encoding" && m.Framing == "chunked":
			res.Header.Set("Transfer-Encoding", "identity")
		}
	}
	return &m
}

// builtResponse builds the response the way the proxy does when it answers
// itself; the description is that of the same response in the protocol
// version of the request.
func builtResponse(c Case, req *http.Request) (*http.Response, *msggen.Message) {
	spec := c.Res
	spec.Response, spec.ReqMethod, spec.Proto10 = true, c.Req.Method, c.Req.Proto10
	spec.Chunks, spec.Trailers, spec.ChunkExt = nil, nil, false
	if spec.Framing != "none" {
		spec.Framing = "cl"
	}
	ms := msggen.Build(spec)
	var body io.Reader
	if ms.BodyOnWire {
		body = bytes.NewReader(ms.Entity)
	}
	res := proxyutil.NewResponse(ms.Status, body, req)
	for _, h := range ms.Headers {
		if textproto.CanonicalMIMEHeaderKey(h.Name) == "Content-Length" {
			fmt.Sscan(h.Value, &res.ContentLength)
			if res.ContentLength == 0 {
				// proxyutil's header view reports the length field only when
				// it is positive; an explicit zero lives in the map, as it does
				// in a message read off the wire
				res.Header.Add(h.Name, h.Value)
			}
			continue
		}
		res.Header.Add(h.Name, h.Value)
	}
	return res, ms
}

// ---------------------------------------------------------------- helpers

func pairs(hs []msggen.Header, canonical bool, skip ...string) []string {
	var out []string
next:
	for _, h := range hs {
		k := h.Name
		if canonical {
			k = textproto.CanonicalMIMEHeaderKey(k)
		}
		for _, s := range skip {
			if k == s {
				continue next
			}
		}
		out = append(out, fmt.Sprintf("%q=%q", k, h.Value))
	}
	sort.Strings(out)
	return out
}

func harHeaders(hs []har.Header, skip ...string) []string {
	var out []string
next:
	for _, h := range hs {
		for _, s := range skip {
			if h.Name == s {
				continue next
			}
		}
		out = append(out, fmt.Sprintf("%q=%q", h.Name, h.Value))
	}
	sort.Strings(out)
	return out
}

func same(a, b []string) bool { return strings.Join(a, "\x00") == strings.Join(b, "\x00") }

func short(b []byte) string {
	if len(b) > 48 {
		return fmt.Sprintf("%q…(%d bytes)", b[:48], len(b))
	}
	return fmt.Sprintf("%q", b)
}

func reqShape(m *msggen.Message) string {
	s := m.Framing
	if s == "cl" {
		s = "content-length"
	}
	switch m.FormKind {
	case "urlencoded":
		return s + "-urlencoded"
	case "multipart":
		return s + "-multipart"
	}
	return s + "-request"
}

func resShape(m *msggen.Message) string {
	enc := strings.ToLower(m.Encoding)
	if enc == "" {
		enc = "identity"
	}
	if m.Encoding == "GZIP" {
		enc = "content-encoding-case-variant"
	}
	if !m.BodyOnWire {
		if m.Encoding != "" {
			return "bodyless-response-with-content-encoding"
		}
		return "bodyless-response"
	}
	if m.Status == 206 {
		return "partial-content-" + enc
	}
	switch m.Spec.Encoding {
	case "x-gzip":
		return "x-gzip"
	case "deflate-zlib":
		return "zlib-deflate"
	case "deflate-zlib-small":
		return "zlib-deflate-small-window"
	case "gzip-multi":
		return "gzip-several-members"
	case "gzip-bad", "gzip-padded", "gzip-truncated", "deflate-bad":
		return "content-coding-does-not-decode"
	}
	if m.Encoding == "GZIP" {
		return enc
	}
	fr := m.Framing
	if fr == "cl" {
		fr = "content-length"
	}
	return enc + "-" + fr
}

// ---------------------------------------------------------------- the check

func run(c Case) (v kit.Verdict) {
	c.Res.Response, c.Res.ReqMethod = true, c.Req.Method
	mq, ms := msggen.Build(c.Req), msggen.Build(c.Res)

	req, err := http.ReadRequest(bufio.NewReader(bytes.NewReader(mq.Wire)))
	if err != nil {
		return kit.Failf("C16/harness/generated-message-unparseable", "net/http cannot parse the generated request: %v", err)
	}
	// what proxy.go does before the modifiers run
	req.URL.Scheme = "http"
	if req.URL.Host == "" {
		req.URL.Host = req.Host
	}
	req.RemoteAddr = "127.0.0.1:54321"
	_, remove, err := martian.TestContext(req, nil, nil)
	if err != nil {
		return kit.Failf("C16/harness/no-context", "%v", err)
	}
	defer remove()

	l := har.NewLogger()
	if len(c.Hist) > 0 {
		c.Post, c.Body = effective(c.Hist)
		var opts []har.Option
		for _, h := range c.Hist {
			opts = append(opts, h.Opt.Option(h.Post))
		}
		if c.OneCall {
			l.SetOption(opts...)
		} else {
			for _, o := range opts {
				l.SetOption(o)
			}
		}
	} else {
		l.SetOption(c.Post.Option(true), c.Body.Option(false))
	}
	mq = staleRequest(c, mq, req)
	if failBodyApplies(c, mq) {
		req.Body = &failingBody{data: mq.Entity[:len(mq.Entity)/2]}
	}
	reqErr := l.ModifyRequest(req)
	if c.Handler && c.MidExport {
		har.NewExportHandler(l).ServeHTTP(httptest.NewRecorder(), httptest.NewRequest("GET", "/logs", nil))
	}

	var res *http.Response
	if c.Built {
		res, ms = builtResponse(c, req)
	} else {
		res, err = http.ReadResponse(bufio.NewReader(bytes.NewReader(ms.Wire)), req)
		if err != nil {
			return kit.Failf("C16/harness/generated-message-unparseable", "net/http cannot parse the generated response: %v", err)
		}
		ms = staleResponse(c, ms, res)
	}
	resErr := l.ModifyResponse(res)

	// the forwarded bodies are intact whatever was captured (shared with C15)
	if failBodyApplies(c, mq) {
		// (the upload is broken by construction: nothing to forward)
	} else if got, err := io.ReadAll(req.Body); err != nil || !bytes.Equal(got, mq.Entity) {
		v.Addf("C16/forwarded/"+reqShape(mq)+"/request-body-changed", "after logging the request body reads %v, %s", err, kit.Diff(mq.Entity, got))
	}
	if got, err := io.ReadAll(res.Body); err != nil || !bytes.Equal(got, ms.Entity) {
		v.Addf("C16/forwarded/"+resShape(ms)+"/response-body-changed", "after logging the response body reads %v, %s", err, kit.Diff(ms.Entity, got))
	}

	exported := l.Export()
	if v2, handled := invalidEntries(mq, reqErr, exported.Log.Entries, 1, failBodyApplies(c, mq)); handled {
		return append(v, v2...)
	}
	if reqErr != nil || len(exported.Log.Entries) != 1 {
		v.Addf("C16/entry/"+reqShape(mq)+"/request-not-recorded", "ModifyRequest = %v, the log holds %d entries for one well-formed exchange", reqErr, len(exported.Log.Entries))
		return v
	}
	v = append(v, checkEntry(c, mq, ms, exported.Log.Entries[0], resErr)...)
	back, rv := roundTrip(l, exported, c.Handler)
	v = append(v, rv...)
	if back != nil {
		v = append(v, compareEntries(exported.Log.Entries[0], back.Log.Entries[0])...)
	}
	return v
}

// invalidEntries: entry validity on export. Every exported entry describes a
// logged request (non-null request object). A request labelled as a form that
// no form parser accepts cannot be converted when post-data logging is on: the
// logger reports an error and the exchange contributes NO entry - in
// particular not one without a request, to which the response of the exchange
// would then be attached. handled = the request was such a request and failed
// (nothing further can be compared for it).
func invalidEntries(mq *msggen.Message, reqErr error, es []*har.Entry, exchanges int, brokenUpload bool) (v kit.Verdict, handled bool) {
	for i, e := range es {
		if e.Request == nil {
			v.Addf("C16/entry/request-conversion-failed/entry-without-request", "exported entry %d of %d has \"request\": null (response attached: %v); ModifyRequest had returned: %v", i, len(es), e.Response != nil, reqErr)
		}
	}
	if (mq.Spec.Body.Kind != "badform" && !brokenUpload) || reqErr == nil {
		// (a broken upload that was recorded - post-data logging off - has
		// nothing further to compare either: its body never arrives)
		return v, len(v) > 0 || brokenUpload
	}
	if len(v) == 0 && len(es) != exchanges-1 {
		v.Addf("C16/entry/request-conversion-failed/entry-left-behind", "ModifyRequest failed (%v), yet the log holds %d entries where %d exchanges were recorded", reqErr, len(es), exchanges-1)
	}
	return v, true
}

// tokens is a comma-separated header value as a sorted token list.
func tokens(v string) string {
	var out []string
	for _, t := range strings.Split(v, ",") {
		if t = strings.TrimSpace(t); t != "" {
			out = append(out, textproto.CanonicalMIMEHeaderKey(t))
		}
	}
	sort.Strings(out)
	return strings.Join(out, ",")
}

// checkTrailerHeader: net/http moves the 'Trailer' announcement out of the
// header map (into the Trailer map), as it does with Host, Content-Length and
// Transfer-Encoding; the message carries it (and is forwarded with it), so the
// header list has to name it. The value is compared as a set of field names.
func checkTrailerHeader(side string, m *msggen.Message, hs []har.Header) (v kit.Verdict) {
	want := ""
	for _, h := range m.Headers {
		if textproto.CanonicalMIMEHeaderKey(h.Name) == "Trailer" {
			want = tokens(h.Value)
		}
	}
	var got []string
	for _, h := range hs {
		if h.Name == "Trailer" {
			got = append(got, tokens(h.Value))
		}
	}
	switch {
	case want == "" && len(got) > 0:
		v.Addf("C16/"+side+"/trailer-not-announced/trailer-header-invented", "the header list has Trailer: %v, the message announces no trailers", got)
	case want != "" && len(got) == 0:
		v.Addf("C16/"+side+"/trailer-announced/trailer-header-missing", "the message carries 'Trailer: %s' (net/http keeps it in the Trailer map and forwards it), the header list has no Trailer", want)
	case want != "" && (len(got) != 1 || got[0] != want):
		v.Addf("C16/"+side+"/trailer-announced/trailer-header-differs", "header list Trailer %v, the message announces %q", got, want)
	}
	return v
}

// checkStatusText: the status of a message is its code and its reason phrase;
// HAR has a field for each. A response built by the proxy has the phrase
// proxyutil.NewResponse gives it: net/http's text for the code.
func checkStatusText(c Case, m *msggen.Message, r *har.Response) (v kit.Verdict) {
	want := m.Reason
	if c.Built {
		want = http.StatusText(m.Status)
	}
	if r.StatusText != want {
		shape := "canonical-reason-phrase"
		if want != http.StatusText(m.Status) {
			shape = "non-canonical-reason-phrase"
		}
		v.Addf("C16/response/"+shape+"/status-text-differs", "statusText %q, the status line reads '%d %s'", r.StatusText, m.Status, want)
	}
	return v
}

// checkEntry compares one exported entry with the generated exchange.
func checkEntry(c Case, mq, ms *msggen.Message, e *har.Entry, resErr error) (v kit.Verdict) {
	v = append(v, checkRequest(c, mq, e.Request)...)
	if resErr != nil || e.Response == nil {
		v.Addf("C16/content/"+resShape(ms)+"/response-not-recorded", "ModifyResponse = %v, the entry has response=%v for a well-formed %d answer to %s", resErr, e.Response != nil, ms.Status, mq.Method)
	} else {
		v = append(v, checkResponse(c, ms, e.Response)...)
	}
	return v
}

// roundTrip marshals the export (directly or through the export handler) and
// parses it back; back is nil when that failed or the entry count changed.
func roundTrip(l *har.Logger, exported *har.HAR, handler bool) (back *har.HAR, v kit.Verdict) {
	var raw []byte
	var err error
	if handler {
		rw := httptest.NewRecorder()
		har.NewExportHandler(l).ServeHTTP(rw, httptest.NewRequest("GET", "/logs", nil))
		if rw.Code != 200 {
			return nil, kit.Failf("C16/json-roundtrip/export-handler/status", "export handler answered %d", rw.Code)
		}
		raw = rw.Body.Bytes()
	} else {
		raw, err = json.Marshal(exported)
		if err != nil {
			return nil, kit.Failf("C16/json-roundtrip/marshal/error", "json.Marshal(Export()) = %v", err)
		}
	}
	back = &har.HAR{}
	if err := json.Unmarshal(raw, back); err != nil {
		return nil, kit.Failf("C16/json-roundtrip/unmarshal/error", "the exported JSON does not parse back: %v", err)
	}
	if back.Log == nil || len(back.Log.Entries) != len(exported.Log.Entries) {
		return nil, kit.Failf("C16/json-roundtrip/entries/count-differs", "the JSON does not hold the %d exported entries", len(exported.Log.Entries))
	}
	return back, nil
}

func checkRequest(c Case, m *msggen.Message, r *har.Request) (v kit.Verdict) {
	fail := func(field, format string, args ...interface{}) {
		v.Addf("C16/request/"+field+"/differs", format, args...)
	}
	if r.Method != m.Method {
		fail("method", "method %q, sent %q", r.Method, m.Method)
	}
	if r.URL != m.URL {
		fail("url", "url %q, the request is for %q", r.URL, m.URL)
	}
	if r.HTTPVersion != m.Proto {
		fail("http-version", "httpVersion %q, sent %q", r.HTTPVersion, m.Proto)
	}
	// net/http moves the Trailer announcement into Request.Trailer; the
	// statement names Host, Content-Length and Transfer-Encoding only
	v = append(v, checkTrailerHeader("request", m, r.Headers)...)
	if got, want := harHeaders(r.Headers, "Trailer"), pairs(m.Headers, true, "Trailer"); !same(got, want) {
		if len(c.Stale) > 0 {
			v.Addf("C16/request/headers-after-field-only-modifier/stale-literal-listed", "a modifier changed the request through its fields (%v); header list %v, the origin receives %v", c.Stale, got, want)
		} else {
			fail("headers", "header list %v, the request carries %v", got, want)
		}
	}
	var gotQ []string
	for _, q := range r.QueryString {
		gotQ = append(gotQ, fmt.Sprintf("%q=%q", q.Name, q.Value))
	}
	sort.Strings(gotQ)
	if want := pairs(m.Query, false); !same(gotQ, want) {
		// is everything that is missing a pair net/url rejects?
		have := map[string]int{}
		for _, g := range gotQ {
			have[g]++
		}
		onlyRejected := len(m.BadPairs) > 0
		rejected := map[string]bool{}
		for _, b := range pairs(m.BadPairs, false) {
			rejected[b] = true
		}
		for _, w := range want {
			if have[w] > 0 {
				have[w]--
			} else if !rejected[w] {
				onlyRejected = false
			}
		}
		for _, n := range have {
			if n > 0 {
				onlyRejected = false
			}
		}
		if onlyRejected {
			v.Addf("C16/request/query-pair-rejected-by-net-url/missing-from-query-string", "queryString %v: the pairs %v of the request target (which url and the origin have) are silently absent", gotQ, pairs(m.BadPairs, false))
		} else {
			fail("query-string", "queryString %v, the request target has %v", gotQ, want)
		}
	}
	var gotC, wantC []string
	for _, ck := range r.Cookies {
		gotC = append(gotC, ck.Name+"="+ck.Value)
	}
	for _, ck := range m.Cookies {
		wantC = append(wantC, ck.Name+"="+ck.Value)
	}
	if !same(gotC, wantC) {
		fail("cookies", "cookies %v, the request carries %v", gotC, wantC)
	}

	// post data
	shape := reqShape(m)
	pd := r.PostData
	captured := c.Post.Captures(m.ContentType)
	switch {
	case len(m.Entity) == 0 && pd == nil:
		return v // nothing sent, nothing logged
	case pd == nil:
		v.Addf("C16/postdata/"+shape+"/missing", "the request has a body of %d bytes, the entry has no postData", len(m.Entity))
		return v
	}
	if m.Spec.Body.Kind == "badform" && captured {
		return v // labelled as a form, is none: the statement says nothing about how it is to be rendered
	}
	if m.MediaParsable && pd.MimeType != m.MediaType {
		v.Addf("C16/postdata/"+shape+"/mime-type-differs", "postData.mimeType %q for Content-Type %q", pd.MimeType, m.ContentType)
	}
	if !captured {
		if (pd.Text != "" || len(pd.Params) != 0) && len(c.Hist) > 0 {
			v.Addf("C16/capture/option-history/post-data-captured-against-last-option", "after the SetOption history %+v post data logging is off for %q, yet text=%s params=%d", c.Hist, m.ContentType, short([]byte(pd.Text)), len(pd.Params))
		} else if pd.Text != "" || len(pd.Params) != 0 {
			v.Addf("C16/postdata/"+shape+"/captured-against-option", "post data logging is off for %q (option %+v), yet text=%s params=%d", m.ContentType, c.Post, short([]byte(pd.Text)), len(pd.Params))
		}
		return v
	}
	if len(c.Hist) > 0 && len(m.Entity) > 0 && pd.Text == "" && len(pd.Params) == 0 && (m.FormKind == "" || len(m.Params) > 0) {
		v.Addf("C16/capture/option-history/post-data-not-captured-despite-last-option", "after the SetOption history %+v post data logging is on for %q, yet postData has neither text nor params (%d body bytes)", c.Hist, m.ContentType, len(m.Entity))
		return v
	}
	if m.FormKind != "" && m.NonUTF8Param && len(pd.Params) == 0 && pd.Text == string(m.Entity) {
		// a form with values that are not valid UTF-8 rendered as text (which
		// has a base64 escape in JSON) instead of parameters (which have none):
		// the post data equals the body, exactly
		return v
	}
	switch m.FormKind {
	case "urlencoded":
		// order across names is not defined (a map), within a name it is
		got, want := map[string][]string{}, map[string][]string{}
		for _, p := range pd.Params {
			got[p.Name] = append(got[p.Name], p.Value)
		}
		for _, p := range m.Params {
			want[p.Name] = append(want[p.Name], p.Value)
		}
		if fmt.Sprintf("%q", got) != fmt.Sprintf("%q", want) {
			class := "params-differ"
			if m.Framing == "chunked" {
				class = "params-polluted"
			}
			v.Addf("C16/postdata/"+shape+"/"+class, "urlencoded parameters %.300q, the body holds %.300q", fmt.Sprint(got), fmt.Sprint(want))
		}
	case "multipart":
		var got, want []string
		for _, p := range pd.Params {
			got = append(got, fmt.Sprintf("%q %q %q %s", p.Name, p.Filename, p.ContentType, kit.Hash([]byte(p.Value))))
		}
		for _, p := range m.Params {
			want = append(want, fmt.Sprintf("%q %q %q %s", p.Name, p.File, p.CT, kit.Hash([]byte(p.Value))))
		}
		if !same(got, want) {
			// only file names with a directory part cut down to their base name?
			var base []string
			dirs := false
			for _, p := range m.Params {
				f := p.File
				if i := strings.LastIndex(f, "/"); i >= 0 {
					f, dirs = f[i+1:], true
				}
				base = append(base, fmt.Sprintf("%q %q %q %s", p.Name, f, p.CT, kit.Hash([]byte(p.Value))))
			}
			if dirs && same(got, base) {
				v.Addf("C16/postdata/multipart-file-name-with-directory/file-name-cut-to-base-name", "multipart parameters %v: the file names sent are those of %v", got, want)
			} else {
				v.Addf("C16/postdata/"+shape+"/params-differ", "multipart parameters (name, file, type, value hash) %v, the body holds %v", got, want)
			}
		}
	default:
		if pd.Text != string(m.Entity) {
			class := "text-differs"
			if m.Framing == "chunked" && strings.HasSuffix(pd.Text, "0\r\n") {
				class = "chunk-framing-in-text"
			}
			v.Addf("C16/postdata/"+shape+"/"+class, "postData.text is not the body the origin receives: %s; text starts %s", kit.Diff(m.Entity, []byte(pd.Text)), short([]byte(pd.Text)))
		}
	}
	return v
}

func expectedContent(m *msggen.Message) []byte {
	switch {
	case !m.BodyOnWire:
		return []byte{}
	case m.Status == http.StatusPartialContent, m.Status == http.StatusNoContent:
		return m.Entity // a part of a coded representation cannot be decoded
	case m.Decodable:
		return m.Plain
	}
	return m.Entity
}

func checkResponse(c Case, m *msggen.Message, r *har.Response) (v kit.Verdict) {
	fail := func(field, format string, args ...interface{}) {
		v.Addf("C16/response/"+field+"/differs", format, args...)
	}
	if r.Status != m.Status {
		fail("status", "status %d, sent %d", r.Status, m.Status)
	}
	if r.HTTPVersion != m.Proto {
		if c.Built {
			v.Addf("C16/response/built-by-proxyutil/http-version-differs", "httpVersion %q for a response built with proxyutil.NewResponse for an %s request: the client receives a %s status line", r.HTTPVersion, m.Proto, m.Proto)
		} else {
			fail("http-version", "httpVersion %q, sent %q", r.HTTPVersion, m.Proto)
		}
	}
	v = append(v, checkTrailerHeader("response", m, r.Headers)...)
	v = append(v, checkStatusText(c, m, r)...)
	if got, want := harHeaders(r.Headers, "Trailer"), pairs(m.Headers, true, "Trailer"); !same(got, want) {
		if len(c.Stale) > 0 {
			v.Addf("C16/response/headers-after-field-only-modifier/stale-literal-listed", "a modifier changed the response through its fields (%v); header list %v, the client receives %v", c.Stale, got, want)
		} else {
			fail("headers", "header list %v, the response carries %v", got, want)
		}
	}
	want := ""
	if m.Status >= 300 && m.Status < 400 {
		want = m.Location
	}
	if r.RedirectURL != want {
		fail("redirect-url", "redirectURL %q, Location of the %d is %q", r.RedirectURL, m.Status, m.Location)
	}
	var gotC, wantC []string
	for _, ck := range r.Cookies {
		gotC = append(gotC, fmt.Sprintf("%s=%s path=%s domain=%s expires=%s httponly=%v secure=%v", ck.Name, ck.Value, ck.Path, ck.Domain, ck.Expires8601, ck.HTTPOnly, ck.Secure))
	}
	for _, ck := range m.Cookies {
		exp := ""
		if ck.Expires != 0 {
			exp = time.Unix(ck.Expires, 0).UTC().Format(time.RFC3339)
		}
		wantC = append(wantC, fmt.Sprintf("%s=%s path=%s domain=%s expires=%s httponly=%v secure=%v", ck.Name, ck.Value, ck.Path, ck.Domain, exp, ck.HTTPOnly, ck.Secure))
	}
	if !same(gotC, wantC) {
		fail("cookies", "cookies %v, the response sets %v", gotC, wantC)
	}

	shape := resShape(m)
	ct := r.Content
	if ct == nil {
		v.Addf("C16/content/"+shape+"/missing", "the response entry has no content object")
		return v
	}
	if ct.MimeType != m.ContentType {
		v.Addf("C16/content/"+shape+"/mime-type-differs", "content.mimeType %q, Content-Type is %q", ct.MimeType, m.ContentType)
	}
	if !c.Body.Captures(m.ContentType) {
		if len(ct.Text) != 0 && len(c.Hist) > 0 {
			v.Addf("C16/capture/option-history/body-captured-against-last-option", "after the SetOption history %+v body logging is off for %q, yet content.text has %d bytes", c.Hist, m.ContentType, len(ct.Text))
		} else if len(ct.Text) != 0 {
			v.Addf("C16/content/"+shape+"/captured-against-option", "body logging is off for %q (option %+v), yet content.text has %d bytes", m.ContentType, c.Body, len(ct.Text))
		}
		return v
	}
	exp := expectedContent(m)
	if len(c.Hist) > 0 && len(exp) > 0 && len(ct.Text) == 0 && ct.Size == 0 {
		v.Addf("C16/capture/option-history/body-not-captured-despite-last-option", "after the SetOption history %+v body logging is on for %q, yet content.text is empty (%d bytes expected)", c.Hist, m.ContentType, len(exp))
	} else if len(exp) > 0 && len(ct.Text) == 0 && ct.Size == 0 && c.Body.Mode != "all" {
		v.Addf("C16/capture/content-type-option/body-not-captured-despite-option", "body logging is on for %q under the option %+v, yet content.text is empty (%d bytes expected)", m.ContentType, c.Body, len(exp))
	} else if !bytes.Equal(ct.Text, exp) {
		class := "text-differs"
		if m.Decodable && bytes.Equal(ct.Text, m.Entity) {
			class = "not-decoded"
		}
		v.Addf("C16/content/"+shape+"/"+class, "content.text is not the fully decoded body: %s", kit.Diff(exp, ct.Text))
	} else if ct.Size != int64(len(exp)) {
		// (a wrong text has its own failure; the size is judged on a right text)
		v.Addf("C16/content/"+shape+"/size-differs", "content.size %d, the decoded body has %d bytes (%d on the wire)", ct.Size, len(exp), len(m.Entity))
	}
	return v
}

// compareEntries compares what was exported (a) with what came back from the
// JSON (b). Cookie.Expires is documented as not serialised (json:"-").
func compareEntries(a, b *har.Entry) (v kit.Verdict) {
	diff := func(field string, nonUTF8 bool, format string, args ...interface{}) {
		if nonUTF8 {
			v.Addf("C16/json-roundtrip/non-utf8-"+field+"/mangled", format, args...)
		} else {
			v.Addf("C16/json-roundtrip/"+field+"/differs", format, args...)
		}
	}
	str := func(field, x, y string) {
		if x != y {
			diff(field, !utf8.ValidString(x), "%s: exported %.120q, after the round trip %.120q", field, x, y)
		}
	}
	str("id", a.ID, b.ID)
	if !a.StartedDateTime.Equal(b.StartedDateTime) {
		diff("started-date-time", false, "startedDateTime %v became %v", a.StartedDateTime, b.StartedDateTime)
	}
	if a.Time != b.Time || (a.Cache == nil) != (b.Cache == nil) || (a.Timings == nil) != (b.Timings == nil) || (a.Timings != nil && *a.Timings != *b.Timings) {
		diff("timings", false, "time/cache/timings changed")
	}
	headers := func(field string, x, y []har.Header) {
		if len(x) != len(y) {
			diff(field, false, "%s: %d entries became %d", field, len(x), len(y))
			return
		}
		for i := range x {
			str(field+"-name", x[i].Name, y[i].Name)
			str(field+"-value", x[i].Value, y[i].Value)
		}
	}
	cookies := func(field string, x, y []har.Cookie) {
		if len(x) != len(y) {
			diff(field, false, "%s: %d entries became %d", field, len(x), len(y))
			return
		}
		for i := range x {
			p, q := x[i], y[i]
			p.Expires, q.Expires = time.Time{}, time.Time{}
			if p != q {
				diff(field, false, "%s: %+v became %+v", field, p, q)
			}
		}
	}
	if (a.Request == nil) != (b.Request == nil) {
		diff("request", false, "request presence changed")
	} else if a.Request != nil {
		x, y := a.Request, b.Request
		str("method", x.Method, y.Method)
		str("url", x.URL, y.URL)
		str("http-version", x.HTTPVersion, y.HTTPVersion)
		headers("request-header", x.Headers, y.Headers)
		cookies("request-cookies", x.Cookies, y.Cookies)
		if len(x.QueryString) != len(y.QueryString) {
			diff("query", false, "queryString: %d entries became %d", len(x.QueryString), len(y.QueryString))
		} else {
			for i := range x.QueryString {
				str("query-name", x.QueryString[i].Name, y.QueryString[i].Name)
				str("query-value", x.QueryString[i].Value, y.QueryString[i].Value)
			}
		}
		if x.HeadersSize != y.HeadersSize || x.BodySize != y.BodySize {
			diff("request-sizes", false, "request sizes changed")
		}
		if (x.PostData == nil) != (y.PostData == nil) {
			diff("post-data", false, "postData presence changed")
		} else if x.PostData != nil {
			str("post-mime-type", x.PostData.MimeType, y.PostData.MimeType)
			if x.PostData.Text != y.PostData.Text {
				// a non-UTF-8 body has an encoding (base64): it must survive
				diff("post-text", false, "postData.text: %s", kit.Diff([]byte(x.PostData.Text), []byte(y.PostData.Text)))
			}
			if len(x.PostData.Params) != len(y.PostData.Params) {
				diff("post-params", false, "postData.params: %d entries became %d", len(x.PostData.Params), len(y.PostData.Params))
			} else {
				for i := range x.PostData.Params {
					p, q := x.PostData.Params[i], y.PostData.Params[i]
					str("param-name", p.Name, q.Name)
					str("param-value", p.Value, q.Value)
					str("param-file-name", p.Filename, q.Filename)
					str("param-content-type", p.ContentType, q.ContentType)
				}
			}
		}
	}
	if (a.Response == nil) != (b.Response == nil) {
		diff("response", false, "response presence changed")
	} else if a.Response != nil {
		x, y := a.Response, b.Response
		if x.Status != y.Status {
			diff("status", false, "status %d became %d", x.Status, y.Status)
		}
		str("status-text", x.StatusText, y.StatusText)
		str("response-http-version", x.HTTPVersion, y.HTTPVersion)
		str("redirect-url", x.RedirectURL, y.RedirectURL)
		headers("response-header", x.Headers, y.Headers)
		cookies("response-cookies", x.Cookies, y.Cookies)
		if x.HeadersSize != y.HeadersSize || x.BodySize != y.BodySize {
			diff("response-sizes", false, "response sizes changed")
		}
		if (x.Content == nil) != (y.Content == nil) {
			diff("content", false, "content presence changed")
		} else if x.Content != nil {
			if x.Content.Size != y.Content.Size {
				diff("content-size", false, "content.size %d became %d", x.Content.Size, y.Content.Size)
			}
			str("content-mime-type", x.Content.MimeType, y.Content.MimeType)
			str("content-encoding", x.Content.Encoding, y.Content.Encoding)
			if !bytes.Equal(x.Content.Text, y.Content.Text) {
				diff("content-text", false, "content.text: %s", kit.Diff(x.Content.Text, y.Content.Text))
			}
		}
	}
	return v
}

// ---------------------------------------------------------------- generation

func maxBody() int {
	if kit.Thorough() {
		return 4 << 20
	}
	return 1 << 20
}

func gen(t *rapid.T) Case {
	o := msggen.Options{MaxBody: maxBody(), Forms: true, BadForms: true, RawQuery: true, Reasons: true, MoreCodings: true, Corrupt: true}
	c := Case{Req: msggen.DrawRequest(t, o)}
	c.Res = msggen.DrawResponse(t, o, c.Req.Method)
	c.Post, c.Body = msggen.DrawHarOpt(t, "post"), msggen.DrawHarOpt(t, "body")
	c.Handler = rapid.Bool().Draw(t, "handler")
	if rapid.Bool().Draw(t, "history") {
		// a history of 1..4 SetOption calls; the last call of a family counts
		n := rapid.IntRange(1, 4).Draw(t, "ncalls")
		for i := 0; i < n; i++ {
			c.Hist = append(c.Hist, OptCall{Post: rapid.Bool().Draw(t, "family_post"), Opt: msggen.DrawHarOpt(t, "call")})
		}
		c.OneCall = rapid.IntRange(0, 3).Draw(t, "one_call") == 0
		c.Post, c.Body = effective(c.Hist)
	}
	if rapid.IntRange(0, 2).Draw(t, "stale") == 0 {
		for _, st := range staleKinds {
			if rapid.Bool().Draw(t, "stale_"+st) {
				c.Stale = append(c.Stale, st)
			}
		}
	}
	c.Built = rapid.IntRange(0, 5).Draw(t, "built") == 0
	if c.Req.Body.Kind != "none" {
		c.FailBody = rapid.IntRange(0, 9).Draw(t, "fail_body") == 0
	}
	c.MidExport = c.Handler && rapid.Bool().Draw(t, "mid_export")
	return c
}

var staleKinds = []string{"req-content-length", "req-host", "req-transfer-encoding", "res-content-length", "res-transfer-encoding"}

func nonUTF8(c Case) bool {
	for _, q := range c.Req.Query {
		if q.Value.Bin {
			return true
		}
	}
	for _, p := range c.Req.Body.Params {
		if p.Value.Bin {
			return true
		}
	}
	return (c.Req.Body.Kind == "binary" && c.Req.Body.Size > 0) || (c.Res.Body.Kind == "binary" && c.Res.Body.Size > 0)
}

func compressedCoding(e string) bool {
	switch e {
	case "gzip", "deflate", "GZIP", "x-gzip", "deflate-zlib", "deflate-zlib-small", "gzip-multi":
		return true
	}
	return false
}

func nontrivial(c Case) bool {
	compressed := compressedCoding(c.Res.Encoding)
	opt := func(o msggen.HarOpt) bool { return o.Mode == "optin" || o.Mode == "optout" }
	return (c.Req.Framing == "chunked") || compressed || nonUTF8(c) || c.Req.Body.Kind == "multipart" || opt(c.Post) || opt(c.Body)
}

func classes(c Case) []string {
	cl := []string{"req-framing-" + c.Req.Framing, "res-framing-" + c.Res.Framing, "req-body-" + c.Req.Body.Kind, "post-" + c.Post.Mode, "body-" + c.Body.Mode}
	if c.Req.Framing == "chunked" {
		cl = append(cl, "chunked-request")
		if c.Req.Body.Kind == "form" {
			cl = append(cl, "chunked-urlencoded")
		}
	}
	if c.Res.Encoding != "" {
		cl = append(cl, "res-encoding-"+c.Res.Encoding)
	}
	if compressedCoding(c.Res.Encoding) {
		cl = append(cl, "compressed-response")
		if c.Res.Framing == "chunked" {
			cl = append(cl, "compressed-chunked-response")
		}
	}
	if c.Req.Encoding != "" {
		cl = append(cl, "req-encoding")
	}
	if nonUTF8(c) {
		cl = append(cl, "non-utf8")
	}
	for _, p := range c.Req.Body.Params {
		if p.Value.Bin {
			cl = append(cl, "non-utf8-param")
			break
		}
	}
	for _, q := range c.Req.Query {
		if q.Value.Bin {
			cl = append(cl, "non-utf8-query")
			break
		}
	}
	if len(c.Req.Query) > 0 {
		cl = append(cl, "query")
	}
	for _, q := range c.Req.Query {
		if q.Raw != "" && !q.Bad {
			cl = append(cl, "query-value-with-equals-sign")
			break
		}
	}
	for _, q := range c.Req.Query {
		if q.Bad {
			cl = append(cl, "query-pair-rejected-by-net-url")
			break
		}
	}
	if c.Res.CustomReason {
		cl = append(cl, "custom-reason-phrase")
	}
	if len(c.Req.Cookies) > 0 {
		cl = append(cl, "request-cookies")
	}
	if len(c.Res.Cookies) > 0 {
		cl = append(cl, "response-cookies")
	}
	if c.Res.Location != "" && c.Res.Status != 201 {
		cl = append(cl, "redirect")
	}
	if c.Res.Location != "" && c.Res.Status == 201 {
		cl = append(cl, "location-without-redirect")
	}
	if c.Res.Status == 206 {
		cl = append(cl, "partial-content")
	}
	if c.Req.Method == "HEAD" || c.Res.Status == 204 || c.Res.Status == 304 {
		cl = append(cl, "bodyless-response")
	}
	if c.Handler {
		cl = append(cl, "through-export-handler")
	}
	if c.MidExport {
		cl = append(cl, "exported-while-in-flight")
	}
	if c.Req.CookieLines >= 2 {
		cl = append(cl, "cookies-on-several-lines")
	}
	for _, st := range c.Stale {
		switch {
		case st == "req-content-length" && c.Req.Framing == "cl" && c.Req.Body.Kind != "none" && c.Req.Body.Kind != "form" && c.Req.Body.Kind != "multipart" && c.Req.Body.Size > 0:
			cl = append(cl, "stale-content-length")
		case st == "res-content-length" && !c.Built && c.Res.Framing == "cl" && c.Res.Encoding == "" && c.Res.Body.Size > 0 && c.Req.Method != "HEAD":
			cl = append(cl, "stale-content-length")
		case st == "req-host":
			cl = append(cl, "stale-host")
		case st == "req-transfer-encoding" && c.Req.Framing == "chunked", st == "res-transfer-encoding" && !c.Built && c.Res.Framing == "chunked":
			cl = append(cl, "stale-transfer-encoding")
		}
	}
	if c.Req.Body.Kind == "badform" && c.Post.Captures(c.Req.ContentType) {
		cl = append(cl, "unparseable-form-captured")
	}
	if c.FailBody && c.Post.Captures(c.Req.ContentType) {
		cl = append(cl, "request-body-read-fails-while-captured")
	}
	if c.Built {
		cl = append(cl, "built-response")
		if c.Req.Proto10 {
			cl = append(cl, "built-response-http10")
		}
	}
	if len(c.Hist) > 0 {
		cl = append(cl, "option-history")
		np, nb := 0, 0
		for _, h := range c.Hist {
			if h.Post {
				np++
			} else {
				nb++
			}
		}
		if np > 1 || nb > 1 {
			cl = append(cl, "option-overridden")
		}
	}
	if c.Req.Body.Size >= 4097 || c.Res.Body.Size >= 4097 {
		cl = append(cl, "body>=4097")
	}
	return cl
}

const rule = "a generated exchange (request with query repeats, cookies, text/JSON/binary/urlencoded/multipart body incl. file parts and non-UTF-8 values, Content-Length or chunked with drawn chunk sizes and trailers; response 2xx/3xx+Location/204/206/304/4xx/5xx with Set-Cookie attributes, identity/gzip/deflate/br codings, Content-Length/chunked/close framing) passes a HAR logger with drawn post-data and body options (all, none, opt-in, opt-out prefix lists); the entry is compared with the generated description and the exported JSON is parsed back and compared with the export; non-trivial = chunked request body, compressed response, non-UTF-8 bytes, multipart, or an opt-in/opt-out option in force"

var propEntry = &kit.Prop[Case]{
	ID: "C16", Name: "entry", Rule: "rapid-drawn: " + rule,
	Gen: gen, Run: run, NonTrivial: nontrivial, Classes: classes,
	Gates: map[string]float64{
		"nontrivial": 0.6, "chunked-request": 0.1, "chunked-urlencoded": 0.01, "compressed-response": 0.15, "compressed-chunked-response": 0.03,
		"non-utf8": 0.2, "non-utf8-param": 0.03, "req-body-multipart": 0.05, "req-body-form": 0.05, "post-optin": 0.08, "body-optout": 0.08,
		"query": 0.3, "request-cookies": 0.15, "response-cookies": 0.15, "redirect": 0.08, "through-export-handler": 0.3, "option-history": 0.3, "option-overridden": 0.12, "stale-content-length": 0.02, "stale-host": 0.08, "stale-transfer-encoding": 0.02, "built-response": 0.08, "unparseable-form-captured": 0.02, "exported-while-in-flight": 0.15, "cookies-on-several-lines": 0.04, "request-body-read-fails-while-captured": 0.02, "query-value-with-equals-sign": 0.05, "query-pair-rejected-by-net-url": 0.05, "built-response-http10": 0.004,
	},
}

var propMatrix = &kit.Prop[Case]{
	ID: "C16", Name: "matrix", Rule: "ALL combinations of request body {none, text, binary, urlencoded, urlencoded with a non-UTF-8 value, multipart, multipart with a binary file part} x request framing {Content-Length, chunked in one / many chunks} x response {200 identity, gzip, deflate, br, GZIP, gzip+chunked, 206 gzip, 302, 204, 304 with Content-Encoding} x request method {POST, HEAD} x options {all, none}, plus 10 option histories (opt-out then all, opt-in then opt-out, none then opt-in, ... for both families) x image/text response x separate/single SetOption call, plus header-map literals disagreeing with the message fields (5 kinds x Content-Length/chunked exchange) and responses built with proxyutil.NewResponse (HTTP/1.0, 1.1 x 200/502/204 x POST/HEAD), and 5 kinds of unparseable form bodies x Content-Length/chunked x post-data logging on/off: " + rule,
	Run: run, NonTrivial: nontrivial, Classes: classes,
}

func matrix(yield func(Case) bool) {
	bin := msggen.Val{N: 9, Seed: 3, Bin: true}
	bodies := []struct {
		b  msggen.Body
		ct string
	}{
		{msggen.Body{Kind: "none"}, ""},
		{msggen.Body{Kind: "text", Size: 11, Seed: 1}, "text/plain"},
		{msggen.Body{Kind: "binary", Size: 300, Seed: 2}, "application/octet-stream"},
		{msggen.Body{Kind: "form", Params: []msggen.Param{{Name: "a", Value: msggen.Val{Lit: "1"}}, {Name: "b", Value: msggen.Val{Lit: "x y"}}, {Name: "a", Value: msggen.Val{Lit: "2"}}}}, "application/x-www-form-urlencoded"},
		{msggen.Body{Kind: "form", Params: []msggen.Param{{Name: "a", Value: msggen.Val{Lit: "1"}}, {Name: "raw", Value: bin}}}, "application/x-www-form-urlencoded"},
		{msggen.Body{Kind: "multipart", Boundary: "b0undary-0123456789-abcdefghij", Params: []msggen.Param{{Name: "a", Value: msggen.Val{Lit: "1"}}, {Name: "f", Value: msggen.Val{N: 40, Seed: 4}, File: "a.txt", CT: "text/plain"}}}, "multipart/form-data"},
		{msggen.Body{Kind: "multipart", Boundary: "b0undary-0123456789-abcdefghij", Params: []msggen.Param{{Name: "f", Value: bin, File: "data.bin", CT: "application/octet-stream"}}}, "multipart/form-data"},
	}
	type rs struct {
		status   int
		enc      string
		framing  string
		location string
	}
	responses := []rs{{200, "", "cl", ""}, {200, "gzip", "cl", ""}, {200, "deflate", "cl", ""}, {200, "br", "cl", ""}, {200, "GZIP", "cl", ""},
		{200, "gzip", "chunked", ""}, {200, "", "close", ""}, {206, "gzip", "cl", ""}, {302, "", "cl", "/next"}, {204, "", "none", ""}, {304, "gzip", "none", ""}}
	for _, opt := range []string{"all", "none"} {
		for _, method := range []string{"POST", "HEAD"} {
			for _, b := range bodies {
				for fi, framing := range []string{"cl", "chunked", "chunked"} {
					if b.b.Kind == "none" && fi > 0 {
						continue
					}
					for _, r := range responses {
						c := Case{Post: msggen.HarOpt{Mode: opt}, Body: msggen.HarOpt{Mode: opt}, Handler: fi == 1}
						c.Req = msggen.Spec{Method: method, Host: "example.com", Path: "/a", Query: []msggen.NV{{Name: "q", Value: msggen.Val{Lit: "1"}}}, Framing: framing, Body: b.b, ContentType: b.ct}
						if fi == 2 {
							c.Req.Chunks = []int{5, 1}
						}
						c.Res = msggen.Spec{Status: r.status, Encoding: r.enc, Framing: r.framing, Location: r.location, ContentType: "text/plain", Body: msggen.Body{Kind: "text", Size: 50, Seed: 9}}
						if r.framing == "none" {
							c.Res.Body = msggen.Body{Kind: "none"}
						}
						if !yield(c) {
							return
						}
					}
				}
			}
		}
	}
	// option histories: a later option of a family replaces the earlier one
	img := msggen.Spec{Status: 200, Framing: "cl", ContentType: "image/png", Body: msggen.Body{Kind: "binary", Size: 64, Seed: 5}}
	txt := msggen.Spec{Status: 200, Framing: "cl", ContentType: "text/plain", Body: msggen.Body{Kind: "text", Size: 64, Seed: 6}}
	jsn := msggen.Spec{Method: "POST", Host: "example.com", Path: "/", Framing: "cl", ContentType: "application/json", Body: msggen.Body{Kind: "json", Size: 40, Seed: 7}}
	opt := func(mode string, types ...string) msggen.HarOpt { return msggen.HarOpt{Mode: mode, Types: types} }
	for _, hist := range [][]OptCall{
		{{false, opt("optout", "image/")}, {false, opt("all")}},
		{{false, opt("optin", "text/")}, {false, opt("optout", "application/json")}},
		{{false, opt("optin", "text/")}, {false, opt("all")}},
		{{false, opt("optout", "image/")}, {false, opt("optin", "image/")}},
		{{false, opt("none")}, {false, opt("optout", "text/")}},
		{{false, opt("all")}, {false, opt("none")}},
		{{true, opt("optout", "application/json")}, {true, opt("all")}},
		{{true, opt("optin", "text/")}, {true, opt("optout", "multipart/")}},
		{{true, opt("none")}, {true, opt("optin", "application/json")}},
		{{true, opt("optin", "application/json")}, {false, opt("optout", "image/")}, {true, opt("none")}, {false, opt("all")}},
	} {
		for _, res := range []msggen.Spec{img, txt} {
			for _, one := range []bool{false, true} {
				c := Case{Req: jsn, Res: res, Hist: hist, OneCall: one}
				c.Post, c.Body = effective(hist)
				if !yield(c) {
					return
				}
			}
		}
	}
	// literals in the header map that disagree with the message fields, and
	// responses built by the proxy for HTTP/1.0 and HTTP/1.1 requests
	allOpt := msggen.HarOpt{Mode: "all"}
	chReq, chRes := jsn, txt
	chReq.Framing, chReq.Chunks = "chunked", []int{7}
	chRes.Framing, chRes.Chunks = "chunked", []int{7}
	for _, st := range staleKinds {
		for _, x := range [][2]msggen.Spec{{jsn, txt}, {chReq, chRes}} {
			if !yield(Case{Req: x[0], Res: x[1], Post: allOpt, Body: allOpt, Stale: []string{st}}) {
				return
			}
		}
	}
	if !yield(Case{Req: jsn, Res: txt, Post: allOpt, Body: allOpt, Stale: staleKinds}) {
		return
	}
	for _, p10 := range []bool{false, true} {
		for _, status := range []int{200, 502, 204} {
			for _, method := range []string{"POST", "HEAD"} {
				rq, rs := jsn, txt
				rq.Proto10, rq.Method, rs.Status = p10, method, status
				if status == 204 {
					rs.Framing, rs.Body, rs.ContentType = "none", msggen.Body{Kind: "none"}, ""
				}
				if !yield(Case{Req: rq, Res: rs, Post: allOpt, Body: allOpt, Built: true}) {
					return
				}
			}
		}
	}
	// requests labelled as forms that cannot be converted: no entry, and never one without a request
	for _, bad := range []string{"escape", "semicolon", "multipart-unclosed", "multipart-noboundary", "multipart-truncated"} {
		for _, framing := range []string{"cl", "chunked"} {
			for _, mode := range []string{"all", "none"} {
				ct := "application/x-www-form-urlencoded"
				if strings.HasPrefix(bad, "multipart") {
					ct = "multipart/form-data"
				}
				rq := msggen.Spec{Method: "POST", Host: "example.com", Path: "/a", Framing: framing, ContentType: ct,
					Body: msggen.Body{Kind: "badform", Bad: bad, Size: 20, Seed: 3, Boundary: "b0undary-0123456789-abcdefghij"}}
				if !yield(Case{Req: rq, Res: txt, Post: msggen.HarOpt{Mode: mode}, Body: allOpt}) {
					return
				}
			}
		}
	}
	// round 6: announced trailers, reason phrases, query pairs net/url rejects,
	// file names with a directory part, zlib streams with a small window
	{
		trq, trs := chReq, chRes
		trq.Trailers = []msggen.HV{{Name: "X-Checksum", Value: "deadbeef"}, {Name: "Server-Timing", Value: "db;dur=53"}}
		trs.Trailers = []msggen.HV{{Name: "X-Checksum", Value: "deadbeef"}}
		cs := []Case{{Req: trq, Res: trs}}
		for _, r := range []struct {
			code   int
			reason string
		}{{404, "No Such Customer"}, {200, "Document follows"}, {299, "Partially Applied"}, {520, "Web Server Returned an Unknown Error"}, {200, ""}} {
			rs := txt
			rs.Status, rs.Reason, rs.CustomReason = r.code, r.reason, true
			cs = append(cs, Case{Req: jsn, Res: rs})
		}
		for _, raw := range []msggen.NV{{Name: "a", Value: msggen.Val{Lit: "1;b=2"}, Raw: "a=1;b=2", Bad: true}, {Name: "discount", Value: msggen.Val{Lit: "100%"}, Raw: "discount=100%", Bad: true}, {Name: "next", Value: msggen.Val{Lit: "%zz"}, Raw: "next=%zz", Bad: true}} {
			rq := jsn
			rq.Query = []msggen.NV{{Name: "page", Value: msggen.Val{Lit: "2"}}, raw}
			cs = append(cs, Case{Req: rq, Res: txt})
		}
		rq := msggen.Spec{Method: "POST", Host: "example.com", Path: "/up", Framing: "cl", ContentType: "multipart/form-data", Body: msggen.Body{Kind: "multipart", Boundary: "b0undary-0123456789-abcdefghij",
			Params: []msggen.Param{{Name: "f", Value: msggen.Val{N: 12, Seed: 1}, File: "photos/2020/index.html", CT: "text/html"}, {Name: "g", Value: msggen.Val{N: 12, Seed: 2}, File: "photos/2021/index.html", CT: "text/html"}}}}
		cs = append(cs, Case{Req: rq, Res: txt})
		for _, enc := range []string{"gzip-multi", "gzip-bad", "gzip-padded", "gzip-truncated", "deflate-bad"} {
			for _, framing := range []string{"cl", "chunked", "close"} {
				for _, size := range []int{50, 51, 4097} {
					rs := txt
					rs.Encoding, rs.Framing, rs.Body.Size = enc, framing, size
					cs = append(cs, Case{Req: jsn, Res: rs})
				}
			}
		}
		for _, size := range []int{1, 300, 600, 3000, 9000, 20000} {
			rs := txt
			rs.Encoding, rs.Body.Size = "deflate-zlib-small", size
			cs = append(cs, Case{Req: jsn, Res: rs})
		}
		for _, c := range cs {
			c.Post, c.Body = allOpt, allOpt
			if !yield(c) {
				return
			}
		}
	}
	// cookies on several Cookie lines; the log fetched through the handler while
	// the exchange is in flight and again when it is complete
	{
		rq := jsn
		rq.Cookies = []msggen.Cookie{{Name: "sid", Value: "1"}, {Name: "theme", Value: "dark"}, {Name: "a", Value: "x.y"}}
		for _, n := range []int{2, 3} {
			rq.CookieLines = n
			if !yield(Case{Req: rq, Res: txt, Post: allOpt, Body: allOpt}) {
				return
			}
		}
		if !yield(Case{Req: jsn, Res: txt, Post: allOpt, Body: allOpt, Handler: true, MidExport: true}) {
			return
		}
	}
	// the request body cannot be read to its end: no entry, never one without a request
	for _, rq := range []msggen.Spec{jsn, chReq} {
		for _, mode := range []string{"all", "none"} {
			if !yield(Case{Req: rq, Res: txt, Post: msggen.HarOpt{Mode: mode}, Body: allOpt, FailBody: true}) {
				return
			}
		}
	}
	// non-UTF-8 query value
	yield(Case{Post: msggen.HarOpt{Mode: "all"}, Body: msggen.HarOpt{Mode: "all"},
		Req: msggen.Spec{Method: "GET", Host: "example.com", Path: "/", Framing: "none", Body: msggen.Body{Kind: "none"}, Query: []msggen.NV{{Name: "q", Value: bin}}},
		Res: msggen.Spec{Status: 200, Framing: "cl", ContentType: "text/plain", Body: msggen.Body{Kind: "text", Size: 5}}})
}

func TestMatrix(t *testing.T) {
	if kit.Race() {
		t.Skip("sequential, single goroutine per case")
	}
	propMatrix.Enumerate(t, matrix)
}

func TestEntry(t *testing.T) {
	if kit.Race() {
		t.Skip("sequential, single goroutine per case")
	}
	propEntry.Check(t, kit.N(3000, 25000))
}

func TestReplay(t *testing.T) { kit.Replay(t, propEntry, propMatrix, propSequence) }
