package c16

// Sequence variant: several exchanges are recorded by ONE har.Logger and the
// log is exported once at the end. An entry that keeps a reference into memory
// the logger reuses for the next exchange (pooled decode buffers) is right at
// the moment it is recorded and wrong once a later exchange was logged; a
// one-exchange case cannot see that.

import (
	"bufio"
	"bytes"
	"fmt"
	"io"
	"net/http"
	"net/http/httptest"
	"strings"
	"testing"

	"github.com/google/martian/v3"
	"github.com/google/martian/v3/har"
	"pgregory.net/rapid"

	"verifharness/internal/kit"
	"verifharness/props/msggen"
)

// Exchange is one request/response pair of a sequence.
type Exchange struct {
	Req msggen.Spec `json:"req"`
	Res msggen.Spec `json:"res"`
	// Other: this exchange is recorded on another goroutine
	Other bool `json:"other,omitempty"`
}

// SeqCase is a sequence of exchanges through one logger.
type SeqCase struct {
	Exchanges []Exchange    `json:"exchanges"`
	Post      msggen.HarOpt `json:"post"`
	Body      msggen.HarOpt `json:"body"`
	Handler   bool          `json:"handler,omitempty"`
	// Overlap: all requests are recorded first, then all responses (the
	// exchanges overlap in time); otherwise one exchange after the other.
	Overlap bool `json:"overlap,omitempty"`
	Rounds  int  `json:"rounds"` // the sequence is repeated with a fresh logger: pooled memory is reused from round to round
}

func (sc SeqCase) single(i int) Case {
	return Case{Req: sc.Exchanges[i].Req, Res: sc.Exchanges[i].Res, Post: sc.Post, Body: sc.Body, Handler: sc.Handler}
}

type seqEx struct {
	c              Case
	mq, ms         *msggen.Message
	req            *http.Request
	res            *http.Response
	reqErr, resErr error
}

func runSeq(sc SeqCase) (v kit.Verdict) {
	rounds := sc.Rounds
	if rounds < 1 {
		rounds = 1
	}
	for r := 0; r < rounds && len(v) == 0; r++ {
		v = seqRound(sc)
	}
	return v
}

func seqRound(sc SeqCase) (v kit.Verdict) {
	n := len(sc.Exchanges)
	l := har.NewLogger()
	l.SetOption(sc.Post.Option(true), sc.Body.Option(false))
	xs := make([]*seqEx, n)
	for i := range sc.Exchanges {
		x := &seqEx{c: sc.single(i)}
		x.c.Res.Response, x.c.Res.ReqMethod = true, x.c.Req.Method
		x.mq, x.ms = msggen.Build(x.c.Req), msggen.Build(x.c.Res)
		req, err := http.ReadRequest(bufio.NewReader(bytes.NewReader(x.mq.Wire)))
		if err != nil {
			return kit.Failf("C16/harness/generated-message-unparseable", "net/http cannot parse generated request %d: %v", i, err)
		}
		req.URL.Scheme = "http"
		if req.URL.Host == "" {
			req.URL.Host = req.Host
		}
		req.RemoteAddr = "127.0.0.1:54321"
		_, remove, err := martian.TestContext(req, nil, nil)
		if err != nil {
			return kit.Failf("C16/harness/no-context", "%v", err)
		}
		defer remove()
		x.req = req
		xs[i] = x
	}
	on := func(other bool, f func()) {
		if !other {
			f()
			return
		}
		done := make(chan struct{})
		go func() { defer close(done); f() }()
		<-done
	}
	var harness kit.Verdict
	logReq := func(i int) { xs[i].reqErr = l.ModifyRequest(xs[i].req) }
	logRes := func(i int) {
		x := xs[i]
		res, err := http.ReadResponse(bufio.NewReader(bytes.NewReader(x.ms.Wire)), x.req)
		if err != nil {
			harness.Addf("C16/harness/generated-message-unparseable", "net/http cannot parse generated response %d: %v", i, err)
			return
		}
		x.res = res
		x.resErr = l.ModifyResponse(res)
	}
	if sc.Overlap {
		for i := range xs {
			on(sc.Exchanges[i].Other, func() { logReq(i) })
		}
		if sc.Handler {
			// the log is fetched while all exchanges are in flight; the fetch
			// at the end must show them completed
			har.NewExportHandler(l).ServeHTTP(httptest.NewRecorder(), httptest.NewRequest("GET", "/logs", nil))
		}
		for i := range xs {
			on(sc.Exchanges[i].Other, func() { logRes(i) })
		}
	} else {
		for i := range xs {
			on(sc.Exchanges[i].Other, func() { logReq(i); logRes(i) })
		}
	}
	if len(harness) > 0 {
		return harness
	}

	// per exchange: failures with the signatures of the one-exchange check
	per := make([]kit.Verdict, n)
	// everything was logged; only now are the messages forwarded
	for i, x := range xs {
		if got, err := io.ReadAll(x.req.Body); err != nil || !bytes.Equal(got, x.mq.Entity) {
			per[i].Addf("C16/forwarded/"+reqShape(x.mq)+"/request-body-changed", "after logging the request body reads %v, %s", err, kit.Diff(x.mq.Entity, got))
		}
		if got, err := io.ReadAll(x.res.Body); err != nil || !bytes.Equal(got, x.ms.Entity) {
			per[i].Addf("C16/forwarded/"+resShape(x.ms)+"/response-body-changed", "after logging the response body reads %v, %s", err, kit.Diff(x.ms.Entity, got))
		}
	}
	// ... and the log exported, once
	exported := l.Export()
	es := exported.Log.Entries
	recorded := 0
	for _, x := range xs {
		if x.reqErr == nil {
			recorded++
		}
	}
	// entry validity: an exchange whose request could not be converted
	// contributes no entry, and none without a request - also next to the
	// correct entries of the exchanges recorded before and after it
	for k, e := range es {
		if e.Request == nil {
			v.Addf("C16/sequence/entry/entry-without-request-among-later-entries", "exported entry %d of %d has \"request\": null (response attached: %v); %d of %d requests had been recorded without error", k, len(es), e.Response != nil, recorded, n)
		}
	}
	if len(v) > 0 {
		return v
	}
	if len(es) != recorded {
		return kit.Failf("C16/sequence/entries/count-differs", "%d requests were recorded without error, the export holds %d entries", recorded, len(es))
	}
	back, rv := roundTrip(l, exported, sc.Handler)
	v = append(v, rv...)
	k := 0
	for i, x := range xs {
		if x.reqErr != nil {
			if x.mq.Spec.Body.Kind != "badform" {
				per[i].Addf("C16/entry/"+reqShape(x.mq)+"/request-not-recorded", "ModifyRequest = %v for a well-formed request", x.reqErr)
			}
			continue
		}
		e := es[k]
		per[i] = append(per[i], checkEntry(x.c, x.mq, x.ms, e, x.resErr)...)
		if back != nil {
			per[i] = append(per[i], compareEntries(e, back.Log.Entries[k])...)
		}
		k++
	}

	// attribution: what the exchange shows on its own keeps its signature
	// (known findings stay known); the rest names the sequence shape
	for i := range xs {
		if len(per[i]) == 0 {
			continue
		}
		alone := map[string]bool{}
		for _, f := range run(xs[i].c) {
			alone[f.Sig] = true
		}
		for _, f := range per[i] {
			if alone[f.Sig] {
				v = append(v, f)
				continue
			}
			v.Addf(seqSig(f.Sig, i < n-1), "%s\n(exchange %d of %d recorded by one logger, log exported at the end; the same exchange alone passes)", f.Msg, i, n)
		}
	}
	return v
}

// seqSig names the sequence shape: the clause, whether later exchanges were
// recorded after the damaged one, and what changed.
func seqSig(sig string, earlier bool) string {
	p := strings.Split(sig, "/")
	clause, class := p[1], p[len(p)-1]
	pos := "last-entry"
	if earlier {
		pos = "earlier-entry"
	}
	switch {
	case clause == "content" && earlier && (class == "text-differs" || class == "not-decoded" || class == "size-differs"):
		return "C16/sequence/content/earlier-entry-content-changed-by-later-one"
	case clause == "postdata" && earlier:
		return "C16/sequence/postdata/earlier-entry-post-data-changed-by-later-one"
	case clause == "forwarded" && earlier:
		return "C16/sequence/forwarded/earlier-exchange-body-changed-by-later-one"
	}
	field := class
	if len(p) >= 4 {
		field = p[2] + "-" + class
	}
	return fmt.Sprintf("C16/sequence/%s/%s-%s", clause, pos, field)
}

// ---------------------------------------------------------------- generation

func genSeq(t *rapid.T) SeqCase {
	// bodies stay below 30 kB: large bodies trigger garbage collections, which
	// empty sync.Pools and hide exactly what this variant is after
	o := msggen.Options{MaxBody: 30000, Forms: true, BadForms: true}
	sc := SeqCase{Overlap: rapid.Bool().Draw(t, "overlap"), Handler: rapid.Bool().Draw(t, "handler"), Rounds: 3}
	n := rapid.IntRange(2, 4).Draw(t, "n")
	for i := 0; i < n; i++ {
		x := Exchange{Req: msggen.DrawRequest(t, o), Other: rapid.IntRange(0, 2).Draw(t, "other_goroutine") == 0}
		x.Res = msggen.DrawResponse(t, o, x.Req.Method)
		for _, b := range []*msggen.Body{&x.Req.Body, &x.Res.Body} {
			// overwritten memory shows only in bodies that have bytes
			if (b.Kind == "text" || b.Kind == "json" || b.Kind == "binary") && b.Size < 16 {
				b.Size = rapid.IntRange(16, 3000).Draw(t, "min_size")
			}
		}
		// values that are not valid UTF-8 are the business of the one-exchange
		// check (two open findings); here they would only end every sequence early
		for j := range x.Req.Query {
			x.Req.Query[j].Value.Bin = false
		}
		for j := range x.Req.Body.Params {
			x.Req.Body.Params[j].Value.Bin = false
		}
		sc.Exchanges = append(sc.Exchanges, x)
	}
	sc.Post, sc.Body = msggen.HarOpt{Mode: "all"}, msggen.HarOpt{Mode: "all"}
	if rapid.IntRange(0, 3).Draw(t, "har_opts") == 0 {
		sc.Post, sc.Body = msggen.DrawHarOpt(t, "post"), msggen.DrawHarOpt(t, "body")
	}
	return sc
}

func seqSizes(sc SeqCase) (bodies int, smaller, larger bool) {
	prev := -1
	for _, x := range sc.Exchanges {
		s := x.Res
		sz := s.Body.Size
		if s.Framing == "none" || x.Req.Method == "HEAD" || s.Status == 204 || s.Status == 304 {
			sz = 0
		}
		if sz == 0 {
			continue
		}
		bodies++
		if prev > 0 && sz < prev {
			smaller = true
		}
		if prev > 0 && sz > prev {
			larger = true
		}
		prev = sz
	}
	return
}

func seqClasses(sc SeqCase) []string {
	cl := []string{fmt.Sprintf("exchanges-%d", len(sc.Exchanges)), "body-" + sc.Body.Mode, "post-" + sc.Post.Mode}
	if sc.Overlap {
		cl = append(cl, "overlapping")
	} else {
		cl = append(cl, "one-after-the-other")
	}
	for _, x := range sc.Exchanges {
		if x.Other {
			cl = append(cl, "other-goroutine")
			break
		}
	}
	comp := 0
	for _, x := range sc.Exchanges {
		if e := x.Res.Encoding; e == "gzip" || e == "deflate" || e == "GZIP" {
			comp++
		}
	}
	if comp > 0 {
		cl = append(cl, "compressed-response")
	}
	for i, x := range sc.Exchanges {
		if x.Req.Body.Kind == "badform" && sc.Post.Captures(x.Req.ContentType) {
			cl = append(cl, "unparseable-form-captured")
			if i < len(sc.Exchanges)-1 {
				cl = append(cl, "unparseable-form-then-later-exchange")
			}
			break
		}
	}
	bodies, smaller, larger := seqSizes(sc)
	if bodies >= 2 {
		cl = append(cl, "two-response-bodies")
	}
	if smaller {
		cl = append(cl, "later-smaller")
	}
	if larger {
		cl = append(cl, "later-larger")
	}
	if sc.Handler {
		cl = append(cl, "through-export-handler")
	}
	return cl
}

var propSequence = &kit.Prop[SeqCase]{
	ID: "C16", Name: "sequence",
	Rule: "2..4 generated exchanges (bodies up to 30 kB of different sizes, all framings and codings) are recorded by ONE har.Logger - one after the other or overlapping (all requests, then all responses), some on another goroutine - and only then are the bodies forwarded and the log exported ONCE; every entry is compared with its generated description and with its JSON round trip; every sequence is repeated 3 times; non-trivial = at least two responses with a body",
	Gen:  genSeq, Run: runSeq,
	NonTrivial: func(sc SeqCase) bool { b, _, _ := seqSizes(sc); return b >= 2 },
	Classes:    seqClasses,
	Gates: map[string]float64{"nontrivial": 0.5, "later-smaller": 0.25, "later-larger": 0.25, "other-goroutine": 0.3, "overlapping": 0.3,
		"one-after-the-other": 0.3, "compressed-response": 0.3, "body-all": 0.6, "unparseable-form-then-later-exchange": 0.05},
}

func TestSequence(t *testing.T) {
	if kit.Race() {
		t.Skip("no shared state beyond the logger under test")
	}
	propSequence.Check(t, kit.N(350, 3000))
}
