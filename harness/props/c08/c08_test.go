// Package c08 decides property C08: the HTTP/2 relay delivers each stream's
// frames faithfully for any framing and order.
package c08

import (
	"bytes"
	"fmt"
	"github.com/google/martian/v3/h2"
	"sort"
	"strings"
	"sync"
	"testing"
	"time"

	"verifharness/internal/kit"
	"verifharness/props/h2kit"
)

func TestMain(m *testing.M) { kit.Main(m, "C08") }

const (
	clientSentinel = 0x7fffff01
	serverSentinel = 0x7fffff02
)

// ---------------------------------------------------------------- model

// item is one normalised per-stream observation: consecutive DATA frames are
// one run of bytes (the relay may re-split), empty DATA without END_STREAM
// carries nothing.
type item struct {
	Kind     string
	Fields   []h2kit.Field
	Err      string
	End      bool
	Prio     *h2kit.Prio
	Data     []byte
	Code     uint32
	Promised uint32
	// shape of the frame as sent (expected side only)
	Continued bool
}

func (it item) String() string {
	switch it.Kind {
	case "H", "PP":
		s := fmt.Sprintf("%s(%d fields", it.Kind, len(it.Fields))
		if it.Kind == "PP" {
			s += fmt.Sprintf(" promised=%d", it.Promised)
		}
		if it.Prio != nil {
			s += fmt.Sprintf(" prio=%+v", *it.Prio)
		}
		if it.End {
			s += " END_STREAM"
		}
		if it.Err != "" {
			s += " undecodable: " + it.Err
		}
		return s + ")"
	case "D":
		s := fmt.Sprintf("D(%d bytes %s", len(it.Data), kit.Hash(it.Data))
		if it.End {
			s += " END_STREAM"
		}
		return s + ")"
	case "R":
		return fmt.Sprintf("RST(%d)", it.Code)
	case "P":
		return fmt.Sprintf("PRIORITY(%+v)", *it.Prio)
	}
	return it.Kind
}

func pushItem(list []item, it item) []item {
	if it.Kind == "D" {
		if n := len(list); n > 0 && list[n-1].Kind == "D" && !list[n-1].End {
			list[n-1].Data = append(list[n-1].Data, it.Data...)
			list[n-1].End = it.End
			return list
		}
	}
	return append(list, it)
}

func dropEmpty(list []item) []item {
	out := list[:0]
	for _, it := range list {
		if it.Kind == "D" && len(it.Data) == 0 && !it.End {
			continue
		}
		out = append(out, it)
	}
	return out
}

type model struct {
	streams  map[uint32][]item
	settings [][]h2kit.Setting
	pings    []h2kit.Ping
	goaways  []h2kit.GoAway
	data     map[uint32]int // data octets per stream
	foreign  []string       // frames that arrived inside a continued header block
	debug    bool           // expected side: the relay runs with EnableDebugLogs
}

func pingData(v uint64) [8]byte {
	var d [8]byte
	for i := 0; i < 8; i++ {
		d[i] = byte(v >> (8 * uint(7-i)))
	}
	d[0] &= 0x7f // never collides with a harness marker
	return d
}

// expected builds what the peer of the sender of frames must observe.
func expected(initial []h2kit.Setting, frames []Frame) *model {
	m := &model{streams: map[uint32][]item{}, data: map[uint32]int{}}
	m.settings = append(m.settings, initial)
	for _, f := range frames {
		switch f.T {
		case "H":
			m.streams[f.S] = pushItem(m.streams[f.S], item{Kind: "H", Fields: f.Fields, End: f.End, Prio: f.Prio, Continued: len(f.Cuts) > 0})
		case "PP":
			m.streams[f.S] = pushItem(m.streams[f.S], item{Kind: "PP", Fields: f.Fields, Promised: f.Promised, Continued: len(f.Cuts) > 0})
		case "D":
			for k := 0; k < f.times(); k++ {
				m.streams[f.S] = pushItem(m.streams[f.S], item{Kind: "D", Data: kit.Bytes(f.Seed, f.N), End: f.End})
				m.data[f.S] += f.N
			}
		case "R":
			m.streams[f.S] = pushItem(m.streams[f.S], item{Kind: "R", Code: f.Code})
		case "P":
			m.streams[f.S] = pushItem(m.streams[f.S], item{Kind: "P", Prio: f.Prio})
		case "S":
			m.settings = append(m.settings, f.Settings)
		case "G":
			m.pings = append(m.pings, h2kit.Ping{Ack: f.Ack, Data: pingData(f.Ping)})
		case "A":
			m.goaways = append(m.goaways, h2kit.GoAway{Last: f.Last, Code: f.Code, Debug: kit.Text(uint64(f.Debug), f.Debug)})
		}
	}
	for s := range m.streams {
		m.streams[s] = dropEmpty(m.streams[s])
	}
	return m
}

// observed normalises a recorder the same way (harness barriers removed).
func observed(r *h2kit.Rec) *model {
	m := &model{streams: map[uint32][]item{}, data: map[uint32]int{}}
	for s, evs := range r.Streams {
		if s == clientSentinel || s == serverSentinel {
			continue
		}
		var list []item
		for _, ev := range evs {
			list = pushItem(list, item{Kind: ev.Kind, Fields: ev.Fields, Err: ev.DecodeErr, End: ev.End, Prio: ev.Prio, Data: append([]byte(nil), ev.Data...), Code: ev.Code, Promised: ev.Promised})
		}
		m.streams[s] = dropEmpty(list)
	}
	for s, n := range r.DataBytes {
		m.data[s] = n
	}
	m.settings = append(m.settings, r.Settings...)
	for _, p := range r.Pings {
		if _, marker := h2kit.IsMarker(p.Data); !marker {
			m.pings = append(m.pings, p)
		}
	}
	m.goaways = append(m.goaways, r.GoAways...)
	m.foreign = append(m.foreign, r.Foreign...)
	return m
}

// reached reports whether the recorder holds at least everything expected.
func reached(r *h2kit.Rec, want *model, acks int) bool {
	if len(r.Settings) < len(want.settings) || len(r.GoAways) < len(want.goaways) || r.Acks < acks {
		return false
	}
	np := 0
	for _, p := range r.Pings {
		if _, marker := h2kit.IsMarker(p.Data); !marker {
			np++
		}
	}
	if np < len(want.pings) {
		return false
	}
	got := observed(r)
	for s, list := range want.streams {
		if len(got.streams[s]) < len(list) || got.data[s] < want.data[s] {
			return false
		}
		// the last expected item may be a data run that is still growing
		if n := len(list); n > 0 && list[n-1].Kind == "D" {
			g := got.streams[s][n-1]
			if g.Kind == "D" && (len(g.Data) < len(list[n-1].Data) || g.End != list[n-1].End) {
				return false
			}
		}
	}
	return true
}

func sameFields(a, b []h2kit.Field) bool {
	if len(a) != len(b) {
		return false
	}
	for i := range a {
		if a[i] != b[i] {
			return false
		}
	}
	return true
}

func fieldDiff(want, got []h2kit.Field) string {
	n := len(want)
	if len(got) < n {
		n = len(got)
	}
	for i := 0; i < n; i++ {
		if want[i] != got[i] {
			return fmt.Sprintf("field %d: sent %s: %s, decoded %s: %s (%d vs %d fields)", i, want[i].N, clip(want[i].V), got[i].N, clip(got[i].V), len(want), len(got))
		}
	}
	return fmt.Sprintf("%d fields sent, %d decoded", len(want), len(got))
}

func clip(s string) string {
	if len(s) > 40 {
		return fmt.Sprintf("%q…(%d)", s[:40], len(s))
	}
	return fmt.Sprintf("%q", s)
}

func samePrio(a, b *h2kit.Prio) bool {
	if a == nil || b == nil {
		return a == b
	}
	return *a == *b
}

// ---------------------------------------------------------------- shapes

// blockedShape: in this direction a header block (HEADERS, trailers or
// PUSH_PROMISE) follows DATA of its own stream that can exceed the receiver's
// stream window, and a header block on another stream is sent later. The relay
// then holds the first block in the stream's queue while the later one is
// written: the HPACK-order finding.
// room is the stream window the receiver starts a stream with.
func room(w Win, stream uint32) int {
	// (also with early credit: the grant races with the peer's first DATA through the
	// relay, so a stream can be held for a moment at the announced window)
	return w.Init
}

func blockedShape(frames []Frame, w Win) bool {
	cum := map[uint32]int{}
	held := false
	var heldStream uint32
	for _, f := range frames {
		switch f.T {
		case "D":
			cum[f.S] += f.N * f.times()
		case "H", "PP":
			if held && f.S != heldStream {
				return true
			}
			if !held && cum[f.S] > room(w, f.S) {
				held, heldStream = true, f.S
			}
		}
	}
	return false
}

func canBlock(frames []Frame, w Win) bool {
	cum := map[uint32]int{}
	for _, f := range frames {
		if f.T == "D" {
			cum[f.S] += f.N * f.times()
			if cum[f.S] > room(w, f.S) {
				return true
			}
		}
	}
	return false
}

func interleaved(frames []Frame) bool {
	// some stream's frames are separated by another stream's frame
	last := map[uint32]int{}
	for i, f := range frames {
		if f.S == 0 {
			continue
		}
		if j, ok := last[f.S]; ok {
			for k := j + 1; k < i; k++ {
				if frames[k].S != 0 && frames[k].S != f.S {
					return true
				}
			}
		}
		last[f.S] = i
	}
	return false
}

func dribbledPreface(c Case) bool {
	return len(c.Pieces) > 0 && c.Pieces[0] > 0 && c.Pieces[0] < len(h2kit.Preface)
}

func classes(c Case) []string {
	set := map[string]bool{}
	all := append(append([]Frame(nil), c.Client...), c.Server...)
	for _, f := range all {
		if (f.T == "H" || f.T == "PP") && len(f.Cuts) > 0 {
			set["continuation"] = true
		}
		if f.Pad >= 0 && (f.T == "H" || f.T == "PP" || f.T == "D") {
			set["padding"] = true
		}
		if f.T == "H" && f.End && len(f.Fields) > 0 && !strings.HasPrefix(f.Fields[0].N, ":") {
			set["trailers"] = true
		}
		if f.T == "H" && f.Prio != nil {
			set["headers-priority"] = true
		}
		switch f.T {
		case "PP":
			set["push-promise"] = true
		case "R":
			set["rst"] = true
		case "P":
			set["priority-frame"] = true
		case "A":
			set["goaway"] = true
		case "S":
			set["settings"] = true
		case "G":
			set["ping"] = true
		case "T":
			set["encoder-table-resize"] = true
		}
		for _, fl := range f.Fields {
			if len(fl.V) > 16000 {
				set["header-block>16KiB"] = true
			}
		}
	}
	if interleaved(c.Client) || interleaved(c.Server) {
		set["interleaved-streams"] = true
	}
	if canBlock(c.Client, c.SWin) || canBlock(c.Server, c.CWin) {
		set["window-blocked"] = true
	}
	if blockedShape(c.Client, c.SWin) || blockedShape(c.Server, c.CWin) {
		set["headers-behind-blocked-data"] = true
	}
	for _, p := range c.Pieces {
		if p > 0 && p < 24 {
			set["segmentation<24"] = true
		}
	}
	if dribbledPreface(c) {
		set["dribbled-preface"] = true
	}
	if c.Procs > 0 || len(c.Chain) > 0 {
		set["stream-processors"] = true
	}
	for _, k := range c.Chain {
		if k == 2 || k == 3 {
			set["processor-for-one-direction-only"] = true
		}
	}
	if c.CWin.Mode == "early" {
		set["credit-before-first-frame"] = true
	}
	if c.CWin.Rep || c.SWin.Rep {
		set["repeated-settings-identifier"] = true
	}
	if c.CWin.Mode == "none" || c.SWin.Mode == "none" {
		set["no-window-updates-at-all"] = true
	}
	if c.CWin.Mode == "settings" || c.SWin.Mode == "settings" {
		set["window-opened-by-settings-only"] = true
	}
	if c.Debug {
		set["debug-logs-on"] = true
	}
	for _, f := range all {
		for _, fl := range f.Fields {
			if fl.S {
				set["never-indexed-field"] = true
			}
		}
	}
	for _, f := range all {
		if f.T == "D" && f.N > 16384 {
			set["data-frame-above-16384"] = true
		}
		if f.Bare {
			set["header-block-without-fields"] = true
		}
		if f.times() > 15 {
			set["burst-of-data-frames"] = true
		}
	}
	if (c.CMax > 16384) != (c.SMax > 16384) {
		set["asymmetric-max-frame-size"] = true
	}
	for _, f := range c.Client {
		if f.T == "T" && f.Table > 4096 {
			set["encoder-table-above-4096"] = true
		}
	}
	for _, f := range c.Server {
		if f.T == "T" && f.Table > 4096 {
			set["encoder-table-above-4096"] = true
		}
	}
	var out []string
	for k := range set {
		out = append(out, k)
	}
	sort.Strings(out)
	return out
}

func nontrivial(c Case) bool {
	for _, cl := range classes(c) {
		switch cl {
		case "continuation", "padding", "interleaved-streams", "window-blocked", "segmentation<24":
			return true
		}
	}
	return false
}

// ---------------------------------------------------------------- comparison

// compare checks one direction. dir is "c2s" or "s2c"; blocked says whether the
// direction has the headers-behind-blocked-data shape.
func compare(dir string, want, got *model, wantAcks, gotAcks int, blocked, early bool, mode string) kit.Verdict {
	var v kit.Verdict
	var ids []uint32
	seen := map[uint32]bool{}
	for s := range want.streams {
		ids = append(ids, s)
		seen[s] = true
	}
	for s := range got.streams {
		if !seen[s] {
			ids = append(ids, s)
		}
	}
	sort.Slice(ids, func(i, j int) bool { return ids[i] < ids[j] })
	for _, s := range ids {
		w, g := want.streams[s], got.streams[s]
		n := len(w)
		if len(g) < n {
			n = len(g)
		}
		for i := 0; i < n; i++ {
			if w[i].Kind != g[i].Kind {
				v.Addf("C08/stream-history/"+dir+"/frame-kind-differs", "%s stream %d item %d: sent %v, received %v", dir, s, i, w[i], g[i])
				break
			}
			switch w[i].Kind {
			case "H", "PP":
				shape := "single-frame-block"
				if w[i].Continued {
					shape = "continued-block"
				}
				if g[i].Err != "" || !sameFields(w[i].Fields, g[i].Fields) {
					what := "undecodable: " + g[i].Err
					if g[i].Err == "" {
						what = fieldDiff(w[i].Fields, g[i].Fields)
					}
					// only the values of never-indexed fields differ: not an HPACK state problem
					sensitive := g[i].Err == "" && len(g[i].Fields) == len(w[i].Fields)
					for k := 0; sensitive && k < len(w[i].Fields); k++ {
						a, b := w[i].Fields[k], g[i].Fields[k]
						sensitive = a == b || (a.S && a.N == b.N)
					}
					if want.debug && sensitive {
						v.Addf("C08/header-fields/never-indexed-field-with-debug-logs-on/receiver-decodes-other-fields", "%s stream %d item %d (%v): %s", dir, s, i, w[i], what)
					} else if blocked {
						v.Addf("C08/header-fields/block-queued-behind-window-blocked-data/receiver-decodes-other-fields", "%s stream %d item %d (%v): %s", dir, s, i, w[i], what)
					} else {
						v.Addf("C08/header-fields/"+shape+"/receiver-decodes-other-fields", "%s stream %d item %d (%v): %s", dir, s, i, w[i], what)
					}
				}
				if w[i].Kind == "H" && w[i].End != g[i].End {
					if g[i].End {
						v.Addf("C08/end-stream/"+shape+"-without-end-stream/end-stream-invented", "%s stream %d item %d: HEADERS sent without END_STREAM arrived with END_STREAM", dir, s, i)
					} else {
						v.Addf("C08/end-stream/"+shape+"-with-end-stream/end-stream-lost", "%s stream %d item %d: HEADERS sent with END_STREAM arrived without", dir, s, i)
					}
				}
				if w[i].Kind == "H" && !samePrio(w[i].Prio, g[i].Prio) {
					switch {
					case w[i].Prio != nil && *w[i].Prio == (h2kit.Prio{}) && g[i].Prio == nil:
						v.Addf("C08/priority/headers-with-all-zero-priority/priority-dropped", "%s stream %d item %d: HEADERS carried priority {dep 0, weight 0, non-exclusive}, forwarded without a priority section", dir, s, i)
					default:
						v.Addf("C08/priority/"+shape+"/priority-differs", "%s stream %d item %d: priority sent %v received %v", dir, s, i, w[i].Prio, g[i].Prio)
					}
				}
				if w[i].Kind == "PP" && w[i].Promised != g[i].Promised {
					v.Addf("C08/push-promise/"+shape+"/promised-id-differs", "%s stream %d item %d: promised %d, received %d", dir, s, i, w[i].Promised, g[i].Promised)
				}
			case "D":
				if !bytes.Equal(w[i].Data, g[i].Data) {
					v.Addf("C08/data/"+dir+"/bytes-differ", "%s stream %d item %d: %s", dir, s, i, kit.Diff(w[i].Data, g[i].Data))
				}
				if w[i].End != g[i].End {
					v.Addf("C08/end-stream/data/end-stream-position-differs", "%s stream %d item %d: END_STREAM sent %v received %v", dir, s, i, w[i].End, g[i].End)
				}
			case "R":
				if w[i].Code != g[i].Code {
					v.Addf("C08/reset/"+dir+"/code-differs", "%s stream %d: RST_STREAM sent %d received %d", dir, s, w[i].Code, g[i].Code)
				}
			case "P":
				if !samePrio(w[i].Prio, g[i].Prio) {
					v.Addf("C08/priority/priority-frame/priority-differs", "%s stream %d: PRIORITY sent %v received %v", dir, s, w[i].Prio, g[i].Prio)
				}
			}
		}
		if len(g) < len(w) && early && s%2 == 1 {
			v.Addf("C08/stream-history/"+dir+"-credit-granted-before-first-frame/frames-missing", "%s stream %d (the receiver granted 1 MiB of stream credit right after opening the stream and nothing later): %d of %d items arrived; first missing: %v", dir, s, len(g), len(w), w[len(g)])
		} else if len(g) < len(w) && mode == "settings" {
			v.Addf("C08/stream-history/"+dir+"-window-opened-by-settings-only/frames-missing", "%s stream %d (the receiver made room by raising SETTINGS_INITIAL_WINDOW_SIZE to 1 MiB and sent no WINDOW_UPDATE): %d of %d items arrived; first missing: %v", dir, s, len(g), len(w), w[len(g)])
		} else if len(g) < len(w) && mode == "none" {
			v.Addf("C08/stream-history/"+dir+"-window-from-repeated-settings-identifier/frames-missing", "%s stream %d (the receiver announced INITIAL_WINDOW_SIZE twice in one SETTINGS frame, the last value 65 535, and never sends WINDOW_UPDATE): %d of %d items arrived; first missing: %v", dir, s, len(g), len(w), w[len(g)])
		} else if len(g) < len(w) {
			v.Addf("C08/stream-history/"+dir+"/frames-missing", "%s stream %d: %d of %d items arrived; first missing: %v", dir, s, len(g), len(w), w[len(g)])
		}
		if len(g) > len(w) {
			v.Addf("C08/stream-history/"+dir+"/frames-invented", "%s stream %d: %d items sent, %d arrived; first extra: %v", dir, s, len(w), len(g), g[len(w)])
		}
	}
	for _, f := range got.foreign {
		v.Addf("C08/header-fields/continued-block/foreign-frame-between-fragments", "%s: %s", dir, f)
		break
	}
	// connection frames
	if d := settingsDiff(want.settings, got.settings); d != "" {
		v.Addf("C08/settings/"+dir+"/contents-differ", "%s: %s", dir, d)
	}
	if wantAcks != gotAcks {
		v.Addf("C08/settings/"+dir+"/ack-count-differs", "%s: %d SETTINGS acknowledgements sent, %d received", dir, wantAcks, gotAcks)
	}
	if len(want.pings) != len(got.pings) {
		v.Addf("C08/ping/"+dir+"/count-differs", "%s: %d PINGs sent, %d received", dir, len(want.pings), len(got.pings))
	} else {
		for i := range want.pings {
			if want.pings[i] != got.pings[i] {
				v.Addf("C08/ping/"+dir+"/contents-differ", "%s: PING %d sent %+v received %+v", dir, i, want.pings[i], got.pings[i])
				break
			}
		}
	}
	if len(want.goaways) != len(got.goaways) {
		v.Addf("C08/goaway/"+dir+"/count-differs", "%s: %d GOAWAYs sent, %d received", dir, len(want.goaways), len(got.goaways))
	} else {
		for i := range want.goaways {
			w, g := want.goaways[i], got.goaways[i]
			if w.Last != g.Last || w.Code != g.Code || !bytes.Equal(w.Debug, g.Debug) {
				v.Addf("C08/goaway/"+dir+"/contents-differ", "%s: GOAWAY sent (%d,%d,%d bytes) received (%d,%d,%d bytes)", dir, w.Last, w.Code, len(w.Debug), g.Last, g.Code, len(g.Debug))
			}
		}
	}
	return v
}

func settingsDiff(want, got [][]h2kit.Setting) string {
	if len(want) != len(got) {
		return fmt.Sprintf("%d SETTINGS frames sent, %d received", len(want), len(got))
	}
	for i := range want {
		if len(want[i]) != len(got[i]) {
			return fmt.Sprintf("SETTINGS %d: sent %v received %v", i, want[i], got[i])
		}
		for j := range want[i] {
			if want[i][j] != got[i][j] {
				return fmt.Sprintf("SETTINGS %d: sent %v received %v", i, want[i], got[i])
			}
		}
	}
	return ""
}

// ---------------------------------------------------------------- execution

func initialSettings(w Win, max, table uint32) []h2kit.Setting {
	var s []h2kit.Setting
	if table != 0 {
		s = append(s, h2kit.Setting{ID: 1, Val: table})
	}
	if w.Rep {
		s = append(s, h2kit.Setting{ID: 4, Val: uint32(w.First)}, h2kit.Setting{ID: 4, Val: uint32(w.Init)})
	} else if w.Init != 65535 {
		s = append(s, h2kit.Setting{ID: 4, Val: uint32(w.Init)})
	}
	if max != 0 {
		s = append(s, h2kit.Setting{ID: 5, Val: max})
	}
	return s
}

type runner struct {
	c      Case
	s      *h2kit.Session
	bound  time.Duration
	mu     sync.Mutex
	v      kit.Verdict
	slow   bool                        // a bounded wait expired
	played map[string]chan struct{}    // direction -> closed when that direction's script has been written
	sent   map[string]map[uint32][]int // direction -> stream -> wire frames of each header block sent, in order
	base   int                         // relay loops left behind by earlier cases of this process (stuck for good)
	calib  bool                        // both relay directions were seen running
	dead   bool                        // a relay direction ended while frames were awaited
}

// wait is Endpoint.Wait with the case's bound, cut short when a relay
// direction has ended (nothing more can be forwarded then).
func (r *runner) wait(ep *h2kit.Endpoint, cond func(*h2kit.Rec) bool) bool {
	deadline := time.Now().Add(r.bound)
	for {
		if ep.Wait(50*time.Millisecond, cond) {
			return true
		}
		if r.calib && h2kit.RelayLoops() < r.base+2 {
			if ep.Wait(100*time.Millisecond, cond) {
				return true
			}
			r.mu.Lock()
			r.dead = true
			r.mu.Unlock()
			return false
		}
		if time.Now().After(deadline) {
			r.mu.Lock()
			r.slow = true
			r.mu.Unlock()
			return false
		}
	}
}

func (r *runner) diag() string {
	d := func(e *h2kit.Endpoint) string {
		var out string
		e.With(func(rec *h2kit.Rec) {
			out = fmt.Sprintf("%s{frames=%d settings=%d acks=%d pings=%d done=%v err=%v streamErrs=%v}", e.Name, rec.Frames, len(rec.Settings), rec.Acks, len(rec.Pings), rec.Done, rec.ReadErr, rec.StreamErr)
		})
		return out
	}
	ret, err := r.s.ProxyReturned(0)
	return fmt.Sprintf(" [%s %s proxyReturned=%v err=%v]", d(r.s.Client), d(r.s.Server), ret, err)
}

func (r *runner) fail(liveness bool, sig, format string, args ...interface{}) {
	format += "%s"
	args = append(args, r.diag())
	r.mu.Lock()
	r.v.Addf(sig, format, args...)
	_ = liveness // the flags are set by wait
	r.mu.Unlock()
}

func (r *runner) noteBlock(dir string, stream uint32, frames int) {
	r.mu.Lock()
	if r.sent[dir] == nil {
		r.sent[dir] = map[uint32][]int{}
	}
	r.sent[dir][stream] = append(r.sent[dir][stream], frames)
	r.mu.Unlock()
}

// markContinued records on the expected items which header blocks actually
// went out with CONTINUATION frames (drawn cuts, or a block too large for one
// frame).
func (r *runner) markContinued(dir string, want *model) {
	for s, list := range want.streams {
		k := 0
		for i := range list {
			if list[i].Kind == "H" || list[i].Kind == "PP" {
				if k < len(r.sent[dir][s]) {
					list[i].Continued = r.sent[dir][s][k] > 1
				}
				k++
			}
		}
	}
}

// play writes one endpoint's script, then the barrier frames.
func (r *runner) play(ep, self *h2kit.Endpoint, dir string, frames []Frame, server bool, sentinel uint32) {
	scriptDone := false
	defer func() {
		if !scriptDone {
			close(r.played[dir])
		}
	}()
	opened := map[uint32]bool{}
	for i, f := range frames {
		if server && f.S%2 == 1 && f.T != "P" && !opened[f.S] {
			// a server answers (or pushes on) a stream only once it has seen it
			if !r.wait(self, func(rec *h2kit.Rec) bool {
				for _, ev := range rec.Streams[f.S] {
					if ev.Kind == "H" {
						return true
					}
				}
				return rec.Done
			}) {
				r.fail(true, "C08/stream-history/c2s/request-headers-never-arrived", "server waited %v for HEADERS on stream %d before answering", r.bound, f.S)
			}
			opened[f.S] = true
		}
		var err error
		switch f.T {
		case "H":
			var n int
			spec := h2kit.HeadersSpec{Stream: f.S, Fields: f.Fields, EndStream: f.End, Prio: f.Prio, Pad: f.Pad, Cuts: f.Cuts}
			if f.Bare {
				spec.Fields, spec.Raw = nil, h2kit.TableSizeUpdate4096
			}
			n, err = ep.WriteHeaders(spec)
			r.noteBlock(dir, f.S, n)
			if !server && r.c.CWin.Mode == "early" && !opened[f.S] {
				// credit for the answer before anything of it exists
				opened[f.S] = true
				ep.WriteWindowUpdate(f.S, 1<<20)
			}
		case "PP":
			var n int
			n, err = ep.WritePushPromise(f.S, f.Promised, f.Fields, f.Pad, f.Cuts)
			r.noteBlock(dir, f.S, n)
		case "D":
			for k := 0; k < f.times() && err == nil; k++ {
				_, err = ep.WriteData(f.S, kit.Bytes(f.Seed, f.N), f.Pad, f.End)
			}
		case "R":
			err = ep.WriteRST(f.S, f.Code)
		case "P":
			err = ep.WritePriority(f.S, *f.Prio)
		case "S":
			err = ep.WriteSettings(f.Settings...)
		case "G":
			err = ep.WritePing(f.Ack, pingData(f.Ping))
		case "A":
			err = ep.WriteGoAway(f.Last, f.Code, kit.Text(uint64(f.Debug), f.Debug))
		case "T":
			ep.SetEncoderTableSize(f.Table)
		}
		if err != nil {
			r.fail(false, "C08/session/"+dir+"/connection-lost-while-sending", "%s: writing frame %d (%s on stream %d): %v", dir, i, f.T, f.S, err)
			return
		}
	}
	scriptDone = true
	close(r.played[dir]) // this endpoint's receiving half may now add its own closing frames
	ep.WritePing(false, h2kit.MarkerPing(1))
	// the peer has opened its windows and the relay has seen that
	if !r.wait(self, func(rec *h2kit.Rec) bool { return rec.HasMarker(2) || rec.Done }) {
		r.fail(true, "C08/completeness/"+dir+"/barrier-not-delivered", "%s: the peer's second barrier PING did not arrive within %v", dir, r.bound)
	}
	// goes through the relay's ordered output behind everything released so far
	ep.WritePriority(sentinel, h2kit.Prio{Weight: 15})
	ep.AckSettingsAuto()
}

// receive returns credit as the policy says, then waits for the sender's
// frames. dir names the direction being received.
func (r *runner) receive(ep *h2kit.Endpoint, dir string, w Win, want *model, acks int, sentinel uint32) {
	if !r.wait(ep, func(rec *h2kit.Rec) bool { return rec.HasMarker(1) || rec.Done }) {
		r.fail(true, "C08/completeness/"+dir+"/barrier-not-delivered", "%s: the sender's barrier PING did not arrive within %v", dir, r.bound)
	}
	var ids []uint32
	most := 0
	for s, n := range want.data {
		if n > 0 {
			ids = append(ids, s)
			if n > most {
				most = n
			}
		}
	}
	sort.Slice(ids, func(i, j int) bool { return ids[i] < ids[j] })
	if w.Mode == "none" {
		ids = nil // the window announced at the start covers everything
	}
	if w.Mode == "settings" {
		ids = nil
		// after this endpoint's own script, so that the order of its SETTINGS frames is fixed
		other := "s2c"
		if dir == "s2c" {
			other = "c2s"
		}
		select {
		case <-r.played[other]:
		case <-time.After(r.bound):
		}
		ep.WriteSettings(finalWindow)
	}
	if w.Mode == "step" && len(ids) > 0 {
		step := w.Step
		if most/step > 300 {
			step = most/300 + 1
		}
		for given := 0; given < most; given += step {
			for _, s := range ids {
				ep.WriteWindowUpdate(s, uint32(step))
			}
			ep.WriteWindowUpdate(0, uint32(step*len(ids)))
		}
	}
	for _, s := range ids {
		if w.Mode == "early" && s%2 == 1 {
			continue // granted when the stream was opened, never again
		}
		ep.WriteWindowUpdate(s, 1<<20)
	}
	if w.Mode != "none" && w.Mode != "settings" {
		ep.WriteWindowUpdate(0, 1<<24)
	}
	ep.WritePing(false, h2kit.MarkerPing(2))
	if !r.wait(ep, func(rec *h2kit.Rec) bool { return len(rec.Streams[sentinel]) > 0 || rec.Done }) {
		r.fail(true, "C08/completeness/"+dir+"/barrier-not-delivered", "%s: the sender's sentinel frame did not arrive within %v", dir, r.bound)
	}
	r.wait(ep, func(rec *h2kit.Rec) bool { return reached(rec, want, acks) }) // what is missing is reported by the comparison
}

// finalWindow is what a receiver in mode "settings" announces at the end.
var finalWindow = h2kit.Setting{ID: 4, Val: 1 << 20}

func countSettings(frames []Frame) int {
	n := 1 // the initial SETTINGS
	for _, f := range frames {
		if f.T == "S" {
			n++
		}
	}
	return n
}

// variant names the known session-aborting shapes that a re-run leaves out so
// that the rest of the script is still explored.
type variant struct {
	wholePreface bool // deliver the first 24 bytes in one piece
	plainPush    bool // send PUSH_PROMISE blocks without CONTINUATION
}

const (
	sigPreface  = "C08/preface/first-read-shorter-than-preface/session-aborted"
	sigPushCont = "C08/push-promise/continued-block/relay-direction-aborted"
)

func factories(c Case) []h2.StreamProcessorFactory {
	if len(c.Chain) > 0 {
		return h2kit.Chain(c.Chain)
	}
	return h2kit.Factories(c.Procs)
}

func largeFrames(frames []Frame) bool {
	for _, f := range frames {
		if f.T == "D" && f.N > 16384 {
			return true
		}
		for _, fl := range f.Fields {
			if len(fl.V) > 16384 {
				return true
			}
		}
	}
	return false
}

func growsTable(frames []Frame) bool {
	for _, f := range frames {
		if f.T == "T" && f.Table > 4096 {
			return true
		}
	}
	return false
}

func hasContinuedPush(frames []Frame) bool {
	for _, f := range frames {
		if f.T == "PP" && len(f.Cuts) > 0 {
			return true
		}
	}
	return false
}

// runOnce executes the case once.
func runOnce(c Case, bound time.Duration, vr variant) (v kit.Verdict, slow bool) {
	pieces := c.Pieces
	if vr.wholePreface && dribbledPreface(c) {
		pieces = append([]int{len(h2kit.Preface)}, pieces...)
	}
	server := c.Server
	if vr.plainPush {
		server = append([]Frame(nil), c.Server...)
		for i := range server {
			if server[i].T == "PP" {
				server[i].Cuts = nil
			}
		}
	}
	base := h2kit.RelayLoops()
	s, err := h2kit.Open(h2kit.Options{Pieces: pieces, Factories: factories(c), Bound: bound, DebugLogs: c.Debug})
	if err != nil {
		return kit.Failf("C08/session/setup/relay-did-not-connect", "%v", err), true
	}
	defer s.Teardown(bound)
	r := &runner{c: c, s: s, bound: bound, base: base, sent: map[string]map[uint32][]int{}, played: map[string]chan struct{}{"c2s": make(chan struct{}), "s2c": make(chan struct{})}}
	cl, sv := s.Client, s.Server
	cl.SetAutoAck(false)
	sv.SetAutoAck(false)
	cl.SetAutoWU(c.CWin.Mode == "immediate")
	sv.SetAutoWU(c.SWin.Mode == "immediate")
	cInit, sInit := initialSettings(c.CWin, c.CMax, c.CTable), initialSettings(c.SWin, c.SMax, c.STable)
	cl.WritePreface()
	cl.WriteSettings(cInit...)
	sv.WriteSettings(sInit...)

	for deadline := time.Now().Add(bound); ; {
		if sv.Wait(20*time.Millisecond, func(rec *h2kit.Rec) bool { return rec.PrefaceOK || rec.Done }) {
			break
		}
		if ret, _ := s.ProxyReturned(0); ret || time.Now().After(deadline) {
			break
		}
	}
	if !prefaceOK(sv) {
		returned, perr := s.ProxyReturned(0)
		if !vr.wholePreface && dribbledPreface(c) && returned {
			return kit.Failf(sigPreface, "the relay's first read from the client returned %d of the 24 preface bytes; the session did not start (Proxy returned: %v)", c.Pieces[0], perr), false
		}
		return kit.Failf("C08/preface/other/session-did-not-start", "the preface never reached the server within %v (Proxy returned=%v err=%v)", bound, returned, perr), !returned
	}
	// each side has seen the other's initial SETTINGS: the relay has applied them
	okc := cl.Wait(bound, func(rec *h2kit.Rec) bool { return len(rec.Settings) >= 1 || rec.Done })
	oks := sv.Wait(bound, func(rec *h2kit.Rec) bool { return len(rec.Settings) >= 1 || rec.Done })
	if !okc || !oks {
		return kit.Failf("C08/settings/setup/initial-settings-not-forwarded", "initial SETTINGS not delivered within %v (client got=%v server got=%v)", bound, okc, oks), true
	}
	r.calib = h2kit.RelayLoops() == base+2
	// a side whose peer announced nothing restrictive processes the peer's initial
	// SETTINGS now (and may then use a larger HPACK table if one was allowed)
	if earlyAck(c.SWin) {
		cl.AckSettings()
		if c.SMax > 16384 {
			cl.SetMaxFragment(frameCap(c.SWin, c.SMax) - 300) // room for pad length, padding, priority
		}
	}
	if earlyAck(c.CWin) {
		sv.AckSettings()
		if c.CMax > 16384 {
			sv.SetMaxFragment(frameCap(c.CWin, c.CMax) - 300)
		}
	}

	wantAtServer := expected(cInit, c.Client)
	wantAtClient := expected(sInit, server)
	wantAtServer.debug, wantAtClient.debug = c.Debug, c.Debug
	// SETTINGS frames each side sends in all (and gets acknowledged)
	nClient, nServer := countSettings(c.Client), countSettings(server)
	if c.CWin.Mode == "settings" {
		wantAtServer.settings = append(wantAtServer.settings, []h2kit.Setting{finalWindow})
		nClient++
	}
	if c.SWin.Mode == "settings" {
		wantAtClient.settings = append(wantAtClient.settings, []h2kit.Setting{finalWindow})
		nServer++
	}
	var wg sync.WaitGroup
	wg.Add(4)
	go func() { defer wg.Done(); r.play(cl, cl, "c2s", c.Client, false, clientSentinel) }()
	go func() { defer wg.Done(); r.play(sv, sv, "s2c", server, true, serverSentinel) }()
	go func() {
		defer wg.Done()
		r.receive(sv, "c2s", c.SWin, wantAtServer, nServer, clientSentinel)
	}()
	go func() {
		defer wg.Done()
		r.receive(cl, "s2c", c.CWin, wantAtClient, nClient, serverSentinel)
	}()
	wg.Wait()
	// an endpoint that saw its connection end before the harness closed anything
	// was cut off by the relay
	cl.With(func(rec *h2kit.Rec) { r.dead = r.dead || rec.Done })
	sv.With(func(rec *h2kit.Rec) { r.dead = r.dead || rec.Done })

	if r.dead {
		// One relay direction stopped on its own while both endpoints were still
		// connected. Everything else observed in this run is a consequence.
		c2s, s2c := false, false
		sv.With(func(rec *h2kit.Rec) { c2s = !rec.HasMarker(1) })
		cl.With(func(rec *h2kit.Rec) { s2c = !rec.HasMarker(1) })
		var out kit.Verdict
		switch {
		case s2c && hasContinuedPush(server):
			// a relay that ends the whole session when one direction fails takes the
			// other direction down with it: that is a consequence, not a second failure
			out.Addf(sigPushCont, "server sent PUSH_PROMISE without END_HEADERS followed by CONTINUATION; the server-to-client direction of the relay ended and nothing further was forwarded%s", r.diag())
		case (c2s && largeFrames(c.Client)) || (s2c && largeFrames(server)):
			out.Addf("C08/session/frames-above-16384/relay-session-aborted", "a script sends frames above 16 384 octets (its peer announced a larger SETTINGS_MAX_FRAME_SIZE) and the relay ended the session mid-script%s", r.diag())
		case (c2s && growsTable(c.Client)) || (s2c && growsTable(server)):
			out.Addf("C08/session/encoder-table-above-4096/relay-session-aborted", "a script raises its encoder's dynamic table above 4096 (allowed by the peer's SETTINGS_HEADER_TABLE_SIZE) and the relay ended the session mid-script%s", r.diag())
		case s2c && c2s:
			out.Addf("C08/session/both-directions/relay-session-aborted", "the relay ended the session mid-script%s", r.diag())
		case s2c:
			out.Addf("C08/session/s2c/relay-direction-aborted", "the server-to-client direction of the relay ended mid-script%s", r.diag())
		case c2s:
			out.Addf("C08/session/c2s/relay-direction-aborted", "the client-to-server direction of the relay ended mid-script%s", r.diag())
		default:
			out.Addf("C08/session/after-scripts/relay-direction-aborted", "a relay direction ended after both scripts had been forwarded%s", r.diag())
		}
		return out, false
	}

	r.markContinued("c2s", wantAtServer)
	r.markContinued("s2c", wantAtClient)
	var gotAtServer, gotAtClient *model
	var acksAtServer, acksAtClient int
	sv.With(func(rec *h2kit.Rec) { gotAtServer, acksAtServer = observed(rec), rec.Acks })
	cl.With(func(rec *h2kit.Rec) { gotAtClient, acksAtClient = observed(rec), rec.Acks })
	v = r.v
	v = append(v, compare("c2s", wantAtServer, gotAtServer, nServer, acksAtServer, blockedShape(c.Client, c.SWin), false, c.SWin.Mode)...)
	v = append(v, compare("s2c", wantAtClient, gotAtClient, nClient, acksAtClient, blockedShape(server, c.CWin), c.CWin.Mode == "early", c.CWin.Mode)...)
	return v, r.slow
}

func prefaceOK(e *h2kit.Endpoint) bool {
	ok := false
	e.With(func(rec *h2kit.Rec) { ok = rec.PrefaceOK })
	return ok
}

func dedupe(v kit.Verdict) kit.Verdict {
	seen := map[string]bool{}
	var out kit.Verdict
	for _, f := range v {
		if !seen[f.Sig] {
			seen[f.Sig] = true
			out = append(out, f)
		}
	}
	return out
}

func has(v kit.Verdict, sig string) bool {
	for _, f := range v {
		if f.Sig == sig {
			return true
		}
	}
	return false
}

// attempt runs a variant; a bounded wait that expired is re-validated once,
// alone, with three times the bound.
var patience h2kit.Patience

func attempt(c Case, vr variant) kit.Verdict {
	bound, revalidate := patience.Bound()
	v, slow := runOnce(c, bound, vr)
	for _, f := range v {
		// "a relay direction ended" is judged from the number of relay loops in the
		// process; a loop left over from an earlier case that ends just now would
		// look the same. Anything of that kind that is not a known finding is
		// repeated once against a fresh count.
		if strings.HasSuffix(f.Sig, "-aborted") && !kit.Known(f.Sig) {
			v, slow = runOnce(c, bound, vr)
			break
		}
	}
	if !slow {
		return v
	}
	if !revalidate {
		patience.Spent(bound)
		return v
	}
	v2, slow2 := runOnce(c, 3*bound, vr)
	if !slow2 {
		kit.Inconclusive("frame-scripts")
	} else if len(v2) > 0 {
		patience.Confirm()
	}
	return v2
}

func run(c Case) kit.Verdict {
	h2kit.ShortShrink()
	var vr variant
	v := attempt(c, vr)
	out := append(kit.Verdict(nil), v...)
	// known shapes that end the session: report them, then explore the rest of
	// the script without the shape
	for i := 0; i < 2; i++ {
		switch {
		case has(v, sigPreface) && !vr.wholePreface:
			vr.wholePreface = true
		case has(v, sigPushCont) && !vr.plainPush:
			vr.plainPush = true
		default:
			return dedupe(out)
		}
		v = attempt(c, vr)
		out = append(out, v...)
	}
	return dedupe(out)
}

// ---------------------------------------------------------------- checks

var propScripts = &kit.Prop[Case]{
	ID: "C08", Name: "frame-scripts", Journal: true,
	Rule: "frame scripts over 1..K client-initiated streams plus pushed streams in both directions (HEADERS/trailers with drawn CONTINUATION cuts, priority, padding; padded DATA; RST_STREAM, PRIORITY, PUSH_PROMISE; SETTINGS, PING, GOAWAY; encoder table-size changes), a drawn interleaving, client transport segmentation, a receiver window behaviour per side and a stream-processor configuration; each side's normalised per-stream history and connection frames must equal what the other side sent; non-trivial = any CONTINUATION, padding, interleaved streams, DATA that can exceed the receiver's stream window, or segmentation below 24 bytes",
	Gen:  genCase, Run: run, NonTrivial: nontrivial, Classes: classes,
	Gates: map[string]float64{"continuation": 0.15, "padding": 0.15, "interleaved-streams": 0.15, "window-blocked": 0.15, "segmentation<24": 0.15, "encoder-table-above-4096": 0.08},
}

func TestScripts(t *testing.T) {
	n := kit.N(250, 2500)
	if kit.Race() {
		n = 100
	}
	propScripts.Check(t, n)
}

func TestReplay(t *testing.T) { kit.Replay(t, propScripts, propLargeBlocks, propHeld, propEdge) }
