package c08

import (
	"encoding/json"
	"fmt"
	"os"
	"testing"
	"time"

	"verifharness/internal/kit"
)

func TestDebugTiming(t *testing.T) {
	path := os.Getenv("DBG_REPLAY")
	if path == "" {
		t.Skip()
	}
	b, _ := os.ReadFile(path)
	var doc struct{ Case Case }
	json.Unmarshal(b, &doc)
	for _, vr := range []variant{{}, {plainPush: true}, {wholePreface: true, plainPush: true}} {
		t0 := time.Now()
		v, slow := runOnce(doc.Case, kit.T(), vr)
		fmt.Printf("variant %+v: %v slow=%v\n", vr, time.Since(t0), slow)
		for _, f := range v {
			fmt.Printf("   %s: %.300s\n", f.Sig, f.Msg)
		}
	}
}
