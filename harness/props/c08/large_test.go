package c08

import (
	"testing"
	"time"

	"verifharness/internal/kit"
	"verifharness/props/h2kit"
)

// LargeCase is one header block whose re-encoded size is around the receiver's
// maximum frame size, so that the relay has to continue it over several frames.
type LargeCase struct {
	Reverse bool `json:"reverse,omitempty"` // the server sends the block
	Max     int  `json:"max"`               // receiver's SETTINGS_MAX_FRAME_SIZE (0: nothing announced, 16 384)
	Value   int  `json:"value"`             // length of one incompressible field value
	Prio    bool `json:"prio,omitempty"`    // HEADERS carries a priority section
	End     bool `json:"end,omitempty"`     // HEADERS carries END_STREAM
	// Stall (with Reverse): the client's receive path stalls while the relay writes the
	// first frame of the block; meanwhile the client uploads DATA, so the relay also owes
	// it WINDOW_UPDATEs; then the path recovers. Whatever the relay writes next must still
	// be the block's CONTINUATION frames.
	Stall bool `json:"stall,omitempty"`
	// Rep distinguishes repetitions of a stall case (the window in which a foreign frame
	// can get between the fragments depends on goroutine scheduling).
	Rep int `json:"rep,omitempty"`
}

func runLarge(c LargeCase) kit.Verdict {
	v, slow := runLargeOnce(c, kit.T())
	if slow {
		v2, slow2 := runLargeOnce(c, 3*kit.T())
		if !slow2 {
			kit.Inconclusive("large-blocks")
		}
		return v2
	}
	return v
}

func runLargeOnce(c LargeCase, bound time.Duration) (v kit.Verdict, slow bool) {
	o := h2kit.Options{Bound: bound}
	if c.Stall && c.Reverse {
		// a narrow pipe toward the client: every fragment takes several hand-overs between the
		// relay's writer and the client, so whoever waits for the relay's write lock gets to run
		o.OutLimit = 2048
	}
	s, err := h2kit.Open(o)
	if err != nil {
		return kit.Failf("C08/session/setup/relay-did-not-connect", "%v", err), true
	}
	defer s.Teardown(bound)
	S, R := s.Client, s.Server
	if c.Reverse {
		S, R = s.Server, s.Client
	}
	s.Client.WritePreface()
	if c.Max > 0 {
		R.WriteSettings(h2kit.Setting{ID: 5, Val: uint32(c.Max)})
	} else {
		R.WriteSettings()
	}
	S.WriteSettings()
	if !S.Wait(bound, func(r *h2kit.Rec) bool { return (len(r.Settings) >= 1 && r.Acks >= 1) || r.Done }) ||
		!R.Wait(bound, func(r *h2kit.Rec) bool { return (len(r.Settings) >= 1 && r.Acks >= 1) || r.Done }) {
		return kit.Failf("C08/settings/setup/initial-settings-not-forwarded", "SETTINGS exchange did not complete within %v", bound), true
	}
	req := []h2kit.Field{{N: ":method", V: "POST"}, {N: ":scheme", V: "https"}, {N: ":path", V: "/"}, {N: ":authority", V: "example.com"}}
	big := h2kit.Field{N: "x-bin", V: string(kit.Bytes(uint64(c.Value), c.Value))}
	var prio *h2kit.Prio
	if c.Prio {
		prio = &h2kit.Prio{Dep: 0, Weight: 200}
	}
	fields := append(append([]h2kit.Field(nil), req...), big, h2kit.Field{N: "x-after", V: "1"})
	if c.Reverse {
		s.Client.WriteHeaders(h2kit.HeadersSpec{Stream: 1, Pad: -1, Fields: req})
		s.Client.WriteHeaders(h2kit.HeadersSpec{Stream: 3, Pad: -1, Fields: req})
		if !s.Server.Wait(bound, func(r *h2kit.Rec) bool { return (len(r.Streams[1]) > 0 && len(r.Streams[3]) > 0) || r.Done }) {
			return kit.Failf("C08/stream-history/c2s/request-headers-never-arrived", "request HEADERS did not reach the server within %v", bound), true
		}
		fields = []h2kit.Field{{N: ":status", V: "200"}, big, {N: "x-after", V: "1"}}
	}
	if c.Stall && c.Reverse {
		s.Duplex.StallRelayWrites()
	}
	S.WriteHeaders(h2kit.HeadersSpec{Stream: 1, Pad: -1, Prio: prio, EndStream: c.End, Fields: fields})
	if c.Stall && c.Reverse {
		// the relay's writer is inside the write of the first frame ...
		kit.Eventually(bound, func() bool { return s.Duplex.StalledWrites() >= 1 })
		// ... the relay reads the client's DATA and queues up to return credit ...
		R.WriteData(1, kit.Bytes(3, 100), -1, false)
		kit.Eventually(bound, func() bool { return s.Duplex.Pending() == 0 })
		for i := 0; i < 7; i++ {
			R.WriteData(1, kit.Bytes(3, 100), -1, false) // (more credit to return once the first is through)
		}
		time.Sleep(5 * time.Millisecond) // (sets the scene only; not part of the oracle)
		// ... and the client's receive path recovers
		s.Duplex.ResumeRelayWrites()
	}
	// a second, small block: the receiver's HPACK state must still be in step
	small := append(append([]h2kit.Field(nil), fields[:len(fields)-2]...), h2kit.Field{N: "x-after", V: "1"})
	S.WriteHeaders(h2kit.HeadersSpec{Stream: 3, Pad: -1, EndStream: true, Fields: small})
	shape := "large-block-without-priority"
	if c.Prio {
		shape = "large-block-with-priority"
	}
	if !R.Wait(bound, func(r *h2kit.Rec) bool { return (len(r.Streams[1]) >= 1 && len(r.Streams[3]) >= 1) || r.Done }) {
		v.Addf("C08/stream-history/"+shape+"/frames-missing", "a header block with a %d-octet value (or the block after it) did not arrive within %v", c.Value, bound)
		slow = true
	}
	R.With(func(r *h2kit.Rec) {
		for _, f := range r.Foreign {
			v.Addf("C08/header-fields/continued-block/foreign-frame-between-fragments", "%s", f)
			break
		}
		// an endpoint refuses a frame above the maximum it announced (FRAME_SIZE_ERROR):
		// such a block is not received at all
		for _, vi := range r.Violations {
			if vi.Kind == "frame-size" {
				v.Addf("C08/header-fields/"+shape+"/frame-above-receiver-maximum", "receiver announced %d: %s", R.AdvertisedMaxFrameLocked(), vi.Detail)
			}
		}
		if evs := r.Streams[1]; len(evs) >= 1 {
			ev := evs[0]
			if ev.DecodeErr != "" || !sameFields(fields, ev.Fields) {
				v.Addf("C08/header-fields/"+shape+"/receiver-decodes-other-fields", "stream 1: %s %s", ev.DecodeErr, fieldDiff(fields, ev.Fields))
			}
			if ev.End != c.End {
				v.Addf("C08/end-stream/"+shape+"/end-stream-differs", "stream 1: END_STREAM sent %v received %v", c.End, ev.End)
			}
			if !samePrio(prio, ev.Prio) {
				v.Addf("C08/priority/"+shape+"/priority-differs", "stream 1: priority sent %v received %v", prio, ev.Prio)
			}
		}
		if evs := r.Streams[3]; len(evs) >= 1 && (evs[0].DecodeErr != "" || !sameFields(small, evs[0].Fields)) {
			v.Addf("C08/header-fields/"+shape+"/following-block-decodes-other-fields", "the block after the large one decoded to %v %s", evs[0].Fields, evs[0].DecodeErr)
		}
	})
	return v, slow
}

var propLargeBlocks = &kit.Prop[LargeCase]{
	ID: "C08", Name: "large-blocks", Journal: true,
	Rule: "ALL header blocks whose incompressible field value is within +-12 octets of the receiver's maximum frame size (nothing announced / 20 000), with and without a priority section and END_STREAM, either direction, followed by a small block, plus blocks of 20 000 / 40 000 / 100 000 octets written while the receiving client stalls mid-block and uploads DATA (the relay owes it WINDOW_UPDATEs); the receiver must get the same fields, flags and priority, in frames it would accept (none above the maximum it announced, nothing between HEADERS and its CONTINUATIONs), and stay in HPACK step; non-trivial = every case (the relay must continue the block over several frames)",
	Run:  runLarge,
	Classes: func(c LargeCase) []string {
		var out []string
		if c.Prio {
			out = append(out, "priority-section")
		}
		if c.Reverse {
			out = append(out, "server-sends")
		}
		if c.Stall {
			out = append(out, "receiver-stalls-mid-block-while-uploading")
		}
		return out
	},
}

func TestLargeBlocks(t *testing.T) {
	if kit.Race() {
		t.Skip("sequential enumeration")
	}
	propLargeBlocks.Enumerate(t, func(yield func(LargeCase) bool) {
		for rep := 0; rep < 4; rep++ {
			for _, value := range []int{20000, 40000, 100000, 300000} {
				for _, prio := range []bool{false, true} {
					if rep > 0 && value < 100000 {
						continue // the long blocks are the ones worth repeating
					}
					if !yield(LargeCase{Reverse: true, Stall: true, Value: value, Prio: prio, End: value == 40000, Rep: rep}) {
						return
					}
				}
			}
		}
		for _, max := range []int{0, 20000} {
			eff := max
			if eff == 0 {
				eff = 16384
			}
			for d := -12; d <= 12; d++ {
				for _, prio := range []bool{false, true} {
					for _, rev := range []bool{false, true} {
						if !kit.Thorough() && max != 0 && d%3 != 0 {
							continue
						}
						if !yield(LargeCase{Max: max, Value: eff + d, Prio: prio, Reverse: rev, End: (d+eff)%2 == 0}) {
							return
						}
					}
				}
			}
		}
	})
}
