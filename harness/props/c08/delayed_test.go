package c08

import (
	"fmt"
	"testing"
	"time"

	"verifharness/internal/kit"
	"verifharness/props/h2kit"
)

// HeldCase covers delivery that the receiver's windows delay for a long time, in two
// fixed scenarios (Kind):
//
// "blocks": a header block of First octets (trailers of stream 1) waits in the relay
// behind DATA that the receiver's zero stream window holds back, while another block of
// Second octets (HEADERS of stream 3) is relayed in the same direction. Both are larger
// than one frame. All fields are static-table entries or never-indexed literals, so no
// HPACK dynamic table is involved anywhere (the open HPACK-order finding cannot apply).
//
// "streams": Streams streams each carry one DATA frame of 8 000 octets; the receiver
// first grants stream credit to Granted of them (more than the 65 535-octet connection
// window admits), then connection credit, then the remaining stream credit. After each
// grant, and without further input, everything that both windows admit must have arrived.
type HeldCase struct {
	Kind    string `json:"kind"`
	Reverse bool   `json:"reverse,omitempty"` // the server is the sender
	First   int    `json:"first,omitempty"`
	Second  int    `json:"second,omitempty"`
	Prio    bool   `json:"prio,omitempty"`
	Streams int    `json:"streams,omitempty"`
	Granted int    `json:"granted,omitempty"`
}

const heldSentinel = 0x7fffff11

type held struct {
	c       HeldCase
	s       *h2kit.Session
	S, R    *h2kit.Endpoint
	bound   time.Duration
	markers uint32
	flushes int
	slow    bool
}

// flush: everything the relay has released toward the receiver so far has arrived
// (PING receiver->sender, then a PRIORITY frame sender->receiver through the relay's
// ordered output).
func (h *held) flush() bool {
	h.markers++
	m := h.markers
	h.R.WritePing(false, h2kit.MarkerPing(m))
	if !h.S.Wait(h.bound, func(r *h2kit.Rec) bool { return r.HasMarker(m) || r.Done }) {
		h.slow = true
		return false
	}
	h.flushes++
	fl := h.flushes
	h.S.WritePriority(heldSentinel, h2kit.Prio{Weight: uint8(fl)})
	if !h.R.Wait(h.bound, func(r *h2kit.Rec) bool { return len(r.Streams[heldSentinel]) >= fl || r.Done }) {
		h.slow = true
		return false
	}
	return true
}

var (
	neutralReq  = []h2kit.Field{{N: ":method", V: "POST"}, {N: ":scheme", V: "https"}, {N: ":path", V: "/"}}
	neutralResp = []h2kit.Field{{N: ":status", V: "200"}}
)

func bigField(name string, seed uint64, n int) h2kit.Field {
	return h2kit.Field{N: name, V: string(kit.Bytes(seed, n)), S: true}
}

func runHeldOnce(c HeldCase, bound time.Duration) (v kit.Verdict, slow bool) {
	s, err := h2kit.Open(h2kit.Options{Bound: bound})
	if err != nil {
		return kit.Failf("C08/session/setup/relay-did-not-connect", "%v", err), true
	}
	defer s.Teardown(bound)
	h := &held{c: c, s: s, bound: bound, S: s.Client, R: s.Server}
	if c.Reverse {
		h.S, h.R = s.Server, s.Client
	}
	S, R := h.S, h.R
	S.SetAutoAck(false) // the sender has not processed the receiver's SETTINGS: it keeps the default windows
	s.Client.WritePreface()
	R.WriteSettings(h2kit.Setting{ID: 4, Val: 0})
	S.WriteSettings()
	if !S.Wait(bound, func(r *h2kit.Rec) bool { return (len(r.Settings) >= 1 && r.Acks >= 1) || r.Done }) ||
		!R.Wait(bound, func(r *h2kit.Rec) bool { return len(r.Settings) >= 1 || r.Done }) {
		return kit.Failf("C08/settings/setup/initial-settings-not-forwarded", "SETTINGS exchange did not complete within %v", bound), true
	}
	dir := "c2s"
	if c.Reverse {
		dir = "s2c"
	}
	fail := func(sig, format string, args ...interface{}) { v.Addf(sig, format, args...) }

	switch c.Kind {
	case "blocks":
		var prio *h2kit.Prio
		if c.Prio {
			prio = &h2kit.Prio{Dep: 0, Weight: 77}
		}
		trailers := []h2kit.Field{bigField("x-trailer", 11, c.First), {N: "x-end", V: "1", S: true}}
		opening := append(append([]h2kit.Field(nil), neutralReq...), bigField("x-opening", 22, c.Second))
		if c.Reverse {
			s.Client.WriteHeaders(h2kit.HeadersSpec{Stream: 1, Pad: -1, Fields: neutralReq})
			s.Client.WriteHeaders(h2kit.HeadersSpec{Stream: 3, Pad: -1, Fields: neutralReq})
			if !s.Server.Wait(bound, func(r *h2kit.Rec) bool { return (len(r.Streams[1]) > 0 && len(r.Streams[3]) > 0) || r.Done }) {
				return kit.Failf("C08/stream-history/c2s/request-headers-never-arrived", "request HEADERS did not reach the server within %v", bound), true
			}
			S.WriteHeaders(h2kit.HeadersSpec{Stream: 1, Pad: -1, Fields: neutralResp})
			opening = append(append([]h2kit.Field(nil), neutralResp...), bigField("x-opening", 22, c.Second))
		} else {
			S.WriteHeaders(h2kit.HeadersSpec{Stream: 1, Pad: -1, Fields: neutralReq})
		}
		S.WriteData(1, kit.Bytes(1, 1000), -1, false)                                                        // held by the zero window
		S.WriteHeaders(h2kit.HeadersSpec{Stream: 1, Pad: -1, Prio: prio, EndStream: true, Fields: trailers}) // queued behind it
		S.WriteHeaders(h2kit.HeadersSpec{Stream: 3, Pad: -1, EndStream: true, Fields: opening})              // relayed at once
		S.WritePing(false, h2kit.MarkerPing(1000))
		if !R.Wait(bound, func(r *h2kit.Rec) bool { return r.HasMarker(1000) || r.Done }) {
			return kit.Failf("C08/completeness/"+dir+"/barrier-not-delivered", "the sender's barrier PING did not arrive within %v", bound), true
		}
		nth := func(stream uint32, kind string, k int) *h2kit.Event {
			var out *h2kit.Event
			R.With(func(r *h2kit.Rec) {
				n := 0
				for i := range r.Streams[stream] {
					if r.Streams[stream][i].Kind == kind {
						if n == k {
							ev := r.Streams[stream][i]
							out = &ev
						}
						n++
					}
				}
			})
			return out
		}
		other := 0 // index of the large HEADERS among the H events of stream 3 at the receiver
		if !R.Wait(bound, func(r *h2kit.Rec) bool { return len(r.Streams[3]) > 0 || r.Done }) || nth(3, "H", other) == nil {
			fail("C08/stream-history/"+dir+"-delayed-large-blocks/frames-missing", "%s: the %d-octet HEADERS of stream 3 did not arrive within %v while stream 1 was held by its window", dir, c.Second, bound)
			slow = true
		} else if ev := nth(3, "H", other); ev.DecodeErr != "" || !sameFields(opening, ev.Fields) {
			fail("C08/header-fields/undelayed-large-block/receiver-decodes-other-fields", "%s stream 3: %s %s", dir, ev.DecodeErr, fieldDiff(opening, ev.Fields))
		}
		// now the receiver lets stream 1 go
		R.WriteWindowUpdate(1, 1<<20)
		const want = 1 // on stream 1 the receiver sees the opening HEADERS first, the trailers second
		if !R.Wait(bound, func(r *h2kit.Rec) bool {
			n := 0
			for _, ev := range r.Streams[1] {
				if ev.Kind == "H" {
					n++
				}
			}
			return n >= want+1 || r.Done
		}) {
			fail("C08/stream-history/"+dir+"-delayed-large-blocks/frames-missing", "%s: the %d-octet trailers of stream 1 did not arrive within %v after the window was opened", dir, c.First, bound)
			slow = true
			break
		}
		ev := nth(1, "H", want)
		if ev.DecodeErr != "" || !sameFields(trailers, ev.Fields) {
			fail("C08/header-fields/delayed-continued-block/receiver-decodes-other-fields", "%s stream 1: trailers of %d octets were held behind window-blocked DATA while a %d-octet block was relayed on stream 3; decoded: %s %s", dir, c.First, c.Second, ev.DecodeErr, fieldDiff(trailers, ev.Fields))
		}
		if !ev.End {
			fail("C08/end-stream/delayed-continued-block/end-stream-lost", "%s stream 1: trailers arrived without END_STREAM", dir)
		}
		if !samePrio(prio, ev.Prio) {
			fail("C08/priority/delayed-continued-block/priority-differs", "%s stream 1: priority sent %v received %v", dir, prio, ev.Prio)
		}
		var data int
		var foreign []string
		R.With(func(r *h2kit.Rec) { data = r.DataBytes[1]; foreign = append(foreign, r.Foreign...) })
		if data != 1000 {
			fail("C08/data/"+dir+"/bytes-differ", "%s stream 1: 1000 octets sent, %d received", dir, data)
		}
		if len(foreign) > 0 {
			fail("C08/header-fields/continued-block/foreign-frame-between-fragments", "%s", foreign[0])
		}

	case "streams":
		const size = 8000
		ids := make([]uint32, c.Streams)
		for i := range ids {
			ids[i] = uint32(2*i + 1)
			s.Client.WriteHeaders(h2kit.HeadersSpec{Stream: ids[i], Pad: -1, Fields: neutralReq})
		}
		if c.Reverse {
			last := ids[len(ids)-1]
			if !s.Server.Wait(bound, func(r *h2kit.Rec) bool { return len(r.Streams[last]) > 0 || r.Done }) {
				return kit.Failf("C08/stream-history/c2s/request-headers-never-arrived", "request HEADERS did not reach the server within %v", bound), true
			}
			for _, id := range ids {
				S.WriteHeaders(h2kit.HeadersSpec{Stream: id, Pad: -1, Fields: neutralResp})
			}
		}
		// one DATA frame per stream; the sender stays inside its connection window, which the
		// relay refills as it accepts the frames
		sent := 0
		for _, id := range ids {
			need := int64(sent + size)
			if !S.Wait(bound, func(r *h2kit.Rec) bool { return 65535+int64(r.WU[0]) >= need || r.Done }) {
				return kit.Failf("C08/completeness/"+dir+"/sender-starved-of-connection-credit", "the relay returned %d octets of connection credit for %d octets accepted", s2cWU(S), sent), true
			}
			S.WriteData(id, kit.Bytes(uint64(id), size), -1, true)
			sent += size
		}
		S.WritePing(false, h2kit.MarkerPing(1000))
		if !R.Wait(bound, func(r *h2kit.Rec) bool { return r.HasMarker(1000) || r.Done }) {
			return kit.Failf("C08/completeness/"+dir+"/barrier-not-delivered", "the sender's barrier PING did not arrive within %v", bound), true
		}
		delivered := func(list []uint32) (int, []uint32) {
			total := 0
			var missing []uint32
			R.With(func(r *h2kit.Rec) {
				for _, id := range list {
					total += r.DataBytes[id]
					if r.DataBytes[id] < size {
						missing = append(missing, id)
					}
				}
			})
			return total, missing
		}
		waitFor := func(step string, list []uint32, atLeast int) bool {
			if !h.flush() {
				fail("C08/completeness/"+dir+"/barrier-not-delivered", "%s: flush frames did not come through within %v", step, bound)
				return false
			}
			if kit.Eventually(bound, func() bool { n, _ := delivered(list); return n >= atLeast }) {
				return true
			}
			n, missing := delivered(list)
			fail("C08/stream-history/"+dir+"-many-streams/frames-missing", "%s (%d streams x %d octets, %s): both windows admit %d octets on the streams concerned, %d arrived within %v without further input; incomplete streams: %v", step, c.Streams, size, dir, atLeast, n, bound, missing)
			h.slow = true
			return false
		}
		granted, rest := ids[:c.Granted], ids[c.Granted:]
		for _, id := range granted {
			R.WriteWindowUpdate(id, size)
		}
		fit := (65535 / size) * size // what the connection window admits, in whole frames
		if c.Granted*size < fit {
			fit = c.Granted * size
		}
		if !waitFor("after stream credit for "+fmt.Sprint(c.Granted)+" streams", granted, fit) {
			break
		}
		R.WriteWindowUpdate(0, 1<<20)
		if !waitFor("after connection credit", granted, c.Granted*size) {
			break
		}
		for _, id := range rest {
			R.WriteWindowUpdate(id, size)
		}
		if !waitFor("after stream credit for the remaining streams", ids, c.Streams*size) {
			break
		}
		R.With(func(r *h2kit.Rec) {
			for _, id := range ids {
				ended := false
				for _, ev := range r.Streams[id] {
					if ev.Kind == "D" && ev.End {
						ended = true
					}
				}
				if !ended {
					fail("C08/end-stream/data/end-stream-position-differs", "%s stream %d: END_STREAM did not arrive with the data", dir, id)
					break
				}
			}
		})
	}
	return v, slow || h.slow
}

func s2cWU(e *h2kit.Endpoint) uint64 {
	var n uint64
	e.With(func(r *h2kit.Rec) { n = r.WU[0] })
	return n
}

var heldPatience h2kit.Patience

func runHeld(c HeldCase) kit.Verdict {
	bound, revalidate := heldPatience.Bound()
	v, slow := runHeldOnce(c, bound)
	if !slow {
		return v
	}
	if !revalidate {
		heldPatience.Spent(bound)
		return v
	}
	v2, slow2 := runHeldOnce(c, 3*bound)
	if !slow2 {
		kit.Inconclusive("held-back")
	} else if len(v2) > 0 {
		heldPatience.Confirm()
	}
	return v2
}

var propHeld = &kit.Prop[HeldCase]{
	ID: "C08", Name: "held-back", Journal: true,
	Rule: "ALL of two fixed families, either direction: (blocks) trailers of 20 000 / 40 000 octets queued behind window-blocked DATA while a 20 000 / 40 000-octet HEADERS block of another stream is relayed, with or without priority, only static-table and never-indexed fields; (streams) 12 / 20 streams with one 8 000-octet DATA frame each, stream credit for 10 of them, then connection credit, then the rest - after every grant everything both windows admit must have arrived without further input; non-trivial = every case",
	Run:  runHeld,
	Classes: func(c HeldCase) []string {
		out := []string{"kind:" + c.Kind}
		if c.Reverse {
			out = append(out, "server-sends")
		}
		return out
	},
}

func TestHeldBack(t *testing.T) {
	if kit.Race() {
		t.Skip("sequential enumeration")
	}
	propHeld.Enumerate(t, func(yield func(HeldCase) bool) {
		for _, rev := range []bool{false, true} {
			for _, sizes := range [][2]int{{40000, 40000}, {40000, 20000}, {20000, 40000}, {100000, 100000}} {
				for _, prio := range []bool{false, true} {
					if !yield(HeldCase{Kind: "blocks", Reverse: rev, First: sizes[0], Second: sizes[1], Prio: prio}) {
						return
					}
				}
			}
			for _, n := range []int{12, 20} {
				if !yield(HeldCase{Kind: "streams", Reverse: rev, Streams: n, Granted: 10}) {
					return
				}
			}
		}
	})
}
