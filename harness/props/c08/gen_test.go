package c08

import (
	"fmt"

	"pgregory.net/rapid"

	"verifharness/internal/kit"
	"verifharness/props/h2kit"
)

// Frame is one scripted frame (a HEADERS/PUSH_PROMISE frame includes its
// CONTINUATIONs). T: H headers or trailers, D data, R rst_stream, P priority,
// PP push_promise, S settings, G ping, A goaway, T encoder table-size change.
type Frame struct {
	T        string          `json:"t"`
	S        uint32          `json:"s,omitempty"`
	Fields   []h2kit.Field   `json:"f,omitempty"`
	End      bool            `json:"end,omitempty"`
	Prio     *h2kit.Prio     `json:"prio,omitempty"`
	Pad      int             `json:"pad"` // -1: no PADDED flag
	Cuts     []int           `json:"cuts,omitempty"`
	N        int             `json:"n,omitempty"`
	Seed     uint64          `json:"seed,omitempty"`
	Code     uint32          `json:"code,omitempty"`
	Promised uint32          `json:"promised,omitempty"`
	Settings []h2kit.Setting `json:"settings,omitempty"`
	Ping     uint64          `json:"ping,omitempty"`
	Ack      bool            `json:"ack,omitempty"`
	Last     uint32          `json:"last,omitempty"`
	Debug    int             `json:"debug,omitempty"`
	Table    uint32          `json:"table,omitempty"`
	// Bare (H): the header block consists of a dynamic-table-size update only and
	// decodes to no field at all (empty trailers); Fields is empty.
	Bare bool `json:"bare,omitempty"`
	// Rep (D): the frame is written Rep times back to back (a burst of small frames)
	Rep int `json:"rep,omitempty"`
}

func (f Frame) times() int {
	if f.T == "D" && f.Rep > 1 {
		return f.Rep
	}
	return 1
}

// Win is a receiver's flow-control behaviour: the initial stream window it
// announces and how it returns credit (immediate: per DATA frame; deferred:
// nothing until the sender's whole script has reached the relay, then all at
// once; step: as deferred, then increments of Step; early (client only): 1 MiB
// of stream credit right after the HEADERS that open the stream, i.e. before the
// relay has forwarded anything on it toward the client, and nothing per stream later).
//
// Mode settings: never any WINDOW_UPDATE either; once the peer's whole script has reached
// the relay the receiver raises SETTINGS_INITIAL_WINDOW_SIZE to 1 MiB and that is all.
// Mode none: never any WINDOW_UPDATE; the announced window (65 535) covers all a peer
// sends. Rep: the initial SETTINGS frame names INITIAL_WINDOW_SIZE twice, {First, Init};
// the last value is the one in force (RFC 7540 6.5.3), so the receiver acts on Init.
type Win struct {
	Init  int    `json:"init"`
	Mode  string `json:"mode"`
	Step  int    `json:"step,omitempty"`
	Rep   bool   `json:"rep,omitempty"`
	First int    `json:"first,omitempty"`
}

// Case is one relay session.
type Case struct {
	Client []Frame `json:"client"` // frames the client sends, in order
	Server []Frame `json:"server"`
	Pieces []int   `json:"pieces"` // sizes returned by the relay's reads from the client
	CWin   Win     `json:"cwin"`   // how the client receives
	SWin   Win     `json:"swin"`   // how the server receives
	CMax   uint32  `json:"cmax,omitempty"`
	SMax   uint32  `json:"smax,omitempty"`
	// CTable / STable: SETTINGS_HEADER_TABLE_SIZE in the side's initial SETTINGS (0: not
	// sent). A peer that has processed it (it does so before its script when the side's
	// initial window is the default, see earlyAck) may grow its encoder's table up to it.
	CTable uint32 `json:"ctable,omitempty"`
	STable uint32 `json:"stable,omitempty"`
	Procs  int    `json:"procs"`           // stream-processor configuration, see h2kit.Factories
	Debug  bool   `json:"debug,omitempty"` // Config.EnableDebugLogs
	// Chain, if not empty, replaces Procs: one entry per StreamProcessorFactory, in order;
	// 0 a factory returning (nil, nil), 1 pass-through processors for both directions, 2 for
	// client-to-server only (nil for the other), 3 for server-to-client only.
	Chain []int `json:"chain,omitempty"`
}

var (
	namePool  = []string{"x-a", "x-b", "x-c", "accept", "cookie", "authorization", "set-cookie", "user-agent", "content-type", "x-trail", "grpc-status", "grpc-message", "etag", "x-long-header-name-that-is-not-in-any-table"}
	valuePool = []string{"", "1", "2", "0", "abc", "application/grpc", "gzip, deflate", "a=b; c=d", "/a", "/index.html", "OK"}
	pathPool  = []string{"/", "/a", "/b", "/index.html", "/svc/Method"}
)

func genField(t *rapid.T, big bool) h2kit.Field {
	f := genPlainField(t, big)
	// credentials and the like travel as never-indexed literals
	if f.N == "cookie" || f.N == "authorization" || f.N == "set-cookie" {
		f.S = rapid.IntRange(0, 3).Draw(t, "sensitive_named") > 0
	} else {
		f.S = rapid.IntRange(0, 9).Draw(t, "sensitive") == 0
	}
	return f
}

func genPlainField(t *rapid.T, big bool) h2kit.Field {
	n := rapid.SampledFrom(namePool).Draw(t, "name")
	switch rapid.IntRange(0, 9).Draw(t, "vkind") {
	case 0, 1, 2, 3, 4:
		return h2kit.Field{N: n, V: rapid.SampledFrom(valuePool).Draw(t, "value")}
	case 5, 6, 7:
		l := rapid.IntRange(0, 60).Draw(t, "vlen")
		return h2kit.Field{N: n, V: string(kit.Text(rapid.Uint64Range(0, 7).Draw(t, "vseed"), l))}
	case 8:
		// a fresh value: enters the dynamic table, unlikely to be there already
		return h2kit.Field{N: n, V: fmt.Sprintf("v%d", rapid.IntRange(0, 1<<20).Draw(t, "fresh"))}
	default:
		if big {
			l := rapid.SampledFrom([]int{4000, 16384, 20000, 40000}).Draw(t, "biglen")
			return h2kit.Field{N: n, V: string(kit.Text(rapid.Uint64Range(0, 3).Draw(t, "bigseed"), l))}
		}
		return h2kit.Field{N: n, V: rapid.SampledFrom(valuePool).Draw(t, "value2")}
	}
}

func genFields(t *rapid.T, lead []h2kit.Field, big bool) []h2kit.Field {
	out := append([]h2kit.Field(nil), lead...)
	n := rapid.IntRange(0, 6).Draw(t, "nfields")
	for i := 0; i < n; i++ {
		out = append(out, genField(t, big))
	}
	return out
}

func genPrio(t *rapid.T, self uint32) *h2kit.Prio {
	if rapid.IntRange(0, 39).Draw(t, "zeroprio") == 0 {
		return &h2kit.Prio{} // dependency 0, non-exclusive, wire weight 0: a valid priority
	}
	dep := uint32(rapid.IntRange(0, 9).Draw(t, "dep"))
	if dep == self {
		dep = 0
	}
	return &h2kit.Prio{Dep: dep, Excl: rapid.Bool().Draw(t, "excl"), Weight: uint8(rapid.IntRange(0, 255).Draw(t, "weight"))}
}

func genPad(t *rapid.T) int {
	switch rapid.IntRange(0, 7).Draw(t, "padkind") {
	case 0:
		return rapid.SampledFrom([]int{0, 1, 255}).Draw(t, "padedge")
	case 1:
		return rapid.IntRange(0, 255).Draw(t, "pad")
	}
	return -1
}

func genCuts(t *rapid.T) []int {
	if rapid.IntRange(0, 9).Draw(t, "cutkind") >= 4 {
		return nil
	}
	n := rapid.IntRange(1, 3).Draw(t, "ncuts")
	var cuts []int
	for i := 0; i < n; i++ {
		cuts = append(cuts, rapid.IntRange(0, 400).Draw(t, "cut"))
	}
	return cuts
}

// budget is what a sender may still send: left flow-controlled octets in total, at most
// frame octets per frame (16 384 unless the peer announced more and the sender has
// processed that before its script).
type budget struct{ left, frame int }

func frameCap(peer Win, peerMax uint32) int {
	if earlyAck(peer) && peerMax > 16384 {
		if peerMax > 65535 {
			return 65535
		}
		return int(peerMax)
	}
	return 16384
}

func (b *budget) data(t *rapid.T, stream uint32, end bool) Frame {
	f := Frame{T: "D", S: stream, Pad: genPad(t), End: end, Seed: rapid.Uint64Range(0, 1<<16).Draw(t, "dseed")}
	n := rapid.SampledFrom([]int{0, 0, 1, 2, 10, 100, 101, 1000, 5000, 16000, 16384}).Draw(t, "dsize")
	if rapid.Bool().Draw(t, "duniform") {
		n = rapid.IntRange(0, 16384).Draw(t, "dsize_u")
	}
	if b.frame > 16384 && rapid.Bool().Draw(t, "dlarge") {
		// the peer announced a larger maximum frame size and this sender knows it
		n = rapid.SampledFrom([]int{16385, 20000, b.frame, b.frame}).Draw(t, "dsize_l")
	}
	over := 0
	if f.Pad >= 0 {
		over = 1 + f.Pad
	}
	// the whole frame fits the maximum frame size the sender may use and what is
	// left of its (never replenished) 65 535-octet budget
	if n+over > b.frame {
		n = b.frame - over
	}
	if n+over > b.left {
		if over > b.left {
			f.Pad, over = -1, 0
		}
		n = b.left - over
	}
	f.N = n
	b.left -= n + over
	return f
}

// lane is a list of frames whose relative order must be kept.
type lane []Frame

func genHeaders(t *rapid.T, stream uint32, lead []h2kit.Field, end bool, big bool) Frame {
	f := Frame{T: "H", S: stream, Fields: genFields(t, lead, big), End: end, Pad: genPad(t), Cuts: genCuts(t)}
	if rapid.IntRange(0, 9).Draw(t, "hasprio") < 3 {
		f.Prio = genPrio(t, stream)
	}
	return f
}

// body draws what follows an open HEADERS: DATA frames, then END_STREAM on the
// last DATA, trailers, a reset, or nothing (the stream stays open).
func genBody(t *rapid.T, stream uint32, b *budget, big bool) lane {
	var l lane
	nd := rapid.IntRange(0, 3).Draw(t, "ndata")
	ending := rapid.SampledFrom([]string{"data-end", "data-end", "trailers", "trailers", "rst", "open"}).Draw(t, "ending")
	if rapid.IntRange(0, 9).Draw(t, "dburst") == 0 && b.left >= 400 {
		// many small frames: more than the relay's output channel holds become
		// eligible at once when the receiver finally grants credit
		f := Frame{T: "D", S: stream, Pad: -1, N: rapid.SampledFrom([]int{1, 3}).Draw(t, "dburst_size"), Seed: 7,
			Rep: rapid.SampledFrom([]int{40, 80, 120}).Draw(t, "dburst_count")}
		b.left -= f.N * f.Rep
		l = append(l, f)
	}
	for i := 0; i < nd; i++ {
		if rapid.IntRange(0, 9).Draw(t, "midprio") == 0 {
			l = append(l, Frame{T: "P", S: stream, Pad: -1, Prio: genPrio(t, stream)})
		}
		l = append(l, b.data(t, stream, false))
	}
	switch ending {
	case "data-end":
		l = append(l, b.data(t, stream, true))
	case "trailers":
		tr := genHeaders(t, stream, nil, true, big)
		if rapid.IntRange(0, 7).Draw(t, "bare_trailers") == 0 {
			tr.Fields, tr.Bare, tr.Cuts = nil, true, nil
		} else if len(tr.Fields) == 0 || rapid.Bool().Draw(t, "trailer_named") {
			tr.Fields = append(tr.Fields, h2kit.Field{N: "x-trail", V: fmt.Sprintf("t%d", rapid.IntRange(0, 999).Draw(t, "tv"))})
		}
		l = append(l, tr)
	case "rst":
		l = append(l, Frame{T: "R", S: stream, Pad: -1, Code: rapid.SampledFrom([]uint32{0, 1, 2, 5, 7, 8, 11, 0xdeadbeef}).Draw(t, "code")})
	}
	return l
}

func genConnLane(t *rapid.T, client bool, maxStream uint32, canDisablePush bool, maxTable uint32) lane {
	var l lane
	tables := []uint32{0, 64, 200, 4096}
	if maxTable > 4096 {
		// the peer allows a larger dynamic table and this side has processed that
		tables = []uint32{0, 200, 4096, 4097, maxTable / 2, maxTable, maxTable}
		if rapid.Bool().Draw(t, "grow_table_first") {
			l = append(l, Frame{T: "T", Pad: -1, Table: rapid.SampledFrom([]uint32{4097, maxTable / 2, maxTable}).Draw(t, "table0")})
		}
	}
	n := rapid.IntRange(0, 3).Draw(t, "nconn")
	goaway := false
	for i := 0; i < n; i++ {
		switch rapid.SampledFrom([]string{"S", "S", "G", "G", "A", "T"}).Draw(t, "ckind") {
		case "S":
			f := Frame{T: "S", Pad: -1}
			ids := rapid.SliceOfNDistinct(rapid.SampledFrom([]uint16{1, 2, 3, 6, 0x10, 0xff}), 0, 3, func(v uint16) uint16 { return v }).Draw(t, "sids")
			for _, id := range ids {
				var v uint32
				switch id {
				case 1:
					v = rapid.SampledFrom([]uint32{4096, 8192, 65536}).Draw(t, "hts")
				case 2:
					if !client {
						continue // a server must not send ENABLE_PUSH
					}
					v = 1
					if canDisablePush && rapid.Bool().Draw(t, "nopush") {
						v = 0
					}
				default:
					v = rapid.Uint32().Draw(t, "sval")
				}
				f.Settings = append(f.Settings, h2kit.Setting{ID: id, Val: v})
			}
			l = append(l, f)
		case "G":
			l = append(l, Frame{T: "G", Pad: -1, Ping: rapid.Uint64Range(0, 1<<48).Draw(t, "ping"), Ack: rapid.IntRange(0, 3).Draw(t, "pingack") == 0})
		case "A":
			if !goaway {
				goaway = true
				l = append(l, Frame{T: "A", Pad: -1, Last: maxStream, Code: rapid.SampledFrom([]uint32{0, 0, 1, 2, 11}).Draw(t, "gcode"), Debug: rapid.SampledFrom([]int{0, 0, 1, 20, 300}).Draw(t, "gdebug")})
			}
		case "T":
			l = append(l, Frame{T: "T", Pad: -1, Table: rapid.SampledFrom(tables).Draw(t, "table")})
		}
	}
	return l
}

// merge draws an interleaving of the lanes that keeps each lane's order.
func merge(t *rapid.T, lanes []lane) []Frame {
	var out []Frame
	idx := make([]int, len(lanes))
	for {
		var live []int
		for i, l := range lanes {
			if idx[i] < len(l) {
				live = append(live, i)
			}
		}
		if len(live) == 0 {
			return out
		}
		i := live[0]
		if len(live) > 1 {
			i = live[rapid.IntRange(0, len(live)-1).Draw(t, "next")]
		}
		// sometimes run a lane for a while (long uninterrupted stretches matter too)
		run := 1
		if rapid.IntRange(0, 3).Draw(t, "burst") == 0 {
			run = 3
		}
		for ; run > 0 && idx[i] < len(lanes[i]); run-- {
			out = append(out, lanes[i][idx[i]])
			idx[i]++
		}
	}
}

func genWin(t *rapid.T, label string) Win {
	w := Win{
		Init: rapid.SampledFrom([]int{0, 1, 10, 100, 1000, 65535, 65535}).Draw(t, label+"_init"),
		Mode: rapid.SampledFrom([]string{"immediate", "deferred", "deferred", "step"}).Draw(t, label+"_mode"),
	}
	if w.Mode == "step" {
		w.Step = rapid.SampledFrom([]int{1, 7, 100, 1000, 16384}).Draw(t, label+"_step")
	}
	switch rapid.IntRange(0, 7).Draw(t, label+"_special") {
	case 2:
		// room is made by raising SETTINGS_INITIAL_WINDOW_SIZE at the end, by nothing else
		w = Win{Init: rapid.SampledFrom([]int{0, 1, 100, 1000}).Draw(t, label+"_settings_init"), Mode: "settings"}
	case 0:
		// no credit is ever returned: the last of two announced values must be what the
		// relay works with
		w = Win{Init: 65535, Mode: "none", Rep: true, First: rapid.SampledFrom([]int{0, 1, 100, 16384, 49152}).Draw(t, label+"_first")}
	case 1:
		w.Rep, w.First = true, rapid.SampledFrom([]int{0, 100, 65535, 1 << 20}).Draw(t, label+"_first")
	}
	return w
}

func genClientWin(t *rapid.T) Win {
	w := genWin(t, "cwin")
	if rapid.IntRange(0, 4).Draw(t, "cwin_early") == 0 {
		w.Mode, w.Step = "early", 0
		w.Init = rapid.SampledFrom([]int{0, 1, 100, 1000}).Draw(t, "cwin_early_init")
	}
	return w
}

func genPieces(t *rapid.T) []int {
	switch rapid.IntRange(0, 4).Draw(t, "seg") {
	case 0:
		return nil // whatever is available
	case 1:
		return []int{rapid.IntRange(24, 100).Draw(t, "first"), rapid.IntRange(1, 23).Draw(t, "small")}
	case 2:
		return []int{rapid.IntRange(1, 23).Draw(t, "piece1")}
	}
	n := rapid.IntRange(1, 5).Draw(t, "npieces")
	var p []int
	for i := 0; i < n; i++ {
		p = append(p, rapid.SampledFrom([]int{1, 2, 3, 9, 23, 24, 25, 100, 4096, 70000}).Draw(t, "piece"))
	}
	return p
}

func genCase(t *rapid.T) Case {
	c := Case{
		Pieces: genPieces(t),
		CWin:   genClientWin(t),
		SWin:   genWin(t, "swin"),
		Procs:  rapid.IntRange(0, 4).Draw(t, "procs"),
		Debug:  rapid.IntRange(0, 2).Draw(t, "debuglogs") == 0,
		Chain:  rapid.SliceOfN(rapid.IntRange(0, 3), 0, 3).Draw(t, "chain"),
		CMax:   rapid.SampledFrom([]uint32{0, 0, 16384, 32768, 1 << 20}).Draw(t, "cmax"),
		SMax:   rapid.SampledFrom([]uint32{0, 0, 16384, 32768, 1 << 20}).Draw(t, "smax"),
		CTable: rapid.SampledFrom([]uint32{0, 0, 4096, 8192, 65536}).Draw(t, "ctable"),
		STable: rapid.SampledFrom([]uint32{0, 0, 4096, 8192, 65536}).Draw(t, "stable"),
	}
	// a larger table is only usable by a peer that has processed the SETTINGS, which this
	// harness lets it do early only next to a default initial window
	if c.CTable > 4096 && rapid.Bool().Draw(t, "cwin_default") {
		c.CWin.Init = 65535
	}
	if c.STable > 4096 && rapid.Bool().Draw(t, "swin_default") {
		c.SWin.Init = 65535
	}
	k := rapid.IntRange(1, kit.N(4, 8)).Draw(t, "streams")
	big := rapid.IntRange(0, 7).Draw(t, "big") == 0
	cb := &budget{left: 65535, frame: frameCap(c.SWin, c.SMax)}
	sb := &budget{left: 65535, frame: frameCap(c.CWin, c.CMax)}
	var cl, sl []lane
	promised := uint32(0)
	anyPush := false
	for i := 0; i < k; i++ {
		id := uint32(2*i + 1)
		// client side of the stream
		var l lane
		if rapid.IntRange(0, 9).Draw(t, "preprio") == 0 {
			l = append(l, Frame{T: "P", S: id, Pad: -1, Prio: genPrio(t, id)})
		}
		lead := []h2kit.Field{
			{N: ":method", V: rapid.SampledFrom([]string{"GET", "POST"}).Draw(t, "method")},
			{N: ":scheme", V: "https"},
			{N: ":path", V: rapid.SampledFrom(pathPool).Draw(t, "path")},
			{N: ":authority", V: "example.com"},
		}
		h := genHeaders(t, id, lead, rapid.IntRange(0, 9).Draw(t, "hend") < 3, big)
		l = append(l, h)
		if !h.End {
			l = append(l, genBody(t, id, cb, big)...)
		}
		cl = append(cl, l)

		// server side of the stream
		if rapid.IntRange(0, 9).Draw(t, "answered") < 8 {
			var s lane
			if rapid.IntRange(0, 9).Draw(t, "informational") == 0 {
				s = append(s, genHeaders(t, id, []h2kit.Field{{N: ":status", V: "100"}}, false, false))
			}
			if rapid.IntRange(0, 9).Draw(t, "push") < 2 {
				promised += 2
				anyPush = true
				var ppCuts []int
				if rapid.IntRange(0, 9).Draw(t, "ppcont") == 0 {
					ppCuts = genCuts(t)
				}
				pp := Frame{T: "PP", S: id, Promised: promised, Pad: genPad(t), Cuts: ppCuts,
					Fields: genFields(t, []h2kit.Field{{N: ":method", V: "GET"}, {N: ":scheme", V: "https"}, {N: ":path", V: rapid.SampledFrom(pathPool).Draw(t, "ppath")}, {N: ":authority", V: "example.com"}}, false)}
				s = append(s, pp)
				if rapid.Bool().Draw(t, "pushed_response") {
					ph := genHeaders(t, promised, []h2kit.Field{{N: ":status", V: "200"}}, rapid.Bool().Draw(t, "pend"), false)
					s = append(s, ph)
					if !ph.End {
						s = append(s, genBody(t, promised, sb, false)...)
					}
				}
			}
			rh := genHeaders(t, id, []h2kit.Field{{N: ":status", V: rapid.SampledFrom([]string{"200", "204", "404"}).Draw(t, "status")}}, rapid.IntRange(0, 9).Draw(t, "rend") < 2, big)
			s = append(s, rh)
			if !rh.End {
				s = append(s, genBody(t, id, sb, big)...)
			}
			sl = append(sl, s)
		}
	}
	maxStream := uint32(2*k + 1)
	var cGrow, sGrow uint32 // how far the client's / the server's encoder may grow its table
	if earlyAck(c.SWin) {
		cGrow = c.STable
	}
	if earlyAck(c.CWin) {
		sGrow = c.CTable
	}
	cl = append(cl, genConnLane(t, true, maxStream, !anyPush, cGrow))
	sl = append(sl, genConnLane(t, false, maxStream, false, sGrow))
	c.Client = tame(merge(t, cl), c.CTable != 0)
	c.Server = tame(merge(t, sl), c.STable != 0)
	return c
}

// earlyAck: the peer of a receiver with this window behaviour processes and
// acknowledges the receiver's initial SETTINGS before its script (nothing in
// them restricts what it sends); otherwise only afterwards.
func earlyAck(w Win) bool { return w.Init == 65535 }

// tame keeps scripts inside what the pinned x/net HPACK decoder (used by the
// relay and by the harness endpoints alike) accepts: it rejects a second
// dynamic-table-size update at the start of one header block, although RFC 7541
// section 4.2 allows two. So: at most one encoder resize between two header
// blocks, and at most one HEADER_TABLE_SIZE setting per direction (the relay's
// encoder toward the sender of that setting then signals one update).
func tame(frames []Frame, tableAnnounced bool) []Frame {
	grows := false
	for _, f := range frames {
		if f.T == "T" && f.Table > 4096 {
			grows = true
		}
	}
	var out []Frame
	resized, hts := false, tableAnnounced
	for _, f := range frames {
		switch f.T {
		case "T":
			if resized {
				continue
			}
			resized = true
		case "H", "PP":
			if f.Bare && grows {
				// the bare block resets the peer's table to 4096, which would evict
				// entries a larger encoder table still refers to
				f.Bare, f.Fields = false, []h2kit.Field{{N: "x-trail", V: "0"}}
			}
			if !f.Bare {
				// (a bare block is sent as raw octets: a resize the encoder still has to
				// signal stays pending until the next block it encodes itself)
				resized = false
			}
		case "S":
			var keep []h2kit.Setting
			for _, s := range f.Settings {
				if s.ID == 1 {
					if hts {
						continue
					}
					hts = true
				}
				keep = append(keep, s)
			}
			f.Settings = keep
		}
		out = append(out, f)
	}
	return out
}
