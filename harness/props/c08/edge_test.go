package c08

import (
	"fmt"
	"os"
	"testing"
	"time"

	"verifharness/internal/kit"
	"verifharness/props/h2kit"
)

// EdgeCase is one of a few fixed frame sequences around events that generated scripts
// do not time precisely (Kind):
//
// "close-after-send": the server answers a request completely (HEADERS, Frames DATA
// frames, trailers with END_STREAM, optionally GOAWAY) and closes its connection at once.
// Stall: the client is slow to take the first of these frames (its receive path stalls
// until the server has closed, then recovers). Everything the server sent before it
// closed must still reach the client.
//
// "table-size-reduced": the client lowers SETTINGS_HEADER_TABLE_SIZE to Table while the
// server, which has not processed that SETTINGS frame yet, sends a block that refers to
// its dynamic table, as it is entitled to until it acknowledges.
//
// "promise-behind-data": the server sends DATA on stream 1 (held by the client's zero
// stream window), then PUSH_PROMISE on stream 1 promising stream 2, then HEADERS on
// stream 2. A client must have seen the promise before anything arrives on stream 2.
//
// "tail-held": the server sends Frames x 10 000 octets and END_STREAM - more than the
// client's window admits, the relay takes it all and returns the credit -, GOAWAY, and
// ends its side cleanly; the client grants credit afterwards. What the relay accepted must
// still arrive.
//
// "negative-window": the client has consumed part of its window and lowers
// SETTINGS_INITIAL_WINDOW_SIZE so far that the stream window becomes negative; the server
// then ends the stream with a frame that carries no flow-controlled octets (Last:
// trailers, rst, empty-data). Nothing is queued in front of it; it must arrive.
//
// "unknown-frame": an extension frame (type Frames, e.g. 0xc ORIGIN, 0x10
// PRIORITY_UPDATE) from the client or the server (FromServer) in the middle of a
// request; RFC 7540 4.1 has unknown types ignored. The exchange must go on.
type EdgeCase struct {
	Kind       string `json:"kind"`
	Last       string `json:"last,omitempty"`
	FromServer bool   `json:"from_server,omitempty"`
	Frames     int    `json:"frames,omitempty"`
	Stall      bool   `json:"stall,omitempty"`
	GoAway     bool   `json:"goaway,omitempty"`
	Table      int    `json:"table,omitempty"`
}

func runEdgeOnce(c EdgeCase, bound time.Duration) (v kit.Verdict, slow bool) {
	s, err := h2kit.Open(h2kit.Options{Bound: bound})
	if err != nil {
		return kit.Failf("C08/session/setup/relay-did-not-connect", "%v", err), true
	}
	defer s.Teardown(bound)
	cl, sv := s.Client, s.Server
	if c.Kind == "credit-before-server-preface" {
		// The client starts its request at once; the server's SETTINGS come later. Whatever
		// the relay sends the client first must be the server's connection preface (RFC 7540
		// 3.5: a SETTINGS frame), not credit of its own for the DATA it has taken.
		cl.WritePreface()
		cl.WriteSettings()
		cl.WriteHeaders(h2kit.HeadersSpec{Stream: 1, Pad: -1, Fields: neutralReq})
		cl.WriteData(1, kit.Bytes(1, 100), -1, true)
		if !sv.Wait(bound, func(r *h2kit.Rec) bool { return r.DataBytes[1] >= 100 || r.Done }) {
			return kit.Failf("C08/stream-history/c2s/frames-missing", "the request did not reach the server within %v", bound), true
		}
		sv.WriteSettings()
		if !cl.Wait(bound, func(r *h2kit.Rec) bool { return len(r.Settings) >= 1 || r.Done }) {
			return kit.Failf("C08/settings/s2c/contents-differ", "the server's SETTINGS did not reach the client within %v", bound), true
		}
		early := 0
		cl.With(func(r *h2kit.Rec) { early = r.FramesBeforeSettings })
		if os.Getenv("C08_EDGE_DEBUG") != "" {
			cl.With(func(r *h2kit.Rec) {
				fmt.Printf("DEBUG frames=%d wu=%d acks=%d settings=%d early=%d\n", r.Frames, r.WUFrames, r.Acks, len(r.Settings), r.FramesBeforeSettings)
			})
		}
		if early > 0 {
			v.Addf("C08/settings/relay-credit-before-the-servers-preface/first-frame-is-not-settings", "the client sent its request (100 octets of DATA) before the server's SETTINGS had come through: %d frame(s) of the relay's own (WINDOW_UPDATE) reached the client before the SETTINGS frame that must open the server's side of the connection", early)
		}
		return v, false
	}
	if c.Kind == "promise-behind-data" {
		sv.SetAutoAck(false) // the server has not processed the client's zero window yet
	}
	cl.WritePreface()
	if c.Kind == "promise-behind-data" {
		cl.WriteSettings(h2kit.Setting{ID: 4, Val: 0})
	} else {
		cl.WriteSettings()
	}
	sv.WriteSettings()
	wantAcks := 1
	if c.Kind == "promise-behind-data" {
		wantAcks = 0
	}
	if !sv.Wait(bound, func(r *h2kit.Rec) bool { return (r.PrefaceOK && len(r.Settings) >= 1 && r.Acks >= 1) || r.Done }) ||
		!cl.Wait(bound, func(r *h2kit.Rec) bool { return (len(r.Settings) >= 1 && r.Acks >= wantAcks) || r.Done }) {
		return kit.Failf("C08/settings/setup/initial-settings-not-forwarded", "SETTINGS exchange did not complete within %v", bound), true
	}
	done := func(e *h2kit.Endpoint) bool {
		d := false
		e.With(func(r *h2kit.Rec) { d = r.Done })
		return d
	}
	kinds := func(e *h2kit.Endpoint, stream uint32) string {
		out := ""
		e.With(func(r *h2kit.Rec) {
			for _, ev := range r.Streams[stream] {
				out += ev.Kind
				if ev.End {
					out += "."
				}
				out += " "
			}
		})
		return out
	}

	switch c.Kind {
	case "close-after-send":
		cl.WriteHeaders(h2kit.HeadersSpec{Stream: 1, Pad: -1, EndStream: true, Fields: neutralReq})
		if !sv.Wait(bound, func(r *h2kit.Rec) bool { return len(r.Streams[1]) > 0 || r.Done }) {
			return kit.Failf("C08/stream-history/c2s/request-headers-never-arrived", "request HEADERS did not reach the server within %v", bound), true
		}
		if c.Stall {
			s.Duplex.StallRelayWrites()
		}
		trailers := []h2kit.Field{{N: "x-status", V: "done", S: true}}
		sv.WriteHeaders(h2kit.HeadersSpec{Stream: 1, Pad: -1, Fields: neutralResp})
		for i := 0; i < c.Frames; i++ {
			sv.WriteData(1, kit.Bytes(uint64(i), 100), -1, false)
		}
		sv.WriteHeaders(h2kit.HeadersSpec{Stream: 1, Pad: -1, EndStream: true, Fields: trailers})
		if c.GoAway {
			sv.WriteGoAway(1, 0, nil)
		}
		if c.Stall {
			kit.Eventually(bound, func() bool { return s.Duplex.StalledWrites() >= 1 })
		}
		// End of the server's stream right behind the last frame: close_notify and FIN. (The
		// server keeps reading until the relay hangs up; closing the socket outright while
		// the relay is still returning WINDOW_UPDATEs would turn the FIN into a reset, which
		// destroys what the relay has not read yet - no relay could deliver that.)
		s.ServerTLS().CloseWrite()
		if c.Stall {
			time.Sleep(50 * time.Millisecond) // (sets the scene: the relay has read to the end of the server's stream)
			s.Duplex.ResumeRelayWrites()
		}
		complete := func(r *h2kit.Rec) bool {
			evs := r.Streams[1]
			return len(evs) > 0 && evs[len(evs)-1].Kind == "H" && evs[len(evs)-1].End && r.DataBytes[1] >= 100*c.Frames && (!c.GoAway || len(r.GoAways) > 0)
		}
		// either everything arrives, or the relay ends the client connection: nothing can follow then
		cl.Wait(bound, func(r *h2kit.Rec) bool { return complete(r) || r.Done })
		ok := false
		var got int
		var goaways int
		cl.With(func(r *h2kit.Rec) { ok, got, goaways = complete(r), r.DataBytes[1], len(r.GoAways) })
		if !ok {
			shape := "receiver-reads-promptly"
			if c.Stall {
				shape = "receiver-slow"
			}
			if !done(cl) {
				slow = true
			}
			v.Addf("C08/stream-history/sender-closes-right-after-its-last-frame+"+shape+"/frames-missing", "the server sent HEADERS, %d DATA frames, trailers with END_STREAM%s and closed; the client got [%s] with %d of %d octets, %d GOAWAY, and then %s", c.Frames, map[bool]string{true: ", GOAWAY", false: ""}[c.GoAway], kinds(cl, 1), got, 100*c.Frames, goaways, map[bool]string{true: "the end of its connection", false: "nothing for " + bound.String()}[done(cl)])
		}

	case "table-size-reduced":
		dyn := h2kit.Field{N: "x-custom", V: "value-that-enters-the-dynamic-table"}
		cl.WriteHeaders(h2kit.HeadersSpec{Stream: 1, Pad: -1, Fields: neutralReq})
		cl.WriteHeaders(h2kit.HeadersSpec{Stream: 3, Pad: -1, Fields: neutralReq})
		if !sv.Wait(bound, func(r *h2kit.Rec) bool { return (len(r.Streams[1]) > 0 && len(r.Streams[3]) > 0) || r.Done }) {
			return kit.Failf("C08/stream-history/c2s/request-headers-never-arrived", "request HEADERS did not reach the server within %v", bound), true
		}
		first := []h2kit.Field{{N: ":status", V: "200"}, dyn}
		sv.WriteHeaders(h2kit.HeadersSpec{Stream: 1, Pad: -1, Fields: first})
		if !cl.Wait(bound, func(r *h2kit.Rec) bool { return len(r.Streams[1]) > 0 || r.Done }) {
			return kit.Failf("C08/stream-history/s2c/frames-missing", "response HEADERS did not reach the client within %v", bound), true
		}
		sv.SetAutoAck(false)
		cl.WriteSettings(h2kit.Setting{ID: 1, Val: uint32(c.Table)})
		if !sv.Wait(bound, func(r *h2kit.Rec) bool { return len(r.Settings) >= 2 || r.Done }) {
			return kit.Failf("C08/settings/s2c/contents-differ", "the client's second SETTINGS frame did not reach the server within %v", bound), true
		}
		// the frame has arrived but the server has not processed it: its encoder still
		// works with the table it had, and this block is one index octet for x-custom
		second := []h2kit.Field{{N: ":status", V: "204"}, dyn}
		sv.WriteHeaders(h2kit.HeadersSpec{Stream: 3, Pad: -1, EndStream: true, Fields: second})
		cl.Wait(bound, func(r *h2kit.Rec) bool { return len(r.Streams[3]) > 0 || r.Done })
		var ev *h2kit.Event
		cl.With(func(r *h2kit.Rec) {
			if len(r.Streams[3]) > 0 {
				e := r.Streams[3][0]
				ev = &e
			}
		})
		shape := "header-table-size-lowered-before-the-encoder-has-seen-it"
		switch {
		case ev == nil && done(cl):
			v.Addf("C08/session/"+shape+"/relay-session-aborted", "the client lowered SETTINGS_HEADER_TABLE_SIZE to %d; the server, which had not processed that yet, sent a block referring to its dynamic table; the relay ended the session", c.Table)
		case ev == nil:
			v.Addf("C08/stream-history/s2c/frames-missing", "HEADERS of stream 3 did not arrive within %v", bound)
			slow = true
		case ev.DecodeErr != "" || !sameFields(second, ev.Fields):
			v.Addf("C08/header-fields/"+shape+"/receiver-decodes-other-fields", "stream 3: %s %s", ev.DecodeErr, fieldDiff(second, ev.Fields))
		}
		if ev != nil {
			// now the server processes the SETTINGS; its next block signals the smaller table
			sv.AckSettingsAuto()
			third := []h2kit.Field{dyn, {N: "x-end", V: "1"}}
			sv.WriteHeaders(h2kit.HeadersSpec{Stream: 1, Pad: -1, EndStream: true, Fields: third})
			if !cl.Wait(bound, func(r *h2kit.Rec) bool { return len(r.Streams[1]) >= 2 || r.Done }) || len(kinds(cl, 1)) < 4 {
				if done(cl) {
					v.Addf("C08/session/header-table-size-lowered/relay-session-aborted", "the relay ended the session after the server had acknowledged the smaller table")
				} else {
					v.Addf("C08/stream-history/s2c/frames-missing", "trailers of stream 1 did not arrive within %v", bound)
					slow = true
				}
			} else {
				cl.With(func(r *h2kit.Rec) {
					e := r.Streams[1][1]
					if e.DecodeErr != "" || !sameFields(third, e.Fields) {
						v.Addf("C08/header-fields/header-table-size-lowered/receiver-decodes-other-fields", "stream 1 trailers: %s %s", e.DecodeErr, fieldDiff(third, e.Fields))
					}
				})
			}
		}

	case "tail-held":
		cl.WriteHeaders(h2kit.HeadersSpec{Stream: 1, Pad: -1, EndStream: true, Fields: neutralReq})
		if !sv.Wait(bound, func(r *h2kit.Rec) bool { return len(r.Streams[1]) > 0 || r.Done }) {
			return kit.Failf("C08/stream-history/c2s/request-headers-never-arrived", "request HEADERS did not reach the server within %v", bound), true
		}
		total := 10000 * c.Frames
		sv.WriteHeaders(h2kit.HeadersSpec{Stream: 1, Pad: -1, Fields: neutralResp})
		sent := 0
		for i := 0; i < c.Frames; i++ {
			// the server stays inside its windows; the relay refills them as it accepts the data
			need := int64(sent + 10000)
			if !sv.Wait(bound, func(r *h2kit.Rec) bool {
				return r.Done || (65535+int64(r.WU[0]) >= need && 65535+int64(r.WU[1]) >= need)
			}) {
				return kit.Failf("C08/completeness/s2c/sender-starved-of-connection-credit", "the relay did not return credit for %d octets within %v", sent, bound), true
			}
			sv.WriteData(1, kit.Bytes(uint64(i), 10000), -1, i == c.Frames-1)
			sent += 10000
		}
		// all of it has been taken off the server's hands (credit for everything but the
		// last frame, whose stream is finished, has come back)
		sv.Wait(bound, func(r *h2kit.Rec) bool { return int(r.WU[0]) >= total || r.Done })
		sv.WriteGoAway(1, 0, nil)
		s.ServerTLS().CloseWrite()
		time.Sleep(50 * time.Millisecond) // (sets the scene: the relay has read to the end of the server's stream)
		// the client, which has 65 535 octets so far, now makes room
		cl.WriteWindowUpdate(0, 1<<20)
		cl.WriteWindowUpdate(1, 1<<20)
		ended := func(r *h2kit.Rec) bool {
			evs := r.Streams[1]
			return r.DataBytes[1] >= total && len(evs) > 0 && evs[len(evs)-1].End
		}
		cl.Wait(bound, func(r *h2kit.Rec) bool { return ended(r) || r.Done })
		ok, got := false, 0
		cl.With(func(r *h2kit.Rec) { ok, got = ended(r), r.DataBytes[1] })
		if !ok {
			if !done(cl) {
				slow = true
			}
			v.Addf("C08/stream-history/sender-closes-while-data-waits-for-the-receivers-window/frames-missing", "the server sent %d octets and END_STREAM (the relay accepted and credited all of it), GOAWAY, and closed its side; the client, after granting credit, got %d octets [%s] and then %s", total, got, kinds(cl, 1), map[bool]string{true: "the end of its connection", false: "nothing for " + bound.String()}[done(cl)])
		}

	case "negative-window":
		cl.WriteHeaders(h2kit.HeadersSpec{Stream: 1, Pad: -1, EndStream: true, Fields: neutralReq})
		if !sv.Wait(bound, func(r *h2kit.Rec) bool { return len(r.Streams[1]) > 0 || r.Done }) {
			return kit.Failf("C08/stream-history/c2s/request-headers-never-arrived", "request HEADERS did not reach the server within %v", bound), true
		}
		sv.WriteHeaders(h2kit.HeadersSpec{Stream: 1, Pad: -1, Fields: neutralResp})
		sv.WriteData(1, kit.Bytes(1, 10000), -1, false)
		if !cl.Wait(bound, func(r *h2kit.Rec) bool { return r.DataBytes[1] >= 10000 || r.Done }) {
			return kit.Failf("C08/stream-history/s2c/frames-missing", "10 000 octets of DATA did not reach the client within %v", bound), true
		}
		// 55 535 octets of window left; lowering the initial window by 64 535 makes it -9 000
		sv.SetAutoAck(true)
		acks := 0
		cl.With(func(r *h2kit.Rec) { acks = r.Acks })
		cl.WriteSettings(h2kit.Setting{ID: 4, Val: 1000})
		if !cl.Wait(bound, func(r *h2kit.Rec) bool { return r.Acks > acks || r.Done }) {
			return kit.Failf("C08/settings/c2s/ack-count-differs", "the SETTINGS acknowledgement did not come back within %v", bound), true
		}
		switch c.Last {
		case "trailers":
			sv.WriteHeaders(h2kit.HeadersSpec{Stream: 1, Pad: -1, EndStream: true, Fields: []h2kit.Field{{N: "x-status", V: "done", S: true}}})
		case "rst":
			sv.WriteRST(1, 8)
		case "empty-data":
			sv.WriteData(1, nil, -1, true)
		}
		arrived := func(r *h2kit.Rec) bool {
			evs := r.Streams[1]
			if len(evs) == 0 {
				return false
			}
			l := evs[len(evs)-1]
			return (c.Last == "rst" && l.Kind == "R") || (c.Last == "trailers" && l.Kind == "H" && l.End && len(evs) > 2) || (c.Last == "empty-data" && l.Kind == "D" && l.End)
		}
		patience := bound
		if kit.Known("C08/end-stream/zero-size-frame-on-negative-stream-window/frame-held-back") {
			patience = bound / 6 // already an open finding: not waited for at length
		}
		if !cl.Wait(patience, func(r *h2kit.Rec) bool { return arrived(r) || r.Done }) || done(cl) {
			v.Addf("C08/end-stream/zero-size-frame-on-negative-stream-window/frame-held-back", "the client lowered SETTINGS_INITIAL_WINDOW_SIZE so that stream 1's window is -9 000; the server then ended the stream with %s (no flow-controlled octets, nothing queued in front of it); the client got [%s] and nothing more for %v", c.Last, kinds(cl, 1), bound)
			slow = !done(cl)
		}

	case "unknown-frame":
		from, to, dir := cl, sv, "c2s"
		if c.FromServer {
			from, to, dir = sv, cl, "s2c"
		}
		cl.WriteHeaders(h2kit.HeadersSpec{Stream: 1, Pad: -1, Fields: neutralReq})
		if !sv.Wait(bound, func(r *h2kit.Rec) bool { return len(r.Streams[1]) > 0 || r.Done }) {
			return kit.Failf("C08/stream-history/c2s/request-headers-never-arrived", "request HEADERS did not reach the server within %v", bound), true
		}
		sv.WriteHeaders(h2kit.HeadersSpec{Stream: 1, Pad: -1, Fields: neutralResp})
		from.WriteRaw(uint8(c.Frames), 0, 0, []byte("\x00\x13https://example.com"))
		from.WriteRaw(uint8(c.Frames), 0, 1, []byte("u=3"))
		// the exchange goes on in both directions
		cl.WriteData(1, kit.Bytes(1, 500), -1, true)
		sv.WriteData(1, kit.Bytes(2, 700), -1, true)
		okS := sv.Wait(bound, func(r *h2kit.Rec) bool { return r.DataBytes[1] >= 500 || r.Done })
		okC := cl.Wait(bound, func(r *h2kit.Rec) bool { return r.DataBytes[1] >= 700 || r.Done })
		var gotS, gotC, unknown int
		sv.With(func(r *h2kit.Rec) { gotS = r.DataBytes[1] })
		cl.With(func(r *h2kit.Rec) { gotC = r.DataBytes[1] })
		to.With(func(r *h2kit.Rec) { unknown = r.Unknown })
		if !okS || !okC || gotS < 500 || gotC < 700 {
			if done(cl) || done(sv) {
				v.Addf("C08/session/"+dir+"-frame-of-unknown-type/relay-session-aborted", "an extension frame of type 0x%x (connection and stream 1) was sent %s in the middle of a request; the relay ended the session: the server got %d of 500 octets, the client %d of 700", c.Frames, dir, gotS, gotC)
			} else {
				v.Addf("C08/stream-history/"+dir+"-frame-of-unknown-type/frames-missing", "after an extension frame of type 0x%x the server got %d of 500 octets, the client %d of 700 within %v", c.Frames, gotS, gotC, bound)
				slow = true
			}
		} else if unknown > 2 {
			v.Addf("C08/stream-history/"+dir+"-frame-of-unknown-type/frames-invented", "2 extension frames sent, %d arrived", unknown)
		}

	case "promise-behind-data":
		cl.WriteHeaders(h2kit.HeadersSpec{Stream: 1, Pad: -1, EndStream: true, Fields: neutralReq})
		if !sv.Wait(bound, func(r *h2kit.Rec) bool { return len(r.Streams[1]) > 0 || r.Done }) {
			return kit.Failf("C08/stream-history/c2s/request-headers-never-arrived", "request HEADERS did not reach the server within %v", bound), true
		}
		promised := []h2kit.Field{{N: ":method", V: "GET"}, {N: ":scheme", V: "https"}, {N: ":path", V: "/index.html"}}
		sv.WriteHeaders(h2kit.HeadersSpec{Stream: 1, Pad: -1, Fields: neutralResp})
		sv.WriteData(1, kit.Bytes(1, 1000), -1, false) // held by the client's zero window
		sv.WritePushPromise(1, 2, promised, -1, nil)
		sv.WriteHeaders(h2kit.HeadersSpec{Stream: 2, Pad: -1, EndStream: true, Fields: neutralResp})
		sv.WritePing(false, h2kit.MarkerPing(1))
		if !cl.Wait(bound, func(r *h2kit.Rec) bool { return r.HasMarker(1) || r.Done }) {
			return kit.Failf("C08/completeness/s2c/barrier-not-delivered", "the server's barrier PING did not arrive within %v", bound), true
		}
		early := false
		cl.With(func(r *h2kit.Rec) { early = len(r.Streams[2]) > 0 })
		cl.WriteWindowUpdate(1, 1<<20)
		if !cl.Wait(bound, func(r *h2kit.Rec) bool {
			pp := false
			for _, ev := range r.Streams[1] {
				pp = pp || ev.Kind == "PP"
			}
			return (pp && len(r.Streams[2]) > 0) || r.Done
		}) {
			v.Addf("C08/stream-history/s2c/frames-missing", "PUSH_PROMISE and the pushed response did not both arrive within %v: stream 1 [%s] stream 2 [%s]", bound, kinds(cl, 1), kinds(cl, 2))
			slow = true
			break
		}
		var ppSeq, firstPushed int
		cl.With(func(r *h2kit.Rec) {
			for _, ev := range r.Streams[1] {
				if ev.Kind == "PP" {
					ppSeq = ev.Seq
				}
			}
			firstPushed = r.Streams[2][0].Seq
		})
		if early || firstPushed < ppSeq {
			v.Addf("C08/push-promise/promise-queued-behind-window-blocked-data/pushed-stream-frames-arrive-before-the-promise", "the server sent DATA (stream 1, held by the client's window), PUSH_PROMISE (stream 1 -> 2), HEADERS (stream 2); the client got HEADERS on stream 2 (arrival %d) before the PUSH_PROMISE (arrival %d): frames on an idle stream, a connection error for any client", firstPushed, ppSeq)
		}
	}
	return v, slow
}

var edgePatience h2kit.Patience

func runEdge(c EdgeCase) kit.Verdict {
	bound, revalidate := edgePatience.Bound()
	v, slow := runEdgeOnce(c, bound)
	allKnown := len(v) > 0
	for _, f := range v {
		allKnown = allKnown && kit.Known(f.Sig)
	}
	if !slow || allKnown {
		return v
	}
	if !revalidate {
		edgePatience.Spent(bound)
		return v
	}
	v2, slow2 := runEdgeOnce(c, 3*bound)
	if !slow2 {
		kit.Inconclusive("edge-sequences")
	} else if len(v2) > 0 {
		edgePatience.Confirm()
	}
	return v2
}

var propEdge = &kit.Prop[EdgeCase]{
	ID: "C08", Name: "edge-sequences", Journal: true,
	Rule: "ALL of three fixed families: (close-after-send) a complete response of 1..30 DATA frames plus trailers, with or without GOAWAY, after which the server closes at once, the client reading promptly or slowly; (table-size-reduced) the client lowers SETTINGS_HEADER_TABLE_SIZE to 0 / 64 while the server, not having processed it, sends a block that refers to its dynamic table; (promise-behind-data) PUSH_PROMISE queued behind window-blocked DATA of its stream followed by HEADERS of the promised stream; the client must receive every stream history unchanged and never a frame of a pushed stream before its promise; non-trivial = every case",
	Run:  runEdge,
	Classes: func(c EdgeCase) []string {
		out := []string{"kind:" + c.Kind}
		if c.Stall {
			out = append(out, "receiver-slow")
		}
		return out
	},
}

func TestEdgeSequences(t *testing.T) {
	if kit.Race() {
		t.Skip("sequential enumeration")
	}
	propEdge.Enumerate(t, edgeCases)
}

var _ = fmt.Sprint

func edgeCases(yield func(EdgeCase) bool) {
	for _, stall := range []bool{false, true} {
		for _, frames := range []int{1, 5, 14, 30} {
			for _, goaway := range []bool{false, true} {
				if !yield(EdgeCase{Kind: "close-after-send", Frames: frames, Stall: stall, GoAway: goaway}) {
					return
				}
			}
		}
	}
	for _, table := range []int{0, 64} {
		if !yield(EdgeCase{Kind: "table-size-reduced", Table: table}) {
			return
		}
	}
	if !yield(EdgeCase{Kind: "promise-behind-data"}) {
		return
	}
	for _, frames := range []int{7, 10} {
		if !yield(EdgeCase{Kind: "tail-held", Frames: frames}) {
			return
		}
	}
	for _, last := range []string{"trailers", "rst", "empty-data"} {
		if !yield(EdgeCase{Kind: "negative-window", Last: last}) {
			return
		}
	}
	if !yield(EdgeCase{Kind: "credit-before-server-preface"}) {
		return
	}
	for _, typ := range []int{0xc, 0x10} {
		for _, fromServer := range []bool{false, true} {
			if !yield(EdgeCase{Kind: "unknown-frame", Frames: typ, FromServer: fromServer}) {
				return
			}
		}
	}
}

// TestEdgeCollect prints every case's verdict (development aid).
func TestEdgeCollect(t *testing.T) {
	if os.Getenv("C08_EDGE_COLLECT") == "" {
		t.Skip()
	}
	edgeCases(func(c EdgeCase) bool {
		for i := 0; i < 3; i++ {
			v, slow := runEdgeOnce(c, time.Second)
			fmt.Printf("EDGE %+v slow=%v\n", c, slow)
			for _, f := range v {
				fmt.Printf("   %s :: %.300s\n", f.Sig, f.Msg)
			}
		}
		return true
	})
}
